/-
C15, numeric part: `InvNum` (identifier well-formedness, accounting, capacity)
is preserved by every primitive and every transition of the pool model.
-/
import EdbVerif.Lemmas.PoolBasic

namespace EdbVerif.Pool

/-! ### framing: `InvNum` only reads eight fields -/

theorem WF.frame {s s' : State} (h : WF s)
    (h4 : s'.blocks = s.blocks) (h5 : s'.nextUid = s.nextUid) (h6 : s'.nextConn = s.nextConn)
    (h7 : s'.tasks = s.tasks) (h8 : s'.nextTask = s.nextTask) : WF s' := by
  obtain ⟨a, b, c, d, e, f⟩ := h
  exact ⟨by rw [h4]; exact a, by rw [h4, h5]; exact b, by rw [h7]; exact c,
    by rw [h7, h8]; exact d, by rw [h4]; exact e, by rw [h4, h6]; exact f⟩

theorem InvNum.frame {s s' : State} (h : InvNum s)
    (h1 : s'.max = s.max) (h2 : s'.cur = s.cur)
    (h4 : s'.blocks = s.blocks) (h5 : s'.nextUid = s.nextUid) (h6 : s'.nextConn = s.nextConn)
    (h7 : s'.tasks = s.tasks) (h8 : s'.nextTask = s.nextTask) : InvNum s' := by
  refine ⟨h.toWF.frame h4 h5 h6 h7 h8, ?_, ?_⟩
  · have := h.acc; unfold usage at *; rw [h2, h4, h7]; exact this
  · have := h.cap; unfold discByHolder at *; rw [h1, h2, h7]; exact this

theorem InvNum.fail {s : State} (h : InvNum s) (m : String) : InvNum (s.fail m) :=
  h.frame rfl rfl rfl rfl rfl rfl rfl

/-! ### block updates -/

theorem State.find_some {s : State} {u : Nat} {b : Block} (h : s.find u = some b) :
    b ∈ s.blocks ∧ b.uid = u := findB_some h

theorem State.mod_none {s : State} {u : Nat} (f : Block → Block) (h : s.find u = none) :
    s.mod u f = s := by
  unfold State.mod
  rw [modB_of_notin _ _ _ (findB_none h)]

theorem WF.mod {s : State} (h : WF s) (u : Nat) (f : Block → Block) (hf : KeepsUid f)
    (hc : ∀ b ∈ s.blocks, b.uid = u →
      ((f b).conns.map (·.1)).Nodup ∧ ∀ p ∈ (f b).conns, p.1 < s.nextConn) :
    WF (s.mod u f) := by
  obtain ⟨a, b, c, d, e, g⟩ := h
  refine ⟨?_, ?_, c, d, ?_, ?_⟩
  · show ((modB s.blocks u f).map (·.uid)).Nodup
    rw [map_uid_modB _ _ _ hf]; exact a
  · intro x hx
    obtain ⟨b0, hb0, h | ⟨_, h⟩⟩ := mem_modB hx
    · rw [h]; exact b b0 hb0
    · rw [h, hf]; exact b b0 hb0
  · intro x hx
    obtain ⟨b0, hb0, h | ⟨hu, h⟩⟩ := mem_modB hx
    · rw [h]; exact e b0 hb0
    · rw [h]; exact (hc b0 hb0 hu).1
  · intro x hx
    obtain ⟨b0, hb0, h | ⟨hu, h⟩⟩ := mem_modB hx
    · rw [h]; exact g b0 hb0
    · rw [h]; exact (hc b0 hb0 hu).2

/-- `f` does not touch identity, the set of connections or the pending counter -/
def Neutral (f : Block → Block) : Prop :=
  ∀ b, (f b).uid = b.uid ∧ (f b).conns.map (·.1) = b.conns.map (·.1) ∧ (f b).pending = b.pending

theorem Neutral.size {f : Block → Block} (hf : Neutral f) (b : Block) : (f b).size = b.size := by
  have h1 : (f b).conns.length = b.conns.length := by
    have := congrArg List.length (hf b).2.1
    simpa using this
  simp only [Block.size, h1, (hf b).2.2]

theorem map_size_modB (bs : List Block) (u : Nat) (f : Block → Block) (hf : Neutral f) :
    (modB bs u f).map Block.size = bs.map Block.size := by
  unfold modB
  rw [List.map_map]
  apply List.map_congr_left
  intro b _
  by_cases h : b.uid == u
  · simp only [Function.comp, h, ↓reduceIte, hf.size]
  · have hne : ¬ b.uid = u := by simpa using h
    simp [hne]

theorem InvNum.modN {s : State} (h : InvNum s) (u : Nat) (f : Block → Block) (hf : Neutral f) :
    InvNum (s.mod u f) := by
  refine ⟨h.toWF.mod u f (fun b => (hf b).1) ?_, ?_, h.cap⟩
  · intro b hb _
    rw [(hf b).2.1]
    refine ⟨h.cids b hb, ?_⟩
    intro p hp
    have : p.1 ∈ (f b).conns.map (·.1) := List.mem_map_of_mem (f := (·.1)) hp
    rw [(hf b).2.1] at this
    obtain ⟨q, hq, hqp⟩ := List.mem_map.mp this
    rw [← hqp]; exact h.cidsFresh b hb q hq
  · have := h.acc
    unfold usage at *
    show s.cur = sumInt ((modB s.blocks u f).map Block.size) + _
    rw [map_size_modB _ _ _ hf]; exact this

/-- the effect of changing one existing block on the sum of the block sizes -/
theorem sum_size_mod {s : State} (h : WF s) {u : Nat} {b : Block} (hb : s.find u = some b)
    (f : Block → Block) :
    sumInt ((s.mod u f).blocks.map Block.size) =
      sumInt (s.blocks.map Block.size) - b.size + (f b).size :=
  sum_modB s.blocks u f Block.size h.uids b hb

theorem blocks_toEnd_inv {s : State} (h : InvNum s) (u : Nat) :
    InvNum { s with blocks := toEnd s.blocks u } := by
  refine ⟨⟨nodup_uid_toEnd _ _ h.uids, ?_, h.tids, h.tidsFresh, ?_, ?_⟩, ?_, h.cap⟩
  · intro b hb; exact h.uidsFresh b (mem_toEnd.mp hb)
  · intro b hb; exact h.cids b (mem_toEnd.mp hb)
  · intro b hb; exact h.cidsFresh b (mem_toEnd.mp hb)
  · have := h.acc; unfold usage at *
    show s.cur = sumInt ((toEnd s.blocks u).map Block.size) + _
    rw [sum_toEnd]; exact this

theorem blocks_toFront_inv {s : State} (h : InvNum s) (u : Nat) :
    InvNum { s with blocks := toFront s.blocks u } := by
  refine ⟨⟨nodup_uid_toFront _ _ h.uids, ?_, h.tids, h.tidsFresh, ?_, ?_⟩, ?_, h.cap⟩
  · intro b hb; exact h.uidsFresh b (mem_toFront.mp hb)
  · intro b hb; exact h.cids b (mem_toFront.mp hb)
  · intro b hb; exact h.cidsFresh b (mem_toFront.mp hb)
  · have := h.acc; unfold usage at *
    show s.cur = sumInt ((toFront s.blocks u).map Block.size) + _
    rw [sum_toFront]; exact this

/-! ### task updates -/

theorem WF.addTask {s : State} (h : WF s) (t : Task) : WF (s.addTask t) := by
  obtain ⟨a, b, c, d, e, g⟩ := h
  refine ⟨a, b, ?_, ?_, e, g⟩
  · show ((s.tasks ++ [(s.nextTask, t)]).map (·.1)).Nodup
    rw [List.map_append, List.nodup_append]
    refine ⟨c, by simp, ?_⟩
    intro x hx y hy hxy
    simp at hy
    obtain ⟨p, hp, rfl⟩ := List.mem_map.mp hx
    have := d p hp
    omega
  · intro p hp
    show p.1 < s.nextTask + 1
    rcases List.mem_append.mp hp with hp | hp
    · have := d p hp; omega
    · simp at hp; rw [hp]; simp

theorem cnt_addTask (p : Task → Bool) (s : State) (t : Task) :
    cnt p (s.addTask t).tasks = cnt p s.tasks + (if p t then 1 else 0) := by
  show cnt p (s.tasks ++ [(s.nextTask, t)]) = _
  rw [cnt_append, cnt_single]

/-- adding a task that is neither closing nor a holder's discard -/
theorem InvNum.addTask {s : State} (h : InvNum s) (t : Task)
    (h1 : t.closing = false) (h2 : t.byHolder = false) : InvNum (s.addTask t) := by
  refine ⟨h.toWF.addTask t, ?_, ?_⟩
  · have := h.acc; unfold usage at *
    rw [cnt_addTask, h1]; simpa [State.addTask] using this
  · have := h.cap; unfold discByHolder at *
    rw [cnt_addTask, h2]; simpa [State.addTask] using this

theorem WF.dropTask {s : State} (h : WF s) (tid : Nat) : WF (s.dropTask tid) := by
  obtain ⟨a, b, c, d, e, g⟩ := h
  refine ⟨a, b, ?_, ?_, e, g⟩
  · show ((s.tasks.filter (·.1 != tid)).map (·.1)).Nodup
    exact (List.Sublist.map _ List.filter_sublist).nodup c
  · intro p hp; exact d p (List.mem_filter.mp hp).1

theorem WF.setTask {s : State} (h : WF s) (tid : Nat) (t : Task) : WF (s.setTask tid t) := by
  obtain ⟨a, b, c, d, e, g⟩ := h
  refine ⟨a, b, ?_, ?_, e, g⟩
  · show ((s.tasks.map fun p => if p.1 == tid then (tid, t) else p).map (·.1)).Nodup
    rw [map_fst_setTask]; exact c
  · intro p hp
    have hp' : p ∈ s.tasks.map fun p => if p.1 == tid then (tid, t) else p := hp
    obtain ⟨q, hq, rfl⟩ := List.mem_map.mp hp'
    by_cases hk : q.1 == tid
    · simp only [hk, ↓reduceIte]
      have := d q hq
      have e : q.1 = tid := by simpa using hk
      show tid < s.nextTask
      omega
    · simp only [hk, Bool.false_eq_true, ↓reduceIte]; exact d q hq

end EdbVerif.Pool
