/-
C03, part 7: the token printer and the recursive-descent parser are inverse
on well-formed statements / documents.
-/
import EdbVerif.Model.DescribeSpec

namespace EdbVerif.Describe

/-- `t` does not start with token `k` -/
def NoStart (k : Tok) (t : Text) : Prop := ∀ r, t ≠ k :: r

theorem noStart_nil (k : Tok) : NoStart k [] := fun _ h => by cases h
theorem noStart_cons {k k' : Tok} (h : k' ≠ k) (t : Text) : NoStart k (k' :: t) :=
  fun _ hh => by injection hh with h1 _; exact h h1

/-! ### well-formedness of what is printed -/

def RefWF (r : Ref) : Prop := r.mod ≠ some []

def AtomWF : Atom Ref → Prop
  | .sym _ => True
  | .name r => RefWF r
  | .tname r => RefWF r

def FieldsWF (fs : Fields Ref) : Prop := ∀ f ∈ fs, ∀ a ∈ f.2, AtomWF a

def HeadWF (h : Head Ref) : Prop := AtomWF h.name ∧ FieldsWF h.fields

def ItemWF : Item Ref → Prop
  | .enter h => HeadWF h
  | .leave => True

def KidWF (k : Kid Ref) : Prop := HeadWF k.head ∧ (∀ i ∈ k.body, ItemWF i) ∧ Bal 0 k.body

def StmtWF : Stmt → Prop
  | .createModule m => m ≠ []
  | .create _ n fs => RefWF n ∧ FieldsWF fs
  | .alterAdd _ n k => RefWF n ∧ KidWF k

/-! ### identifiers and references -/

theorem parseIdents_one (fuel : Nat) (c : String) (rest : Text) (h : NoStart .dcolon rest) :
    parseIdents (fuel + 1) (.id c :: rest) = some ([c], rest) := by
  cases rest with
  | nil => simp [parseIdents]
  | cons t ts =>
    cases t <;> first | (exact absurd rfl (h ts)) | simp [parseIdents]

theorem printMod_cons2 (c c' : String) (cs : List String) :
    printMod (c :: c' :: cs) = .id c :: .dcolon :: printMod (c' :: cs) := rfl

theorem printMod_length (cs : List String) : cs.length ≤ (printMod cs).length := by
  induction cs with
  | nil => simp [printMod]
  | cons c cs ih =>
    cases cs with
    | nil => simp [printMod]
    | cons c' cs => rw [printMod_cons2]; simp only [List.length_cons] at ih ⊢; omega

theorem printMod_append_single (m : ModName) (n : String) (hne : m ≠ []) :
    printMod (m ++ [n]) = printMod m ++ [.dcolon, .id n] := by
  induction m with
  | nil => exact absurd rfl hne
  | cons c cs ih =>
    cases cs with
    | nil => rfl
    | cons c' cs =>
      rw [List.cons_append, List.cons_append, printMod_cons2, ← List.cons_append, ih (by simp),
        printMod_cons2]
      rfl

theorem parseIdents_printMod (cs : List String) (hne : cs ≠ []) (fuel : Nat) (hf : cs.length ≤ fuel)
    (rest : Text) (h : NoStart .dcolon rest) :
    parseIdents fuel (printMod cs ++ rest) = some (cs, rest) := by
  induction cs generalizing fuel with
  | nil => exact absurd rfl hne
  | cons c cs ih =>
    cases cs with
    | nil =>
      cases fuel with
      | zero => simp at hf
      | succ fuel => exact parseIdents_one fuel c rest h
    | cons c' cs =>
      cases fuel with
      | zero => simp at hf
      | succ fuel =>
        rw [printMod_cons2]
        simp only [List.cons_append, parseIdents]
        rw [ih (by simp) fuel (by simpa using hf)]

theorem printRef_eq (r : Ref) (h : RefWF r) :
    printRef r = printMod ((r.mod.getD []) ++ [r.name]) := by
  obtain ⟨m, n⟩ := r
  cases m with
  | none => rfl
  | some m =>
    cases m with
    | nil => exact absurd rfl h
    | cons c cs =>
      simp only [printRef, Option.getD_some]
      rw [printMod_append_single _ _ (by simp)]

theorem refOfIdents_snoc (r : Ref) (h : RefWF r) :
    refOfIdents ((r.mod.getD []) ++ [r.name]) = some r := by
  obtain ⟨m, n⟩ := r
  cases m with
  | none => rfl
  | some m =>
    cases m with
    | nil => exact absurd rfl h
    | cons c cs =>
      simp only [refOfIdents, Option.getD_some]
      rw [List.getLast?_concat, List.dropLast_concat]
      simp

theorem parseRef_printRef (r : Ref) (h : RefWF r) (rest : Text) (hr : NoStart .dcolon rest) :
    parseRef (printRef r ++ rest) = some (r, rest) := by
  unfold parseRef
  rw [printRef_eq r h, parseIdents_printMod _ (by simp) _ _ rest hr]
  · simp [refOfIdents_snoc r h]
  · have := printMod_length ((r.mod.getD []) ++ [r.name])
    simp only [List.length_append] at this ⊢
    omega

theorem printRef_head (r : Ref) (h : RefWF r) : ∃ c tl, printRef r = .id c :: tl := by
  obtain ⟨m, n⟩ := r
  cases m with
  | none => exact ⟨n, [], rfl⟩
  | some m =>
    cases m with
    | nil => exact absurd rfl h
    | cons c cs =>
      cases cs with
      | nil => exact ⟨c, _, rfl⟩
      | cons c' cs => exact ⟨c, _, rfl⟩

/-! ### atoms -/

def atomStart : Tok → Bool
  | .str _ => true
  | .kw _ => true
  | .id _ => true
  | _ => false

theorem printAtom_start (a : Atom Ref) (h : AtomWF a) :
    ∃ k tl, printAtom a = k :: tl ∧ atomStart k = true := by
  cases a with
  | sym s => exact ⟨.str s, [], rfl, rfl⟩
  | name r =>
    obtain ⟨c, tl, hc⟩ := printRef_head r h
    exact ⟨.id c, tl, hc, rfl⟩
  | tname r => exact ⟨.kw "ref", _, rfl, rfl⟩

theorem noStart_of_atomStart {k k' : Tok} (hk : atomStart k' = true) (hk0 : atomStart k = false)
    (t : Text) : NoStart k (k' :: t) :=
  noStart_cons (by rintro rfl; rw [hk0] at hk; cases hk) t

theorem parseAtom_id (c : String) (tl : Text) :
    parseAtom (.id c :: tl) = (parseRef (.id c :: tl)).map fun (r, rest) => (.name r, rest) := by
  simp [parseAtom]

theorem parseAtom_print (a : Atom Ref) (h : AtomWF a) (rest : Text) (hr : NoStart .dcolon rest) :
    parseAtom (printAtom a ++ rest) = some (a, rest) := by
  cases a with
  | sym s => simp [printAtom, parseAtom]
  | tname r =>
    simp only [printAtom, List.cons_append, parseAtom]
    rw [parseRef_printRef r h rest hr]; rfl
  | name r =>
    obtain ⟨c, tl, hc⟩ := printRef_head r h
    have := parseRef_printRef r h rest hr
    simp only [printAtom]
    rw [hc] at this ⊢
    rw [List.cons_append, parseAtom_id, ← List.cons_append, this]; rfl

theorem parseAtoms_step (fuel : Nat) (t : Text) (h : NoStart .rparen t) :
    parseAtoms (fuel + 1) t =
      match parseAtom t with
      | none => none
      | some (a, rest) =>
        match parseAtoms fuel rest with
        | none => none
        | some (as, rest') => some (a :: as, rest') := by
  rw [parseAtoms]
  · rfl
  · intro rest hh; exact h rest hh

theorem atoms_noStart (k : Tok) (hk : atomStart k = false) (hk' : k ≠ .rparen)
    (as : List (Atom Ref)) (hwf : ∀ a ∈ as, AtomWF a) (rest : Text) :
    NoStart k (as.flatMap printAtom ++ .rparen :: rest) := by
  cases as with
  | nil => exact noStart_cons (Ne.symm hk') _
  | cons a as =>
    obtain ⟨k', tl, hp, hs⟩ := printAtom_start a (hwf a List.mem_cons_self)
    simp only [List.flatMap_cons, hp, List.cons_append]
    exact noStart_of_atomStart hs hk _

theorem parseAtoms_print (as : List (Atom Ref)) (hwf : ∀ a ∈ as, AtomWF a) (fuel : Nat)
    (hf : as.length + 1 ≤ fuel) (rest : Text) :
    parseAtoms fuel (as.flatMap printAtom ++ .rparen :: rest) = some (as, rest) := by
  induction as generalizing fuel with
  | nil =>
    cases fuel with
    | zero => simp at hf
    | succ fuel => simp [parseAtoms]
  | cons a as ih =>
    cases fuel with
    | zero => simp at hf
    | succ fuel =>
      obtain ⟨k', tl, hp, hs⟩ := printAtom_start a (hwf a List.mem_cons_self)
      have hns : NoStart .rparen ((a :: as).flatMap printAtom ++ .rparen :: rest) := by
        simp only [List.flatMap_cons, hp, List.cons_append]
        exact noStart_of_atomStart hs rfl _
      rw [parseAtoms_step fuel _ hns]
      simp only [List.flatMap_cons, List.append_assoc]
      rw [parseAtom_print a (hwf a List.mem_cons_self) _
        (atoms_noStart .dcolon rfl (by simp) as (fun x hx => hwf x (List.mem_cons_of_mem _ hx)) rest)]
      simp only
      rw [ih (fun x hx => hwf x (List.mem_cons_of_mem _ hx)) fuel (by simpa using hf)]

theorem atoms_length (as : List (Atom Ref)) (hwf : ∀ a ∈ as, AtomWF a) :
    as.length ≤ (as.flatMap printAtom).length := by
  induction as with
  | nil => simp
  | cons a as ih =>
    obtain ⟨k', tl, hp, _⟩ := printAtom_start a (hwf a List.mem_cons_self)
    have := ih (fun x hx => hwf x (List.mem_cons_of_mem _ hx))
    simp only [List.flatMap_cons, List.length_append, List.length_cons, hp]
    omega

/-! ### fields -/

theorem parseFields_stop (fuel : Nat) (t : Text) (h : NoStart (.kw "set") t) :
    parseFields (fuel + 1) t = some ([], t) := by
  unfold parseFields
  split
  · next hh => simp at hh
  · next => exact absurd rfl (h _)
  · rfl

theorem printField_length (f : String × List (Atom Ref)) : 1 ≤ (printField f).length := by
  simp [printField]

theorem parseFields_print (fs : Fields Ref) (hwf : FieldsWF fs) (fuel : Nat)
    (hf : fs.length + 1 ≤ fuel) (rest : Text) (hr : NoStart (.kw "set") rest) :
    parseFields fuel (fs.flatMap printField ++ rest) = some (fs, rest) := by
  induction fs generalizing fuel with
  | nil =>
    cases fuel with
    | zero => simp at hf
    | succ fuel => exact parseFields_stop fuel rest hr
  | cons f fs ih =>
    cases fuel with
    | zero => simp at hf
    | succ fuel =>
      have hwf' : FieldsWF fs := fun x hx => hwf x (List.mem_cons_of_mem _ hx)
      have hfa : ∀ a ∈ f.2, AtomWF a := hwf f List.mem_cons_self
      simp only [List.flatMap_cons, printField, List.cons_append, List.append_assoc,
        List.nil_append, parseFields]
      rw [parseAtoms_print f.2 hfa _ _ _]
      · simp only
        rw [ih hwf' fuel (by simpa using hf)]
      · have := atoms_length f.2 hfa
        simp only [List.length_append, List.length_cons]
        omega

theorem fields_length (fs : Fields Ref) : fs.length ≤ (fs.flatMap printField).length := by
  induction fs with
  | nil => simp
  | cons f fs ih =>
    have := printField_length f
    simp only [List.flatMap_cons, List.length_append, List.length_cons]
    omega

/-! ### heads, items, kids -/

theorem parseHead_print (h : Head Ref) (hwf : HeadWF h) (rest : Text)
    (hr : NoStart (.kw "set") rest) :
    parseHead (printHead h ++ rest) = some (h, rest) := by
  simp only [printHead, List.cons_append, List.append_assoc, List.nil_append, parseHead]
  rw [parseAtom_print h.name hwf.1 _ (noStart_cons (by simp) _)]
  simp only
  rw [parseFields_print h.fields hwf.2 _ _ rest hr]
  have := fields_length h.fields
  simp only [List.length_append]
  omega

theorem printHead_start (h : Head Ref) : ∃ tl, printHead h = .kw "create" :: tl :=
  ⟨_, rfl⟩

theorem parseBody_enter (fuel depth : Nat) (t : Text) (h : NoStart .rbrace t) :
    parseBody (fuel + 1) depth t =
      match parseHead t with
      | none => none
      | some (hd, rest) =>
        match parseBody fuel (depth + 1) rest with
        | some (is, rest') => some (.enter hd :: is, rest')
        | none => none := by
  rw [parseBody]
  · rfl
  · intro rest hh; exact h _ hh

theorem items_noStart_set (is : List (Item Ref)) (rest : Text) :
    NoStart (.kw "set") (is.flatMap printItem ++ .rbrace :: .semi :: rest) := by
  cases is with
  | nil => exact noStart_cons (by simp) _
  | cons i is =>
    cases i with
    | enter h => exact noStart_cons (by simp) _
    | leave => exact noStart_cons (by simp) _

theorem parseBody_print (is : List (Item Ref)) (hwf : ∀ i ∈ is, ItemWF i) (d : Nat) (hb : Bal d is)
    (fuel : Nat) (hf : is.length + 1 ≤ fuel) (rest : Text) :
    parseBody fuel d (is.flatMap printItem ++ .rbrace :: .semi :: rest) = some (is, rest) := by
  induction is generalizing fuel d with
  | nil =>
    cases fuel with
    | zero => simp at hf
    | succ fuel =>
      have : d = 0 := hb
      subst this
      simp [parseBody]
  | cons i is ih =>
    cases fuel with
    | zero => simp at hf
    | succ fuel =>
      have hwf' : ∀ x ∈ is, ItemWF x := fun x hx => hwf x (List.mem_cons_of_mem _ hx)
      cases i with
      | leave =>
        cases d with
        | zero => exact absurd hb (by simp [Bal])
        | succ d =>
          simp only [List.flatMap_cons, printItem, List.cons_append, List.nil_append, parseBody]
          rw [ih hwf' d hb fuel (by simpa using hf)]
      | enter h =>
        simp only [List.flatMap_cons, printItem, List.append_assoc]
        rw [parseBody_enter fuel d _ (by
          obtain ⟨tl, htl⟩ := printHead_start h
          rw [htl]; exact noStart_cons (by simp) _)]
        rw [parseHead_print h (hwf _ List.mem_cons_self) _ (items_noStart_set is rest)]
        simp only
        rw [ih hwf' (d + 1) hb fuel (by simpa using hf)]

theorem printItem_length (i : Item Ref) : 1 ≤ (printItem i).length := by
  cases i <;> simp [printItem, printHead]

theorem items_length (is : List (Item Ref)) : is.length ≤ (is.flatMap printItem).length := by
  induction is with
  | nil => simp
  | cons i is ih =>
    have := printItem_length i
    simp only [List.flatMap_cons, List.length_append, List.length_cons]
    omega

theorem parseKid_print (k : Kid Ref) (hwf : KidWF k) (rest : Text) :
    parseKid (printKid k ++ rest) = some (k, rest) := by
  unfold parseKid printKid
  simp only [List.append_assoc, List.cons_append, List.nil_append]
  rw [parseHead_print k.head hwf.1 _ (items_noStart_set k.body rest)]
  simp only
  rw [parseBody_print k.body hwf.2.1 0 hwf.2.2 _ _ rest]
  have := items_length k.body
  simp only [List.length_append, List.length_cons]
  omega

/-! ### statements -/

theorem parseStmt_print (s : Stmt) (hwf : StmtWF s) (rest : Text) :
    parseStmt (printStmt s ++ rest) = some (s, rest) := by
  cases s with
  | createModule m =>
    simp only [printStmt, List.cons_append, List.append_assoc, List.nil_append, parseStmt]
    have hlen := printMod_length m
    rw [parseIdents_printMod m hwf _ _ _ (noStart_cons (by simp) _)]
    · simp only
    · simp only [List.length_append, List.length_cons]
      omega
  | create cls n fs =>
    simp only [printStmt, List.cons_append, List.append_assoc, List.nil_append, parseStmt]
    rw [parseRef_printRef n hwf.1 _ (noStart_cons (by simp) _)]
    simp only
    rw [parseFields_print fs hwf.2 _ _ _ (noStart_cons (by simp) _)]
    have := fields_length fs
    simp only [List.length_append]
    omega
  | alterAdd cls n k =>
    simp only [printStmt, List.cons_append, List.append_assoc, List.nil_append, parseStmt]
    rw [parseRef_printRef n hwf.1 _ (noStart_cons (by simp) _)]
    simp only
    rw [parseKid_print k hwf.2]

theorem printStmt_length (s : Stmt) : 1 ≤ (printStmt s).length := by
  cases s <;> simp [printStmt]

theorem parseStmts_print (ss : List Stmt) (hwf : ∀ s ∈ ss, StmtWF s) (fuel : Nat)
    (hf : ss.length ≤ fuel) : parseStmts fuel (printStmts ss) = some ss := by
  induction ss generalizing fuel with
  | nil => cases fuel <;> simp [printStmts, parseStmts]
  | cons s ss ih =>
    cases fuel with
    | zero => simp at hf
    | succ fuel =>
      have hne : printStmts (s :: ss) ≠ [] := by
        have := printStmt_length s
        intro h
        simp only [printStmts, List.flatMap_cons] at h
        rw [List.append_eq_nil_iff] at h
        rw [h.1] at this; simp at this
      have hstep : parseStmts (fuel + 1) (printStmts (s :: ss)) =
          match parseStmt (printStmts (s :: ss)) with
          | none => none
          | some (s', rest) => (parseStmts fuel rest).map (s' :: ·) := by
        generalize printStmts (s :: ss) = t at hne
        cases t with
        | nil => exact absurd rfl hne
        | cons x xs => rfl
      rw [hstep]
      simp only [printStmts, List.flatMap_cons]
      rw [parseStmt_print s (hwf s List.mem_cons_self)]
      simp only
      have := ih (fun x hx => hwf x (List.mem_cons_of_mem _ hx)) fuel (by simpa using hf)
      simp only [printStmts] at this
      rw [this]; rfl

theorem stmts_length (ss : List Stmt) : ss.length ≤ (printStmts ss).length := by
  induction ss with
  | nil => simp [printStmts]
  | cons s ss ih =>
    have := printStmt_length s
    simp only [printStmts, List.flatMap_cons, List.length_append, List.length_cons] at ih ⊢
    omega

/-- print then parse is the identity on well-formed statement lists -/
theorem parse_print_stmts (ss : List Stmt) (hwf : ∀ s ∈ ss, StmtWF s) :
    parseStmts ((printStmts ss).length + 1) (printStmts ss) = some ss :=
  parseStmts_print ss hwf _ (by have := stmts_length ss; omega)

/-! ### SDL documents -/

def DeclWF (x : SDecl) : Prop := FieldsWF x.fields ∧ ∀ k ∈ x.kids, KidWF k

def BlockWF (b : ModName × List SDecl) : Prop := b.1 ≠ [] ∧ ∀ x ∈ b.2, DeclWF x

theorem printKid_start (k : Kid Ref) : ∃ tl, printKid k = .kw "create" :: tl := ⟨_, rfl⟩

theorem printKid_length (k : Kid Ref) : 1 ≤ (printKid k).length := by
  obtain ⟨tl, h⟩ := printKid_start k; rw [h]; simp

theorem kids_length (ks : List (Kid Ref)) : ks.length ≤ (ks.flatMap printKid).length := by
  induction ks with
  | nil => simp
  | cons k ks ih =>
    have := printKid_length k
    simp only [List.flatMap_cons, List.length_append, List.length_cons]
    omega

theorem parseKids_stop (fuel : Nat) (t : Text) (h : NoStart (.kw "create") t) :
    parseKids (fuel + 1) t = some ([], t) := by
  unfold parseKids
  split
  · next hh => simp at hh
  · next => exact absurd rfl (h _)
  · rfl

theorem parseKids_print (ks : List (Kid Ref)) (hwf : ∀ k ∈ ks, KidWF k) (fuel : Nat)
    (hf : ks.length + 1 ≤ fuel) (rest : Text) (hr : NoStart (.kw "create") rest) :
    parseKids fuel (ks.flatMap printKid ++ rest) = some (ks, rest) := by
  induction ks generalizing fuel with
  | nil =>
    cases fuel with
    | zero => simp at hf
    | succ fuel => exact parseKids_stop fuel rest hr
  | cons k ks ih =>
    cases fuel with
    | zero => simp at hf
    | succ fuel =>
      obtain ⟨tl, htl⟩ := printKid_start k
      have h1 := parseKid_print k (hwf k List.mem_cons_self) (ks.flatMap printKid ++ rest)
      simp only [List.flatMap_cons, List.append_assoc]
      rw [htl] at h1 ⊢
      simp only [List.cons_append, parseKids]
      simp only [List.cons_append] at h1
      rw [h1]
      simp only
      rw [ih (fun x hx => hwf x (List.mem_cons_of_mem _ hx)) fuel (by simpa using hf)]

theorem parseDecls_stop (fuel : Nat) (t : Text) (h : NoStart (.kw "decl") t) :
    parseDecls (fuel + 1) t = some ([], t) := by
  unfold parseDecls
  split
  · next hh => simp at hh
  · next => exact absurd rfl (h _)
  · rfl

theorem printDecl_length (x : SDecl) : 1 ≤ (printDecl x).length := by
  simp [printDecl]

theorem decls_length (ds : List SDecl) : ds.length ≤ (ds.flatMap printDecl).length := by
  induction ds with
  | nil => simp
  | cons x xs ih =>
    have := printDecl_length x
    simp only [List.flatMap_cons, List.length_append, List.length_cons]
    omega

theorem kids_noStart_set (ks : List (Kid Ref)) (rest : Text) :
    NoStart (.kw "set") (ks.flatMap printKid ++ .rbrace :: rest) := by
  cases ks with
  | nil => exact noStart_cons (by simp) _
  | cons k ks => exact noStart_cons (by simp) _

theorem parseDecls_print (ds : List SDecl) (hwf : ∀ x ∈ ds, DeclWF x) (fuel : Nat)
    (hf : ds.length + 1 ≤ fuel) (rest : Text) (hr : NoStart (.kw "decl") rest) :
    parseDecls fuel (ds.flatMap printDecl ++ rest) = some (ds, rest) := by
  induction ds generalizing fuel with
  | nil =>
    cases fuel with
    | zero => simp at hf
    | succ fuel => exact parseDecls_stop fuel rest hr
  | cons x xs ih =>
    cases fuel with
    | zero => simp at hf
    | succ fuel =>
      obtain ⟨hfs, hks⟩ := hwf x List.mem_cons_self
      simp only [List.flatMap_cons, printDecl, List.cons_append, List.append_assoc,
        List.nil_append, parseDecls]
      rw [parseFields_print x.fields hfs _ _ _ (kids_noStart_set x.kids _)]
      · simp only
        rw [parseKids_print x.kids hks _ _ _ (noStart_cons (by simp) _)]
        · simp only
          rw [ih (fun y hy => hwf y (List.mem_cons_of_mem _ hy)) fuel (by simpa using hf)]
        · have := kids_length x.kids
          simp only [List.length_append, List.length_cons]
          omega
      · have := fields_length x.fields
        simp only [List.length_append, List.length_cons]
        omega

theorem printBlock_length (b : ModName × List SDecl) : 1 ≤ (printBlock b).length := by
  simp [printBlock]

theorem parseSDL_print (d : SDLDoc) (hwf : ∀ b ∈ d, BlockWF b) (fuel : Nat) (hf : d.length ≤ fuel) :
    parseSDL fuel (printSDL d) = some d := by
  induction d generalizing fuel with
  | nil => cases fuel <;> simp [printSDL, parseSDL]
  | cons b bs ih =>
    cases fuel with
    | zero => simp at hf
    | succ fuel =>
      obtain ⟨hm, hds⟩ := hwf b List.mem_cons_self
      simp only [printSDL, List.flatMap_cons, printBlock, List.cons_append, List.append_assoc,
        List.nil_append, parseSDL]
      rw [parseIdents_printMod b.1 hm _ _ _ (noStart_cons (by simp) _)]
      · simp only
        rw [parseDecls_print b.2 hds _ _ _ (noStart_cons (by simp) _)]
        · simp only
          have := ih (fun x hx => hwf x (List.mem_cons_of_mem _ hx)) fuel (by simpa using hf)
          simp only [printSDL] at this
          rw [this]; rfl
        · have := decls_length b.2
          simp only [List.length_append, List.length_cons]
          omega
      · have := printMod_length b.1
        simp only [List.length_append, List.length_cons]
        omega

theorem sdl_length (d : SDLDoc) : d.length ≤ (printSDL d).length := by
  induction d with
  | nil => simp [printSDL]
  | cons b bs ih =>
    have := printBlock_length b
    simp only [printSDL, List.flatMap_cons, List.length_append, List.length_cons] at ih ⊢
    omega

theorem parse_print_sdl (d : SDLDoc) (hwf : ∀ b ∈ d, BlockWF b) :
    parseSDL ((printSDL d).length + 1) (printSDL d) = some d :=
  parseSDL_print d hwf _ (by have := sdl_length d; omega)

end EdbVerif.Describe
