/-
C03, part 8: what `describe` prints is well-formed text, and the end-to-end
theorems (tokens → statements → replay).
-/
import EdbVerif.Lemmas.DescribeTokens
import EdbVerif.Lemmas.DescribeSDL

namespace EdbVerif.Describe

theorem refWF_toRef (q : QName) (h : q.mod ≠ []) : RefWF q.toRef := by
  intro hh
  simp only [QName.toRef, Option.some.injEq] at hh
  exact h hh

theorem atomWF_map (a : Atom QName) (h : ∀ q ∈ atomNames [a], q.mod ≠ []) :
    AtomWF (a.map QName.toRef) := by
  cases a with
  | sym s => trivial
  | name n => exact refWF_toRef n (h n (by simp [atomNames]))
  | tname n => exact refWF_toRef n (h n (by simp [atomNames]))

theorem fieldsWF_map (fs : Fields QName) (h : ∀ q ∈ fieldsNames fs, q.mod ≠ []) :
    FieldsWF (fs.map (fieldMap QName.toRef)) := by
  intro f hf a ha
  obtain ⟨x, hx, rfl⟩ := List.mem_map.1 hf
  simp only [fieldMap] at ha
  obtain ⟨a', ha', rfl⟩ := List.mem_map.1 ha
  exact atomWF_map a' (fun q hq => h q ((mem_fieldsNames fs q).2
    ⟨x, hx, mem_atomNames_of_mem a' x.2 q ha' hq⟩))

theorem headWF_map (h : Head QName) (hq : ∀ q ∈ h.names, q.mod ≠ []) :
    HeadWF (h.map QName.toRef) :=
  ⟨atomWF_map h.name (fun q hq' => hq q (by simp [Head.names, hq'])),
   fieldsWF_map h.fields (fun q hq' => hq q (by simp [Head.names, hq']))⟩

theorem bal_map {ν μ : Type} (f : ν → μ) (d : Nat) (is : List (Item ν)) (h : Bal d is) :
    Bal d (is.map (Item.map f)) := by
  induction is generalizing d with
  | nil => exact h
  | cons i is ih =>
    cases i with
    | enter hd => exact ih (d + 1) h
    | leave =>
      cases d with
      | zero => exact absurd h (by simp [Bal])
      | succ d => exact ih d h

theorem kidWF_map (k : Kid QName) (hq : ∀ q ∈ k.names, q.mod ≠ []) (hb : Bal 0 k.body) :
    KidWF (k.map QName.toRef) := by
  refine ⟨headWF_map k.head (fun q hq' => hq q (by simp [Kid.names, hq'])), ?_,
    bal_map QName.toRef 0 k.body hb⟩
  intro i hi
  simp only [Kid.map] at hi
  obtain ⟨i', hi', rfl⟩ := List.mem_map.1 hi
  cases i' with
  | leave => trivial
  | enter hd =>
    exact headWF_map hd (fun q hq' => hq q (by
      simp only [Kid.names, List.mem_append, List.mem_flatMap]
      exact Or.inr ⟨.enter hd, hi', by simpa [Item.names] using hq'⟩))

theorem shellStmt_wf (tbl : FieldTable) (std : Env) (S : Schema) (hv : Valid tbl std S)
    (o : Top QName) (ho : o ∈ S.objs) : StmtWF (shellStmt tbl o) := by
  unfold shellStmt
  rw [filterFields_covered tbl o.cls o.fields (hv.covered o ho).1]
  exact ⟨refWF_toRef o.name (hv.mods_real o.name (mem_mentioned_name ho)).1,
    fieldsWF_map o.fields (fun q hq => (hv.mods_real q (mem_mentioned_shell ho hq)).1)⟩

theorem kidStmts_wf (tbl : FieldTable) (std : Env) (S : Schema) (hv : Valid tbl std S)
    (o : Top QName) (ho : o ∈ S.objs) : ∀ s ∈ kidStmts tbl o, StmtWF s := by
  intro s hs
  unfold kidStmts at hs
  obtain ⟨k, hk, rfl⟩ := List.mem_map.1 hs
  rw [Kid.printed_covered tbl k ((hv.covered o ho).2 k hk)]
  exact ⟨refWF_toRef o.name (hv.mods_real o.name (mem_mentioned_name ho)).1,
    kidWF_map k (fun q hq => (hv.mods_real q (mem_mentioned_kid ho hk hq)).1) (hv.balanced o ho k hk)⟩

theorem describeStmts_wf (tbl : FieldTable) (std : Env) (S : Schema) (hv : Valid tbl std S)
    (ss : List Stmt) (h : describeStmts tbl S = .ok ss) : ∀ s ∈ ss, StmtWF s := by
  obtain ⟨l, hsort, hperm, _⟩ := sortShells_spec S hv.acyclic
  simp only [describeStmts, hsort, Except.ok.injEq] at h
  subst h
  intro s hs
  rcases List.mem_append.1 hs with hs | hs
  · rcases List.mem_append.1 hs with hs | hs
    · obtain ⟨m, hm, rfl⟩ := List.mem_map.1 hs
      exact hv.mods_ne m ((sortMods_perm _).mem_iff.1 hm)
    · obtain ⟨o, ho, rfl⟩ := List.mem_map.1 hs
      exact shellStmt_wf tbl std S hv o (hperm.mem_iff.1 ho)
  · obtain ⟨o, ho, hs'⟩ := List.mem_flatMap.1 hs
    exact kidStmts_wf tbl std S hv o (hperm.mem_iff.1 ho) s hs'

/-- DDL, end to end -/
theorem ddl_roundtrip (tbl : FieldTable) (std : Env) (c : Ctx) (S : Schema)
    (hv : Valid tbl std S) (hs : CtxSafe c S) :
    ∃ t S', describeDDL tbl S = .ok t ∧ loadDDL std t c = .ok S' ∧ S'.Equiv S := by
  obtain ⟨ss, S', hd, hx, he⟩ := describe_exec tbl std c S hv hs
  refine ⟨printStmts ss, S', by simp only [describeDDL, hd], ?_, he⟩
  unfold loadDDL
  rw [parse_print_stmts ss (describeStmts_wf tbl std S hv ss hd)]
  exact hx

theorem describeSDLDoc_wf (tbl : FieldTable) (std : Env) (S : Schema) (hv : Valid tbl std S) :
    ∀ b ∈ describeSDLDoc tbl S, BlockWF b := by
  intro b hb
  unfold describeSDLDoc at hb
  obtain ⟨m, hm, rfl⟩ := List.mem_map.1 hb
  refine ⟨hv.mods_ne m hm, ?_⟩
  intro x hx
  obtain ⟨o, ho, rfl⟩ := List.mem_map.1 hx
  have hoS : o ∈ S.objs := (List.mem_filter.1 ho).1
  unfold declOf
  rw [filterFields_covered tbl o.cls o.fields (hv.covered o hoS).1]
  refine ⟨fieldsWF_map o.fields (fun q hq => (hv.mods_real q (mem_mentioned_shell hoS hq)).1), ?_⟩
  intro k hk
  obtain ⟨k', hk', rfl⟩ := List.mem_map.1 hk
  rw [Kid.printed_covered tbl k' ((hv.covered o hoS).2 k' hk')]
  exact kidWF_map k' (fun q hq => (hv.mods_real q (mem_mentioned_kid hoS hk' hq)).1)
    (hv.balanced o hoS k' hk')

/-- SDL, end to end -/
theorem sdl_roundtrip (tbl : FieldTable) (std : Env) (c : Ctx) (S : Schema)
    (hv : Valid tbl std S) (hs : CtxSafe c S) (hdef : defaultMod ∈ S.modules) :
    ∃ S', loadSDL tbl std (describeSDL tbl S) c = .ok S' ∧ S'.Equiv S := by
  obtain ⟨S', hm, he⟩ := describe_migrateSDL tbl std c S hv hs hdef
  refine ⟨S', ?_, he⟩
  unfold loadSDL describeSDL
  rw [parse_print_sdl _ (describeSDLDoc_wf tbl std S hv)]
  exact hm

end EdbVerif.Describe
