/-
C11: the proofs.  `buildWith` does not depend on the order of the document
(from C20 + `linear_extensions_equal`), cycle verdict, the concrete algebra.
-/
import EdbVerif.Lemmas.SdlPerm
import EdbVerif.Lemmas.SdlLinExt
import EdbVerif.Lemmas.Topo

namespace EdbVerif.Sdl
open EdbVerif.Topo

/-! ### the graph handed to `sortEx` versus the document-level relations -/

theorem mem_ins {x y : Nat} : ∀ {l : List Nat}, y ∈ ins x l ↔ y = x ∨ y ∈ l
  | [] => by simp [ins]
  | z :: zs => by
    unfold ins
    split
    · simp
    · simp only [List.mem_cons, @mem_ins x y zs]
      constructor
      · rintro (h | h | h) <;> simp [h]
      · rintro (h | h | h) <;> simp [h]

theorem mem_isort {y : Nat} : ∀ {l : List Nat}, y ∈ isort l ↔ y ∈ l
  | [] => by simp [isort]
  | x :: xs => by
    have ih := @mem_isort y xs
    unfold isort at ih ⊢
    simp only [List.foldr_cons, mem_ins, ih, List.mem_cons]

theorem mem_norm {y : Nat} {l : List Nat} : y ∈ norm l ↔ y ∈ l := by
  simp only [norm, mem_isort, mem_dedup]

theorem graph_keys (d : Doc) : (graph d).keys = names d := by
  simp [graph, Graph.keys, names, entry, List.map_map, Function.comp_def]

theorem graph_wf {d : Doc} (hn : (names d).Nodup) : WF (graph d) := by
  unfold WF; rw [graph_keys]; exact hn

theorem mem_graph {d : Doc} {e : Entry} :
    e ∈ graph d ↔ ∃ it ∈ collect d, e = entry (collect d) it := by
  simp only [graph, List.mem_map]
  constructor
  · rintro ⟨it, h, rfl⟩; exact ⟨it, h, rfl⟩
  · rintro ⟨it, h, rfl⟩; exact ⟨it, h, rfl⟩

theorem hard_graph_iff (d : Doc) (a b : Nat) : Hard (graph d) a b ↔ DepHard d a b := by
  unfold Hard DepHard
  rw [graph_keys]
  constructor
  · rintro ⟨e, he, hk, hb, hbk⟩
    obtain ⟨it, hit, rfl⟩ := mem_graph.mp he
    refine ⟨it, hit, hk, ?_, hbk⟩
    rcases hb with hb | hb
    · simp [entry] at hb
    · exact mem_norm.mp hb
  · rintro ⟨it, hit, hk, hb, hbk⟩
    exact ⟨entry (collect d) it, mem_graph.mpr ⟨it, hit, rfl⟩, hk, Or.inr (mem_norm.mpr hb), hbk⟩

theorem ctrl_graph_iff (d : Doc) (a b : Nat) : Ctrl (graph d) a b ↔ DepCtrl d a b := by
  unfold Ctrl DepCtrl
  rw [graph_keys]
  constructor
  · rintro ⟨e, he, hk, hb, hbk⟩
    obtain ⟨it, hit, rfl⟩ := mem_graph.mp he
    exact ⟨it, hit, hk, hb, hbk⟩
  · rintro ⟨it, hit, hk, hb, hbk⟩
    exact ⟨entry (collect d) it, mem_graph.mpr ⟨it, hit, rfl⟩, hk, hb, hbk⟩

theorem weak_graph_iff (d : Doc) (a b : Nat) : Weak (graph d) a b ↔ DepWeak d a b := by
  unfold Weak DepWeak
  rw [graph_keys]
  constructor
  · rintro ⟨e, he, hk, hb, hbk⟩
    obtain ⟨it, hit, rfl⟩ := mem_graph.mp he
    exact ⟨it, hit, hk, mem_norm.mp hb, hbk⟩
  · rintro ⟨it, hit, hk, hb, hbk⟩
    exact ⟨entry (collect d) it, mem_graph.mpr ⟨it, hit, rfl⟩, hk, mem_norm.mpr hb, hbk⟩

/-- graph-level "some reference is unresolved" -/
def DanglingG (g : Graph) : Prop :=
  ∃ e ∈ g, ∃ x ∈ e.weak ++ e.merge ++ e.deps ++ e.ctrl, x ∉ g.keys

theorem dangling_graph_iff (d : Doc) : DanglingG (graph d) ↔ Dangling d := by
  unfold DanglingG Dangling
  rw [graph_keys]
  constructor
  · rintro ⟨e, he, x, hx, hxk⟩
    obtain ⟨it, hit, rfl⟩ := mem_graph.mp he
    refine ⟨it, hit, x, ?_, hxk⟩
    simp only [entry, List.append_nil, List.mem_append, mem_norm] at hx ⊢
    exact hx
  · rintro ⟨it, hit, x, hx, hxk⟩
    refine ⟨entry (collect d) it, mem_graph.mpr ⟨it, hit, rfl⟩, x, ?_, hxk⟩
    simp only [entry, List.append_nil, List.mem_append, mem_norm] at hx ⊢
    exact hx

theorem resolved_iff (g : Graph) : Resolved g false ↔ ¬ DanglingG g := by
  unfold Resolved DanglingG
  rw [← firstUnresolved_isSome_iff]
  cases firstUnresolved g <;> simp

/-! ### which of the three outcomes `sortEx` returns -/

abbrev HC (d : Doc) : Nat → Nat → Prop := fun a b => DepHard d a b ∨ DepCtrl d a b

theorem cyclic_graph_iff (d : Doc) :
    Cyclic (fun a b => Hard (graph d) a b ∨ Ctrl (graph d) a b) ↔ Cyclic (HC d) := by
  unfold Cyclic
  have : ∀ a b, (Hard (graph d) a b ∨ Ctrl (graph d) a b) ↔ HC d a b := fun a b => by
    simp only [HC, hard_graph_iff, ctrl_graph_iff]
  constructor
  · rintro ⟨a, h⟩; exact ⟨a, (transGen_congr this a a).mp h⟩
  · rintro ⟨a, h⟩; exact ⟨a, (transGen_congr this a a).mpr h⟩

theorem sort_unres_iff (d : Doc) :
    (∃ x i, sortEx (graph d) false = .unresolved x i) ↔ Dangling d := by
  rw [sortEx_unres_iff, ← dangling_graph_iff]
  simp [DanglingG]

theorem sort_cycle_iff (d : Doc) (hn : (names d).Nodup) (hd : ¬ Dangling d) :
    (∃ i p, sortEx (graph d) false = .cycle i p) ↔ Cyclic (HC d) := by
  rw [sortEx_cycle_iff (graph d) false (graph_wf hn)
    ((resolved_iff _).mpr (mt (dangling_graph_iff d).mp hd)), cyclic_graph_iff]

theorem sort_ok_of (d : Doc) (hn : (names d).Nodup) (hd : ¬ Dangling d) (hc : ¬ Cyclic (HC d)) :
    ∃ o, sortEx (graph d) false = .ok o := by
  rcases h : sortEx (graph d) false with o | ⟨i, p⟩ | ⟨x, i⟩
  · exact ⟨o, rfl⟩
  · exact absurd ((sort_cycle_iff d hn hd).mp ⟨i, p, h⟩) hc
  · exact absurd ((sort_unres_iff d).mp ⟨x, i, h⟩) hd

theorem sort_ok_spec (d : Doc) (hn : (names d).Nodup) {o : List Nat}
    (h : sortEx (graph d) false = .ok o) :
    o.Perm (names d) ∧ ∀ a b, DepHard d a b → o.idxOf b < o.idxOf a := by
  refine ⟨?_, fun a b hab => ?_⟩
  · have := sortEx_perm (graph d) false o (graph_wf hn) h
    rwa [graph_keys] at this
  · exact sortEx_hard (graph d) false o (graph_wf hn) h a b ((hard_graph_iff d a b).mpr hab)

/-! ### looking declarations up by name -/

theorem find_some {its : List Item} {k : Nat} {it : Item} (h : find its k = some it) :
    it ∈ its ∧ it.name = k := by
  unfold find at h
  exact ⟨List.mem_of_find?_eq_some h, by simpa using List.find?_some h⟩

theorem find_of_mem : ∀ {its : List Item}, (its.map (·.name)).Nodup → ∀ {it : Item}, it ∈ its →
    find its it.name = some it
  | [], _, _, h => by cases h
  | x :: xs, hn, it, h => by
    have hn' : x.name ∉ xs.map (·.name) ∧ (xs.map (·.name)).Nodup := by
      rw [List.map_cons] at hn
      exact List.nodup_cons.mp hn
    unfold find
    by_cases hx : x.name = it.name
    · rcases List.mem_cons.mp h with rfl | h'
      · simp
      · exact absurd (hx ▸ List.mem_map_of_mem (f := (·.name)) h') hn'.1
    · have h' : it ∈ xs := by
        rcases List.mem_cons.mp h with rfl | h'
        · exact absurd rfl hx
        · exact h'
      rw [List.find?_cons_of_neg (by simpa using hx)]
      exact find_of_mem hn'.2 h'

theorem find_none {its : List Item} {k : Nat} (h : find its k = none) : ∀ it ∈ its, it.name ≠ k := by
  unfold find at h
  intro it hit e
  have := List.find?_eq_none.mp h it hit
  simp [e] at this

theorem find_same {a b : List Item} (h : Same a b) (_hn : (a.map (·.name)).Nodup)
    (hn' : (b.map (·.name)).Nodup) (k : Nat) : find a k = find b k := by
  rcases ha : find a k with _ | it
  · rcases hb : find b k with _ | it'
    · rfl
    · obtain ⟨hm, hk⟩ := find_some hb
      exact absurd hk (find_none ha it' ((h.mem it').mpr hm))
  · obtain ⟨hm, hk⟩ := find_some ha
    rw [← hk]
    exact (find_of_mem hn' ((h.mem it).mp hm)).symm

/-! ### the main theorem -/

/-- `a` (a name) needs `b` in order to be applied -/
def Needs (its : List Item) (a b : Nat) : Prop := ∃ ia, find its a = some ia ∧ b ∈ ia.req

theorem idxOf_of_transGen {R : Nat → Nat → Prop} {o : List Nat}
    (q : ∀ a b, R a b → o.idxOf b < o.idxOf a) {a b : Nat} (h : Relation.TransGen R a b) :
    o.idxOf b < o.idxOf a := by
  induction h with
  | single h => exact q _ _ h
  | tail _ h ih => exact Nat.lt_trans (q _ _ h) ih

theorem needs_transGen {d : Doc} (hv : Complete d) {a b : Nat} (h : Needs (collect d) a b) :
    Relation.TransGen (DepHard d) a b := by
  obtain ⟨ia, hf, hb⟩ := h
  obtain ⟨hm, hk⟩ := find_some hf
  exact hk ▸ hv ia hm b hb

theorem step_commute {σ : Type} (A : Algebra σ) (hA : A.Commutes) (its : List Item) (a b : Nat)
    (hab : a ≠ b) (h₁ : ¬ Needs its a b) (h₂ : ¬ Needs its b a) :
    CommuteAt (fun s k => (find its k).bind (A.apply s)) a b := by
  intro s
  show ((find its a).bind (A.apply s)).bind (fun s' => (find its b).bind (A.apply s'))
     = ((find its b).bind (A.apply s)).bind (fun s' => (find its a).bind (A.apply s'))
  rcases ha : find its a with _ | ia
  · cases (find its b).bind (A.apply s) <;> simp
  · rcases hb : find its b with _ | ib
    · cases A.apply s ia <;> simp
    · simp only [Option.bind_some]
      have hna := (find_some ha).2
      have hnb := (find_some hb).2
      apply hA s ia ib
      refine ⟨by rw [hna, hnb]; exact hab, ?_, ?_⟩
      · intro hr; exact h₁ ⟨ia, ha, hnb ▸ hr⟩
      · intro hr; exact h₂ ⟨ib, hb, hna ▸ hr⟩

theorem applyAll_eq {σ : Type} (A : Algebra σ) (hA : A.Commutes) {d₁ d₂ : Doc} (h : d₁.Perm d₂)
    (hn : (names d₁).Nodup) (hv : Complete d₁) {o₁ o₂ : List Nat}
    (p₁ : o₁.Perm (names d₁)) (q₁ : ∀ a b, DepHard d₁ a b → o₁.idxOf b < o₁.idxOf a)
    (p₂ : o₂.Perm (names d₂)) (q₂ : ∀ a b, DepHard d₂ a b → o₂.idxOf b < o₂.idxOf a) :
    applyAll A (collect d₁) A.empty o₁ = applyAll A (collect d₂) A.empty o₂ := by
  have hn₂ : (names d₂).Nodup := (names_perm h).nodup_iff.mp hn
  have hf : (fun (s : σ) k => (find (collect d₂) k).bind (A.apply s))
      = fun s k => (find (collect d₁) k).bind (A.apply s) := by
    funext s k
    rw [find_same (collect_same h) hn hn₂ k]
  unfold applyAll
  rw [hf]
  have hno : o₁.Nodup := p₁.nodup_iff.mpr hn
  have hno₂ : o₂.Nodup := p₂.nodup_iff.mpr hn₂
  have q₂' : ∀ a b, DepHard d₁ a b → o₂.idxOf b < o₂.idxOf a :=
    fun a b hab => q₂ a b ((depHard_perm h a b).mp hab)
  exact linear_extensions_equal _ (Needs (collect d₁))
    (fun a b hab h₁ h₂ => step_commute A hA (collect d₁) a b hab h₁ h₂)
    (p₁.trans ((names_perm h).trans p₂.symm)) hno
    (pairwise_of_idxOf _ o₁ hno fun a b _ _ hr => idxOf_of_transGen q₁ (needs_transGen hv hr))
    (pairwise_of_idxOf _ o₂ hno₂ fun a b _ _ hr => idxOf_of_transGen q₂' (needs_transGen hv hr))
    A.empty

/-- **Order independence**, for every schema algebra in which independent
    declarations commute. -/
theorem buildWith_perm {σ : Type} (A : Algebra σ) (hA : A.Commutes) {d₁ d₂ : Doc}
    (h : d₁.Perm d₂) (hv : Complete d₁) : buildWith A d₁ = buildWith A d₂ := by
  have hnp := names_perm h
  unfold buildWith
  by_cases hn : (names d₁).Nodup
  · have hn₂ : (names d₂).Nodup := hnp.nodup_iff.mp hn
    rw [if_pos hn, if_pos hn₂]
    by_cases hd : Dangling d₁
    · obtain ⟨x, i, e₁⟩ := (sort_unres_iff d₁).mpr hd
      obtain ⟨x', i', e₂⟩ := (sort_unres_iff d₂).mpr ((dangling_perm h).mp hd)
      rw [e₁, e₂]
    · have hd₂ : ¬ Dangling d₂ := mt (dangling_perm h).mpr hd
      have hcc : Cyclic (HC d₁) ↔ Cyclic (HC d₂) := by
        unfold Cyclic
        have : ∀ a b, HC d₁ a b ↔ HC d₂ a b := fun a b => by
          simp only [HC, depHard_perm h, depCtrl_perm h]
        constructor
        · rintro ⟨a, t⟩; exact ⟨a, (transGen_congr this a a).mp t⟩
        · rintro ⟨a, t⟩; exact ⟨a, (transGen_congr this a a).mpr t⟩
      by_cases hc : Cyclic (HC d₁)
      · obtain ⟨i, p, e₁⟩ := (sort_cycle_iff d₁ hn hd).mpr hc
        obtain ⟨i', p', e₂⟩ := (sort_cycle_iff d₂ hn₂ hd₂).mpr (hcc.mp hc)
        rw [e₁, e₂]
      · obtain ⟨o₁, e₁⟩ := sort_ok_of d₁ hn hd hc
        obtain ⟨o₂, e₂⟩ := sort_ok_of d₂ hn₂ hd₂ (mt hcc.mpr hc)
        rw [e₁, e₂]
        obtain ⟨p₁, q₁⟩ := sort_ok_spec d₁ hn e₁
        obtain ⟨p₂, q₂⟩ := sort_ok_spec d₂ hn₂ e₂
        simp only
        rw [applyAll_eq A hA h hn hv p₁ q₁ p₂ q₂]
  · rw [if_neg hn, if_neg (mt hnp.nodup_iff.mpr hn)]

end EdbVerif.Sdl
