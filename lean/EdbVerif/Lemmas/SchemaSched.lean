/-
The scheduling theorem: a set of create / alter / delete commands that
describes the difference of two valid schemas (`Sched`), applied in ANY order
that respects the dependency relation `needs`, succeeds and ends in the target.
-/
import EdbVerif.Lemmas.SchemaApply

namespace EdbVerif.Schema

def IsCreated (cmds : List Cmd) (k : Key) : Prop := ∃ x, Cmd.create x ∈ cmds ∧ x.key = k
def IsAltered (cmds : List Cmd) (k : Key) : Prop := ∃ d rs, Cmd.alter k.1 k.2 d rs ∈ cmds
def IsDeleted (cmds : List Cmd) (k : Key) : Prop := Cmd.delete k.1 k.2 ∈ cmds

/-- `cmds` is a correct description of the difference between `A'` and `B` -/
structure Sched (A' B : Schema) (cmds : List Cmd) : Prop where
  vA : Valid A'
  vB : Valid B
  cr : ∀ x, Cmd.create x ∈ cmds → find B x.key = some x
  al : ∀ c n d rs, Cmd.alter c n d rs ∈ cmds →
        (c, n) ∈ keys A' ∧ ∃ x, find B (c, n) = some x ∧ d = x.data ∧ rs = x.refs
  de : ∀ c n, Cmd.delete c n ∈ cmds → (c, n) ∈ keys A'
  nr : ∀ c o n, Cmd.rename c o n ∉ cmds
  oldk : ∀ k ∈ keys A', IsDeleted cmds k ∨
          (¬ IsCreated cmds k ∧ (IsAltered cmds k ∨ find A' k = find B k) ∧ k ∈ keys B)
  newk : ∀ k ∈ keys B, IsCreated cmds k ∨ (k ∈ keys A' ∧ ¬ IsDeleted cmds k)
  excl : ∀ k, IsAltered cmds k → ¬ IsCreated cmds k ∧ ¬ IsDeleted cmds k
  nb : ∀ c n, Cmd.delete c n ∈ cmds → ∀ o ∈ A', (c, n) ∈ o.refs →
        IsAltered cmds o.key ∨ IsDeleted cmds o.key

/-- every command comes after the commands it needs -/
def DepClosed (A' : Schema) (cmds order : List Cmd) : Prop :=
  ∀ pre a suf, order = pre ++ a :: suf → ∀ b ∈ cmds, needs A' a b = true → b ∈ pre

open Classical in
/-- the finite map after the commands in `done` have run -/
noncomputable def expect (A' B : Schema) (done : List Cmd) (k : Key) : Option Obj :=
  if IsCreated done k then find B k
  else if k ∈ keys A' ∧ ¬ IsDeleted done k then (if IsAltered done k then find B k else find A' k)
  else none

def Inv (A' B : Schema) (done : List Cmd) (s : Schema) : Prop :=
  (keys s).Nodup ∧ ∀ k, find s k = expect A' B done k

theorem isCreated_append {done : List Cmd} {a : Cmd} {k : Key} :
    IsCreated (done ++ [a]) k ↔ IsCreated done k ∨ ∃ x, a = .create x ∧ x.key = k := by
  unfold IsCreated
  constructor
  · rintro ⟨x, hx, hk⟩
    rcases List.mem_append.1 hx with h | h
    · exact Or.inl ⟨x, h, hk⟩
    · exact Or.inr ⟨x, (List.mem_singleton.1 h).symm, hk⟩
  · rintro (⟨x, hx, hk⟩ | ⟨x, rfl, hk⟩)
    · exact ⟨x, List.mem_append_left _ hx, hk⟩
    · exact ⟨x, List.mem_append_right _ (List.mem_singleton.2 rfl), hk⟩

theorem isAltered_append {done : List Cmd} {a : Cmd} {k : Key} :
    IsAltered (done ++ [a]) k ↔ IsAltered done k ∨ ∃ d rs, a = .alter k.1 k.2 d rs := by
  unfold IsAltered
  constructor
  · rintro ⟨d, rs, hx⟩
    rcases List.mem_append.1 hx with h | h
    · exact Or.inl ⟨d, rs, h⟩
    · exact Or.inr ⟨d, rs, (List.mem_singleton.1 h).symm⟩
  · rintro (⟨d, rs, hx⟩ | ⟨d, rs, rfl⟩)
    · exact ⟨d, rs, List.mem_append_left _ hx⟩
    · exact ⟨d, rs, List.mem_append_right _ (List.mem_singleton.2 rfl)⟩

theorem isDeleted_append {done : List Cmd} {a : Cmd} {k : Key} :
    IsDeleted (done ++ [a]) k ↔ IsDeleted done k ∨ a = .delete k.1 k.2 := by
  unfold IsDeleted
  simp only [List.mem_append, List.mem_singleton]
  constructor
  · rintro (h | h)
    · exact Or.inl h
    · exact Or.inr h.symm
  · rintro (h | h)
    · exact Or.inl h
    · exact Or.inr h.symm

theorem IsCreated.mono {d c : List Cmd} (h : ∀ b ∈ d, b ∈ c) {k : Key} : IsCreated d k → IsCreated c k :=
  fun ⟨x, hx, hk⟩ => ⟨x, h _ hx, hk⟩
theorem IsAltered.mono {d c : List Cmd} (h : ∀ b ∈ d, b ∈ c) {k : Key} : IsAltered d k → IsAltered c k :=
  fun ⟨dd, rs, hx⟩ => ⟨dd, rs, h _ hx⟩
theorem IsDeleted.mono {d c : List Cmd} (h : ∀ b ∈ d, b ∈ c) {k : Key} : IsDeleted d k → IsDeleted c k :=
  fun hx => h _ hx

section step
variable {A' B : Schema} {cmds done : List Cmd} {s : Schema}

/-- a key of the target is present as soon as its creation (if any) has run -/
theorem present_of_target (hS : Sched A' B cmds) (hsub : ∀ b ∈ done, b ∈ cmds) (hinv : Inv A' B done s)
    {r : Key} (hr : r ∈ keys B) (hc : IsCreated cmds r → IsCreated done r) : r ∈ keys s := by
  rw [mem_keys_iff_find, hinv.2 r]
  obtain ⟨x, hx⟩ := mem_keys_iff_find.1 hr
  unfold expect
  by_cases h1 : IsCreated done r
  · rw [if_pos h1]; exact ⟨x, hx⟩
  · rw [if_neg h1]
    have hnc : ¬ IsCreated cmds r := fun h => h1 (hc h)
    rcases hS.newk r hr with h | ⟨h2, h3⟩
    · exact absurd h hnc
    · have h4 : ¬ IsDeleted done r := fun h => h3 (h.mono hsub)
      rw [if_pos ⟨h2, h4⟩]
      by_cases h5 : IsAltered done r
      · rw [if_pos h5]; exact ⟨x, hx⟩
      · rw [if_neg h5]; exact mem_keys_iff_find.1 h2

theorem create_unique (hS : Sched A' B cmds) {x x' : Obj} (h : Cmd.create x ∈ cmds)
    (h' : Cmd.create x' ∈ cmds) (hk : x.key = x'.key) : x = x' := by
  have h1 := hS.cr x h
  have h2 := hS.cr x' h'
  rw [hk, h2] at h1
  exact (Option.some.inj h1).symm

theorem alter_unique (hS : Sched A' B cmds) {c : Nat} {n : String} {d d' : Nat} {rs rs' : List Key}
    (h : Cmd.alter c n d rs ∈ cmds) (h' : Cmd.alter c n d' rs' ∈ cmds) : d = d' ∧ rs = rs' := by
  obtain ⟨_, x, hx, rfl, rfl⟩ := hS.al _ _ _ _ h
  obtain ⟨_, x', hx', rfl, rfl⟩ := hS.al _ _ _ _ h'
  rw [hx] at hx'
  cases hx'
  exact ⟨rfl, rfl⟩

/-- a reference of a target object is present once the creates it needs have run -/
theorem refs_present (hS : Sched A' B cmds) (hsub : ∀ b ∈ done, b ∈ cmds) (hinv : Inv A' B done s)
    {x : Obj} (hx : x ∈ B)
    (hdeps : ∀ x', Cmd.create x' ∈ cmds → x'.key ∈ x.refs → Cmd.create x' ∈ done) :
    ∀ r ∈ x.refs, r ∈ keys s := by
  intro r hr
  apply present_of_target hS hsub hinv (hS.vB.closed x hx r hr)
  rintro ⟨x', hx', rfl⟩
  exact ⟨x', hdeps x' hx' hr, rfl⟩

theorem step_create (hS : Sched A' B cmds) (hsub : ∀ b ∈ done, b ∈ cmds) (hinv : Inv A' B done s)
    {x : Obj} (ha : Cmd.create x ∈ cmds) (hna : Cmd.create x ∉ done)
    (hdeps : ∀ b ∈ cmds, needs A' (.create x) b = true → b ∈ done) :
    ∃ s1, apply s (.create x) = .ok s1 ∧ Inv A' B (done ++ [.create x]) s1 := by
  have hxB : x ∈ B := find_mem (hS.cr x ha)
  have hnc : ¬ IsCreated done x.key := by
    rintro ⟨x', hx', hk⟩
    have := create_unique hS (hsub _ hx') ha hk
    subst this; exact hna hx'
  -- the key is free
  have hfree : x.key ∉ keys s := by
    rw [← find_eq_none_iff, hinv.2]
    unfold expect
    rw [if_neg hnc]
    by_cases h2 : x.key ∈ keys A' ∧ ¬ IsDeleted done x.key
    · exfalso
      rcases hS.oldk _ h2.1 with h | ⟨h, _⟩
      · apply h2.2
        apply hdeps _ h
        simp [needs]
      · exact h ⟨x, ha, rfl⟩
    · rw [if_neg h2]
  have hrefs : ∀ r ∈ x.refs, r ∈ keys s := by
    apply refs_present hS hsub hinv hxB
    intro x' hx' hr
    apply hdeps _ hx'
    simp only [needs]
    exact List.contains_iff_mem.2 hr
  refine ⟨s ++ [x], apply_create hfree hrefs, nodup_keys_create hinv.1 hfree, ?_⟩
  intro k
  rw [find_append_single hfree]
  unfold expect
  by_cases hk : k = x.key
  · subst hk
    have : IsCreated (done ++ [Cmd.create x]) x.key := isCreated_append.2 (Or.inr ⟨x, rfl, rfl⟩)
    rw [if_pos rfl, if_pos this, hS.cr x ha]
  · rw [if_neg hk, hinv.2 k]
    unfold expect
    have e1 : IsCreated (done ++ [Cmd.create x]) k ↔ IsCreated done k := by
      rw [isCreated_append]
      constructor
      · rintro (h | ⟨x', hx', hk'⟩)
        · exact h
        · cases hx'; exact absurd hk'.symm hk
      · exact Or.inl
    have e2 : IsDeleted (done ++ [Cmd.create x]) k ↔ IsDeleted done k := by
      rw [isDeleted_append]; simp
    have e3 : IsAltered (done ++ [Cmd.create x]) k ↔ IsAltered done k := by
      rw [isAltered_append]; simp
    rw [propext e1, propext e2, propext e3]

theorem step_alter (hS : Sched A' B cmds) (hsub : ∀ b ∈ done, b ∈ cmds) (hinv : Inv A' B done s)
    {c : Nat} {n : String} {d : Nat} {rs : List Key}
    (ha : Cmd.alter c n d rs ∈ cmds) (hna : Cmd.alter c n d rs ∉ done)
    (hdeps : ∀ b ∈ cmds, needs A' (.alter c n d rs) b = true → b ∈ done) :
    ∃ s1, apply s (.alter c n d rs) = .ok s1 ∧ Inv A' B (done ++ [.alter c n d rs]) s1 := by
  obtain ⟨hkA, x, hx, rfl, rfl⟩ := hS.al _ _ _ _ ha
  have hxB : x ∈ B := find_mem hx
  have hxk : x.key = (c, n) := find_key hx
  have halt : IsAltered cmds (c, n) := ⟨_, _, ha⟩
  obtain ⟨hncr, hndl⟩ := hS.excl _ halt
  have hnc : ¬ IsCreated done (c, n) := fun h => hncr (h.mono hsub)
  have hnd : ¬ IsDeleted done (c, n) := fun h => hndl (h.mono hsub)
  have hnal : ¬ IsAltered done (c, n) := by
    rintro ⟨d', rs', h'⟩
    obtain ⟨rfl, rfl⟩ := alter_unique hS (hsub _ h') ha
    exact hna h'
  obtain ⟨y, hy⟩ := mem_keys_iff_find.1 hkA
  have hcur : find s (c, n) = some y := by
    rw [hinv.2]; unfold expect
    rw [if_neg hnc, if_pos ⟨hkA, hnd⟩, if_neg hnal, hy]
  have hks : (c, n) ∈ keys s := mem_keys_iff_find.2 ⟨y, hcur⟩
  have hrefs : ∀ r ∈ x.refs, r ∈ keys s := by
    apply refs_present hS hsub hinv hxB
    intro x' hx' hr
    apply hdeps _ hx'
    simp only [needs]
    exact List.contains_iff_mem.2 hr
  refine ⟨_, apply_alter hks hrefs, ?_, ?_⟩
  · rw [keys_map_key_preserving _ (alterFn_key _ _ _)]; exact hinv.1
  intro k
  rw [find_alter]
  unfold expect
  by_cases hk : k = (c, n)
  · subst hk
    have e1 : ¬ IsCreated (done ++ [Cmd.alter c n x.data x.refs]) (c, n) := by
      rw [isCreated_append]; rintro (h | ⟨x', hx', _⟩)
      · exact hnc h
      · cases hx'
    have e2 : ¬ IsDeleted (done ++ [Cmd.alter c n x.data x.refs]) (c, n) := by
      rw [isDeleted_append]; rintro (h | h)
      · exact hnd h
      · cases h
    have e3 : IsAltered (done ++ [Cmd.alter c n x.data x.refs]) (c, n) :=
      isAltered_append.2 (Or.inr ⟨_, _, rfl⟩)
    rw [if_pos rfl, if_neg e1, if_pos ⟨hkA, e2⟩, if_pos e3, hcur, hx]
    have hyk := find_key hy
    simp only [Option.map_some, Option.some.injEq]
    cases x with
    | mk xc xn xd xr =>
      cases y with
      | mk yc yn yd yr =>
        simp only [Obj.key, Prod.mk.injEq] at hxk hyk
        obtain ⟨rfl, rfl⟩ := hxk
        obtain ⟨rfl, rfl⟩ := hyk
        rfl
  · rw [if_neg hk, hinv.2 k]
    unfold expect
    have e1 : IsCreated (done ++ [Cmd.alter c n x.data x.refs]) k ↔ IsCreated done k := by
      rw [isCreated_append]; simp
    have e2 : IsDeleted (done ++ [Cmd.alter c n x.data x.refs]) k ↔ IsDeleted done k := by
      rw [isDeleted_append]; simp
    have e3 : IsAltered (done ++ [Cmd.alter c n x.data x.refs]) k ↔ IsAltered done k := by
      rw [isAltered_append]
      constructor
      · rintro (h | ⟨d', rs', h⟩)
        · exact h
        · cases h; exact absurd rfl hk
      · exact Or.inl
    rw [propext e1, propext e2, propext e3]

theorem step_delete (hS : Sched A' B cmds) (hsub : ∀ b ∈ done, b ∈ cmds) (hinv : Inv A' B done s)
    {c : Nat} {n : String}
    (ha : Cmd.delete c n ∈ cmds) (hna : Cmd.delete c n ∉ done)
    (hdeps : ∀ b ∈ cmds, needs A' (.delete c n) b = true → b ∈ done)
    (hclosed : ∀ b ∈ done, ∀ b' ∈ cmds, needs A' b b' = true → b' ∈ done) :
    ∃ s1, apply s (.delete c n) = .ok s1 ∧ Inv A' B (done ++ [.delete c n]) s1 := by
  have hkA : (c, n) ∈ keys A' := hS.de c n ha
  have hdel : IsDeleted cmds (c, n) := ha
  have hnd : ¬ IsDeleted done (c, n) := hna
  -- the creation of the same key (if any) has not run yet
  have hnc : ¬ IsCreated done (c, n) := by
    rintro ⟨x, hx, hk⟩
    apply hna
    apply hclosed _ hx _ ha
    simp [needs, hk]
  have hnal : ¬ IsAltered cmds (c, n) := fun h => (hS.excl _ h).2 hdel
  obtain ⟨y, hy⟩ := mem_keys_iff_find.1 hkA
  have hcur : find s (c, n) = some y := by
    rw [hinv.2]; unfold expect
    rw [if_neg hnc, if_pos ⟨hkA, hnd⟩, if_neg (fun h => hnal (h.mono hsub)), hy]
  have hks : (c, n) ∈ keys s := mem_keys_iff_find.2 ⟨y, hcur⟩
  -- a target object that refers to the key needs the key's creation, which needs this delete
  have htarget : ∀ o, o ∈ B → (c, n) ∈ o.refs →
      (∀ x', Cmd.create x' ∈ cmds → x'.key ∈ o.refs → Cmd.create x' ∈ done) → False := by
    intro o hoB hr hcl
    have hkB : (c, n) ∈ keys B := hS.vB.closed o hoB _ hr
    rcases hS.newk _ hkB with ⟨x', hx', hk'⟩ | ⟨_, h⟩
    · have h1 : Cmd.create x' ∈ done := hcl x' hx' (hk' ▸ hr)
      apply hna
      apply hclosed _ h1 _ ha
      simp [needs, hk']
    · exact h hdel
  have hnoref : ∀ o ∈ s, (c, n) ∉ o.refs := by
    intro o ho hr
    have hfo : find s o.key = some o := find_of_mem hinv.1 ho
    rw [hinv.2] at hfo
    unfold expect at hfo
    by_cases h1 : IsCreated done o.key
    · rw [if_pos h1] at hfo
      obtain ⟨xo, hxo, hko⟩ := h1
      have : xo = o := by
        have := hS.cr xo (hsub _ hxo); rw [hko, hfo] at this; exact (Option.some.inj this).symm
      subst this
      apply htarget xo (find_mem hfo) hr
      intro x' hx' hr'
      apply hclosed _ hxo _ hx'
      simp only [needs]; exact List.contains_iff_mem.2 hr'
    · rw [if_neg h1] at hfo
      by_cases h2 : o.key ∈ keys A' ∧ ¬ IsDeleted done o.key
      · rw [if_pos h2] at hfo
        by_cases h3 : IsAltered done o.key
        · rw [if_pos h3] at hfo
          obtain ⟨d', rs', h3'⟩ := h3
          obtain ⟨_, x, hx, rfl, rfl⟩ := hS.al _ _ _ _ (hsub _ h3')
          have : x = o := by
            have e : (o.key.1, o.key.2) = o.key := rfl
            rw [e, hfo] at hx; exact (Option.some.inj hx).symm
          subst this
          apply htarget x (find_mem hfo) hr
          intro x' hx' hr'
          apply hclosed _ h3' _ hx'
          simp only [needs]; exact List.contains_iff_mem.2 hr'
        · rw [if_neg h3] at hfo
          -- `o` is still the old object
          have hoA : o ∈ A' := find_mem hfo
          rcases hS.nb c n ha o hoA hr with ⟨d', rs', h⟩ | h
          · apply h3
            refine ⟨d', rs', hdeps _ h ?_⟩
            have e : (o.key.1, o.key.2) = o.key := rfl
            simp only [needs, e, hfo]
            exact List.contains_iff_mem.2 hr
          · apply h2.2
            apply hdeps _ h
            have e : (o.key.1, o.key.2) = o.key := rfl
            simp only [needs, e, hfo]
            exact List.contains_iff_mem.2 hr
      · rw [if_neg h2] at hfo; cases hfo
  refine ⟨_, apply_delete hks hnoref, keys_delete_nodup hinv.1 _, ?_⟩
  intro k
  rw [find_delete]
  unfold expect
  by_cases hk : k = (c, n)
  · subst hk
    have e1 : ¬ IsCreated (done ++ [Cmd.delete c n]) (c, n) := by
      rw [isCreated_append]; rintro (h | ⟨x', hx', _⟩)
      · exact hnc h
      · cases hx'
    have e2 : IsDeleted (done ++ [Cmd.delete c n]) (c, n) := isDeleted_append.2 (Or.inr rfl)
    rw [if_pos rfl, if_neg e1, if_neg (fun h => h.2 e2)]
  · rw [if_neg hk, hinv.2 k]
    unfold expect
    have e1 : IsCreated (done ++ [Cmd.delete c n]) k ↔ IsCreated done k := by
      rw [isCreated_append]; simp
    have e2 : IsDeleted (done ++ [Cmd.delete c n]) k ↔ IsDeleted done k := by
      rw [isDeleted_append]
      constructor
      · rintro (h | h)
        · exact h
        · cases h; exact absurd rfl hk
      · exact Or.inl
    have e3 : IsAltered (done ++ [Cmd.delete c n]) k ↔ IsAltered done k := by
      rw [isAltered_append]; simp
    rw [propext e1, propext e2, propext e3]

end step

section run
variable {A' B : Schema} {cmds : List Cmd}

theorem step (hS : Sched A' B cmds) {done : List Cmd} {s : Schema} {a : Cmd}
    (hsub : ∀ b ∈ done, b ∈ cmds) (hinv : Inv A' B done s)
    (ha : a ∈ cmds) (hna : a ∉ done)
    (hdeps : ∀ b ∈ cmds, needs A' a b = true → b ∈ done)
    (hclosed : ∀ b ∈ done, ∀ b' ∈ cmds, needs A' b b' = true → b' ∈ done) :
    ∃ s1, apply s a = .ok s1 ∧ Inv A' B (done ++ [a]) s1 := by
  cases a with
  | create x => exact step_create hS hsub hinv ha hna hdeps
  | rename c o n => exact absurd ha (hS.nr c o n)
  | alter c n d rs => exact step_alter hS hsub hinv ha hna hdeps
  | delete c n => exact step_delete hS hsub hinv ha hna hdeps hclosed

theorem run (hS : Sched A' B cmds) {order : List Cmd} (hnd : order.Nodup)
    (hsubO : ∀ b ∈ order, b ∈ cmds) (hdep : DepClosed A' cmds order) :
    ∀ rest done s, order = done ++ rest → Inv A' B done s →
      ∃ s', applyAll s rest = .ok s' ∧ Inv A' B order s' := by
  intro rest
  induction rest with
  | nil =>
    intro done s ho hinv
    rw [List.append_nil] at ho
    subst ho
    exact ⟨s, rfl, hinv⟩
  | cons a rest ih =>
    intro done s ho hinv
    have hsub : ∀ b ∈ done, b ∈ cmds := fun b hb => hsubO b (ho ▸ List.mem_append_left _ hb)
    have ha : a ∈ cmds := hsubO a (ho ▸ List.mem_append_right _ List.mem_cons_self)
    have hna : a ∉ done := by
      intro h
      rw [ho, List.nodup_append] at hnd
      exact hnd.2.2 a h a List.mem_cons_self rfl
    have hdeps : ∀ b ∈ cmds, needs A' a b = true → b ∈ done := hdep done a rest ho
    have hclosed : ∀ b ∈ done, ∀ b' ∈ cmds, needs A' b b' = true → b' ∈ done := by
      intro b hb b' hb' hn
      obtain ⟨p1, p2, rfl⟩ := List.append_of_mem hb
      have := hdep p1 b (p2 ++ a :: rest) (by rw [ho]; simp) b' hb' hn
      exact List.mem_append_left _ this
    obtain ⟨s1, hs1, hinv1⟩ := step hS hsub hinv ha hna hdeps hclosed
    obtain ⟨s', hs', hinv'⟩ := ih (done ++ [a]) s1 (by rw [ho]; simp) hinv1
    refine ⟨s', ?_, hinv'⟩
    simp only [applyAll, hs1]
    exact hs'

theorem expect_nil (A' B : Schema) (k : Key) : expect A' B [] k = find A' k := by
  unfold expect
  have h1 : ¬ IsCreated [] k := fun ⟨_, h, _⟩ => by cases h
  have h2 : ¬ IsDeleted [] k := fun h => by cases h
  have h3 : ¬ IsAltered [] k := fun ⟨_, _, h⟩ => by cases h
  rw [if_neg h1]
  by_cases hk : k ∈ keys A'
  · rw [if_pos ⟨hk, h2⟩, if_neg h3]
  · rw [if_neg (fun h => hk h.1)]
    exact (find_eq_none_iff.2 hk).symm

theorem expect_all (hS : Sched A' B cmds) (k : Key) : expect A' B cmds k = find B k := by
  unfold expect
  by_cases h1 : IsCreated cmds k
  · rw [if_pos h1]
  · rw [if_neg h1]
    by_cases h2 : k ∈ keys A' ∧ ¬ IsDeleted cmds k
    · rw [if_pos h2]
      by_cases h3 : IsAltered cmds k
      · rw [if_pos h3]
      · rw [if_neg h3]
        rcases hS.oldk k h2.1 with h | ⟨_, h | h, _⟩
        · exact absurd h h2.2
        · exact absurd h h3
        · exact h
    · rw [if_neg h2]
      symm
      rw [find_eq_none_iff]
      intro hk
      rcases hS.newk k hk with h | h
      · exact h1 h
      · exact h2 h

theorem expect_perm {order : List Cmd} (hp : order.Perm cmds) (k : Key) :
    expect A' B order k = expect A' B cmds k := by
  have e1 : IsCreated order k ↔ IsCreated cmds k :=
    ⟨IsCreated.mono fun b hb => hp.mem_iff.1 hb, IsCreated.mono fun b hb => hp.mem_iff.2 hb⟩
  have e2 : IsDeleted order k ↔ IsDeleted cmds k := hp.mem_iff
  have e3 : IsAltered order k ↔ IsAltered cmds k :=
    ⟨IsAltered.mono fun b hb => hp.mem_iff.1 hb, IsAltered.mono fun b hb => hp.mem_iff.2 hb⟩
  unfold expect
  rw [propext e1, propext e2, propext e3]

/-- **Scheduling theorem.** -/
theorem sched_apply (hS : Sched A' B cmds) (hnd : cmds.Nodup) {order : List Cmd}
    (hp : order.Perm cmds) (hdep : DepClosed A' cmds order) :
    ∃ s, applyAll A' order = .ok s ∧ Same s B := by
  have hinv0 : Inv A' B [] A' := ⟨hS.vA.nodup, fun k => (expect_nil A' B k).symm⟩
  obtain ⟨s, hs, hinv⟩ := run hS (hp.nodup_iff.2 hnd) (fun b hb => hp.mem_iff.1 hb) hdep
    order [] A' rfl hinv0
  refine ⟨s, hs, hinv.1, fun k => ?_⟩
  rw [hinv.2, expect_perm hp, expect_all hS]

end run

end EdbVerif.Schema
