/-
`Duration(to_iso8601(d)) == d` and `Duration.from_iso8601(to_iso8601(d)) == d`
for every integer number of microseconds (negative values included).
-/
import EdbVerif.Lemmas.DurationDigits
namespace EdbVerif.Duration

/-- sign prefix used by `to_iso8601` -/
def negPre (neg : Bool) : List Char := if neg then ['-'] else []
def sgn (neg : Bool) (n : Nat) : Int := if neg then -(n : Int) else (n : Int)

theorem not_digit_of_mem (c : Char) (h : c ∈ ['H', 'M', 'S', '.']) : isDigit c = false := by
  simp at h; rcases h with h | h | h | h <;> subst h <;> decide

theorem natDigits_head (n : Nat) : ∃ d r, natDigits n = d :: r ∧ isDigit d = true := by
  cases h : natDigits n with
  | nil => exact absurd h (natDigits_ne_nil n)
  | cons d r => exact ⟨d, r, rfl, natDigits_isDigit n d (by simp [h])⟩

theorem optSign_digits (n : Nat) (rest : List Char) :
    optSign (natDigits n ++ rest) = (false, natDigits n ++ rest) := by
  obtain ⟨d, r, hd, hdig⟩ := natDigits_head n
  rw [hd]
  have h1 : d ≠ '-' := by intro h; subst h; simp [isDigit] at hdig
  have h2 : d ≠ '+' := by intro h; subst h; simp [isDigit] at hdig
  simp only [List.cons_append]
  unfold optSign
  split
  · rename_i heq; simp at heq; exact absurd heq.1 h1
  · rename_i heq; simp at heq; exact absurd heq.1 h2
  · rfl

theorem optSign_pre (neg : Bool) (n : Nat) (rest : List Char) :
    optSign (negPre neg ++ natDigits n ++ rest) = (neg, natDigits n ++ rest) := by
  cases neg with
  | false => simpa [negPre] using optSign_digits n rest
  | true => simp [negPre, optSign]

theorem signedDigits_pre (neg : Bool) (n : Nat) (c : Char) (rest : List Char)
    (hc : isDigit c = false) :
    signedDigits (negPre neg ++ natDigits n ++ c :: rest) = some (sgn neg n, c :: rest) := by
  have htd := takeWhile_digits (natDigits n) (c :: rest) (natDigits_isDigit n)
    (by intro c' r h; simp at h; rw [← h.1]; exact hc)
  unfold signedDigits
  rw [optSign_pre]
  simp only [htd.1, htd.2]
  have : (natDigits n).isEmpty = false := by
    cases h : natDigits n with
    | nil => exact absurd h (natDigits_ne_nil n)
    | cons _ _ => rfl
  simp [this, digitsToNat_natDigits, sgn]

theorem optComp_hit (u : Char) (neg : Bool) (n : Nat) (rest : List Char) (hu : isDigit u = false) :
    optComp u (negPre neg ++ natDigits n ++ u :: rest) = (some (sgn neg n), rest) := by
  unfold optComp
  rw [signedDigits_pre neg n u rest hu]
  simp

theorem optComp_miss (u c : Char) (neg : Bool) (n : Nat) (rest : List Char)
    (hc : isDigit c = false) (hne : (c == u) = false) :
    optComp u (negPre neg ++ natDigits n ++ c :: rest) =
      (none, negPre neg ++ natDigits n ++ c :: rest) := by
  unfold optComp
  rw [signedDigits_pre neg n c rest hc]
  simp [hne]

theorem optComp_nil (u : Char) : optComp u [] = (none, []) := by
  simp [optComp, signedDigits, optSign]

theorem optSec_nil : optSec [] = (none, []) := by
  simp [optSec, optSign]

theorem natDigits_isEmpty (n : Nat) : (natDigits n).isEmpty = false := by
  cases h : natDigits n with
  | nil => exact absurd h (natDigits_ne_nil n)
  | cons _ _ => rfl

theorem optSec_int (neg : Bool) (n : Nat) (rest : List Char) :
    optSec (negPre neg ++ natDigits n ++ 'S' :: rest) =
      (some ((n : Int) * 1000000 * (if neg then -1 else 1)), rest) := by
  have htd := takeWhile_digits (natDigits n) ('S' :: rest) (natDigits_isDigit n)
    (by intro c' r h; simp at h; rw [← h.1]; decide)
  unfold optSec
  rw [optSign_pre]
  simp only [htd.1, htd.2, natDigits_isEmpty, digitsToNat_natDigits]
  simp

theorem optSec_frac (neg : Bool) (n : Nat) (fs rest : List Char)
    (hfs : ∀ c ∈ fs, isDigit c = true) (hne : fs ≠ []) :
    optSec (negPre neg ++ natDigits n ++ '.' :: (fs ++ 'S' :: rest)) =
      (some ((n : Int) * 1000000 * (if neg then -1 else 1) +
             (digitsToNat (ljust 6 (fs.take 6)) : Int) * (if neg then -1 else 1)), rest) := by
  have htd := takeWhile_digits (natDigits n) ('.' :: (fs ++ 'S' :: rest)) (natDigits_isDigit n)
    (by intro c' r h; simp at h; rw [← h.1]; decide)
  have htf := takeWhile_digits fs ('S' :: rest) hfs
    (by intro c' r h; simp at h; rw [← h.1]; decide)
  have hfe : fs.isEmpty = false := by
    cases fs with
    | nil => exact absurd rfl hne
    | cons _ _ => rfl
  unfold optSec
  rw [optSign_pre]
  simp only [htd.1, htd.2, natDigits_isEmpty, digitsToNat_natDigits]
  simp [htf.1, htf.2, hfe]

/-! ### the fraction digits -/

theorem rstrip0_append (l : List Char) :
    ∃ k, l = rstrip0 l ++ List.replicate k '0' := by
  unfold rstrip0
  have h := List.takeWhile_append_dropWhile (p := (· == '0')) (l := l.reverse)
  refine ⟨(l.reverse.takeWhile (· == '0')).length, ?_⟩
  have h2 : l = (l.reverse.dropWhile (· == '0')).reverse ++ (l.reverse.takeWhile (· == '0')).reverse := by
    have := congrArg List.reverse h
    rw [List.reverse_append, List.reverse_reverse] at this
    exact this.symm
  have h3 : (l.reverse.takeWhile (· == '0')).reverse =
      List.replicate (l.reverse.takeWhile (· == '0')).length '0' := by
    rw [List.eq_replicate_iff]
    refine ⟨by simp, ?_⟩
    intro c hc
    have hall := List.all_takeWhile (l := l.reverse) (p := (· == '0'))
    rw [List.all_eq_true] at hall
    simpa using hall c (List.mem_reverse.mp hc)
  rw [h3] at h2
  exact h2

theorem rstrip0_mem (l : List Char) (c : Char) (h : c ∈ rstrip0 l) : c ∈ l := by
  unfold rstrip0 at h
  have := List.dropWhile_sublist (p := (· == '0')) (l := l.reverse) |>.subset (List.mem_reverse.mp h)
  simpa using this

/-- the six fraction digits as printed (`str(usecs).rjust(6,'0')[:6]`) -/
def frac6 (u : Nat) : List Char := (rjust6 (natDigits u)).take 6

theorem frac6_eq (u : Nat) (hu : u < 1000000) :
    frac6 u = List.replicate (6 - (natDigits u).length) '0' ++ natDigits u ∧ (frac6 u).length = 6 := by
  have hl : (natDigits u).length ≤ 6 := natDigits_length_le u 5 (by simpa using hu)
  have hlen : (rjust6 (natDigits u)).length = 6 := by simp [rjust6]; omega
  unfold frac6
  rw [List.take_of_length_le (by omega)]
  exact ⟨rfl, hlen⟩

theorem frac6_value (u : Nat) (hu : u < 1000000) : digitsToNat (frac6 u) = u := by
  rw [(frac6_eq u hu).1, digitsToNat_replicate_zero, digitsToNat_natDigits]

theorem frac6_digits (u : Nat) (hu : u < 1000000) : ∀ c ∈ frac6 u, isDigit c = true := by
  intro c hc
  rw [(frac6_eq u hu).1] at hc
  simp at hc
  rcases hc with ⟨_, rfl⟩ | hc
  · decide
  · exact natDigits_isDigit u c hc

theorem frac_roundtrip (u : Nat) (hu : u < 1000000) (h0 : u ≠ 0) :
    (∀ c ∈ rstrip0 (frac6 u), isDigit c = true) ∧ rstrip0 (frac6 u) ≠ [] ∧
      digitsToNat (ljust 6 ((rstrip0 (frac6 u)).take 6)) = u := by
  obtain ⟨k, hk⟩ := rstrip0_append (frac6 u)
  have hlen := (frac6_eq u hu).2
  have hlen2 : (rstrip0 (frac6 u)).length + k = 6 := by
    have := congrArg List.length hk
    simp at this; omega
  refine ⟨fun c hc => frac6_digits u hu c (rstrip0_mem _ c hc), ?_, ?_⟩
  · intro hnil
    have hz : digitsToNat (frac6 u) = 0 := by
      apply digitsToNat_all_zero
      intro c hc
      rw [hk, hnil] at hc
      simp at hc
      exact hc.2
    rw [frac6_value u hu] at hz
    exact h0 hz
  · have ht : (rstrip0 (frac6 u)).take 6 = rstrip0 (frac6 u) := List.take_of_length_le (by omega)
    rw [ht]
    have : ljust 6 (rstrip0 (frac6 u)) = frac6 u := by
      unfold ljust
      have : 6 - (rstrip0 (frac6 u)).length = k := by omega
      rw [this]; exact hk.symm
    rw [this, frac6_value u hu]

/-! ### the round trip -/

theorem atEnd_nil : atEnd [] = true := rfl

/-- one optional `H`/`M` component as printed -/
def compStr (u : Char) (neg : Bool) (n : Nat) : List Char :=
  if n != 0 then negPre neg ++ natDigits n ++ [u] else []

/-- the seconds component as printed -/
def secStr (neg : Bool) (seconds usecs : Nat) : List Char :=
  if seconds != 0 || usecs != 0 then
    (if usecs != 0 then negPre neg ++ natDigits seconds ++ ['.'] ++ rstrip0 (frac6 usecs)
     else negPre neg ++ natDigits seconds) ++ ['S']
  else []

theorem toIso_unfold (us : Int) :
    toIso us =
      (let neg := decide (us < 0)
       let a := us.natAbs
       let body := compStr 'H' neg (a / 1000000 / 60 / 60) ++ compStr 'M' neg (a / 1000000 / 60 % 60) ++
         secStr neg (a / 1000000 % 60) (a % 1000000)
       if body.isEmpty then "PT0S".toList else 'P' :: 'T' :: body) := by
  unfold toIso compStr secStr negPre frac6
  by_cases h : us < 0 <;> simp only [h, decide_true, decide_false, if_true] <;> rfl

theorem parseIso_PT (r0 r1 r2 r3 : List Char) (h m sec : Option Int)
    (h1 : optComp 'H' r0 = (h, r1)) (h2 : optComp 'M' r1 = (m, r2)) (h3 : optSec r2 = (sec, r3))
    (he : atEnd r3 = true) (hsome : (h.isNone && m.isNone && sec.isNone) = false) :
    parseIso ('P' :: 'T' :: r0) = some (h.getD 0 * 3600000000 + m.getD 0 * 60000000 + sec.getD 0) := by
  simp [parseIso, h1, h2, h3, he, hsome]

theorem optComp_compStr (u : Char) (neg : Bool) (n : Nat) (rest : List Char)
    (hu : isDigit u = false) (hmiss : optComp u rest = (none, rest)) :
    optComp u (compStr u neg n ++ rest) = (if n != 0 then some (sgn neg n) else none, rest) := by
  unfold compStr
  by_cases hn : (n != 0) = true
  · simp only [hn, if_true]
    have := optComp_hit u neg n rest hu
    simpa using this
  · simp only [hn]
    simpa using hmiss

theorem optComp_compStr_miss (u v : Char) (neg : Bool) (n : Nat) (rest : List Char)
    (hv : isDigit v = false) (hne : (v == u) = false) (hmiss : optComp u rest = (none, rest)) :
    optComp u (compStr v neg n ++ rest) = (none, compStr v neg n ++ rest) := by
  unfold compStr
  by_cases hn : (n != 0) = true
  · simp only [hn, if_true]
    have := optComp_miss u v neg n rest hv hne
    simpa using this
  · simp only [hn]
    simpa using hmiss

theorem optComp_secStr (u : Char) (hu' : u = 'H' ∨ u = 'M') (neg : Bool) (seconds usecs : Nat) :
    optComp u (secStr neg seconds usecs) = (none, secStr neg seconds usecs) := by
  unfold secStr
  by_cases hs : (seconds != 0 || usecs != 0) = true
  · simp only [hs, if_true]
    by_cases hz : (usecs != 0) = true
    · simp only [hz, if_true]
      have := optComp_miss u '.' neg seconds (rstrip0 (frac6 usecs) ++ ['S']) (by decide)
        (by rcases hu' with h | h <;> subst h <;> decide)
      simpa using this
    · simp only [hz]
      have := optComp_miss u 'S' neg seconds [] (by decide)
        (by rcases hu' with h | h <;> subst h <;> decide)
      simpa using this
  · simp only [hs]
    exact optComp_nil u

theorem optSec_secStr (neg : Bool) (seconds usecs : Nat) (hu : usecs < 1000000) :
    optSec (secStr neg seconds usecs) =
      (if seconds != 0 || usecs != 0 then
         some (((seconds : Int) * 1000000 + usecs) * (if neg then -1 else 1)) else none, []) := by
  unfold secStr
  by_cases hs : (seconds != 0 || usecs != 0) = true
  · simp only [hs, if_true]
    by_cases hz : usecs = 0
    · subst hz
      have := optSec_int neg seconds []
      simp only [bne_self_eq_false, Bool.false_eq_true, if_false]
      rw [this]; simp
    · have hz' : (usecs != 0) = true := by simp [hz]
      simp only [hz', if_true]
      obtain ⟨h1, h2, h3⟩ := frac_roundtrip usecs hu hz
      have := optSec_frac neg seconds (rstrip0 (frac6 usecs)) [] h1 h2
      simp only [List.append_assoc, List.cons_append, List.nil_append] at this ⊢
      rw [this, h3]
      cases neg <;> simp <;> omega
  · simp only [hs]
    simp [optSec_nil]

theorem compStr_eq_nil (u : Char) (neg : Bool) (n : Nat) (h : compStr u neg n = []) : n = 0 := by
  unfold compStr at h
  by_cases hn : (n != 0) = true
  · simp [hn] at h
  · simpa using hn

theorem secStr_eq_nil (neg : Bool) (s u : Nat) (h : secStr neg s u = []) : s = 0 ∧ u = 0 := by
  unfold secStr at h
  by_cases hn : (s != 0 || u != 0) = true
  · simp [hn] at h
  · simpa using hn

theorem getD_comp (neg : Bool) (n : Nat) :
    (if (n != 0) = true then some (sgn neg n) else none).getD 0 = sgn neg n := by
  by_cases h : n = 0
  · subst h; cases neg <;> simp [sgn]
  · simp [h]

theorem getD_sec (neg : Bool) (s u : Nat) :
    (if (s != 0 || u != 0) = true then
        some (((s : Int) * 1000000 + u) * (if neg then -1 else 1)) else none).getD 0 =
      ((s : Int) * 1000000 + u) * (if neg then -1 else 1) := by
  by_cases h : (s != 0 || u != 0) = true
  · simp only [h, if_true, Option.getD_some]
  · have : s = 0 ∧ u = 0 := by simpa using h
    rw [this.1, this.2]; simp

theorem parseIso_toIso (us : Int) : parseIso (toIso us) = some us := by
  rw [toIso_unfold]
  generalize hneg : decide (us < 0) = neg
  generalize ha : us.natAbs = a
  have hus : us = if neg then -(a : Int) else (a : Int) := by
    subst hneg ha
    by_cases h : us < 0 <;> simp [h] <;> omega
  simp only []
  generalize hH : a / 1000000 / 60 / 60 = hours
  generalize hM : a / 1000000 / 60 % 60 = minutes
  generalize hS : a / 1000000 % 60 = seconds
  generalize hU : a % 1000000 = usecs
  have hu : usecs < 1000000 := by omega
  have hsum : a = hours * 3600000000 + minutes * 60000000 + seconds * 1000000 + usecs := by omega
  by_cases hempty : (compStr 'H' neg hours ++ compStr 'M' neg minutes ++ secStr neg seconds usecs).isEmpty = true
  · simp only [hempty, if_true]
    have hnil : compStr 'H' neg hours ++ compStr 'M' neg minutes ++ secStr neg seconds usecs = [] := by
      simpa using hempty
    simp only [List.append_eq_nil_iff] at hnil
    have h1 := compStr_eq_nil _ _ _ hnil.1.1
    have h2 := compStr_eq_nil _ _ _ hnil.1.2
    have h3 := secStr_eq_nil _ _ _ hnil.2
    have : a = 0 := by omega
    subst this
    have : us = 0 := by cases neg <;> simpa using hus
    subst this
    decide
  · simp only [hempty, Bool.false_eq_true, if_false]
    have e3 := optSec_secStr neg seconds usecs hu
    have m2 := optComp_secStr 'M' (Or.inr rfl) neg seconds usecs
    have m1 := optComp_secStr 'H' (Or.inl rfl) neg seconds usecs
    have e2 := optComp_compStr 'M' neg minutes _ (by decide) m2
    have m1' := optComp_compStr_miss 'H' 'M' neg minutes _ (by decide) (by decide) m1
    have e1 := optComp_compStr 'H' neg hours _ (by decide) m1'
    rw [List.append_assoc]
    have hsome : ((if (hours != 0) = true then some (sgn neg hours) else none).isNone &&
        (if (minutes != 0) = true then some (sgn neg minutes) else none).isNone &&
        (if (seconds != 0 || usecs != 0) = true then
          some (((seconds : Int) * 1000000 + usecs) * (if neg then -1 else 1)) else none).isNone) = false := by
      by_cases c1 : (hours != 0) = true
      · simp [c1]
      · by_cases c2 : (minutes != 0) = true
        · simp [c2]
        · by_cases c3 : (seconds != 0 || usecs != 0) = true
          · simp [c3]
          · exfalso
            apply hempty
            simp [compStr, secStr, c1, c2, c3]
    rw [parseIso_PT _ _ _ _ _ _ _ e1 e2 e3 rfl hsome]
    rw [getD_comp, getD_comp, getD_sec, hus, hsum]
    cases neg <;> simp only [sgn, Bool.false_eq_true, if_false, if_true] <;> (refine congrArg some ?_; omega)

/-! ### `Duration(text)`: the two parsers tried before ISO reject a text starting with `P` -/

theorem toIso_head (us : Int) : ∃ r, toIso us = 'P' :: r := by
  rw [toIso_unfold]
  simp only []
  split
  · exact ⟨_, rfl⟩
  · exact ⟨_, rfl⟩

theorem dropWhile_snoc {p : Char → Bool} (c : Char) (hc : p c = false) (y : List Char) :
    ∃ z, (y ++ [c]).dropWhile p = z ++ [c] := by
  induction y with
  | nil => exact ⟨[], by simp [hc]⟩
  | cons a y ih =>
    by_cases ha : p a = true
    · obtain ⟨z, hz⟩ := ih
      exact ⟨z, by simp [ha, hz]⟩
    · exact ⟨a :: y, by simp [ha]⟩

theorem pyInt_P (r : List Char) : pyInt ('P' :: r) = none := by
  unfold pyInt
  have h1 : ('P' :: r).dropWhile isCSpace = 'P' :: r := by
    simp [List.dropWhile, show isCSpace 'P' = false by decide]
  obtain ⟨z, hz⟩ := dropWhile_snoc (p := isCSpace) 'P' (by decide) r.reverse
  have h2 : (('P' :: r).reverse.dropWhile isCSpace).reverse = 'P' :: z.reverse := by
    rw [List.reverse_cons, hz]; simp
  simp only [h1, h2]
  simp [optSign, pyIntBody, show isDigit 'P' = false by decide]

theorem matchSimple_P (r : List Char) : matchSimple ('P' :: r) = none := by
  unfold matchSimple
  have h1 : dropWs ('P' :: r) = 'P' :: r := by
    simp [dropWs, List.dropWhile, show isWs 'P' = false by decide]
  simp [h1, optSign, show isDigit 'P' = false by decide]

/-- `Duration(d.to_iso8601()) == d` -/
theorem usFromPgText_toIso (us : Int) : usFromPgText (toIso us) = .ok us := by
  obtain ⟨r, hr⟩ := toIso_head us
  unfold usFromPgText
  rw [hr, pyInt_P, matchSimple_P, ← hr, parseIso_toIso]

/-- `Duration.from_iso8601(d.to_iso8601()) == d` -/
theorem fromIso_toIso (us : Int) : fromIso (toIso us) = .ok us := by
  unfold fromIso; rw [parseIso_toIso]

/-! ### every accepted duration text contains a digit -/

def NoDigit (l : List Char) : Prop := ∀ c ∈ l, isDigit c = false

theorem NoDigit.dropWhile {l : List Char} (h : NoDigit l) (p : Char → Bool) : NoDigit (l.dropWhile p) :=
  fun c hc => h c ((List.dropWhile_sublist p).subset hc)

theorem NoDigit.reverse {l : List Char} (h : NoDigit l) : NoDigit l.reverse :=
  fun c hc => h c (List.mem_reverse.mp hc)

theorem NoDigit.optSign {l : List Char} (h : NoDigit l) : NoDigit (optSign l).2 := by
  unfold Duration.optSign
  split
  · exact fun c hc => h c (by simp [hc])
  · exact fun c hc => h c (by simp [hc])
  · exact h

theorem takeWhile_nil_of_noDigit {l : List Char} (h : NoDigit l) : l.takeWhile isDigit = [] := by
  cases l with
  | nil => rfl
  | cons c r => simp [List.takeWhile, h c (by simp)]

theorem signedDigits_none_of_noDigit {l : List Char} (h : NoDigit l) : signedDigits l = none := by
  unfold signedDigits
  simp [takeWhile_nil_of_noDigit h.optSign]

theorem pyIntBody_none_of_noDigit {l : List Char} (h : NoDigit l) : pyIntBody false l = none := by
  cases l with
  | nil => simp [pyIntBody]
  | cons c r => simp [pyIntBody, h c (by simp)]

theorem pyInt_none_of_noDigit {l : List Char} (h : NoDigit l) : pyInt l = none := by
  unfold pyInt
  have ht : NoDigit ((l.dropWhile isCSpace).reverse.dropWhile isCSpace).reverse :=
    (((h.dropWhile _).reverse).dropWhile _).reverse
  simp only [pyIntBody_none_of_noDigit ht.optSign]

theorem matchSimple_none_of_noDigit {l : List Char} (h : NoDigit l) : matchSimple l = none := by
  unfold matchSimple
  have := takeWhile_nil_of_noDigit (h.dropWhile isWs).optSign
  simp [dropWs, this]

theorem parseIso_none_of_noDigit {l : List Char} (h : NoDigit l) : parseIso l = none := by
  unfold parseIso
  split
  · rename_i r0
    have hr : NoDigit r0 := fun c hc => h c (by simp [hc])
    have hH : optComp 'H' r0 = (none, r0) := by simp [optComp, signedDigits_none_of_noDigit hr]
    have hM : optComp 'M' r0 = (none, r0) := by simp [optComp, signedDigits_none_of_noDigit hr]
    have hS : optSec r0 = (none, r0) := by
      unfold optSec
      simp [takeWhile_nil_of_noDigit hr.optSign]
    simp [hH, hM, hS]
  · rfl

theorem dropWhile_nil_all {p : Char → Bool} : ∀ (l : List Char), l.dropWhile p = [] → l.all p = true := by
  intro l
  induction l with
  | nil => intro _; rfl
  | cons c r ih =>
    intro h
    by_cases hc : p c = true
    · simp [List.dropWhile, hc] at h; simp [hc, ih h]
    · simp [List.dropWhile, hc] at h

theorem parsePg_error_of_noDigit {l : List Char} (h : NoDigit l) : parsePg l = .error .invalid := by
  unfold parsePg
  by_cases hw : l.all isWs = true
  · simp [hw]
  · simp only [hw, Bool.false_eq_true, if_false]
    unfold pgLoop
    have hne : (dropWs l).isEmpty = false := by
      cases hd : dropWs l with
      | nil => exact absurd (dropWhile_nil_all l hd) hw
      | cons _ _ => rfl
    simp only [hne, Bool.false_eq_true, if_false]
    have hsd : signedDigits (dropWs l) = none := signedDigits_none_of_noDigit (h.dropWhile isWs)
    rw [hsd]

/-- `Duration(text)` and `Duration.from_iso8601(text)` reject every text that
    contains no digit (`''`, `'\n'`, `'PT'`, …) -/
theorem noDigit_rejected (l : List Char) (h : NoDigit l) :
    usFromPgText l = .error .invalid ∧ fromIso l = .error .invalid := by
  unfold usFromPgText fromIso
  simp [pyInt_none_of_noDigit h, matchSimple_none_of_noDigit h, parseIso_none_of_noDigit h,
        parsePg_error_of_noDigit h]

end EdbVerif.Duration
