/-
C17: the candidate repair "forget `_last_pickled_state` when the call fails"
makes C17_intx hold at full strength.
-/
import EdbVerif.Lemmas.SyncGhost

namespace EdbVerif.Sync

theorem clearLast_other (st : State) (w : Nat) (res : Res) (i : Nat) (h : i ≠ w) :
    clearLastUnlessOk st w res i = st i := by
  unfold clearLastUnlessOk
  split
  · rfl
  · exact upd_other _ _ _ _ h

/-- after a repaired step the chosen worker satisfies `LastLe` as soon as a
    *successful* plain step leaves belief and actual last state equal -/
theorem lastLe_clear (st : State) (w : Nat) (res : Res)
    (h : res = .ok → LastLe (st w)) : LastLe (clearLastUnlessOk st w res w) := by
  unfold clearLastUnlessOk
  split
  · rename_i hr; exact h hr
  · intro x hx; simp at hx

theorem stepTx_ok_last (env : Env) (st : State) (r : TReq)
    (h : (stepTx env st r).2.res = .ok) :
    ((stepTx env st r).1 r.w).bel.last = ((stepTx env st r).1 r.w).act.last := by
  revert h
  unfold stepTx
  simp only []
  split
  · rename_i e he
    intro h
    simp only [] at h
    subst h
    -- wtxPrepare never returns `.error .ok`
    exfalso
    unfold wtxPrepare at he
    split at he <;> (try split at he) <;> (try split at he) <;> (try split at he) <;> simp at he
  · split <;> (try split) <;> simp

theorem lastLe_txFixed (env : Env) (st : State) (r : TReq) (i : Nat) (h : LastLe (st i)) :
    LastLe ((stepTxFixed env st r).1 i) := by
  by_cases hi : i = r.w
  case neg =>
    simp only [stepTxFixed]
    rw [clearLast_other _ _ _ _ hi, stepTx_frame env st r i hi]; exact h
  subst hi
  apply lastLe_clear
  intro hr x hx
  rw [← stepTx_ok_last env st r hr]; exact hx

theorem stepCompile_ok_last (env : Env) (st : State) (r : CReq)
    (h : (stepCompile env st r).2.res = .ok) :
    ((stepCompile env st r).1 r.w).bel.last = ((stepCompile env st r).1 r.w).act.last := by
  obtain ⟨b', hb'⟩ := withAck_defined env (st r.w).bel r
  revert h
  unfold stepCompile
  simp only []
  generalize wsync env (st r.w).act r.db (preargs (st r.w).bel r) = W
  obtain ⟨a', sres⟩ := W
  cases sres with
  | none => simp
  | some d =>
    simp only [hb']
    cases hout : r.out <;> simp

theorem lastLe_compileFixed (env : Env) (st : State) (r : CReq) (i : Nat) (h : LastLe (st i)) :
    LastLe ((stepCompileFixed env st r).1 i) := by
  by_cases hi : i = r.w
  case neg =>
    simp only [stepCompileFixed]
    rw [clearLast_other _ _ _ _ hi, stepCompile_frame env st r i hi]; exact h
  subst hi
  apply lastLe_clear
  intro hr x hx
  rw [← stepCompile_ok_last env st r hr]; exact hx

/-- the unrepaired `compile` preserves `LastLe` when it does not lose a state -/
theorem lastLe_compile (env : Env) (st : State) (r : CReq)
    (h1 : r.out ≠ .statePickleFail) (h2 : r.out ≠ .resultUnpicklable) (i : Nat)
    (h : LastLe (st i)) : LastLe ((stepCompile env st r).1 i) := by
  by_cases hi : i = r.w
  case neg => rw [stepCompile_frame env st r i hi]; exact h
  subst hi
  obtain ⟨b', hb'⟩ := withAck_defined env (st r.w).bel r
  have hbl := withAck_last env _ b' _ _ hb'
  have hwl := wsync_last env (st r.w).act r.db (preargs (st r.w).bel r)
  unfold LastLe at h ⊢
  unfold stepCompile
  simp only []
  generalize wsync env (st r.w).act r.db (preargs (st r.w).bel r) = W at hwl
  obtain ⟨a', sres⟩ := W
  cases sres with
  | none => simp_all
  | some d =>
    simp only [hb']
    cases hout : r.out <;> simp_all

theorem lastLe_execFix (fixC : Bool) (env : Env) (h : List Req) :
    ∀ st, (∀ i, LastLe (st i)) → (fixC = false → CompileNoStateLoss h) →
      ∀ i, LastLe (execFix fixC env st h i) := by
  induction h with
  | nil => intro st h0 _; exact h0
  | cons q qs ih =>
    intro st h0 hc
    simp only [execFix]
    apply ih
    · intro i
      cases q with
      | compile r =>
        simp only [stepFix]
        cases fixC with
        | true => exact lastLe_compileFixed env st r i (h0 i)
        | false =>
          have := hc rfl r (by simp)
          exact lastLe_compile env st r this.1 this.2 i (h0 i)
      | tx r => exact lastLe_txFixed env st r i (h0 i)
    · intro hf r hr
      exact hc hf r (by simp [hr])

/-- with `LastLe`, a transaction that supplies a (non-`None`) state runs on it -/
theorem usedState_of_lastLe (env : Env) (st : State) (r : TReq) (h : LastLe (st r.w))
    (hp : r.pstate ≠ none) : (stepTx env st r).2.usedState r := by
  intro u hu
  have hpq := stepTx_used env _ r u hu
  rcases wtxPrepare_ok env _ r _ u hpq with ⟨h1, h2, _⟩ | ⟨_, h2, _⟩ | ⟨_, h2, _⟩
  · have hb := (txSend_reuse _ r).1 h1
    cases hps : r.pstate with
    | none => exact absurd hps hp
    | some p =>
      rw [hps] at hb
      have := h p hb
      rw [h2] at this
      exact this
  · exact h2.symm
  · exact h2.symm

/-- **C17_intx for the repaired pool.** -/
theorem intx_fixed (fixC : Bool) (env : Env) (init : Side) (pre : List Req) (r : TReq)
    (hc : fixC = false → CompileNoStateLoss pre) (hp : r.pstate ≠ none) :
    (stepTx env (execFix fixC env (initState init) pre) r).2.usedState r :=
  usedState_of_lastLe env _ r
    (lastLe_execFix fixC env pre (initState init) (fun _ x hx => by simp [initState] at hx) hc r.w) hp

end EdbVerif.Sync
