/-
C16 safety: the waiter bookkeeping `InvQ` (incl. no-lost-wakeup `Inv₂`) — part 1:
operations that do not touch the waiter-relevant view of the state.
-/
import EdbVerif.Lemmas.PoolGen

namespace EdbVerif.Pool

/-- `b'` looks like `b` to the waiter bookkeeping (its stack may have shrunk) -/
def QLe (b' b : Block) : Prop :=
  b'.uid = b.uid ∧ b'.queue = b.queue ∧ b'.waitersNum = b.waitersNum ∧ b'.stack.length ≤ b.stack.length

theorem QLe.refl (b : Block) : QLe b b := ⟨rfl, rfl, rfl, Nat.le_refl _⟩

theorem QLe.trans {a b c : Block} (h1 : QLe a b) (h2 : QLe b c) : QLe a c :=
  ⟨h1.1.trans h2.1, h1.2.1.trans h2.2.1, h1.2.2.1.trans h2.2.2.1, Nat.le_trans h1.2.2.2 h2.2.2.2⟩

/-- `s'` is `s` as far as `InvQ` can see -/
structure VS (s' s : State) : Prop where
  sub : ∀ b' ∈ s'.blocks, ∃ b ∈ s.blocks, QLe b' b
  sup : ∀ b ∈ s.blocks, ∃ b' ∈ s'.blocks, QLe b' b
  w : s'.waiters = s.waiters
  h : s'.holders = s.holders
  p : s'.prunes = s.prunes

theorem VS.refl (s : State) : VS s s :=
  ⟨fun b hb => ⟨b, hb, QLe.refl b⟩, fun b hb => ⟨b, hb, QLe.refl b⟩, rfl, rfl, rfl⟩

theorem VS.trans {a b c : State} (h1 : VS a b) (h2 : VS b c) : VS a c := by
  refine ⟨?_, ?_, h1.w.trans h2.w, h1.h.trans h2.h, h1.p.trans h2.p⟩
  · intro x hx
    obtain ⟨y, hy, hxy⟩ := h1.sub x hx
    obtain ⟨z, hz, hyz⟩ := h2.sub y hy
    exact ⟨z, hz, hxy.trans hyz⟩
  · intro z hz
    obtain ⟨y, hy, hyz⟩ := h2.sup z hz
    obtain ⟨x, hx, hxy⟩ := h1.sup y hy
    exact ⟨x, hx, hxy.trans hyz⟩

/-- same blocks (as a set), same waiters / holders / prunes -/
theorem VS.ofMem {s' s : State} (hb : ∀ b, b ∈ s'.blocks ↔ b ∈ s.blocks)
    (hw : s'.waiters = s.waiters) (hh : s'.holders = s.holders) (hp : s'.prunes = s.prunes) : VS s' s :=
  ⟨fun b h => ⟨b, (hb b).mp h, QLe.refl b⟩, fun b h => ⟨b, (hb b).mpr h, QLe.refl b⟩, hw, hh, hp⟩

theorem VS.ofCore {s' s : State} (h : SameCore s' s) : VS s' s := by
  obtain ⟨_, _, hb, _, _, _, _, hw, hh, hp, _, _⟩ := h
  exact VS.ofMem (fun b => by rw [hb]) hw hh hp

theorem mem_modB_of_mem {bs : List Block} {u : Nat} {f : Block → Block} {b : Block} (h : b ∈ bs) :
    (if b.uid == u then f b else b) ∈ modB bs u f := by
  unfold modB
  exact List.mem_map_of_mem (f := fun b => if b.uid == u then f b else b) h

/-- updating blocks `u` with a view-preserving `f` -/
theorem VS.mod (s : State) (u : Nat) (f : Block → Block) (hf : ∀ b, QLe (f b) b) : VS (s.mod u f) s := by
  refine ⟨?_, ?_, rfl, rfl, rfl⟩
  · intro x hx
    obtain ⟨b0, hb0, h | ⟨_, h⟩⟩ := mem_modB hx
    · exact ⟨b0, hb0, h ▸ QLe.refl b0⟩
    · exact ⟨b0, hb0, h ▸ hf b0⟩
  · intro b hb
    refine ⟨_, mem_modB_of_mem hb, ?_⟩
    by_cases h : b.uid == u
    · simp only [h, ↓reduceIte]; exact hf b
    · simp only [h, Bool.false_eq_true, ↓reduceIte]; exact QLe.refl b

theorem VS.map (s : State) (f : Block → Block) (hf : ∀ b, QLe (f b) b) :
    VS { s with blocks := s.blocks.map f } s := by
  refine ⟨?_, ?_, rfl, rfl, rfl⟩
  · intro x hx
    obtain ⟨b0, hb0, rfl⟩ := List.mem_map.mp hx
    exact ⟨b0, hb0, hf b0⟩
  · intro b hb
    exact ⟨f b, List.mem_map_of_mem hb, hf b⟩

theorem Inert.qle {f : Block → Block} (hf : Inert f) (b : Block) : QLe (f b) b := by
  rw [hf b]; exact ⟨rfl, rfl, rfl, Nat.le_refl _⟩

theorem wokenOf_congr {s' s : State} (h : s'.waiters = s.waiters) (u : Nat) : wokenOf s' u = wokenOf s u := by
  unfold wokenOf; rw [h]

/-- `InvQ` only depends on the view -/
theorem InvQ.ofVS {s' s : State} (h : InvQ s) (v : VS s' s) : InvQ s' := by
  refine ⟨by rw [v.w]; exact h.wids, ?_, ?_, ?_, ?_, ?_, ?_, by rw [v.p, v.w]; exact h.noPrune,
    by rw [v.w, v.h]; exact h.hdis, by rw [v.h]; exact h.hreq⟩
  · intro b' hb'
    obtain ⟨b, hb, hq⟩ := v.sub b' hb'
    rw [hq.2.1]; exact h.qnd b hb
  · intro b' hb' r hr
    obtain ⟨b, hb, hq⟩ := v.sub b' hb'
    rw [hq.2.1] at hr
    rw [v.w, hq.1]; exact h.qmem b hb r hr
  · intro w hw hst
    rw [v.w] at hw
    obtain ⟨b, hb, hu, hm⟩ := h.qall w hw hst
    obtain ⟨b', hb', hq⟩ := v.sup b hb
    exact ⟨b', hb', hq.1.trans hu, by rw [hq.2.1]; exact hm⟩
  · intro w hw
    rw [v.w] at hw
    obtain ⟨b, hb, hu⟩ := h.known w hw
    obtain ⟨b', hb', hq⟩ := v.sup b hb
    exact ⟨b', hb', hq.1.trans hu⟩
  · intro b' hb'
    obtain ⟨b, hb, hq⟩ := v.sub b' hb'
    rw [v.w, hq.2.2.1, hq.1]; exact h.num b hb
  · intro b' hb' hne
    obtain ⟨b, hb, hq⟩ := v.sub b' hb'
    rw [hq.2.1] at hne
    have := h.inv2 b hb hne
    rw [wokenOf_congr v.w, hq.1]
    exact Nat.le_trans hq.2.2.2 this

/-! ### view-sameness of the primitives that only touch connections, counters and tasks -/

theorem VS.fields {s' s : State} (hb : s'.blocks = s.blocks) (hw : s'.waiters = s.waiters)
    (hh : s'.holders = s.holders) (hp : s'.prunes = s.prunes) : VS s' s :=
  VS.ofMem (fun b => by rw [hb]) hw hh hp

theorem VS.via {s' s1 s : State} (v : VS s1 s) (hb : s'.blocks = s1.blocks) (hw : s'.waiters = s1.waiters)
    (hh : s'.holders = s1.holders) (hp : s'.prunes = s1.prunes) : VS s' s :=
  VS.trans (VS.fields hb hw hh hp) v

theorem VS.toEnd (s : State) (u : Nat) : VS { s with blocks := toEnd s.blocks u } s :=
  VS.ofMem (fun _ => mem_toEnd) rfl rfl rfl

theorem VS.toFront (s : State) (u : Nat) : VS { s with blocks := toFront s.blocks u } s :=
  VS.ofMem (fun _ => mem_toFront) rfl rfl rfl

/-- `QLe` of a record update that keeps uid, queue, waitersNum and stack -/
theorem qle_of_same {b' b : Block} (h1 : b'.uid = b.uid) (h2 : b'.queue = b.queue)
    (h3 : b'.waitersNum = b.waitersNum) (h4 : b'.stack = b.stack) : QLe b' b :=
  ⟨h1, h2, h3, by rw [h4]; exact Nat.le_refl _⟩

theorem schedNew_vs (s : State) (u : Nat) : VS (schedNew s u) s := by
  unfold schedNew
  split
  · exact VS.fields rfl rfl rfl rfl
  · have v0 : VS ({ s with cur := s.cur + 1 } : State) s := VS.fields rfl rfl rfl rfl
    have v1 : VS (({ s with cur := s.cur + 1 } : State).mod u fun b => { b with pending := b.pending + 1 }) s :=
      VS.trans (VS.mod _ u _ (by intro b; exact qle_of_same rfl rfl rfl rfl)) v0
    simp only
    split
    · exact VS.trans (VS.fields (s := { (({ s with cur := s.cur + 1 } : State).mod u fun b => { b with pending := b.pending + 1 }) with
          blocks := Pool.toEnd (({ s with cur := s.cur + 1 } : State).mod u fun b => { b with pending := b.pending + 1 }).blocks u })
        rfl rfl rfl rfl) (VS.trans (VS.toEnd _ u) v1)
    · exact VS.via v1 rfl rfl rfl rfl

theorem schedDiscard_vs (s : State) (u c : Nat) (bh : Bool) : VS (schedDiscard s u c bh) s := by
  unfold schedDiscard; exact VS.fields rfl rfl rfl rfl

theorem schedXfer_vs (s : State) (f c t : Nat) (bh : Bool) : VS (schedXfer s f c t bh) s := by
  unfold schedXfer
  split
  · split
    · have v0 : VS (s.mod f fun b => { b with conns := b.conns.filter (·.1 != c) }) s :=
        VS.mod _ f _ (by intro b; exact qle_of_same rfl rfl rfl rfl)
      have v1 : VS ((s.mod f fun b => { b with conns := b.conns.filter (·.1 != c) }).mod t
          fun b => { b with pending := b.pending + 1 }) s :=
        VS.trans (VS.mod _ t _ (by intro b; exact qle_of_same rfl rfl rfl rfl)) v0
      simp only
      split
      · refine VS.trans (VS.fields (s := { ((s.mod f fun b => { b with conns := b.conns.filter (·.1 != c) }).mod t
            fun b => { b with pending := b.pending + 1 }) with
            blocks := Pool.toEnd (Pool.toEnd ((s.mod f fun b => { b with conns := b.conns.filter (·.1 != c) }).mod t
              fun b => { b with pending := b.pending + 1 }).blocks t) f }) rfl rfl rfl rfl) ?_
        refine VS.trans ?_ v1
        exact VS.ofMem (fun b => by
          show b ∈ Pool.toEnd (Pool.toEnd _ t) f ↔ _
          rw [mem_toEnd, mem_toEnd]) rfl rfl rfl
      · exact VS.via v1 rfl rfl rfl rfl
    · exact VS.fields rfl rfl rfl rfl
  · exact VS.fields rfl rfl rfl rfl

theorem taskStart_vs (s : State) (tid : Nat) : VS (taskStart s tid) s := by
  unfold taskStart
  split
  · exact VS.fields rfl rfl rfl rfl
  · rename_i u c hh _
    split
    · exact VS.fields rfl rfl rfl rfl
    · split
      · have v0 : VS (s.mod u fun b => { b with conns := b.conns.filter (·.1 != c) }) s :=
          VS.mod _ u _ (by intro b; exact qle_of_same rfl rfl rfl rfl)
        exact VS.via v0 rfl rfl rfl rfl
      · exact VS.fields rfl rfl rfl rfl
  · exact VS.fields rfl rfl rfl rfl
  · exact VS.fields rfl rfl rfl rfl
  · exact VS.fields rfl rfl rfl rfl

theorem discDone_vs (s : State) (tid : Nat) (ok : Bool) : VS (discDone s tid ok) s := by
  unfold discDone
  split
  · exact VS.fields rfl rfl rfl rfl
  · exact VS.fields rfl rfl rfl rfl
  · exact VS.fields rfl rfl rfl rfl
  · exact VS.fields rfl rfl rfl rfl

theorem eq_of_uid {bs : List Block} (h : (bs.map (·.uid)).Nodup) {a b : Block}
    (ha : a ∈ bs) (hb : b ∈ bs) (e : a.uid = b.uid) : a = b := by
  induction bs with
  | nil => simp at ha
  | cons x xs ih =>
    simp only [List.map_cons, List.nodup_cons] at h
    rcases List.mem_cons.mp ha with ha | ha <;> rcases List.mem_cons.mp hb with hb | hb
    · rw [ha, hb]
    · exfalso; apply h.1; rw [← ha, e]; exact List.mem_map_of_mem (f := (·.uid)) hb
    · exfalso; apply h.1; rw [← hb, ← e]; exact List.mem_map_of_mem (f := (·.uid)) ha
    · exact ih h.2 ha hb

/-- changing the one block `u` (found as `b`) into something that looks like it -/
theorem VS.mod1 {s : State} (hu : (s.blocks.map (·.uid)).Nodup) {u : Nat} {b : Block}
    (hb : s.find u = some b) (f : Block → Block) (hf : QLe (f b) b) : VS (s.mod u f) s := by
  have hbm := State.find_some hb
  refine ⟨?_, ?_, rfl, rfl, rfl⟩
  · intro x hx
    obtain ⟨b0, hb0, h | ⟨hu0, h⟩⟩ := mem_modB hx
    · exact ⟨b0, hb0, h ▸ QLe.refl b0⟩
    · have : b0 = b := eq_of_uid hu hb0 hbm.1 (hu0.trans hbm.2.symm)
      subst this
      exact ⟨b0, hb0, h ▸ hf⟩
  · intro b1 hb1
    refine ⟨_, mem_modB_of_mem hb1, ?_⟩
    by_cases h : b1.uid == u
    · have : b1 = b := eq_of_uid hu hb1 hbm.1 ((by simpa using h : b1.uid = u).trans hbm.2.symm)
      subst this
      simp only [h, ↓reduceIte]; exact hf
    · simp only [h, Bool.false_eq_true, ↓reduceIte]; exact QLe.refl b1

theorem steal_vs {s : State} (hu : (s.blocks.map (·.uid)).Nodup) (u : Nat) : VS (steal s u).1 s := by
  unfold steal
  split
  · rename_i b hb
    split
    · exact VS.refl s
    · rename_i c rest hst
      exact VS.mod1 hu hb _ ⟨rfl, rfl, rfl, by
        show rest.length ≤ b.stack.length
        rw [hst]; simp⟩
  · exact VS.refl s

/-! ### the clauses of `InvQ` other than `Inv₂`, and `Inv₂` relaxed by `k` at one block -/

structure InvQc (s : State) : Prop where
  wids : (s.waiters.map (·.id)).Nodup
  qnd : ∀ b ∈ s.blocks, b.queue.Nodup
  qmem : ∀ b ∈ s.blocks, ∀ r ∈ b.queue, ∃ w ∈ s.waiters, w.id = r ∧ w.block = b.uid ∧ w.st = .queued
  qall : ∀ w ∈ s.waiters, w.st = .queued → ∃ b ∈ s.blocks, b.uid = w.block ∧ w.id ∈ b.queue
  known : ∀ w ∈ s.waiters, ∃ b ∈ s.blocks, b.uid = w.block
  num : ∀ b ∈ s.blocks, b.waitersNum = ((s.waiters.filter fun w => w.block == b.uid).length : Int)
  noPrune : s.prunes = [] ∧ ∀ w ∈ s.waiters, w.prune = false
  hdis : ∀ w ∈ s.waiters, ∀ h ∈ s.holders, h.req ≠ w.id
  hreq : (s.holders.map (·.req)).Nodup

def Inv2r (s : State) (u k : Nat) : Prop :=
  ∀ b ∈ s.blocks, b.queue ≠ [] → b.stack.length ≤ wokenOf s b.uid + (if b.uid = u then k else 0)

theorem InvQ.c {s : State} (h : InvQ s) : InvQc s :=
  ⟨h.wids, h.qnd, h.qmem, h.qall, h.known, h.num, h.noPrune, h.hdis, h.hreq⟩

theorem InvQ.r {s : State} (h : InvQ s) (u : Nat) : Inv2r s u 0 := by
  intro b hb hne; have := h.inv2 b hb hne; simpa using this

theorem InvQ.join {s : State} (c : InvQc s) (u : Nat) (r : Inv2r s u 0) : InvQ s :=
  ⟨c.wids, c.qnd, c.qmem, c.qall, c.known, c.num,
    fun b hb hne => by have := r b hb hne; simpa using this, c.noPrune, c.hdis, c.hreq⟩

/-! ### waking -/

theorem setWoken_id (r : Nat) (w : Waiter) : (setWoken r w).id = w.id := by
  unfold setWoken; split <;> rfl
theorem setWoken_block (r : Nat) (w : Waiter) : (setWoken r w).block = w.block := by
  unfold setWoken; split <;> rfl
theorem setWoken_prune (r : Nat) (w : Waiter) : (setWoken r w).prune = w.prune := by
  unfold setWoken; split <;> rfl
theorem setWoken_ne {r : Nat} {w : Waiter} (h : w.id ≠ r) : setWoken r w = w := by
  unfold setWoken; simp [h]
theorem setWoken_eq {r : Nat} {w : Waiter} (h : w.id = r) : setWoken r w = { w with st := .woken } := by
  unfold setWoken; simp [h]

theorem length_filter_block_map (ws : List Waiter) (g : Waiter → Waiter) (hg : ∀ w, (g w).block = w.block)
    (v : Nat) : ((ws.map g).filter fun w => w.block == v).length = (ws.filter fun w => w.block == v).length := by
  induction ws with
  | nil => rfl
  | cons x xs ih =>
    simp only [List.map_cons, List.filter_cons, hg x]
    split <;> simp [ih]

/-- waiters with distinct ids are determined by their id -/
theorem waiter_eq_of_id {ws : List Waiter} (hnd : (ws.map (·.id)).Nodup) {a b : Waiter}
    (ha : a ∈ ws) (hb : b ∈ ws) (e : a.id = b.id) : a = b := by
  induction ws with
  | nil => simp at ha
  | cons x xs ih =>
    simp only [List.map_cons, List.nodup_cons] at hnd
    rcases List.mem_cons.mp ha with ha | ha <;> rcases List.mem_cons.mp hb with hb | hb
    · rw [ha, hb]
    · exfalso; apply hnd.1; rw [← ha, e]; exact List.mem_map_of_mem (f := (·.id)) hb
    · exfalso; apply hnd.1; rw [← hb, ← e]; exact List.mem_map_of_mem (f := (·.id)) ha
    · exact ih hnd.2 ha hb

/-- waking the (unique) sleeping waiter `w0`: one more woken waiter on its block -/
theorem woken_after (ws : List Waiter) (r : Nat) (w0 : Waiter) (hnd : (ws.map (·.id)).Nodup)
    (hm : w0 ∈ ws) (hid : w0.id = r) (hst : w0.st = .queued) (v : Nat) :
    ((ws.map (setWoken r)).filter fun w => w.block == v && w.st == .woken).length =
      (ws.filter fun w => w.block == v && w.st == .woken).length + (if w0.block == v then 1 else 0) := by
  induction ws with
  | nil => simp at hm
  | cons x xs ih =>
    simp only [List.map_cons, List.nodup_cons] at hnd
    by_cases hx : x.id = r
    · have hxw : x = w0 := by
        rcases List.mem_cons.mp hm with h | h
        · exact h.symm
        · exfalso; apply hnd.1; rw [hx, ← hid]; exact List.mem_map_of_mem (f := (·.id)) h
      have hrest : xs.map (setWoken r) = xs := by
        conv => rhs; rw [← List.map_id xs]
        apply List.map_congr_left
        intro y hy
        apply setWoken_ne
        intro hyr; apply hnd.1; rw [hx, ← hyr]; exact List.mem_map_of_mem (f := (·.id)) hy
      subst hxw
      simp only [List.map_cons, hrest, setWoken_eq hx, List.filter_cons, hst]
      by_cases hb : x.block == v <;> simp [hb]
    · have hm' : w0 ∈ xs := by
        rcases List.mem_cons.mp hm with h | h
        · exfalso; apply hx; rw [← h]; exact hid
        · exact h
      have := ih hnd.2 hm'
      simp only [List.map_cons, setWoken_ne hx, List.filter_cons]
      split <;> simp [this] <;> omega

/-- the heart of no-lost-wakeup: the head `r` of the queue of block `u` is woken.
    `s'` is any state whose blocks are `s`'s with that queue popped and whose waiters
    are `s`'s with `r` marked woken; `Inv₂` of `s` may be relaxed by `k ≤ 1` at `u`
    (one connection was just pushed). -/
theorem wake_core {s s' : State} (hu : (s.blocks.map (·.uid)).Nodup) (c : InvQc s) {u k : Nat}
    {b : Block} (hb : s.find u = some b) {r : Nat} {rest : List Nat} (hq : b.queue = r :: rest)
    (hB : s'.blocks = modB s.blocks u fun b => { b with queue := rest })
    (hW : s'.waiters = s.waiters.map (setWoken r)) (hH : s'.holders = s.holders)
    (hP : s'.prunes = s.prunes) (hk : k ≤ 1) (r2 : Inv2r s u k) : InvQ s' := by
  have hbm := State.find_some hb
  obtain ⟨w0, hw0, hid, hblk, hst⟩ := c.qmem b hbm.1 r (by rw [hq]; simp)
  have hqn : (r :: rest).Nodup := hq ▸ c.qnd b hbm.1
  have hnd' : ((modB s.blocks u fun b => { b with queue := rest }).map (·.uid)).Nodup := by
    have := map_uid_modB s.blocks u (fun b => { b with queue := rest }) (fun _ => rfl)
    rw [this]; exact hu
  have himb : ({ b with queue := rest } : Block) ∈ modB s.blocks u fun b => { b with queue := rest } := by
    have him := mem_modB_of_mem (u := u) (f := fun b => { b with queue := rest }) hbm.1
    have hb0u : (b.uid == u) = true := by simp [hbm.2]
    simpa [hb0u] using him
  -- every block of `s'` is an untouched block of `s` with another uid, or the popped `b`
  have hblocks : ∀ x ∈ s'.blocks, (x.uid ≠ u ∧ x ∈ s.blocks) ∨ (x = { b with queue := rest }) := by
    intro x hx
    rw [hB] at hx
    by_cases hxu : x.uid = u
    · right; exact eq_of_uid hnd' hx himb (by rw [hxu]; exact hbm.2.symm)
    · left
      obtain ⟨b0, hb0, h | ⟨hu0, h⟩⟩ := mem_modB hx
      · exact ⟨hxu, h ▸ hb0⟩
      · exfalso; apply hxu; rw [h]; exact hu0
  have hmapmem : ∀ w' ∈ s.waiters, w'.id ≠ r → w' ∈ s.waiters.map (setWoken r) := by
    intro w' hw' hne
    have := List.mem_map_of_mem (f := setWoken r) hw'
    rwa [setWoken_ne hne] at this
  have hwok : ∀ v, wokenOf s' v = wokenOf s v + (if w0.block == v then 1 else 0) := by
    intro v
    unfold wokenOf
    rw [hW]
    exact woken_after s.waiters r w0 c.wids hw0 hid hst v
  refine ⟨?_, ?_, ?_, ?_, ?_, ?_, ?_, ?_, ?_, ?_⟩
  · -- wids
    rw [hW, List.map_map]
    have : ((fun w : Waiter => w.id) ∘ setWoken r) = fun w : Waiter => w.id := funext (setWoken_id r)
    rw [this]; exact c.wids
  · -- qnd
    intro x hx
    rcases hblocks x hx with ⟨_, hxs⟩ | hxe
    · exact c.qnd x hxs
    · rw [hxe]; exact (List.nodup_cons.mp hqn).2
  · -- qmem
    intro x hx r' hr'
    rw [hW]
    rcases hblocks x hx with ⟨hxu, hxs⟩ | hxe
    · obtain ⟨w', hw', hid', hb', hst'⟩ := c.qmem x hxs r' hr'
      have hne : w'.id ≠ r := by
        intro e
        have : w' = w0 := waiter_eq_of_id c.wids hw' hw0 (e.trans hid.symm)
        apply hxu
        rw [← hb', this, hblk, hbm.2]
      exact ⟨w', hmapmem w' hw' hne, hid', hb', hst'⟩
    · rw [hxe] at hr' ⊢
      have hr'' : r' ∈ rest := hr'
      have hne : r' ≠ r := fun e => (List.nodup_cons.mp hqn).1 (e ▸ hr'')
      obtain ⟨w', hw', hid', hb', hst'⟩ := c.qmem b hbm.1 r' (by rw [hq]; exact List.mem_cons_of_mem _ hr'')
      exact ⟨w', hmapmem w' hw' (hid' ▸ hne), hid', hb', hst'⟩
  · -- qall
    intro w hw hstw
    rw [hW] at hw
    obtain ⟨w1, hw1, rfl⟩ := List.mem_map.mp hw
    by_cases hid1 : w1.id = r
    · rw [setWoken_eq hid1] at hstw; simp at hstw
    · rw [setWoken_ne hid1] at hstw ⊢
      obtain ⟨b1, hb1, hu1, hm1⟩ := c.qall w1 hw1 hstw
      have him := mem_modB_of_mem (u := u) (f := fun b => { b with queue := rest }) hb1
      rw [hB]
      refine ⟨_, him, ?_, ?_⟩
      · split <;> exact hu1
      · by_cases hbu : b1.uid == u
        · have : b1 = b := eq_of_uid hu hb1 hbm.1 ((by simpa using hbu : b1.uid = u).trans hbm.2.symm)
          subst this
          simp only [hbu, ↓reduceIte]
          rcases List.mem_cons.mp (hq ▸ hm1) with h | h
          · exact absurd h hid1
          · exact h
        · simp only [hbu, Bool.false_eq_true, ↓reduceIte]; exact hm1
  · -- known
    intro w hw
    rw [hW] at hw
    obtain ⟨w1, hw1, rfl⟩ := List.mem_map.mp hw
    obtain ⟨b1, hb1, hu1⟩ := c.known w1 hw1
    have him := mem_modB_of_mem (u := u) (f := fun b => { b with queue := rest }) hb1
    rw [hB, setWoken_block]
    refine ⟨_, him, ?_⟩
    split <;> exact hu1
  · -- num
    intro x hx
    rw [hW, length_filter_block_map _ _ (setWoken_block r)]
    rcases hblocks x hx with ⟨_, hxs⟩ | hxe
    · exact c.num x hxs
    · rw [hxe]; exact c.num b hbm.1
  · -- inv2
    intro x hx hne
    rw [hwok]
    rcases hblocks x hx with ⟨hxu, hxs⟩ | hxe
    · have := r2 x hxs hne
      simp only [hxu, ↓reduceIte, Nat.add_zero] at this
      omega
    · rw [hxe]
      have := r2 b hbm.1 (by rw [hq]; simp)
      simp only [hbm.2, ↓reduceIte] at this
      rw [← hbm.2] at this
      have hwb : (w0.block == ({ b with queue := rest } : Block).uid) = true := by
        show (w0.block == b.uid) = true
        simp [hblk]
      rw [hwb]
      show b.stack.length ≤ wokenOf s b.uid + 1
      omega
  · -- noPrune
    rw [hP, hW]
    refine ⟨c.noPrune.1, ?_⟩
    intro w hw
    obtain ⟨w1, hw1, rfl⟩ := List.mem_map.mp hw
    rw [setWoken_prune]; exact c.noPrune.2 w1 hw1
  · -- hdis
    rw [hW, hH]
    intro w hw h hh
    obtain ⟨w1, hw1, rfl⟩ := List.mem_map.mp hw
    rw [setWoken_id]; exact c.hdis w1 hw1 h hh
  · rw [hH]; exact c.hreq

/-- `_wakeup_next_waiter` on a state whose `Inv₂` is relaxed by `k ≤ 1` at block `u`
    (`k = 1` only if the queue of `u` is non-empty or irrelevant) -/
theorem wakeNext_q {s : State} (hu : (s.blocks.map (·.uid)).Nodup) (c : InvQc s) (u k : Nat)
    (hk : k ≤ 1) (r2 : Inv2r s u k) : InvQ (wakeNext s u) := by
  unfold wakeNext
  split
  · rename_i b hb
    split
    · rename_i hq
      -- empty queue: nothing happens; the relaxed clause at `u` is vacuous
      refine InvQ.join c u ?_
      intro x hx hne
      have := r2 x hx hne
      by_cases hxu : x.uid = u
      · have : x = b := eq_of_uid hu hx (State.find_some hb).1 (hxu.trans (State.find_some hb).2.symm)
        subst this; exact absurd hq hne
      · simpa [hxu] using this
    · rename_i r rest hq
      exact wake_core hu c hb hq rfl rfl rfl rfl hk r2
  · rename_i hnone
    refine InvQ.join c u ?_
    intro b hb hne
    have := r2 b hb hne
    have hbu : b.uid ≠ u := findB_none hnone b hb
    simpa [hbu] using this

/-! ### `InvQc` does not look at the stacks -/

/-- same uid / queue / `conn_waiters_num` -/
def QC (b' b : Block) : Prop := b'.uid = b.uid ∧ b'.queue = b.queue ∧ b'.waitersNum = b.waitersNum

theorem InvQc.ofBlocks {s' s : State} (c : InvQc s)
    (sub : ∀ b' ∈ s'.blocks, ∃ b ∈ s.blocks, QC b' b) (sup : ∀ b ∈ s.blocks, ∃ b' ∈ s'.blocks, QC b' b)
    (hw : s'.waiters = s.waiters) (hh : s'.holders = s.holders) (hp : s'.prunes = s.prunes) : InvQc s' := by
  refine ⟨by rw [hw]; exact c.wids, ?_, ?_, ?_, ?_, ?_, by rw [hp, hw]; exact c.noPrune,
    by rw [hw, hh]; exact c.hdis, by rw [hh]; exact c.hreq⟩
  · intro b' hb'
    obtain ⟨b, hb, hq⟩ := sub b' hb'
    rw [hq.2.1]; exact c.qnd b hb
  · intro b' hb' r hr
    obtain ⟨b, hb, hq⟩ := sub b' hb'
    rw [hq.2.1] at hr
    rw [hw, hq.1]; exact c.qmem b hb r hr
  · intro w hw' hst
    rw [hw] at hw'
    obtain ⟨b, hb, hu, hm⟩ := c.qall w hw' hst
    obtain ⟨b', hb', hq⟩ := sup b hb
    exact ⟨b', hb', hq.1.trans hu, by rw [hq.2.1]; exact hm⟩
  · intro w hw'
    rw [hw] at hw'
    obtain ⟨b, hb, hu⟩ := c.known w hw'
    obtain ⟨b', hb', hq⟩ := sup b hb
    exact ⟨b', hb', hq.1.trans hu⟩
  · intro b' hb'
    obtain ⟨b, hb, hq⟩ := sub b' hb'
    rw [hw, hq.2.2, hq.1]; exact c.num b hb

/-- pushing a connection on the stack of block `u` -/
theorem push_q {s : State} (h : InvQ s) (u c : Nat) :
    InvQc (s.mod u fun b => { b with stack := b.stack ++ [c] }) ∧
    Inv2r (s.mod u fun b => { b with stack := b.stack ++ [c] }) u 1 := by
  constructor
  · refine h.c.ofBlocks ?_ ?_ rfl rfl rfl
    · intro x hx
      obtain ⟨b0, hb0, e | ⟨_, e⟩⟩ := mem_modB hx
      · exact ⟨b0, hb0, e ▸ ⟨rfl, rfl, rfl⟩⟩
      · exact ⟨b0, hb0, e ▸ ⟨rfl, rfl, rfl⟩⟩
    · intro b hb
      refine ⟨_, mem_modB_of_mem hb, ?_⟩
      split <;> exact ⟨rfl, rfl, rfl⟩
  · intro x hx hne
    have hw : wokenOf (s.mod u fun b => { b with stack := b.stack ++ [c] }) x.uid = wokenOf s x.uid := rfl
    rw [hw]
    obtain ⟨b0, hb0, e | ⟨hu0, e⟩⟩ := mem_modB hx
    · subst e
      have := h.inv2 x hb0 hne
      omega
    · subst e
      have := h.inv2 b0 hb0 hne
      simp only [hu0, ↓reduceIte, List.length_append, List.length_cons, List.length_nil]
      rw [hu0] at this
      omega

theorem blockRelease_q {s : State} (hu : (s.blocks.map (·.uid)).Nodup) (h : InvQ s) (u c : Nat) :
    InvQ (blockRelease s u c) := by
  unfold blockRelease
  obtain ⟨hc, hr⟩ := push_q h u c
  have hu' : ((s.mod u fun b => { b with stack := b.stack ++ [c] }).blocks.map (·.uid)).Nodup := by
    have := map_uid_modB s.blocks u (fun b => { b with stack := b.stack ++ [c] }) (fun _ => rfl)
    show ((modB s.blocks u fun b => { b with stack := b.stack ++ [c] }).map (·.uid)).Nodup
    rw [this]; exact hu
  exact wakeNext_q hu' hc u 1 (Nat.le_refl 1) hr

end EdbVerif.Pool
