/-
C07 — the formula of `get_rewrite_filter` implements the allow/deny decision.
-/
import EdbVerif.Model.PolicySpec

namespace EdbVerif.Policy

theorem denote_orChain (ρ : CondId → Bool) (e : BExpr) (es : List BExpr) :
    denote ρ (orChain e es) = (denote ρ e || es.any (denote ρ)) := by
  unfold orChain
  induction es generalizing e with
  | nil => simp
  | cons x xs ih =>
    simp only [List.foldl_cons, List.any_cons]
    rw [ih]
    simp [denote, Bool.or_assoc]

theorem denote_allowPart (ρ : CondId → Bool) (l : List BExpr) :
    denote ρ (allowPart l) = l.any (denote ρ) := by
  cases l with
  | nil => rfl
  | cons a as => simp [allowPart, denote_orChain]

theorem denote_denyPart (ρ : CondId → Bool) (f : BExpr) (l : List BExpr) :
    denote ρ (denyPart f l) = (denote ρ f && !l.any (denote ρ)) := by
  cases l with
  | nil => simp [denyPart]
  | cons a as => simp [denyPart, denote, denote_orChain]

theorem any_filter_eq {α} (l : List α) (p q : α → Bool) :
    (l.filter p).any q = l.any (fun x => p x && q x) := by
  induction l with
  | nil => rfl
  | cons x xs ih =>
    simp only [List.filter_cons, List.any_cons]
    cases hp : p x <;> simp [ih]

theorem rewriteFilter_none_iff (mode : Kind) (pols : List Pol) :
    rewriteFilter mode pols = none ↔ pols = [] := by
  unfold rewriteFilter
  cases pols <;> simp

theorem any_conds (ρ : CondId → Bool) (mode : Kind) (q : Pol → Bool) (pols : List Pol) :
    ((((pols.filter (applies mode)).filter q).map (fun p => BExpr.cond p.cond)).any (denote ρ))
      = pols.any (fun p => applies mode p && q p && ρ p.cond) := by
  induction pols with
  | nil => rfl
  | cons p ps ih =>
    have e : (fun a => q a && applies mode a && ρ a.cond) = (fun p => applies mode p && q p && ρ p.cond) := by
      funext a; cases q a <;> cases applies mode a <;> rfl
    simp only [List.filter_cons, List.any_cons]
    cases h1 : applies mode p <;> cases h2 : q p <;> simp [h2, denote] <;> rw [e]

/-- `C07_filter`, for every access kind. -/
theorem denote_rewriteFilter (mode : Kind) (pols : List Pol) (f : BExpr)
    (h : rewriteFilter mode pols = some f) (ρ : CondId → Bool) :
    denote ρ f = decision mode pols ρ := by
  unfold rewriteFilter at h
  cases hp : pols.isEmpty
  · simp only [hp, Bool.false_eq_true, ↓reduceIte, Option.some.injEq] at h
    have key : denote ρ (denyPart (allowPart (((pols.filter (applies mode)).filter (·.allow)).map
          (fun p => BExpr.cond p.cond)))
        (((pols.filter (applies mode)).filter (fun p => !p.allow)).map (fun p => BExpr.cond p.cond)))
        = decision mode pols ρ := by
      rw [denote_denyPart, denote_allowPart, any_conds, any_conds]
      rfl
    subst h
    by_cases hm : mode = Kind.select
    · simp only [hm, ↓reduceIte, denote, Bool.or_false]
      rw [hm] at key
      exact key
    · simp only [hm, ↓reduceIte]
      exact key
  · simp [hp] at h

theorem decision_iff (mode : Kind) (pols : List Pol) (ρ : CondId → Bool) :
    decision mode pols ρ = true ↔
      (∃ p ∈ pols, mode ∈ p.kinds ∧ p.allow = true ∧ ρ p.cond = true) ∧
      ¬ ∃ p ∈ pols, mode ∈ p.kinds ∧ p.allow = false ∧ ρ p.cond = true := by
  unfold decision applies
  rw [Bool.and_eq_true, Bool.not_eq_true', List.any_eq_true, List.any_eq_false]
  constructor
  · rintro ⟨⟨p, hp, h⟩, hd⟩
    simp only [Bool.and_eq_true, List.contains_iff_mem] at h
    refine ⟨⟨p, hp, h.1.1, h.1.2, h.2⟩, ?_⟩
    rintro ⟨q, hq, hqk, hqa, hqr⟩
    have := hd q hq
    simp [hqa, hqr, hqk] at this
  · rintro ⟨⟨p, hp, hk, ha, hr⟩, hd⟩
    refine ⟨⟨p, hp, by simp [hk, ha, hr]⟩, ?_⟩
    intro q hq
    cases hh : (q.kinds.contains mode && !q.allow && ρ q.cond)
    · simp
    · exfalso
      simp only [Bool.and_eq_true, List.contains_iff_mem, Bool.not_eq_eq_eq_not, Bool.not_true] at hh
      exact hd ⟨q, hq, hh.1.1, hh.1.2, hh.2⟩

/-- the decision only looks at which policies are present -/
theorem decision_congr (mode : Kind) (l₁ l₂ : List Pol) (ρ : CondId → Bool)
    (h : ∀ p, p ∈ l₁ ↔ p ∈ l₂) : decision mode l₁ ρ = decision mode l₂ ρ := by
  rw [Bool.eq_iff_iff, decision_iff, decision_iff]
  constructor
  · rintro ⟨⟨p, hp, r⟩, hd⟩
    exact ⟨⟨p, (h p).1 hp, r⟩, fun ⟨q, hq, r'⟩ => hd ⟨q, (h q).2 hq, r'⟩⟩
  · rintro ⟨⟨p, hp, r⟩, hd⟩
    exact ⟨⟨p, (h p).2 hp, r⟩, fun ⟨q, hq, r'⟩ => hd ⟨q, (h q).1 hq, r'⟩⟩

end EdbVerif.Policy
