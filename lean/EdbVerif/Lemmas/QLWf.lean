/-
C01 — everything the parser model returns is in parser normal form (`WF`).
-/
import EdbVerif.Lemmas.QLSteps

namespace EdbVerif.QL
open EdbVerif.QLLex EdbVerif.Gen.Prec

theorem wf_negate (e : Expr) (h : wf e = true) : wf (negate e) = true := by
  cases e <;> simp_all [negate, wf, isNumE]

theorem wfList_append (xs : List Expr) (i : Expr) (hx : wfList xs = true) (hi : wf i = true) :
    wfList (xs ++ [i]) = true := by
  induction xs with
  | nil => simp [wfList, hi]
  | cons x xs ih =>
      simp only [wfList, Bool.and_eq_true] at hx
      simp [wfList, hx.1, ih hx.2]

theorem wf_mkIndex (l i : Expr) (hl : wf l = true) (hi : wf i = true) : wf (mkIndex l i) = true := by
  cases l <;> simp_all [mkIndex, wf, wfList, isIndexE]
  next a idx =>
    exact wfList_append idx i hl.1.1.2 hi

theorem wf_mkPath (l : Expr) (s : String) (hl : wf l = true) : wf (mkPath l s) = true := by
  cases l <;> simp_all [mkPath, wf, isPathE]

theorem isAtomTok_lit (k : LitKind) (s : String) (h : ¬ k.isNum = true) :
    isAtomTok (.lit k s) = true := by
  cases k <;> simp_all [isAtomTok, LitKind.isNum]

def WfAll (f : Nat) : Prop :=
  (∀ m ts e r, parseE f m ts = some (e, r) → wf e = true) ∧
  (∀ ts e r, parseOperand f ts = some (e, r) → wf e = true) ∧
  (∀ m na lhs ts e r, wf lhs = true → loop f m na lhs ts = some (e, r) → wf e = true) ∧
  (∀ c ts es r, parseArgs f c ts = some (es, r) → wfList es = true) ∧
  (∀ c ts es r, parseArgs1 f c ts = some (es, r) → wfList es = true)

theorem wfAll_zero : WfAll 0 := by
  refine ⟨?_, ?_, ?_, ?_, ?_⟩ <;> intros <;> simp_all [parseE, parseOperand, loop, parseArgs, parseArgs1]

theorem wfAll_succ (f : Nat) (ih : WfAll f) : WfAll (f + 1) := by
  obtain ⟨ihE, ihO, ihL, ihA, ihA1⟩ := ih
  refine ⟨?_, ?_, ?_, ?_, ?_⟩
  · -- parseE
    intro m ts e r h
    rw [parseE] at h
    split at h
    · next lhs r' heq => exact ihL _ _ _ _ _ _ (ihO _ _ _ heq) h
    · simp at h
  · -- parseOperand
    intro ts e r h
    unfold parseOperand at h
    split at h
    all_goals try (split at h)
    all_goals try (split at h)
    all_goals try (split at h)
    all_goals try (simp at h; done)
    all_goals first
      | (simp only [Option.some.injEq, Prod.mk.injEq] at h
         obtain ⟨rfl, rfl⟩ := h
         grind [wf, wfList, wf_negate, isAtomTok, isAtomTok_lit])
      | skip
  · -- loop
    intro m na lhs ts e r hl h
    unfold loop at h
    split at h
    all_goals try (split at h)
    all_goals try (split at h)
    all_goals try (split at h)
    all_goals try (split at h)
    all_goals try (simp at h; done)
    all_goals first
      | (simp only [Option.some.injEq, Prod.mk.injEq] at h
         obtain ⟨rfl, rfl⟩ := h
         assumption)
      | (apply ihL _ _ _ _ _ _ _ h
         grind [wf, wfList, wf_mkIndex, wf_mkPath])
      | skip
  · -- parseArgs
    intro c ts es r h
    unfold parseArgs at h
    split at h
    · split at h
      · simp at h; obtain ⟨rfl, _⟩ := h; simp [wfList]
      · exact ihA1 _ _ _ _ h
    · exact ihA1 _ _ _ _ h
  · -- parseArgs1
    intro c ts es r h
    unfold parseArgs1 at h
    split at h
    · next e' c' r' heq =>
        have he := ihE _ _ _ _ heq
        split at h
        · simp at h; obtain ⟨rfl, _⟩ := h; simp [wfList, he]
        · split at h
          · split at h
            · next es' r'' heq2 =>
                simp at h; obtain ⟨rfl, _⟩ := h
                simp [wfList, he, ihA _ _ _ _ heq2]
            · simp at h
          · simp at h
    · simp at h

theorem wfAll : ∀ f, WfAll f
  | 0 => wfAll_zero
  | f + 1 => wfAll_succ f (wfAll f)

/-- whatever the parser model returns is in parser normal form -/
theorem parse_wf (ts : List Tok) (e : Expr) (h : parse ts = some e) : WF e := by
  unfold parse at h
  split at h
  · next e' heq =>
      simp only [Option.some.injEq] at h
      subst h
      exact (wfAll _).1 _ _ _ _ heq
  · simp at h

end EdbVerif.QL
