/-
C18, dbops after f6e6d09: the dollar tag of a `DO` block / function body is
chosen against the body (`tag = $__$, $__1$, $__2$, …` until
`tag not in body + tag[:-1]`).  The loop always ends within `len(body)+2`
candidates and the chosen tag cannot be closed by the body.
-/
import EdbVerif.Lemmas.QuotePgDollar
import EdbVerif.Lemmas.QuoteDollarTotal

namespace EdbVerif.Lex
open EdbVerif.Quote

/-! ### decimal digits -/

theorem decChar_toNat (d : Nat) (h : d < 10) : (Char.ofNat (48 + d)).toNat = 48 + d := by
  have hv : (48 + d).isValidChar := Or.inl (by omega)
  simp [Char.ofNat, hv, Char.ofNatAux, Char.toNat]
  omega

def decLE10 : List Char → Nat
  | [] => 0
  | c :: cs => (c.toNat - 48) + 10 * decLE10 cs

theorem decLE10_revDecAux : ∀ f n, n ≤ f → decLE10 (revDecAux f n) = n := by
  intro f
  induction f with
  | zero =>
    intro n hn
    have : n = 0 := by omega
    subst this
    simp [revDecAux, decLE10, decChar_toNat 0 (by omega)]
  | succ f ih =>
    intro n hn
    simp only [revDecAux]
    split
    · rename_i h; simp [decLE10, decChar_toNat n h]
    · have := ih (n / 10) (by omega)
      simp [decLE10, decChar_toNat (n % 10) (by omega), this]
      omega

theorem decStr_inj (a b : Nat) (h : decStr a = decStr b) : a = b := by
  have h' : revDecAux a a = revDecAux b b := by
    have := congrArg List.reverse h
    simpa [decStr] using this
  have ha := decLE10_revDecAux a a (Nat.le_refl _)
  have hb := decLE10_revDecAux b b (Nat.le_refl _)
  rw [h'] at ha; omega

/-- a decimal digit character -/
def isDecChar (c : Char) : Bool := 48 ≤ c.toNat && c.toNat ≤ 57

theorem revDecAux_all (f n : Nat) : ∀ c ∈ revDecAux f n, isDecChar c = true := by
  induction f generalizing n with
  | zero =>
    intro c hc
    simp [revDecAux] at hc
    subst hc
    simp [isDecChar, decChar_toNat (n % 10) (by omega)]; omega
  | succ f ih =>
    intro c hc
    simp only [revDecAux] at hc
    split at hc
    · rename_i hn
      simp at hc; subst hc
      simp [isDecChar, decChar_toNat n hn]; omega
    · simp at hc
      rcases hc with hc | hc
      · subst hc; simp [isDecChar, decChar_toNat (n % 10) (by omega)]; omega
      · exact ih _ c hc

theorem decStr_all (n : Nat) : ∀ c ∈ decStr n, isDecChar c = true := by
  intro c hc
  exact revDecAux_all n n c (by simpa [decStr] using hc)

theorem decStr_ne_nil (n : Nat) : decStr n ≠ [] := by
  cases n <;> simp [decStr, revDecAux] <;> split <;> simp

theorem isDecChar_facts (c : Char) (h : isDecChar c = true) :
    PgLex.isIdentCont c = true ∧ c ≠ '$' ∧ notDollar c = true := by
  simp [isDecChar] at h
  have hne : c ≠ '$' := by intro e; subst e; simp at h
  refine ⟨?_, hne, by simp [notDollar, hne]⟩
  simp [PgLex.isIdentCont, PgLex.isDigit]; omega

/-! ### the two tag families -/

def doNameOf (n : Nat) : List Char := '_' :: '_' :: (if n = 0 then [] else decStr n)
def funcNameOf (n : Nat) : List Char :=
  ['_', '_', '_', '_', 'f', 'u', 'n', 'c', 'b', 'o', 'd', 'y'] ++ (if n = 0 then [] else decStr n) ++
    ['_', '_', '_', '_']

theorem doTagOf_shape (n : Nat) : doTagOf n = '$' :: doNameOf n ++ ['$'] := by simp [doTagOf, doNameOf]
theorem funcTagOf_shape (n : Nat) : funcTagOf n = '$' :: funcNameOf n ++ ['$'] := by
  simp [funcTagOf, funcNameOf]

theorem mid_inj (a b : Nat)
    (h : (if a = 0 then [] else decStr a) = (if b = 0 then [] else decStr b)) : a = b := by
  by_cases ha : a = 0 <;> by_cases hb : b = 0
  · omega
  · simp [ha, hb] at h; exact absurd h.symm (by simpa using decStr_ne_nil b)
  · simp [ha, hb] at h; exact absurd h (decStr_ne_nil a)
  · simp [ha, hb] at h; exact decStr_inj a b h

theorem doTagOf_inj (a b : Nat) (h : doTagOf a = doTagOf b) : a = b := by
  simp only [doTagOf] at h
  have h1 := List.append_cancel_right h
  simp only [List.cons.injEq, true_and] at h1
  exact mid_inj a b h1

theorem funcTagOf_inj (a b : Nat) (h : funcTagOf a = funcTagOf b) : a = b := by
  simp only [funcTagOf] at h
  have h1 := List.append_cancel_right (List.append_cancel_right h)
  simp only [List.cons_append, List.cons.injEq, true_and, List.nil_append] at h1
  exact mid_inj a b h1

theorem mid_chars (n : Nat) : ∀ c ∈ (if n = 0 then [] else decStr n), isDecChar c = true := by
  intro c hc
  by_cases h : n = 0
  · simp [h] at hc
  · simp [h] at hc; exact decStr_all n c hc

theorem doNameOf_chars (n : Nat) : ∀ c ∈ doNameOf n, PgLex.isIdentCont c = true ∧ c ≠ '$' ∧ notDollar c = true := by
  intro c hc
  simp only [doNameOf, List.mem_cons] at hc
  rcases hc with rfl | rfl | hc
  · decide
  · decide
  · exact isDecChar_facts c (mid_chars n c hc)

theorem funcNameOf_chars (n : Nat) :
    ∀ c ∈ funcNameOf n, PgLex.isIdentCont c = true ∧ c ≠ '$' ∧ notDollar c = true := by
  intro c hc
  simp only [funcNameOf, List.mem_append] at hc
  rcases hc with (hc | hc) | hc
  · revert c; decide
  · exact isDecChar_facts c (mid_chars n c hc)
  · revert c; decide

/-! ### the body sits between two newlines: `<tag>\\n{body}\\n<tag>` -/

theorem findSub_short (t : List Char) : ∀ B : List Char, B.length < t.length → findSub t B = none := by
  intro B
  induction B with
  | nil => intro h; cases t <;> simp_all [findSub]
  | cons c cs ih =>
    intro h
    have hp : t.isPrefixOf (c :: cs) = false := by
      cases hb : t.isPrefixOf (c :: cs) with
      | false => rfl
      | true =>
        rw [List.isPrefixOf_iff_prefix] at hb
        have := hb.length_le; omega
    simp [findSub, hp, ih (by simp at h; omega)]

theorem findSub_none_left (t : List Char) (ht : t ≠ []) (B : List Char) :
    ∀ A : List Char, findSub t (A ++ B) = none → findSub t A = none := by
  intro A
  induction A with
  | nil => intro _; cases t <;> simp_all [findSub]
  | cons c cs ih =>
    intro h
    obtain ⟨h1, h2⟩ := findSub_none_cons t c (cs ++ B) (by simpa using h)
    have hp : t.isPrefixOf (c :: cs) = false := by
      cases hb : t.isPrefixOf (c :: cs) with
      | false => rfl
      | true =>
        rw [List.isPrefixOf_iff_prefix] at hb
        have : t <+: c :: (cs ++ B) := hb.trans (by simpa using List.prefix_append (c :: cs) B)
        rw [← List.isPrefixOf_iff_prefix] at this
        simp [this] at h1
    simp [findSub, hp, ih h2]

/-- a separator that does not occur in `t` cannot be crossed by an occurrence of `t` -/
theorem findSub_sep (t : List Char) (x : Char) (hx : x ∉ t) (ht : t ≠ []) (B : List Char)
    (hB : findSub t B = none) :
    ∀ A : List Char, findSub t A = none → findSub t (A ++ x :: B) = none := by
  intro A
  induction A with
  | nil =>
    intro _
    have hp : t.isPrefixOf (x :: B) = false := by
      cases hb : t.isPrefixOf (x :: B) with
      | false => rfl
      | true =>
        rw [List.isPrefixOf_iff_prefix] at hb
        cases t with
        | nil => exact absurd rfl ht
        | cons h tl =>
          obtain ⟨r, hr⟩ := hb
          simp at hr
          exact absurd (by simp [hr.1]) hx
    simp [findSub, hp, hB]
  | cons c cs ih =>
    intro h
    obtain ⟨h1, h2⟩ := findSub_none_cons t c cs h
    have hp : t.isPrefixOf (c :: (cs ++ x :: B)) = false := by
      cases hb : t.isPrefixOf (c :: (cs ++ x :: B)) with
      | false => rfl
      | true =>
        exfalso
        rw [List.isPrefixOf_iff_prefix] at hb
        have hA : (c :: cs) <+: c :: (cs ++ x :: B) := by simpa using List.prefix_append (c :: cs) (x :: B)
        rcases List.prefix_or_prefix_of_prefix hb hA with h3 | h3
        · rw [← List.isPrefixOf_iff_prefix] at h3
          simp [h3] at h1
        · obtain ⟨r, hr⟩ := h3
          rw [← hr] at hb
          have : (c :: cs) ++ r <+: (c :: cs) ++ (x :: B) := by simpa using hb
          rw [List.prefix_append_right_inj] at this
          cases r with
          | nil =>
            have : t <+: c :: cs := by rw [← hr]; simp
            rw [← List.isPrefixOf_iff_prefix] at this
            simp [this] at h1
          | cons y ys =>
            obtain ⟨q, hq⟩ := this
            simp at hq
            apply hx
            rw [← hr, ← hq.1]; simp
    simp only [List.cons_append, findSub, hp]
    simp [ih h2]

/-- the check `tag in body + tag[:-1]` also protects the wrapped content `\\n{body}\\n` -/
theorem wrapped_safe (name body : List Char) (hn : ∀ c ∈ name, c ≠ '\n')
    (h : findSub ('$' :: name ++ ['$']) (body ++ '$' :: name) = none) :
    findSub ('$' :: name ++ ['$']) (('\n' :: body ++ ['\n']) ++ '$' :: name) = none := by
  have hx : '\n' ∉ ('$' :: name ++ ['$']) := by
    intro hm
    simp only [List.cons_append, List.mem_cons, List.mem_append, List.mem_singleton] at hm
    rcases hm with hm | hm | hm
    · exact absurd hm (by decide)
    · exact hn _ hm rfl
    · exact absurd hm (by decide)
  have ht : ('$' :: name ++ ['$']) ≠ [] := by simp
  have hbody := findSub_none_left _ ht ('$' :: name) body h
  have hshort := findSub_short ('$' :: name ++ ['$']) ('$' :: name) (by simp)
  have h1 := findSub_sep _ '\n' hx ht ('$' :: name) hshort body hbody
  have h2 := findSub_sep _ '\n' hx ht (body ++ '\n' :: '$' :: name) h1 [] (by simp [findSub])
  simpa using h2

/-! ### the loop -/

theorem tagLoop_spec (tg : Nat → List Char) (body : List Char) :
    ∀ f n t, tagLoop tg body f n = some t →
      ∃ k, t = tg k ∧ contains (tg k) (body ++ (tg k).dropLast) = false := by
  intro f
  induction f with
  | zero => intro n t h; simp [tagLoop] at h
  | succ f ih =>
    intro n t h
    simp only [tagLoop] at h
    split at h
    · exact ih _ t h
    · rename_i hc
      simp at h
      exact ⟨n, h.symm, by simpa using hc⟩

theorem nodup_map_range (g : Nat → List Char) (hinj : ∀ a b, g a = g b → a = b) :
    ∀ n, ((List.range n).map g).Nodup := by
  intro n
  induction n with
  | zero => simp
  | succ n ih =>
    rw [List.range_succ, List.map_append, List.nodup_append]
    refine ⟨ih, by simp, ?_⟩
    intro a ha b hb
    simp only [List.mem_map, List.mem_range] at ha
    simp only [List.map_cons, List.map_nil, List.mem_singleton] at hb
    obtain ⟨k, hk, rfl⟩ := ha
    subst hb
    intro e
    have := hinj _ _ e
    omega

theorem tagLoop_total (tg nm : Nat → List Char)
    (hshape : ∀ n, tg n = '$' :: nm n ++ ['$'] ∧ ∀ c ∈ nm n, notDollar c = true)
    (hinj : ∀ a b, tg a = tg b → a = b) (body : List Char) :
    ∀ f n, (∀ k, k < n → contains (tg k) (body ++ (tg k).dropLast) = true) →
      body.length < f + n → tagLoop tg body f n ≠ none := by
  intro f
  induction f with
  | zero =>
    intro n hrej hlt
    exfalso
    have hsub : ∀ x ∈ (List.range n).map tg, x ∈ (List.range body.length).map (tagAt body) := by
      intro x hx
      simp only [List.mem_map, List.mem_range] at hx
      obtain ⟨k, hk, rfl⟩ := hx
      obtain ⟨hs, hb⟩ := hshape k
      have hdl : (tg k).dropLast = '$' :: nm k := by
        have : tg k = ('$' :: nm k) ++ ['$'] := by simp [hs]
        rw [this, List.dropLast_concat]
      have hc := hrej k hk
      rw [hdl] at hc
      obtain ⟨p, hp, e⟩ := rejected_is_tagAt body (nm k) hb (by rw [← hs]; exact hc)
      exact List.mem_map.mpr ⟨p, List.mem_range.mpr hp, by rw [← e, hs]⟩
    have := nodup_subset_length _ _ (nodup_map_range tg hinj n) hsub
    simp at this
    omega
  | succ f ih =>
    intro n hrej hlt
    simp only [tagLoop]
    split
    · rename_i hc
      apply ih (n + 1)
      · intro k hk
        by_cases hkn : k < n
        · exact hrej k hkn
        · have : k = n := by omega
          subst this; exact hc
      · omega
    · simp

theorem doTag_isSome (body : List Char) : ∃ t, doTag body = some t := by
  have := tagLoop_total doTagOf doNameOf
    (fun n => ⟨doTagOf_shape n, fun c hc => (doNameOf_chars n c hc).2.2⟩) doTagOf_inj body
    (body.length + 2) 0 (by intro k hk; omega) (by omega)
  cases h : doTag body with
  | none => exact absurd h this
  | some t => exact ⟨t, rfl⟩

theorem funcTag_isSome (body : List Char) : ∃ t, funcTag body = some t := by
  have := tagLoop_total funcTagOf funcNameOf
    (fun n => ⟨funcTagOf_shape n, fun c hc => (funcNameOf_chars n c hc).2.2⟩) funcTagOf_inj body
    (body.length + 2) 0 (by intro k hk; omega) (by omega)
  cases h : funcTag body with
  | none => exact absurd h this
  | some t => exact ⟨t, rfl⟩

theorem nameChars_no_nl (c : Char) (h : PgLex.isIdentCont c = true) : c ≠ '\n' := by
  intro e; subst e; simp [PgLex.isIdentCont, PgLex.isIdentStart, PgLex.isAsciiLetter, PgLex.isDigit] at h

/-- what the code emits between the tags -/
def wrapNl (body : List Char) : List Char := '\n' :: body ++ ['\n']

/-- the content of a `DO` block wrapped in the chosen tag is read back exactly, whatever it contains -/
theorem doBlock_lex (body t rest : List Char) (h : doTag body = some t) :
    PgLex.lexDollarStr (t ++ wrapNl body ++ t ++ rest) = .ok (wrapNl body, rest) := by
  obtain ⟨k, rfl, hc⟩ := tagLoop_spec doTagOf body _ _ t h
  have hs := doTagOf_shape k
  have hdl : (doTagOf k).dropLast = '$' :: doNameOf k := by
    have : doTagOf k = ('$' :: doNameOf k) ++ ['$'] := by simp [hs]
    rw [this, List.dropLast_concat]
  rw [hdl] at hc
  rw [hs] at hc ⊢
  have hw := wrapped_safe (doNameOf k) body
    (fun c hc' => nameChars_no_nl c (doNameOf_chars k c hc').1) (by simpa [contains] using hc)
  refine PgLex.fixedTag_lex (doNameOf k) (wrapNl body) rest
    (fun c hc => ⟨(doNameOf_chars k c hc).1, (doNameOf_chars k c hc).2.1⟩) ?_ hw
  intro d tl e
  simp only [doNameOf, List.cons.injEq] at e
  rw [← e.1]; decide

theorem funcBody_lex (body t rest : List Char) (h : funcTag body = some t) :
    PgLex.lexDollarStr (t ++ wrapNl body ++ t ++ rest) = .ok (wrapNl body, rest) := by
  obtain ⟨k, rfl, hc⟩ := tagLoop_spec funcTagOf body _ _ t h
  have hs := funcTagOf_shape k
  have hdl : (funcTagOf k).dropLast = '$' :: funcNameOf k := by
    have : funcTagOf k = ('$' :: funcNameOf k) ++ ['$'] := by simp [hs]
    rw [this, List.dropLast_concat]
  rw [hdl] at hc
  rw [hs] at hc ⊢
  have hw := wrapped_safe (funcNameOf k) body
    (fun c hc' => nameChars_no_nl c (funcNameOf_chars k c hc').1) (by simpa [contains] using hc)
  refine PgLex.fixedTag_lex (funcNameOf k) (wrapNl body) rest
    (fun c hc => ⟨(funcNameOf_chars k c hc).1, (funcNameOf_chars k c hc).2.1⟩) ?_ hw
  intro d tl e
  simp only [funcNameOf, List.cons_append, List.cons.injEq] at e
  rw [← e.1]; decide

end EdbVerif.Lex
