/-
C18: the `while` loop of `dollar_quote_literal` terminates within
`len(text) + 2` candidates — `dollarTag` (fuel `text.length + 2`) never returns
`none`.

Pigeonhole: a rejected candidate `t = $h$` occurs in `text ++ t.dropLast` at a
position `p < len(text)`; the candidate is determined by `p` and the text alone
(`h` is the run of non-`$` characters after `text[p]`); the candidates are
pairwise distinct; so at most `len(text)` candidates are rejected.
-/
import EdbVerif.Lemmas.QuoteDollar

namespace EdbVerif.Lex
open EdbVerif.Quote

/-! ### generic list facts -/

theorem nodup_subset_length {α : Type} [DecidableEq α] (l : List α) :
    ∀ m : List α, l.Nodup → (∀ x ∈ l, x ∈ m) → l.length ≤ m.length := by
  induction l with
  | nil => intro m _ _; simp
  | cons a l ih =>
    intro m hn hs
    rw [List.nodup_cons] at hn
    have ha : a ∈ m := hs a (by simp)
    have hs' : ∀ x ∈ l, x ∈ m.erase a := by
      intro x hx
      have hne : x ≠ a := fun e => hn.1 (e ▸ hx)
      exact (List.mem_erase_of_ne hne).mpr (hs x (by simp [hx]))
    have := ih (m.erase a) hn.2 hs'
    rw [List.length_erase_of_mem ha] at this
    have : 0 < m.length := List.length_pos_of_mem ha
    simp only [List.length_cons]
    omega

theorem takeWhile_stop (p : Char → Bool) (x : Char) (hx : p x = false) (w b : List Char) :
    (w ++ x :: b).takeWhile p = w.takeWhile p := by
  induction w with
  | nil => simp [List.takeWhile_cons, hx]
  | cons c cs ih =>
    simp only [List.cons_append, List.takeWhile_cons, ih]

theorem takeWhile_all (p : Char → Bool) (h : List Char) (hh : ∀ c ∈ h, p c = true) :
    h.takeWhile p = h := by
  induction h with
  | nil => rfl
  | cons c cs ih =>
    simp [List.takeWhile_cons, hh c (by simp), ih (fun x hx => hh x (by simp [hx]))]

theorem findSub_spec (m : List Char) : ∀ (l a b : List Char), findSub m l = some (a, b) → l = a ++ m ++ b := by
  intro l
  induction l with
  | nil =>
    intro a b h
    simp only [findSub] at h
    split at h
    · rename_i hm
      simp at h
      obtain ⟨rfl, rfl⟩ := h
      simp at hm; simp [hm]
    · simp at h
  | cons c cs ih =>
    intro a b h
    simp only [findSub] at h
    split at h
    · rename_i hp
      simp at h
      obtain ⟨rfl, rfl⟩ := h
      rw [List.isPrefixOf_iff_prefix] at hp
      obtain ⟨t, ht⟩ := hp
      simp only [List.nil_append]
      rw [← ht]; simp
    · cases hf : findSub m cs with
      | none => simp [hf] at h
      | some pr =>
        obtain ⟨a', b'⟩ := pr
        simp [hf] at h
        obtain ⟨h1, h2⟩ := h
        rw [← h1, ← h2, ih a' b' hf]; simp

/-! ### the tag that can start at a position -/

def notDollar (c : Char) : Bool := c != '$'

/-- the only candidate that can occur in `text ++ …` starting at position `p` -/
def tagAt (text : List Char) (p : Nat) : List Char :=
  '$' :: (text.drop (p + 1)).takeWhile notDollar ++ ['$']

/-- A rejected candidate `$h$` is `tagAt text p` for some `p < text.length`. -/
theorem rejected_is_tagAt (text h : List Char) (hh : ∀ c ∈ h, notDollar c = true)
    (hc : contains ('$' :: h ++ ['$']) (text ++ '$' :: h) = true) :
    ∃ p, p < text.length ∧ '$' :: h ++ ['$'] = tagAt text p := by
  simp only [contains] at hc
  cases hf : findSub ('$' :: h ++ ['$']) (text ++ '$' :: h) with
  | none => rw [hf] at hc; simp at hc
  | some pr =>
    obtain ⟨a, b⟩ := pr
    have hs := findSub_spec _ _ a b hf
    have hlen := congrArg List.length hs
    simp at hlen
    have hp : a.length < text.length := by omega
    refine ⟨a.length, hp, ?_⟩
    -- drop `a` on both sides
    have hd := congrArg (List.drop a.length) hs
    rw [List.drop_append_of_le_length (by omega)] at hd
    have e : a ++ ('$' :: h ++ ['$']) ++ b = a ++ (('$' :: h ++ ['$']) ++ b) := by simp
    rw [e, List.drop_left] at hd
    rw [List.drop_eq_getElem_cons hp] at hd
    simp only [List.cons_append] at hd
    injection hd with h1 h2
    -- h2 : drop (|a|+1) text ++ '$' :: h = h ++ ['$'] ++ b
    have t1 := congrArg (List.takeWhile notDollar) h2
    rw [takeWhile_stop notDollar '$' (by decide)] at t1
    have e2 : h ++ ['$'] ++ b = h ++ '$' :: b := by simp
    rw [e2, takeWhile_stop notDollar '$' (by decide), takeWhile_all notDollar h hh] at t1
    simp [tagAt, t1]

/-! ### the candidates are pairwise distinct -/

def decLE : List Char → Nat
  | [] => 0
  | c :: cs => (hexVal c).getD 0 + 16 * decLE cs

theorem decLE_revHexAux : ∀ f n, n ≤ f → decLE (revHexAux f n) = n := by
  intro f
  induction f with
  | zero =>
    intro n hn
    have : n = 0 := by omega
    subst this
    simp [revHexAux, decLE, hexVal_hexDigit' 0 (by omega)]
  | succ f ih =>
    intro n hn
    simp only [revHexAux]
    split
    · rename_i h; simp [decLE, hexVal_hexDigit' n h]
    · have := ih (n / 16) (by omega)
      simp [decLE, hexVal_hexDigit' (n % 16) (by omega), this]
      omega

theorem tagOf_inj (a b : Nat) (h : tagOf a = tagOf b) : a = b := by
  simp only [tagOf] at h
  have h' : revHex a = revHex b := (List.cons.inj (List.append_cancel_right h)).2
  have ha := decLE_revHexAux a a (Nat.le_refl _)
  have hb := decLE_revHexAux b b (Nat.le_refl _)
  unfold revHex at h'
  rw [h'] at ha
  omega

theorem tagOf_ne_dd (n : Nat) : tagOf n ≠ ['$', '$'] := by
  intro h
  obtain ⟨tl, htl⟩ := revHexAux_head n n
  simp [tagOf, revHex, htl] at h

theorem tagOf_body (n : Nat) : ∀ c ∈ revHex n, notDollar c = true := by
  intro c hc
  have := (isHexLower_facts UClass.ascii c (revHexAux_all n n c hc)).2.1
  simp [notDollar, this]

/-! ### the loop -/

/-- state of the loop: the current candidate, the counter, the rejected
    candidates so far -/
def LoopInv (R : List (List Char)) (quote : List Char) (qq : Nat) : Prop :=
  (quote = ['$', '$'] ∧ qq = 0 ∧ R = []) ∨
  (∃ n, quote = tagOf n ∧ n < qq ∧ ∀ t ∈ R, t = ['$', '$'] ∨ ∃ m, m < n ∧ t = tagOf m)

theorem quote_not_in (R : List (List Char)) (quote : List Char) (qq : Nat)
    (h : LoopInv R quote qq) : quote ∉ R := by
  rcases h with ⟨_, _, rfl⟩ | ⟨n, rfl, _, hR⟩
  · simp
  · intro hm
    rcases hR _ hm with e | ⟨m, hm1, e⟩
    · exact tagOf_ne_dd n e
    · have := tagOf_inj n m e; omega

theorem quote_shape (R : List (List Char)) (quote : List Char) (qq : Nat)
    (h : LoopInv R quote qq) :
    ∃ hb, quote = '$' :: hb ++ ['$'] ∧ ∀ c ∈ hb, notDollar c = true := by
  rcases h with ⟨rfl, _, _⟩ | ⟨n, rfl, _, _⟩
  · exact ⟨[], rfl, by simp⟩
  · exact ⟨revHex n, rfl, tagOf_body n⟩

theorem dollarLoop_total (text : List Char) :
    ∀ (f : Nat) (quote : List Char) (qq : Nat) (R : List (List Char)),
      LoopInv R quote qq → R.Nodup → (∀ t ∈ R, ∃ p, p < text.length ∧ t = tagAt text p) →
      text.length < f + R.length → dollarLoop text f quote qq ≠ none := by
  have pigeon : ∀ R : List (List Char), R.Nodup →
      (∀ t ∈ R, ∃ p, p < text.length ∧ t = tagAt text p) → R.length ≤ text.length := by
    intro R hn hR
    have := nodup_subset_length R ((List.range text.length).map (tagAt text)) hn (by
      intro t ht
      obtain ⟨p, hp, e⟩ := hR t ht
      exact List.mem_map.mpr ⟨p, List.mem_range.mpr hp, e.symm⟩)
    simpa using this
  intro f
  induction f with
  | zero =>
    intro quote qq R _ hn hR hlt
    have := pigeon R hn hR
    omega
  | succ f ih =>
    intro quote qq R hinv hn hR hlt
    simp only [dollarLoop]
    split
    · rename_i hc
      obtain ⟨hb, hq, hbody⟩ := quote_shape R quote qq hinv
      have hdl : quote.dropLast = '$' :: hb := by
        have : quote = ('$' :: hb) ++ ['$'] := by simp [hq]
        rw [this, List.dropLast_concat]
      rw [hdl] at hc
      have hrej := rejected_is_tagAt text hb hbody (by rw [← hq]; exact hc)
      rw [← hq] at hrej
      apply ih _ _ (quote :: R)
      · -- invariant for the next candidate
        right
        refine ⟨_, rfl, by omega, ?_⟩
        intro t ht
        simp only [List.mem_cons] at ht
        rcases hinv with ⟨rfl, rfl, rfl⟩ | ⟨n, rfl, hnq, hRn⟩
        · rcases ht with rfl | ht
          · exact Or.inl rfl
          · simp at ht
        · rcases ht with rfl | ht
          · exact Or.inr ⟨n, by split <;> omega, rfl⟩
          · rcases hRn t ht with e | ⟨m, hm, e⟩
            · exact Or.inl e
            · exact Or.inr ⟨m, by split <;> omega, e⟩
      · exact List.nodup_cons.mpr ⟨quote_not_in R quote qq hinv, hn⟩
      · intro t ht
        simp only [List.mem_cons] at ht
        rcases ht with rfl | ht
        · exact hrej
        · exact hR t ht
      · simp only [List.length_cons]; omega
    · simp

/-- `dollar_quote_literal` always finds a delimiter within `len(text) + 2` candidates. -/
theorem dollarTag_isSome (text : List Char) : ∃ t, dollarTag text = some t := by
  have := dollarLoop_total text (text.length + 2) ['$', '$'] 0 []
    (Or.inl ⟨rfl, rfl, rfl⟩) List.nodup_nil (by simp) (by simp)
  cases h : dollarTag text with
  | none => exact absurd h this
  | some t => exact ⟨t, rfl⟩

theorem dollarQuoteLiteral_isSome (text : List Char) : ∃ q, dollarQuoteLiteral text = some q := by
  obtain ⟨t, ht⟩ := dollarTag_isSome text
  exact ⟨t ++ text ++ t, by simp [dollarQuoteLiteral, ht]⟩

theorem ppStr_isSome (s : List Char) : ∃ q, ppStr s = some q := by
  unfold ppStr
  split
  · exact ⟨_, rfl⟩
  · split
    · split <;> exact ⟨_, rfl⟩
    · split
      · split <;> exact ⟨_, rfl⟩
      · split
        · exact ⟨_, rfl⟩
        · exact dollarQuoteLiteral_isSome s

end EdbVerif.Lex
