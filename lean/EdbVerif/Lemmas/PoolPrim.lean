/-
C15, numeric part, continued: the primitives of `BasePool` / `Block` preserve `InvNum`.
-/
import EdbVerif.Lemmas.PoolNum

namespace EdbVerif.Pool

theorem findB_modB (bs : List Block) (u v : Nat) (f : Block → Block) (hf : KeepsUid f) :
    findB (modB bs u f) v = (findB bs v).map fun b => if b.uid == u then f b else b := by
  induction bs with
  | nil => rfl
  | cons x xs ih =>
    unfold findB modB at *
    simp only [List.map_cons, List.find?_cons]
    have hk : (if x.uid == u then f x else x).uid = x.uid := by
      by_cases h : x.uid == u <;> simp [h, hf x]
    rw [hk]
    by_cases hv : x.uid == v
    · simp [hv]
    · simp only [hv]; exact ih

theorem State.find_mod {s : State} (u v : Nat) (f : Block → Block) (hf : KeepsUid f) :
    (s.mod u f).find v = (s.find v).map fun b => if b.uid == u then f b else b :=
  findB_modB s.blocks u v f hf

theorem State.find_mod_isSome {s : State} (u v : Nat) (f : Block → Block) (hf : KeepsUid f)
    {b : Block} (h : s.find v = some b) : ∃ b', (s.mod u f).find v = some b' := by
  rw [State.find_mod u v f hf, h]; exact ⟨_, rfl⟩

/-! ### simple primitives: only neutral block updates and non-core fields -/

theorem maybeTick_inv {s : State} (h : InvNum s) : InvNum (maybeTick s) := by
  unfold maybeTick; split
  · exact h
  · exact h.frame rfl rfl rfl rfl rfl rfl rfl

theorem wakeNext_inv {s : State} (h : InvNum s) (u : Nat) : InvNum (wakeNext s u) := by
  unfold wakeNext
  split
  · split
    · exact h
    · exact (h.modN u _ (by intro b; exact ⟨rfl, rfl, rfl⟩)).frame rfl rfl rfl rfl rfl rfl rfl
  · exact h

theorem blockRelease_inv {s : State} (h : InvNum s) (u c : Nat) : InvNum (blockRelease s u c) := by
  unfold blockRelease
  exact wakeNext_inv (h.modN u _ (by intro b; exact ⟨rfl, rfl, rfl⟩)) u

theorem steal_inv {s : State} (h : InvNum s) (u : Nat) : InvNum (steal s u).1 := by
  unfold steal
  split
  · split
    · exact h
    · exact h.modN u _ (by intro b; exact ⟨rfl, rfl, rfl⟩)
  · exact h

theorem releaseUnused_inv {s : State} (h : InvNum s) (u c : Nat) : InvNum (releaseUnused s u c) := by
  unfold releaseUnused
  have h1 := blockRelease_inv h u c
  have h2 : InvNum { blockRelease s u c with gcReq := (blockRelease s u c).gcReq + 1 } :=
    h1.frame rfl rfl rfl rfl rfl rfl rfl
  simp only
  split
  · exact h2.frame rfl rfl rfl rfl rfl rfl rfl
  · exact h2

theorem tryAcq_inv {s : State} (h : InvNum s) (id u a : Nat) (p : Bool) :
    InvNum (tryAcq s id u a p).1 := by
  unfold tryAcq
  split
  · exact h.fail _
  · split
    · exact h.modN u _ (by intro b; exact ⟨rfl, rfl, rfl⟩)
    · exact (h.modN u _ (by intro b; exact ⟨rfl, rfl, rfl⟩)).frame rfl rfl rfl rfl rfl rfl rfl

theorem map_fst_setFlag (l : List (Nat × Bool)) (c : Nat) (v : Bool) :
    (l.map fun p => if p.1 == c then (c, v) else p).map (·.1) = l.map (·.1) := by
  induction l with
  | nil => rfl
  | cons x xs ih =>
    simp only [List.map_cons, ih]
    by_cases h : x.1 == c
    · simp [h]; exact (by simpa using h : x.1 = c).symm
    · simp [h]

theorem lend_inv {s : State} (h : InvNum s) (r u c : Nat) : InvNum (lend s r u c) := by
  unfold lend
  have h0 : InvNum { s with nacq := s.nacq - 1 } := h.frame rfl rfl rfl rfl rfl rfl rfl
  simp only
  split
  · exact h0.fail _
  · split
    · exact (h0.modN _ _ (by intro b; exact ⟨rfl, map_fst_setFlag _ _ _, rfl⟩)).frame rfl rfl rfl rfl rfl rfl rfl
    · exact h0.fail _

theorem abortWaiters_inv {s : State} (h : InvNum s) (u : Nat) : InvNum (abortWaiters s u) := by
  unfold abortWaiters
  split
  · exact h
  · exact (h.modN u _ (by intro b; exact ⟨rfl, rfl, rfl⟩)).frame rfl rfl rfl rfl rfl rfl rfl

/-! ### the waitlist scan only changes the waitlist -/

theorem popWaitlist_frame (n : Nat) (s : State) :
    (popWaitlist s n).1 = { s with waitlist := (popWaitlist s n).1.waitlist } := by
  induction n generalizing s with
  | zero => rfl
  | succ n ih =>
    unfold popWaitlist
    split
    · rfl
    · rename_i u rest _
      simp only
      split
      · split
        · have := ih { s with waitlist := rest }
          rw [this]
        · rfl
      · have := ih { s with waitlist := rest }
        rw [this]

theorem findStarving_frame (s : State) :
    (findStarving s).1 = { s with waitlist := (findStarving s).1.waitlist } := by
  unfold findStarving
  have hp := popWaitlist_frame (s.waitlist.length + 1) s
  split
  · rename_i s' u heq
    have : s' = (popWaitlist s (s.waitlist.length + 1)).1 := by rw [heq]
    simp only; rw [this]; exact hp
  · rename_i s' heq
    have : s' = (popWaitlist s (s.waitlist.length + 1)).1 := by rw [heq]
    split <;> (simp only; rw [this]; exact hp)

theorem findStarving_inv {s : State} (h : InvNum s) : InvNum (findStarving s).1 := by
  rw [findStarving_frame]; exact h.frame rfl rfl rfl rfl rfl rfl rfl

theorem findStarving_find (s : State) (u : Nat) : (findStarving s).1.find u = s.find u := by
  rw [findStarving_frame]; rfl

/-! ### `_schedule_new_conn` -/

theorem starvingToEnd_inv {s : State} (h : InvNum s) (u : Nat) :
    InvNum (if s.starving then { s with blocks := toEnd s.blocks u } else s) := by
  split
  · exact blocks_toEnd_inv h u
  · exact h

/-- the guard under which one more connection may be promised -/
def Room (s : State) : Prop := s.cur < s.max + discByHolder s

theorem bump_inv {s : State} (h : InvNum s) {u : Nat} {b : Block} (hb : s.find u = some b)
    (hg : Room s) :
    InvNum (({ s with cur := s.cur + 1 } : State).mod u fun b => { b with pending := b.pending + 1 }) := by
  have hwf : WF ({ s with cur := s.cur + 1 } : State) := h.toWF.frame rfl rfl rfl rfl rfl
  refine ⟨hwf.mod u _ (fun _ => rfl) ?_, ?_, ?_⟩
  · intro x hx _; exact ⟨h.cids x hx, h.cidsFresh x hx⟩
  · have hs := sum_size_mod hwf (u := u) (b := b) hb (fun b => { b with pending := b.pending + 1 })
    have := h.acc
    unfold usage at *
    show s.cur + 1 = sumInt ((({ s with cur := s.cur + 1 } : State).mod u _).blocks.map Block.size) + cnt Task.closing s.tasks
    rw [hs]
    simp only [Block.size] at *
    omega
  · have := h.cap
    unfold Room at hg
    show s.cur + 1 ≤ s.max + discByHolder s
    omega

theorem schedNew_inv {s : State} (h : InvNum s) (u : Nat) (hg : Room s) : InvNum (schedNew s u) := by
  unfold schedNew
  split
  · exact h.fail _
  · rename_i b hb
    have h1 := bump_inv h hb hg
    have h2 := starvingToEnd_inv h1 u
    exact h2.addTask _ rfl rfl

/-! ### `_schedule_discard` -/

theorem schedDiscard_inv {s : State} (h : InvNum s) (u c : Nat) :
    InvNum (schedDiscard s u c false) := by
  unfold schedDiscard; exact h.addTask _ rfl rfl

theorem schedDiscard_holder {s : State} (h : InvNum s) (u c : Nat) :
    InvNum (schedDiscard s u c true) ∧ Room (schedDiscard s u c true) := by
  unfold schedDiscard
  have hc : discByHolder (s.addTask (.disc u c false true)) = discByHolder s + 1 := by
    unfold discByHolder; rw [cnt_addTask]; rfl
  refine ⟨⟨h.toWF.addTask _, ?_, ?_⟩, ?_⟩
  · have := h.acc; unfold usage at *
    rw [cnt_addTask]; simpa [State.addTask, Task.closing] using this
  · have := h.cap; rw [hc]; show s.cur ≤ s.max + (discByHolder s + 1); omega
  · have := h.cap; unfold Room; rw [hc]; show s.cur < s.max + (discByHolder s + 1); omega

/-! ### `_schedule_transfer` -/

theorem length_filter_ne (l : List (Nat × Bool)) (c : Nat) (v : Bool)
    (hnd : (l.map (·.1)).Nodup) (hm : (c, v) ∈ l) :
    ((l.filter (·.1 != c)).length : Int) + 1 = l.length := by
  induction l with
  | nil => simp at hm
  | cons x xs ih =>
    simp only [List.map_cons, List.nodup_cons] at hnd
    by_cases hx : x.1 = c
    · have hno : xs.filter (·.1 != c) = xs := by
        apply List.filter_eq_self.mpr
        intro y hy
        have : y.1 ≠ c := by
          intro hyc; apply hnd.1; rw [hx, ← hyc]; exact List.mem_map_of_mem (f := (·.1)) hy
        simpa using this
      have : (x.1 != c) = false := by simp [hx]
      simp only [List.filter_cons, this, Bool.false_eq_true, ↓reduceIte, hno, List.length_cons]
      omega
    · have hm' : (c, v) ∈ xs := by
        rcases List.mem_cons.mp hm with h | h
        · exfalso; apply hx; rw [← h]
        · exact h
      have := ih hnd.2 hm'
      have hx' : (x.1 != c) = true := by simpa using hx
      simp only [List.filter_cons, hx', ↓reduceIte, List.length_cons]
      omega

theorem find_conn_some {l : List (Nat × Bool)} {c c' : Nat} {v : Bool}
    (h : l.find? (·.1 == c) = some (c', v)) : (c, v) ∈ l := by
  have hm := List.mem_of_find?_eq_some h
  have hk : c' = c := by simpa using List.find?_some h
  rw [← hk]; exact hm

/-- removing one (present) connection from a block -/
theorem eraseConn_inv {s : State} (h : InvNum s) {u c : Nat} {b : Block} {v : Bool}
    (hb : s.find u = some b) (hc : (c, v) ∈ b.conns) :
    let s' := s.mod u fun b => { b with conns := b.conns.filter (·.1 != c) }
    WF s' ∧ sumInt (s'.blocks.map Block.size) + 1 = sumInt (s.blocks.map Block.size) := by
  intro s'
  have hbm := State.find_some hb
  constructor
  · refine h.toWF.mod u _ (fun _ => rfl) ?_
    intro x hx _
    refine ⟨(List.Sublist.map _ List.filter_sublist).nodup (h.cids x hx), ?_⟩
    intro p hp; exact h.cidsFresh x hx p (List.mem_filter.mp hp).1
  · have hs := sum_size_mod h.toWF hb (fun b => { b with conns := b.conns.filter (·.1 != c) })
    have hl := length_filter_ne b.conns c v (h.cids b hbm.1) hc
    show sumInt ((s.mod u _).blocks.map Block.size) + 1 = _
    rw [hs]
    simp only [Block.size]
    omega

theorem schedXfer_inv {s : State} (h : InvNum s) (f c t : Nat) (bh : Bool) :
    InvNum (schedXfer s f c t bh) := by
  unfold schedXfer
  split
  · rename_i fb tb hf ht
    split
    · rename_i c' hfind
      have hc := find_conn_some hfind
      obtain ⟨hwf1, hsum1⟩ := eraseConn_inv h hf hc
      -- second update: pending + 1 on the target (which exists after the first update)
      obtain ⟨tb', htb'⟩ := State.find_mod_isSome (s := s) f t
        (fun b => { b with conns := b.conns.filter (·.1 != c) }) (fun _ => rfl) ht
      have hsum2 := sum_size_mod hwf1 htb' (fun b => { b with pending := b.pending + 1 })
      have hwf2 := hwf1.mod t (fun b => { b with pending := b.pending + 1 }) (fun _ => rfl)
        (fun x hx _ => ⟨hwf1.cids x hx, hwf1.cidsFresh x hx⟩)
      have hinv2 : InvNum ((s.mod f fun b => { b with conns := b.conns.filter (·.1 != c) }).mod t
          fun b => { b with pending := b.pending + 1 }) := by
        refine ⟨hwf2, ?_, h.cap⟩
        have := h.acc
        unfold usage at *
        show s.cur = sumInt (((s.mod f _).mod t _).blocks.map Block.size) + cnt Task.closing s.tasks
        rw [hsum2]
        simp only [Block.size] at *
        omega
      have h3 : InvNum (if s.starving then
          { ((s.mod f fun b => { b with conns := b.conns.filter (·.1 != c) }).mod t
              fun b => { b with pending := b.pending + 1 }) with
            blocks := toEnd (toEnd ((s.mod f fun b => { b with conns := b.conns.filter (·.1 != c) }).mod t
              fun b => { b with pending := b.pending + 1 }).blocks t) f }
          else ((s.mod f fun b => { b with conns := b.conns.filter (·.1 != c) }).mod t
              fun b => { b with pending := b.pending + 1 })) := by
        split
        · exact blocks_toEnd_inv (blocks_toEnd_inv hinv2 t) f
        · exact hinv2
      exact h3.addTask _ rfl rfl
    · exact h.fail _
  · exact h.fail _

end EdbVerif.Pool
