/-
C03, part 5: the statement-level round trips (DDL and SDL).
-/
import EdbVerif.Lemmas.DescribeSort
import EdbVerif.Lemmas.DescribeExec

namespace EdbVerif.Describe
open EdbVerif

/-! ### modules: sorted by length ⇒ parents first -/

theorem insertMod_perm (m : ModName) (l : List ModName) : (insertMod m l).Perm (m :: l) := by
  induction l with
  | nil => exact List.Perm.refl _
  | cons x xs ih =>
    simp only [insertMod]
    split
    · exact List.Perm.refl _
    · exact ((List.Perm.cons x ih).trans (List.Perm.swap m x xs))

theorem sortMods_perm (l : List ModName) : (sortMods l).Perm l := by
  induction l with
  | nil => exact List.Perm.refl _
  | cons m ms ih => exact (insertMod_perm m (sortMods ms)).trans (List.Perm.cons m ih)

def ByLen (a b : ModName) : Prop := a.length ≤ b.length

theorem insertMod_sorted (m : ModName) (l : List ModName) (h : l.Pairwise ByLen) :
    (insertMod m l).Pairwise ByLen := by
  induction l with
  | nil => simp [insertMod]
  | cons x xs ih =>
    simp only [insertMod]
    obtain ⟨hx, hxs⟩ := List.pairwise_cons.1 h
    split
    · next hlt =>
      refine List.pairwise_cons.2 ⟨?_, h⟩
      intro y hy
      rcases List.mem_cons.1 hy with rfl | hy
      · exact Nat.le_of_lt hlt
      · exact Nat.le_trans (Nat.le_of_lt hlt) (hx y hy)
    · next hge =>
      refine List.pairwise_cons.2 ⟨?_, ih hxs⟩
      intro y hy
      rcases List.mem_cons.1 ((insertMod_perm m xs).mem_iff.1 hy) with rfl | hy
      · exact Nat.le_of_not_lt hge
      · exact hx y hy

theorem sortMods_sorted (l : List ModName) : (sortMods l).Pairwise ByLen := by
  induction l with
  | nil => exact List.Pairwise.nil
  | cons m ms ih => exact insertMod_sorted m _ ih

theorem modsOK_of_sorted (std : Env) (l : List ModName) (hs : l.Pairwise ByLen) (hnd : l.Nodup)
    (hfresh : ∀ m ∈ l, std.hasModule m = false)
    (hclosed : ∀ m ∈ l, 1 < m.length → m.dropLast ∈ l ∨ std.hasModule m.dropLast = true)
    (acc rest : List ModName) (hl : l = acc ++ rest) : ModsOK std acc rest := by
  induction rest generalizing acc with
  | nil => trivial
  | cons m ms ih =>
    have hm : m ∈ l := by rw [hl]; simp
    refine ⟨⟨hfresh m hm, ?_⟩, ?_, ih (acc ++ [m]) (by rw [hl]; simp)⟩
    · intro hacc
      rw [hl] at hnd
      exact (List.nodup_append.1 hnd).2.2 m hacc m List.mem_cons_self rfl
    · by_cases h1 : m.length ≤ 1
      · exact Or.inl h1
      · right
        rcases hclosed m hm (by omega) with hp | hp
        · right
          rw [hl] at hp hs
          rcases List.mem_append.1 hp with hp | hp
          · exact hp
          · exfalso
            have hlen : m.dropLast.length < m.length := by
              rw [List.length_dropLast]; omega
            rcases List.mem_cons.1 hp with heq | hp
            · rw [heq] at hlen; omega
            · have := (List.pairwise_cons.1 (List.pairwise_append.1 hs).2.1).1 _ hp
              unfold ByLen at this; omega
        · exact Or.inl hp

/-! ### `Valid` and `CtxSafe` only depend on the schema as a finite map -/

theorem Schema.Equiv.symm {A B : Schema} (h : A.Equiv B) : B.Equiv A := ⟨h.1.symm, h.2.symm⟩
theorem Schema.Equiv.trans {A B C : Schema} (h : A.Equiv B) (h' : B.Equiv C) : A.Equiv C :=
  ⟨h.1.trans h'.1, h.2.trans h'.2⟩

theorem Schema.Equiv.names {A B : Schema} (h : A.Equiv B) : A.names.Perm B.names :=
  h.2.map _

theorem Schema.Equiv.mentioned {A B : Schema} (h : A.Equiv B) (q : QName) :
    q ∈ A.mentioned ↔ q ∈ B.mentioned := by
  simp only [Schema.mentioned, List.mem_flatMap]
  exact ⟨fun ⟨o, ho, hq⟩ => ⟨o, h.2.mem_iff.1 ho, hq⟩, fun ⟨o, ho, hq⟩ => ⟨o, h.2.mem_iff.2 ho, hq⟩⟩

theorem CtxSafe.of_equiv {c : Ctx} {A B : Schema} (h : A.Equiv B) (hs : CtxSafe c B) : CtxSafe c A :=
  fun q hq => hs q ((h.mentioned q).1 hq)

theorem shellDep_of_equiv {A B : Schema} (h : A.Equiv B) (a b : QName) (hd : ShellDep A a b) :
    ShellDep B a b := by
  obtain ⟨o, ho, hn, hb, hbn⟩ := hd
  exact ⟨o, h.2.mem_iff.1 ho, hn, hb, h.names.mem_iff.1 hbn⟩

theorem Valid.of_equiv {tbl : FieldTable} {std : Env} {A B : Schema} (h : A.Equiv B)
    (hv : Valid tbl std B) : Valid tbl std A where
  names_nodup := h.names.nodup_iff.2 hv.names_nodup
  names_fresh := fun q hq => hv.names_fresh q (h.names.mem_iff.1 hq)
  mods_nodup := h.1.nodup_iff.2 hv.mods_nodup
  mods_fresh := fun m hm => hv.mods_fresh m (h.1.mem_iff.1 hm)
  mods_ne := fun m hm => hv.mods_ne m (h.1.mem_iff.1 hm)
  mods_closed := fun m hm hlen => by
    rcases hv.mods_closed m (h.1.mem_iff.1 hm) hlen with hp | hp
    · exact Or.inl (h.1.mem_iff.2 hp)
    · exact Or.inr hp
  obj_mods := fun o ho => h.1.mem_iff.2 (hv.obj_mods o (h.2.mem_iff.1 ho))
  closed := fun o ho q hq => by
    rcases hv.closed o (h.2.mem_iff.1 ho) q hq with hp | hp
    · exact Or.inl (h.names.mem_iff.2 hp)
    · exact Or.inr hp
  acyclic := by
    rintro ⟨q, hq⟩
    exact hv.acyclic ⟨q, Relation.TransGen.mono (shellDep_of_equiv h) q q hq⟩
  covered := fun o ho => hv.covered o (h.2.mem_iff.1 ho)
  mods_real := CtxSafe.of_equiv h hv.mods_real
  balanced := fun o ho => hv.balanced o (h.2.mem_iff.1 ho)

/-! ### DDL -/

theorem mem_mentioned_name {S : Schema} {o : Top QName} (ho : o ∈ S.objs) : o.name ∈ S.mentioned := by
  simp only [Schema.mentioned, List.mem_flatMap]
  exact ⟨o, ho, by simp [Top.mentioned]⟩

theorem mem_mentioned_shell {S : Schema} {o : Top QName} (ho : o ∈ S.objs) {q : QName}
    (hq : q ∈ o.shellNames) : q ∈ S.mentioned := by
  simp only [Schema.mentioned, List.mem_flatMap]
  exact ⟨o, ho, by simp [Top.mentioned, hq]⟩

theorem mem_mentioned_kid {S : Schema} {o : Top QName} (ho : o ∈ S.objs) {k : Kid QName}
    (hk : k ∈ o.kids) {q : QName} (hq : q ∈ k.names) : q ∈ S.mentioned := by
  simp only [Schema.mentioned, List.mem_flatMap]
  refine ⟨o, ho, ?_⟩
  simp only [Top.mentioned, Top.kidNames, List.mem_cons, List.mem_append, List.mem_flatMap]
  exact Or.inr (Or.inr ⟨k, hk, hq⟩)

/-- The statements describing a valid schema replay, under every context whose
    aliases shadow none of the mentioned modules, to the same finite map. -/
theorem describe_exec (tbl : FieldTable) (std : Env) (c : Ctx) (S : Schema)
    (hv : Valid tbl std S) (hs : CtxSafe c S) :
    ∃ ss S', describeStmts tbl S = .ok ss ∧ execStmts std c {} ss = .ok S' ∧ S'.Equiv S := by
  obtain ⟨l, hsort, hperm, hord⟩ := sortShells_spec S hv.acyclic
  refine ⟨(sortMods S.modules).map .createModule ++ l.map (shellStmt tbl) ++ l.flatMap (kidStmts tbl),
    ⟨sortMods S.modules, l⟩, by simp only [describeStmts, hsort], ?_, ⟨sortMods_perm _, hperm⟩⟩
  have hmem : ∀ o, o ∈ l ↔ o ∈ S.objs := fun o => hperm.mem_iff
  have hnames : (l.map (·.name)).Perm S.names := hperm.map _
  -- phase 1
  rw [List.append_assoc, execStmts_append]
  have h1 := exec_modules std c [] [] (sortMods S.modules)
    (modsOK_of_sorted std _ (sortMods_sorted _) ((sortMods_perm _).nodup_iff.2 hv.mods_nodup)
      (fun m hm => hv.mods_fresh m ((sortMods_perm _).mem_iff.1 hm))
      (fun m hm hlen => by
        rcases hv.mods_closed m ((sortMods_perm _).mem_iff.1 hm) hlen with hp | hp
        · exact Or.inl ((sortMods_perm _).mem_iff.2 hp)
        · exact Or.inr hp)
      [] _ rfl)
  simp only [List.nil_append] at h1
  rw [show ({} : Schema) = ⟨[], []⟩ from rfl, h1]
  simp only
  -- phase 2
  rw [execStmts_append]
  have h2 := exec_shells tbl std c (sortMods S.modules) [] l
    (fun o ho => (hv.covered o ((hmem o).1 ho)).1)
    (fun o ho => Or.inr ((sortMods_perm _).mem_iff.2 (hv.obj_mods o ((hmem o).1 ho))))
    (fun o ho => hv.names_fresh o.name (List.mem_map_of_mem ((hmem o).1 ho)))
    (by simpa using hnames.nodup_iff.2 hv.names_nodup)
    (fun o ho => hs o.name (mem_mentioned_name ((hmem o).1 ho)))
    (fun pre o post hsplit q hq => by
      have ho : o ∈ S.objs := (hmem o).1 (by rw [hsplit]; simp)
      refine ⟨hs q (mem_mentioned_shell ho hq), ?_⟩
      rcases hv.closed o ho q (List.mem_append_left _ hq) with hq' | hq'
      · exact Or.inr (Or.inl (by simpa using hord pre o post hsplit q hq hq'))
      · exact Or.inl hq')
  simp only [List.map_nil, List.nil_append] at h2
  rw [h2]
  simp only
  -- phase 3
  have h3 := exec_kids tbl std c (sortMods S.modules) [] l
    (by simpa using hnames.nodup_iff.2 hv.names_nodup)
    (fun o ho => hs o.name (mem_mentioned_name ((hmem o).1 ho)))
    (fun o ho => (hv.covered o ((hmem o).1 ho)).2)
    (fun o ho k hk q hq => by
      have ho' : o ∈ S.objs := (hmem o).1 ho
      refine ⟨hs q (mem_mentioned_kid ho' hk hq), ?_⟩
      have hq2 : q ∈ o.shellNames ++ o.kidNames := by
        simp only [Top.kidNames, List.mem_append, List.mem_flatMap]
        exact Or.inr ⟨k, hk, hq⟩
      rcases hv.closed o ho' q hq2 with hq' | hq'
      · exact Or.inr (by simpa using hnames.mem_iff.2 hq')
      · exact Or.inl hq')
  simpa using h3

end EdbVerif.Describe
