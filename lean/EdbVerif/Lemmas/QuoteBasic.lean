/-
Lemmas shared by the C18 proofs: hexadecimal round trips, the "walk-through"
predicates for the string / bytes scanners and the piecewise un-escaping
framework.
-/
import EdbVerif.Model.Lex
import EdbVerif.Model.Quote

namespace EdbVerif.Lex
open EdbVerif.Quote

/-! ### hexadecimal -/

theorem hexVal_hexDigit : ∀ n : Fin 16, hexVal (hexDigit n.val) = some n.val := by decide
theorem hexDigit_ne_plus : ∀ n : Fin 16, hexDigit n.val ≠ '+' := by decide

theorem hexVal_hexDigit' (n : Nat) (h : n < 16) : hexVal (hexDigit n) = some n :=
  hexVal_hexDigit ⟨n, h⟩

theorem parseHex_hex2 (n : Nat) (h : n < 256) : parseHex (hex2 n) = some n := by
  have h1 := hexVal_hexDigit' (n / 16 % 16) (by omega)
  have h2 := hexVal_hexDigit' (n % 16) (by omega)
  have h3 := hexDigit_ne_plus ⟨n / 16 % 16, by omega⟩
  simp only [hex2, parseHex, hexDigits, h1, h2]
  simp only [] at h3
  simp [h3]
  omega

theorem parseHex_hex4 (n : Nat) (h : n < 65536) : parseHex (hex4 n) = some n := by
  have h0 := hexVal_hexDigit' (n / 4096 % 16) (by omega)
  have h1 := hexVal_hexDigit' (n / 256 % 16) (by omega)
  have h2 := hexVal_hexDigit' (n / 16 % 16) (by omega)
  have h3 := hexVal_hexDigit' (n % 16) (by omega)
  have hp := hexDigit_ne_plus ⟨n / 4096 % 16, by omega⟩
  simp only [hex4, parseHex, hexDigits, h0, h1, h2, h3]
  simp only [] at hp
  simp [hp]
  omega

theorem parseHex_hex8 (n : Nat) (h : n < 4294967296) : parseHex (hex8 n) = some n := by
  have a0 := hexVal_hexDigit' (n / 65536 % 65536 / 4096 % 16) (by omega)
  have a1 := hexVal_hexDigit' (n / 65536 % 65536 / 256 % 16) (by omega)
  have a2 := hexVal_hexDigit' (n / 65536 % 65536 / 16 % 16) (by omega)
  have a3 := hexVal_hexDigit' (n / 65536 % 65536 % 16) (by omega)
  have h0 := hexVal_hexDigit' (n % 65536 / 4096 % 16) (by omega)
  have h1 := hexVal_hexDigit' (n % 65536 / 256 % 16) (by omega)
  have h2 := hexVal_hexDigit' (n % 65536 / 16 % 16) (by omega)
  have h3 := hexVal_hexDigit' (n % 65536 % 16) (by omega)
  have hp := hexDigit_ne_plus ⟨n / 65536 % 65536 / 4096 % 16, by omega⟩
  simp only [hex8, hex4, parseHex, hexDigits, List.cons_append, List.nil_append, a0, a1, a2, a3, h0, h1, h2, h3]
  simp only [] at hp
  simp [hp]
  omega

/-! ### walking through a string body -/

/-- bodies that `scanStr false q` walks through without stopping: no bare
    quote, no prohibited character, every backslash followed by a character
    other than `(` -/
def scanOK (q : Char) : List Char → Bool
  | [] => true
  | [c] => c ≠ '\\' && c ≠ q && (checkProhibited c true).isNone
  | c :: d :: ds =>
    if c = '\\' then d ≠ '(' && scanOK q ds
    else c ≠ q && (checkProhibited c true).isNone && scanOK q (d :: ds)

theorem scanStr_of_scanOK (q : Char) (hq : q ≠ '\\') (body rest : List Char) (h : scanOK q body = true) :
    scanStr false q (body ++ q :: rest) = .ok (body, .closed, rest) := by
  fun_induction scanOK q body with
  | case1 => cases rest <;> simp [scanStr, hq]
  | case2 c =>
    simp at h
    obtain ⟨⟨h1, h2⟩, h3⟩ := h
    have : checkProhibited c true = none := by
      cases hp : checkProhibited c true <;> simp_all
    cases rest <;> simp [scanStr, h1, h2, this, hq]
  | case3 d ds ih =>
    simp at h
    simp [scanStr, h.1, ih h.2]
  | case4 c d ds hc ih =>
    simp at h
    obtain ⟨⟨h1, h2⟩, h3⟩ := h
    have : checkProhibited c true = none := by
      cases hp : checkProhibited c true <;> simp_all
    have ih' := ih h3
    simp only [List.cons_append] at ih' ⊢
    simp [scanStr, hc, h1, this, ih']

/-- a body that does not end in a dangling backslash -/
theorem scanOK_append (q : Char) (a b : List Char) (ha : scanOK q a = true) (hb : scanOK q b = true) :
    scanOK q (a ++ b) = true := by
  fun_induction scanOK q a with
  | case1 => simpa using hb
  | case2 c =>
    simp at ha
    cases b with
    | nil => simp [scanOK, ha]
    | cons x xs => simp [scanOK, ha, hb]
  | case3 d ds ih =>
    simp at ha
    simp [scanOK, ha.1, ih ha.2]
  | case4 c d ds hc ih =>
    simp at ha
    have := ih ha.2
    simp only [List.cons_append] at this ⊢
    simp [scanOK, hc, ha.1.1, ha.1.2, this]

theorem scanOK_flatMap (q : Char) (f : Char → List Char) (s : List Char)
    (h : ∀ c ∈ s, scanOK q (f c) = true) : scanOK q (s.flatMap f) = true := by
  induction s with
  | nil => simp [scanOK]
  | cons c cs ih =>
    simp only [List.flatMap_cons]
    exact scanOK_append q _ _ (h c (by simp)) (ih (fun x hx => h x (by simp [hx])))

/-- raw strings: no escapes at all -/
theorem scanStr_raw (q : Char) (body rest : List Char)
    (h : ∀ c ∈ body, c ≠ q ∧ checkProhibited c true = none) :
    scanStr true q (body ++ q :: rest) = .ok (body, .closed, rest) := by
  induction body with
  | nil => cases rest <;> simp [scanStr]
  | cons c cs ih =>
    have hc := h c (by simp)
    have ih' := ih (fun x hx => h x (by simp [hx]))
    cases cs with
    | nil =>
      simp only [List.nil_append, List.cons_append] at ih' ⊢
      simp [scanStr, hc.1, hc.2, ih']
    | cons d ds =>
      simp only [List.cons_append] at ih' ⊢
      simp [scanStr, hc.1, hc.2, ih']

/-! ### un-escaping, piece by piece -/

/-- `p` is a complete escape unit that `unqStr` decodes to `out` -/
def UnqPiece (p out : List Char) : Prop :=
  ∀ tl, unqStr 0 false (p ++ tl) =
    match unqStr 0 false tl with
    | .ok r => .ok (out ++ r)
    | .error e => .error e

theorem unqStr_flatMap (f : Char → List Char) (s : List Char)
    (h : ∀ c ∈ s, UnqPiece (f c) [c]) : unqStr 0 false (s.flatMap f) = .ok s := by
  induction s with
  | nil => simp [unqStr]
  | cons c cs ih =>
    have := h c (by simp) (cs.flatMap f)
    simp only [List.flatMap_cons, this, ih (fun x hx => h x (by simp [hx]))]
    simp

theorem unqPiece_plain (c : Char) (h : c ≠ '\\') : UnqPiece [c] [c] := by
  intro tl
  simp only [List.cons_append, List.nil_append, unqStr, Bool.false_and, Bool.false_eq_true, if_false, h]
  cases unqStr 0 false tl <;> rfl

theorem unqStr_drop1 (ws : Bool) (c : Char) (cs : List Char) : unqStr 1 ws (c :: cs) = unqStr 0 ws cs := by
  simp [unqStr]

end EdbVerif.Lex
