/-
Lemmas shared by the C18 proofs: hexadecimal round trips, the "walk-through"
predicates for the string / bytes scanners and the piecewise un-escaping
framework.
-/
import EdbVerif.Model.Lex
import EdbVerif.Model.Quote

namespace EdbVerif.Lex
open EdbVerif.Quote

/-! ### hexadecimal -/

theorem hexVal_hexDigit : ∀ n : Fin 16, hexVal (hexDigit n.val) = some n.val := by decide
theorem hexDigit_ne_plus : ∀ n : Fin 16, hexDigit n.val ≠ '+' := by decide

theorem hexVal_hexDigit' (n : Nat) (h : n < 16) : hexVal (hexDigit n) = some n :=
  hexVal_hexDigit ⟨n, h⟩

theorem parseHex_hex2 (n : Nat) (h : n < 256) : parseHex (hex2 n) = some n := by
  have h1 := hexVal_hexDigit' (n / 16 % 16) (by omega)
  have h2 := hexVal_hexDigit' (n % 16) (by omega)
  have h3 := hexDigit_ne_plus ⟨n / 16 % 16, by omega⟩
  simp only [hex2, parseHex, hexDigits, h1, h2]
  simp only [] at h3
  simp [h3]
  omega

theorem parseHex_hex4 (n : Nat) (h : n < 65536) : parseHex (hex4 n) = some n := by
  have h0 := hexVal_hexDigit' (n / 4096 % 16) (by omega)
  have h1 := hexVal_hexDigit' (n / 256 % 16) (by omega)
  have h2 := hexVal_hexDigit' (n / 16 % 16) (by omega)
  have h3 := hexVal_hexDigit' (n % 16) (by omega)
  have hp := hexDigit_ne_plus ⟨n / 4096 % 16, by omega⟩
  simp only [hex4, parseHex, hexDigits, h0, h1, h2, h3]
  simp only [] at hp
  simp [hp]
  omega

theorem parseHex_hex8 (n : Nat) (h : n < 4294967296) : parseHex (hex8 n) = some n := by
  have a0 := hexVal_hexDigit' (n / 65536 % 65536 / 4096 % 16) (by omega)
  have a1 := hexVal_hexDigit' (n / 65536 % 65536 / 256 % 16) (by omega)
  have a2 := hexVal_hexDigit' (n / 65536 % 65536 / 16 % 16) (by omega)
  have a3 := hexVal_hexDigit' (n / 65536 % 65536 % 16) (by omega)
  have h0 := hexVal_hexDigit' (n % 65536 / 4096 % 16) (by omega)
  have h1 := hexVal_hexDigit' (n % 65536 / 256 % 16) (by omega)
  have h2 := hexVal_hexDigit' (n % 65536 / 16 % 16) (by omega)
  have h3 := hexVal_hexDigit' (n % 65536 % 16) (by omega)
  have hp := hexDigit_ne_plus ⟨n / 65536 % 65536 / 4096 % 16, by omega⟩
  simp only [hex8, hex4, parseHex, hexDigits, List.cons_append, List.nil_append, a0, a1, a2, a3, h0, h1, h2, h3]
  simp only [] at hp
  simp [hp]
  omega

/-! ### walking through a string body -/

/-- bodies that `scanStr false q` walks through without stopping: no bare
    quote, no prohibited character, every backslash followed by a character
    other than `(` -/
def scanOK (q : Char) : List Char → Bool
  | [] => true
  | [c] => c ≠ '\\' && c ≠ q && (checkProhibited c true).isNone
  | c :: d :: ds =>
    if c = '\\' then d ≠ '(' && scanOK q ds
    else c ≠ q && (checkProhibited c true).isNone && scanOK q (d :: ds)

theorem scanStr_of_scanOK (q : Char) (hq : q ≠ '\\') (body rest : List Char) (h : scanOK q body = true) :
    scanStr false q (body ++ q :: rest) = .ok (body, .closed, rest) := by
  fun_induction scanOK q body with
  | case1 => cases rest <;> simp [scanStr, hq]
  | case2 c =>
    simp at h
    obtain ⟨⟨h1, h2⟩, h3⟩ := h
    have : checkProhibited c true = none := by
      cases hp : checkProhibited c true <;> simp_all
    cases rest <;> simp [scanStr, h1, h2, this, hq]
  | case3 d ds ih =>
    simp at h
    simp [scanStr, h.1, ih h.2]
  | case4 c d ds hc ih =>
    simp at h
    obtain ⟨⟨h1, h2⟩, h3⟩ := h
    have : checkProhibited c true = none := by
      cases hp : checkProhibited c true <;> simp_all
    have ih' := ih h3
    simp only [List.cons_append] at ih' ⊢
    simp [scanStr, hc, h1, this, ih']

/-- a body that does not end in a dangling backslash -/
theorem scanOK_append (q : Char) (a b : List Char) (ha : scanOK q a = true) (hb : scanOK q b = true) :
    scanOK q (a ++ b) = true := by
  fun_induction scanOK q a with
  | case1 => simpa using hb
  | case2 c =>
    simp at ha
    cases b with
    | nil => simp [scanOK, ha]
    | cons x xs => simp [scanOK, ha, hb]
  | case3 d ds ih =>
    simp at ha
    simp [scanOK, ha.1, ih ha.2]
  | case4 c d ds hc ih =>
    simp at ha
    have := ih ha.2
    simp only [List.cons_append] at this ⊢
    simp [scanOK, hc, ha.1.1, ha.1.2, this]

theorem scanOK_flatMap (q : Char) (f : Char → List Char) (s : List Char)
    (h : ∀ c ∈ s, scanOK q (f c) = true) : scanOK q (s.flatMap f) = true := by
  induction s with
  | nil => simp [scanOK]
  | cons c cs ih =>
    simp only [List.flatMap_cons]
    exact scanOK_append q _ _ (h c (by simp)) (ih (fun x hx => h x (by simp [hx])))

/-- raw strings: no escapes at all -/
theorem scanStr_raw (q : Char) (body rest : List Char)
    (h : ∀ c ∈ body, c ≠ q ∧ checkProhibited c true = none) :
    scanStr true q (body ++ q :: rest) = .ok (body, .closed, rest) := by
  induction body with
  | nil => cases rest <;> simp [scanStr]
  | cons c cs ih =>
    have hc := h c (by simp)
    have ih' := ih (fun x hx => h x (by simp [hx]))
    cases cs with
    | nil =>
      simp only [List.nil_append, List.cons_append] at ih' ⊢
      simp [scanStr, hc.1, hc.2, ih']
    | cons d ds =>
      simp only [List.cons_append] at ih' ⊢
      simp [scanStr, hc.1, hc.2, ih']

/-! ### un-escaping, piece by piece -/

/-- `p` is a complete escape unit that `unqStr` decodes to `out` -/
def UnqPiece (p out : List Char) : Prop :=
  ∀ tl, unqStr 0 false (p ++ tl) =
    match unqStr 0 false tl with
    | .ok r => .ok (out ++ r)
    | .error e => .error e

theorem unqStr_flatMap (f : Char → List Char) (s : List Char)
    (h : ∀ c ∈ s, UnqPiece (f c) [c]) : unqStr 0 false (s.flatMap f) = .ok s := by
  induction s with
  | nil => simp [unqStr]
  | cons c cs ih =>
    have := h c (by simp) (cs.flatMap f)
    simp only [List.flatMap_cons, this, ih (fun x hx => h x (by simp [hx]))]
    simp

theorem unqPiece_plain (c : Char) (h : c ≠ '\\') : UnqPiece [c] [c] := by
  intro tl
  simp only [List.cons_append, List.nil_append, unqStr, Bool.false_and, Bool.false_eq_true, if_false, h]
  cases unqStr 0 false tl <;> rfl

theorem unqStr_drop1 (ws : Bool) (c : Char) (cs : List Char) : unqStr 1 ws (c :: cs) = unqStr 0 ws cs := by
  simp [unqStr]

/-! ### the numeric escapes `\\xNN`, `\\uNNNN`, `\\UNNNNNNNN` -/

theorem checkProhibited_none (c : Char) (e : Bool) (h0 : c.toNat ≠ 0) (hb : isBidi c = false) :
    checkProhibited c e = none := by
  simp [checkProhibited, h0, hb]

theorem flatMap_single (s : List Char) : s.flatMap (fun c => [c]) = s := by
  induction s with
  | nil => rfl
  | cons c cs ih => simp [List.flatMap_cons, ih]

/-! ### hex digits inside a string body -/

theorem hexDigit_body : ∀ k : Fin 16,
    hexDigit k.val ≠ '\\' ∧ hexDigit k.val ≠ '\'' ∧ hexDigit k.val ≠ '"' ∧
    checkProhibited (hexDigit k.val) true = none := by decide

theorem scanOK_hex (q : Char) (hq : q = '\'' ∨ q = '"') (k : Nat) (hk : k < 16) (l : List Char)
    (hl : l ≠ []) : scanOK q (hexDigit k :: l) = scanOK q l := by
  obtain ⟨h1, h2, h3, h4⟩ := hexDigit_body ⟨k, hk⟩
  have hne : hexDigit k ≠ q := by rcases hq with rfl | rfl <;> assumption
  cases l with
  | nil => exact absurd rfl hl
  | cons d ds => simp [scanOK, h1, hne, h4]

theorem scanOK_hex1 (q : Char) (hq : q = '\'' ∨ q = '"') (k : Nat) (hk : k < 16) :
    scanOK q [hexDigit k] = true := by
  obtain ⟨h1, h2, h3, h4⟩ := hexDigit_body ⟨k, hk⟩
  have hne : hexDigit k ≠ q := by rcases hq with rfl | rfl <;> assumption
  simp [scanOK, h1, hne, h4]

/-! ### the escapes `repr` emits -/

theorem strEscape_x (n : Nat) (hn : n < 128) (h0 : n ≠ 0) (tl : List Char) :
    strEscape ('x' :: (hex2 n ++ tl)) = .ok ([Char.ofNat n], 3, false) := by
  have := parseHex_hex2 n (by omega)
  simp only [hex2] at this
  simp only [strEscape, hex2, List.cons_append, List.nil_append, this]
  have : ¬ (n > 127 ∨ n = 0) := by omega
  simp [this]

theorem charValid (c : Char) : c.toNat < 0xd800 ∨ (0xdfff < c.toNat ∧ c.toNat < 0x110000) := by
  have := c.valid
  simp only [UInt32.isValidChar, Nat.isValidChar] at this
  exact this

theorem escChar?_toNat (c : Char) (h0 : c.toNat ≠ 0) : escChar? c.toNat = some c := by
  have := charValid c
  simp [escChar?, h0, this, Char.ofNat_toNat]

theorem strEscape_u (c : Char) (hn : c.toNat < 65536) (h0 : c.toNat ≠ 0) (tl : List Char) :
    strEscape ('u' :: (hex4 c.toNat ++ tl)) = .ok ([c], 5, false) := by
  have := parseHex_hex4 c.toNat hn
  simp only [hex4] at this
  simp only [strEscape, hex4, List.cons_append, List.nil_append, this]
  simp [escChar?_toNat c h0]

theorem strEscape_U (c : Char) (h0 : c.toNat ≠ 0) (tl : List Char) :
    strEscape ('U' :: (hex8 c.toNat ++ tl)) = .ok ([c], 9, false) := by
  have hlt : c.toNat < 4294967296 := by have := charValid c; omega
  have := parseHex_hex8 c.toNat hlt
  simp only [hex8, hex4, List.cons_append, List.nil_append] at this
  simp only [strEscape, hex8, hex4, List.cons_append, List.nil_append, this]
  simp [escChar?_toNat c h0]

theorem unqPiece_x (c : Char) (hn : c.toNat < 128) (h0 : c.toNat ≠ 0) :
    UnqPiece ('\\' :: 'x' :: hex2 c.toNat) [c] := by
  intro tl
  have h := strEscape_x c.toNat hn h0 tl
  simp only [List.cons_append, unqStr, Bool.false_and, Bool.false_eq_true, if_false, if_true, h]
  simp only [hex2, List.cons_append, List.nil_append, unqStr, Char.ofNat_toNat]
  cases unqStr 0 false tl <;> rfl

theorem unqPiece_u (c : Char) (hn : c.toNat < 65536) (h0 : c.toNat ≠ 0) :
    UnqPiece ('\\' :: 'u' :: hex4 c.toNat) [c] := by
  intro tl
  have h := strEscape_u c hn h0 tl
  simp only [List.cons_append, unqStr, Bool.false_and, Bool.false_eq_true, if_false, if_true, h]
  simp only [hex4, List.cons_append, List.nil_append, unqStr]
  cases unqStr 0 false tl <;> rfl

theorem unqPiece_U (c : Char) (h0 : c.toNat ≠ 0) :
    UnqPiece ('\\' :: 'U' :: hex8 c.toNat) [c] := by
  intro tl
  have h := strEscape_U c h0 tl
  simp only [List.cons_append, unqStr, Bool.false_and, Bool.false_eq_true, if_false, if_true, h]
  simp only [hex8, hex4, List.cons_append, List.nil_append, unqStr]
  cases unqStr 0 false tl <;> rfl

theorem scanOK_bs (q d : Char) (hd : d ≠ '(') (l : List Char) :
    scanOK q ('\\' :: d :: l) = scanOK q l := by
  simp [scanOK, hd]

theorem scanOK_hex4 (q : Char) (hq : q = '\'' ∨ q = '"') (n : Nat) (l : List Char) (hl : l ≠ []) :
    scanOK q (hex4 n ++ l) = scanOK q l := by
  simp only [hex4, List.cons_append, List.nil_append]
  rw [scanOK_hex q hq _ (by omega) _ (by simp), scanOK_hex q hq _ (by omega) _ (by simp),
    scanOK_hex q hq _ (by omega) _ (by simp), scanOK_hex q hq _ (by omega) _ hl]

theorem scanOK_hex4' (q : Char) (hq : q = '\'' ∨ q = '"') (n : Nat) : scanOK q (hex4 n) = true := by
  simp only [hex4]
  rw [scanOK_hex q hq _ (by omega) _ (by simp), scanOK_hex q hq _ (by omega) _ (by simp),
    scanOK_hex q hq _ (by omega) _ (by simp), scanOK_hex1 q hq _ (by omega)]

theorem scanOK_x (q : Char) (hq : q = '\'' ∨ q = '"') (n : Nat) :
    scanOK q ('\\' :: 'x' :: hex2 n) = true := by
  rw [scanOK_bs q 'x' (by decide), hex2, scanOK_hex q hq _ (by omega) _ (by simp),
    scanOK_hex1 q hq _ (by omega)]

theorem scanOK_u (q : Char) (hq : q = '\'' ∨ q = '"') (n : Nat) :
    scanOK q ('\\' :: 'u' :: hex4 n) = true := by
  rw [scanOK_bs q 'u' (by decide), scanOK_hex4' q hq]

theorem scanOK_U (q : Char) (hq : q = '\'' ∨ q = '"') (n : Nat) :
    scanOK q ('\\' :: 'U' :: hex8 n) = true := by
  rw [scanOK_bs q 'U' (by decide), hex8, scanOK_hex4 q hq _ _ (by simp [hex4]), scanOK_hex4' q hq]

end EdbVerif.Lex
