/-
`_update_obj_name`: what the three name maps contain afterwards.
-/
import EdbVerif.Lemmas.StoreMap

namespace EdbVerif.Store

theorem dropMain_char {m m1 : NameMaps} {c : Cls} {o : Name}
    (h : dropMain m c o = .ok m1) :
    (∀ n, mget m1.n2i n = if c.isGlobal = false ∧ n = o then none else mget m.n2i n) ∧
    (∀ k, mget m1.g k = if c.isGlobal = true ∧ k = (c, o) then none else mget m.g k) ∧
    m1.sn = m.sn := by
  unfold dropMain at h
  cases hg : c.isGlobal <;> simp only [hg, Bool.false_eq_true, ↓reduceIte] at h
  all_goals (split at h <;> cases h)
  all_goals simp [mget_merase]

theorem dropShort_char {m m1 : NameMaps} {id : Nat} {c : Cls} {o : Name}
    (h : dropShort m id c o = .ok m1) :
    m1.n2i = m.n2i ∧ m1.g = m.g ∧
    (∀ e, e ∈ m1.sn ↔ e ∈ m.sn ∧ ¬(c.hasSn = true ∧ e = (c, o.short, id))) := by
  unfold dropShort at h
  cases hs : c.hasSn <;> simp only [hs, Bool.false_eq_true, ↓reduceIte] at h
  · injection h with h; subst h; simp
  · split at h
    · injection h with h; subst h; simp
    · cases h

theorem dropName_char {m m1 : NameMaps} {id : Nat} {c : Cls} {o : Name}
    (h : dropName m id c o = .ok m1) :
    (∀ n, mget m1.n2i n = if c.isGlobal = false ∧ n = o then none else mget m.n2i n) ∧
    (∀ k, mget m1.g k = if c.isGlobal = true ∧ k = (c, o) then none else mget m.g k) ∧
    (∀ e, e ∈ m1.sn ↔ e ∈ m.sn ∧ ¬(c.hasSn = true ∧ e = (c, o.short, id))) := by
  unfold dropName at h
  split at h
  · cases h
  · rename_i m0 h0
    obtain ⟨a1, a2, a3⟩ := dropMain_char h0
    obtain ⟨b1, b2, b3⟩ := dropShort_char h
    refine ⟨?_, ?_, ?_⟩
    · intro n; rw [b1, a1]
    · intro k; rw [b2, a2]
    · intro e; rw [b3, a3]

theorem putMain_char {s : State} {m m1 : NameMaps} {id : Nat} {c : Cls} {n : Name}
    (h : putMain s m id c n = .ok m1) :
    (∀ n', mget m1.n2i n' = if c.isGlobal = false ∧ n' = n then some id else mget m.n2i n') ∧
    (∀ k, mget m1.g k = if c.isGlobal = true ∧ k = (c, n) then some id else mget m.g k) ∧
    m1.sn = m.sn ∧
    (c.isGlobal = false → mget m.n2i n = none) ∧
    (c.isGlobal = true → mget m.g (c, n) = none) := by
  unfold putMain at h
  cases hg : c.isGlobal <;> simp only [hg, Bool.false_eq_true, ↓reduceIte] at h
  · repeat' split at h
    all_goals cases h
    simp_all [mget_mset]
  · repeat' split at h
    all_goals cases h
    simp_all [mget_mset]

theorem putName_char {s : State} {m m1 : NameMaps} {id : Nat} {c : Cls} {n : Name}
    (h : putName s m id c n = .ok m1) :
    (∀ n', mget m1.n2i n' = if c.isGlobal = false ∧ n' = n then some id else mget m.n2i n') ∧
    (∀ k, mget m1.g k = if c.isGlobal = true ∧ k = (c, n) then some id else mget m.g k) ∧
    (∀ e, e ∈ m1.sn ↔ (c.hasSn = true ∧ e = (c, n.short, id)) ∨ e ∈ m.sn) ∧
    (c.isGlobal = false → mget m.n2i n = none) ∧
    (c.isGlobal = true → mget m.g (c, n) = none) := by
  unfold putName at h
  split at h
  · cases h
  · rename_i m0 h0
    injection h with h; subst h
    obtain ⟨a1, a2, a3, a4, a5⟩ := putMain_char h0
    refine ⟨?_, ?_, ?_, a4, a5⟩
    · intro n'; rw [← a1]; unfold putShort; split <;> rfl
    · intro k; rw [← a2]; unfold putShort; split <;> rfl
    · intro e; unfold putShort
      cases hs : c.hasSn <;> simp [a3]


/-- What `_update_obj_name(id, c, n0, n1)` did to the three name maps. -/
structure NameChar (s : State) (id : Nat) (c : Cls) (n0 n1 : Option Name) (nm : NameMaps) : Prop where
  n2i : ∀ n, mget nm.n2i n =
    if c.isGlobal = false ∧ n1 = some n then some id
    else if c.isGlobal = false ∧ n0 = some n then none else mget s.nameToId n
  g : ∀ c' n, mget nm.g (c', n) =
    if c.isGlobal = true ∧ c' = c ∧ n1 = some n then some id
    else if c.isGlobal = true ∧ c' = c ∧ n0 = some n then none else mget s.globalNameToId (c', n)
  sn : ∀ e, e ∈ nm.sn ↔
    (c.hasSn = true ∧ ∃ n, n1 = some n ∧ e = (c, n.short, id)) ∨
    (e ∈ s.shortNameToId ∧ ¬(c.hasSn = true ∧ ∃ o, n0 = some o ∧ e = (c, o.short, id)))
  fresh_q : ∀ n, c.isGlobal = false → n1 = some n → mget s.nameToId n = none ∨ n0 = some n
  fresh_g : ∀ n, c.isGlobal = true → n1 = some n → mget s.globalNameToId (c, n) = none ∨ n0 = some n

theorem updateObjName_char {s : State} {id : Nat} {c : Cls} {n0 n1 : Option Name} {nm : NameMaps}
    (h : updateObjName s id c n0 n1 = .ok nm) : NameChar s id c n0 n1 nm := by
  unfold updateObjName at h
  cases n0 with
  | none =>
    cases n1 with
    | none =>
      simp only at h
      injection h with h; subst h
      constructor <;> simp [State.nameMaps]
    | some n =>
      simp only at h
      obtain ⟨a1, a2, a3, a4, a5⟩ := putName_char h
      constructor
      · intro n'; rw [a1]; (simp [State.nameMaps] <;> grind)
      · intro c' n'; rw [a2]; (simp [State.nameMaps] <;> grind)
      · intro e; rw [a3]; simp [State.nameMaps]
      · intro n' hg h1; injection h1 with h1; subst h1; exact Or.inl (a4 hg)
      · intro n' hg h1; injection h1 with h1; subst h1; exact Or.inl (a5 hg)
  | some o =>
    simp only at h
    split at h
    · cases h
    · rename_i m1 h1
      obtain ⟨d1, d2, d3⟩ := dropName_char h1
      cases n1 with
      | none =>
        simp only at h
        injection h with h; subst h
        constructor
        · intro n'; rw [d1]; (simp [State.nameMaps] <;> grind)
        · intro c' n'; rw [d2]; (simp [State.nameMaps] <;> grind)
        · intro e; rw [d3]; simp [State.nameMaps]
        · intro n' _ h1; cases h1
        · intro n' _ h1; cases h1
      | some n =>
        simp only at h
        obtain ⟨a1, a2, a3, a4, a5⟩ := putName_char h
        constructor
        · intro n'; rw [a1, d1]; (simp [State.nameMaps] <;> grind)
        · intro c' n'; rw [a2, d2]; (simp [State.nameMaps] <;> grind)
        · intro e; rw [a3, d3]; simp [State.nameMaps]
        · intro n' hg h1; injection h1 with h1; subst h1
          have := a4 hg
          rw [d1] at this
          by_cases ho : n = o
          · exact Or.inr (by rw [ho])
          · left; simpa [hg, ho, State.nameMaps] using this
        · intro n' hg h1; injection h1 with h1; subst h1
          have := a5 hg
          rw [d2] at this
          by_cases ho : n = o
          · exact Or.inr (by rw [ho])
          · left; simpa [hg, ho, State.nameMaps] using this

end EdbVerif.Store

