/-
C09: session state sent by the client (`decode_state`).  A change is harmless whenever the
compiler state the server holds is already synchronised to the server's transaction id (or the
server is outside a block); right after a ROLLBACK TO it is not (counterexample in Props).
Core Lean only.
-/
import EdbVerif.Lemmas.TxProto

namespace EdbVerif.Tx

/-- the compiler state the server holds is at the server's transaction id: the next
    `compile_in_tx` will not take the `sync_to_savepoint` path -/
def Server.settled (S : Server) : Prop :=
  S.inTx = false ∨ ∃ c t, S.last = some c ∧ curTx c = some t ∧ t.id = S.txid

theorem rel_clientState {S : Server} {p : PSpec} (hR : Rel S p) (hs : S.settled)
    (cs : Option (Nat × Nat)) : Rel (S.clientState cs) (p.clientState cs) := by
  cases cs with
  | none => exact hR
  | some av =>
    obtain ⟨a, v⟩ := av
    unfold Rel at hR
    by_cases hin : S.inTx = true
    · rw [if_pos hin] at hR
      obtain ⟨c, t, hl, h⟩ := hR
      have hid : t.id = S.txid := by
        rcases hs with ho | ⟨c', t', hl', hc', hid'⟩
        · rw [hin] at ho; cases ho
        · rw [hl] at hl'; cases hl'
          rw [h.inv1.cur] at hc'; cases hc'
          exact hid'
      have hS : S.clientState (some (a, v)) = { S with txAliases := a, txConfig := v } := by
        simp [Server.clientState, Server.setAliases, Server.setConfig, hin]
      have hp : p.clientState (some (a, v)) = { p with cur := { p.cur with aliases := a, config := v } } := by
        simp [PSpec.clientState, h.pin]
      rw [hS, hp]
      refine rel_inTx (S := { S with txAliases := a, txConfig := v }) (t := t) hl ?_
      refine h.transport h.inv1.cur (Nat.le_refl _) rfl (fun i x hx _ => hx) rfl rfl rfl h.curKey
        ⟨rfl, rfl, rfl, rfl, rfl, rfl⟩ ⟨rfl, rfl, rfl⟩ h.pfail ?_
      rcases h.sync with ⟨_, hpl⟩ | ⟨hne, _⟩
      · refine Or.inl ⟨hid, fun hf => ?_⟩
        have := hpl hf
        show withView t.current.pl a v = { p.cur with aliases := a, config := v }
        rw [← this]; rfl
      · exact absurd hid hne
    · have hin' : S.inTx = false := by simpa using hin
      rw [if_neg hin] at hR
      obtain ⟨her, hsps, hp⟩ := hR
      have hS : S.clientState (some (a, v)) = { S with aliases := a, config := v } := by
        simp [Server.clientState, Server.setAliases, Server.setConfig, hin']
      have hpin : p.inTx = false := by rw [hp]; rfl
      rw [hS]
      have : p.clientState (some (a, v)) =
          PSpec.out ⟨S.uschema, S.gschema, a, v⟩ := by
        simp [PSpec.clientState, hp, PSpec.out]
      rw [this]
      exact rel_out { S with aliases := a, config := v } hin' her hsps

/-- One statement with a client-side change of the session state, from a settled state. -/
theorem stepOk_client {S : Server} {p : PSpec} (hR : Rel S p) (hs : S.settled) (e : CEv)
    (hcov : (p.clientState e.cs).covers e.ev = true) :
    StepOk (S.clientState e.cs) (p.clientState e.cs) e.ev :=
  stepOk_all (rel_clientState hR hs e.cs) e.ev hcov

end EdbVerif.Tx
