/-
C09, the detached shapes: COMMIT / ROLLBACK compiled (the compiler has swapped in a fresh
implicit `Transaction`) and then failing in the backend while the backend stays in the block,
with the server holding a savepoint id.  The next `compile_in_tx` re-attaches the transaction
that declared the savepoint (`sync_tx → sync_to_savepoint: self._current_tx = sp.tx`).
Core Lean only.
-/
import EdbVerif.Lemmas.TxProto

namespace EdbVerif.Tx

/-- `S.step e` from the result of `compile_in_tx`'s prefix (session view + sync). -/
theorem step_of_prefix {S : Server} {c : ConState} (hin : S.inTx = true) (hl : S.last = some c)
    (e : SEv) (c2 : ConState) (ag : Option Payload)
    (heq : compileInTxWith c S.txid S.txAliases S.txConfig S.txErr
        (fun c2 => compileStmt c2 S.txErr e.cf e.stmt) (tryCompileRollback e.stmt) =
      { st := (compileStmt c2 S.txErr e.cf e.stmt).1, against := ag,
        res := (compileStmt c2 S.txErr e.cf e.stmt).2 }) :
    S.step e = afterCompile S e ag (compileStmt c2 S.txErr e.cf e.stmt) := by
  unfold Server.step Server.stepOn
  simp only [Server.compileOn, hin, ↓reduceIte, hl, compileInTx, heq]
  unfold afterCompile
  rcases hcs : compileStmt c2 S.txErr e.cf e.stmt with ⟨c3, _ | u⟩
  · simp [Server.compileFailed, hin]
  · simp [hin]

/-- the statement that detaches: COMMIT failing in place, or ROLLBACK failing -/
def SEv.detaching (e : SEv) : Bool :=
  match e.stmt with
  | .commit => e.bf && e.stay
  | .rollback => e.bf
  | _ => false

/-- First step: from a healthy coupled state the detaching statement is compiled against the
    exposed payload, fails, and leaves the server in the block, aborted, holding a compiler
    state whose current transaction is a fresh implicit one on top of the old heap. -/
theorem detach_step {S : Server} {c : ConState} {t : Txn} {p : PSpec}
    (hl : S.last = some c) (h : InTx S c t p) (hf : p.failed = false)
    (e : SEv) (hd : e.detaching = true) :
    ∃ c2 t2 pl', NTx S c2 t2 p ∧
      (S.step e).1 = { S with last := some (initCurrentTx c2 pl'), txErr := true } ∧
      (S.step e).2.outcome = .failed ∧ (S.step e).2.against = some p.exposed ∧
      p.step e = ({ p with failed := true }, .failed) := by
  obtain ⟨c2, t2, hN, hstep⟩ := step_inTx_unfold hl h e
  have her : S.txErr = false := by rw [← h.pfail]; exact hf
  have himp : t2.implicit = false := hN.expl
  have hexp : some t2.current.pl = some p.exposed := by simp [PSpec.exposed, h.pin, hN.curPl hf]
  unfold SEv.detaching at hd
  cases hs : e.stmt with
  | commit =>
    simp only [hs, Bool.and_eq_true] at hd
    refine ⟨c2, t2, t2.current.pl, hN, ?_, ?_, ?_, ?_⟩
    · rw [hstep, hs]
      simp [compileStmt, commitTx, hN.inv1.cur, himp, afterCompile, Server.run, her, Server.execute,
        Server.start, hd.1, hd.2, h.sin]
    · rw [hstep, hs]
      simp [compileStmt, commitTx, hN.inv1.cur, himp, afterCompile, Server.run, her, Server.execute,
        Server.start, hd.1, hd.2, h.sin]
    · rw [hstep, hs, ← hexp]
      simp [compileStmt, commitTx, hN.inv1.cur, himp, afterCompile, her]
    · unfold PSpec.step; simp [h.pin, hf, hs, hd.1, hd.2, PSpec.abort]
  | rollback =>
    simp only [hs] at hd
    refine ⟨c2, t2, t2.state0.pl, hN, ?_, ?_, ?_, ?_⟩
    · rw [hstep, hs]
      simp [compileStmt, rollbackTx, hN.inv1.cur, afterCompile, Server.run, her, Server.execute,
        Server.start, hd, h.sin]
    · rw [hstep, hs]
      simp [compileStmt, rollbackTx, hN.inv1.cur, afterCompile, Server.run, her, Server.execute,
        Server.start, hd, h.sin]
    · rw [hstep, hs, ← hexp]
      simp [compileStmt, rollbackTx, hN.inv1.cur, afterCompile, her]
    · unfold PSpec.step; simp [h.pin, hf, hs, hd, PSpec.abort]
  | start => simp [hs] at hd
  | declare n => simp [hs] at hd
  | release n => simp [hs] at hd
  | rollbackTo n => simp [hs] at hd
  | upd u => simp [hs] at hd
  | query => simp [hs] at hd

/-- Re-attachment: on the detached state `compile_in_tx` takes the `sync_to_savepoint` path and
    the statement runs on a synchronised state whose current transaction is the old explicit
    one again — provided the server's id is a savepoint id and no savepoint was declared after
    it (`sync_to_savepoint` purges every savepoint with a larger id). -/
theorem reattach_prefix {S : Server} {c2 : ConState} {t2 : Txn} {p : PSpec} (hN : NTx S c2 t2 p)
    (pl' : Payload)
    (hsp : ∃ q ∈ S.sps, q.spid = S.txid) (hH : ∀ q ∈ S.sps, q.spid ≤ S.txid)
    {α : Type} (body : ConState → ConState × M α) (esc : M α) :
    ∃ c5 t5, NTx { S with last := some (initCurrentTx c2 pl'), txErr := true } c5 t5
        { p with failed := true } ∧
      compileInTxWith (initCurrentTx c2 pl') S.txid S.txAliases S.txConfig true body esc =
        { st := (body c5).1, against := some t5.current.pl, res := (body c5).2 } := by
  obtain ⟨q, hq, hqid⟩ := hsp
  obtain ⟨hqb, sp, hsp, _, hsptx, _, _⟩ := hN.stLog q hq
  rw [hqid] at hsp hqb
  let c3 := initCurrentTx c2 pl'
  let T' : Txn := { id := c2.count + 1, implicit := true,
                    current := ⟨c2.count + 1, none, pl', c2.count + 1⟩,
                    state0 := ⟨c2.count + 1, none, pl', c2.count + 1⟩, sps := [] }
  have hc3 : curTx c3 = some T' := curTx_initCurrentTx c2 pl'
  obtain ⟨c4, hap, hc4, hk4, hl4, hn4, hheap4⟩ := applySession_eq c3 T' hc3 S.txAliases S.txConfig
  have hc3cur : c3.cur = c2.count + 1 := rfl
  have hne : c2.cur ≠ c3.cur := by have := hN.curBound; rw [hc3cur]; omega
  have hg : getTx c4 sp.tx = some t2 := by
    rw [hsptx, hheap4 _ hne]
    have : getTx c3 c2.cur = getTx c2 c2.cur := by
      have hb : (c2.cur == c2.count + 1) = false := by
        have := hN.curBound; simp; omega
      simp [c3, getTx, initCurrentTx, List.lookup, hb]
    rw [this]; exact hN.inv1.cur
  have hhas : dictHas c4.log S.txid = true := by
    rw [hl4, dictHas_eq]; show (dictGet c2.log S.txid).isSome = true; rw [hsp]; rfl
  have hsp4 : dictGet c4.log S.txid = some sp := by rw [hl4]; exact hsp
  have hle1 : ∀ x ∈ t2.sps, x.id ≤ S.txid := fun x hx => by
    obtain ⟨q', hq', hq'id⟩ := hN.live x hx
    rw [← hq'id]; exact hH q' hq'
  have hfil : t2.sps.filter (fun x => !(x.id > S.txid)) = t2.sps := by
    rw [List.filter_eq_self]; intro x hx
    have := hle1 x hx; simp; omega
  let t5 : Txn := { t2 with current := sp, id := S.txid, sps := t2.sps.filter (fun x => !(x.id > S.txid)) }
  let c5 : ConState := { setTx c4 sp.tx t5 with cur := sp.tx, log := c4.log.filter (fun x => !(x.id > S.txid)) }
  have hidne : (c2.count + 1 != S.txid) = true := by simp; omega
  have hs : syncTx c4 S.txid = .ok c5 := by
    unfold syncTx
    have : (T'.id == S.txid) = false := by show (c2.count + 1 == S.txid) = false; simp; omega
    simp only [hc4, this, Bool.false_eq_true, ↓reduceIte, hhas]
    unfold syncToSavepoint
    simp only [hsp4, hg]
    rfl
  have hcur5 : curTx c5 = some t5 := by simp [curTx, getTx, c5, setTx]
  have hI : InTx { S with last := some c3, txErr := true } c5 t5 { p with failed := true } := by
    refine hN.toInTx.transport hcur5 (by simp [c5, hn4, c3, initCurrentTx]) (by simp [c5, hsptx]) ?_
      (by simp [t5, hfil]) rfl rfl (by simp [t5, hsptx]) ⟨rfl, rfl, rfl, rfl, rfl, rfl⟩ ⟨rfl, rfl, rfl⟩ rfl
      (Or.inl ⟨rfl, fun hf => by simp at hf⟩)
    intro i x hx hor
    show dictGet (c4.log.filter (fun x => !(x.id > S.txid))) i = some x
    rw [dictGet_filter_le, hl4]
    have hile : i ≤ S.txid := by
      rcases hor with ⟨y, hy, rfl⟩ | ⟨q', hq', rfl⟩
      · exact hle1 y hy
      · exact hH q' hq'
    have : dictGet c3.log i = some x := hx
    simp [hile, this]
  refine ⟨c5, t5, ⟨hI, rfl, fun hf => by simp at hf, fun hf => by simp at hf, fun hf => by simp at hf⟩, ?_⟩
  have hap' : applySession (initCurrentTx c2 pl') S.txAliases S.txConfig = .ok c4 := hap
  have hidne' : (T'.id != S.txid) = true := hidne
  unfold compileInTxWith
  simp only [hap', hc4, hidne', hhas, Bool.not_true, Bool.and_false, Bool.false_eq_true, ↓reduceIte, hs,
    curPayload, hcur5, Option.map_some]


/-- The two steps that matter: a detaching failure, then a rescue statement. -/
theorem detached_rescue {S : Server} {p : PSpec} (hR : Rel S p) (hin : S.inTx = true)
    (hf : p.failed = false) (e1 : SEv) (hd : e1.detaching = true)
    (hsp : ∃ q ∈ S.sps, q.spid = S.txid) (hH : ∀ q ∈ S.sps, q.spid ≤ S.txid)
    (e2 : SEv) (he2 : e2.stmt = .rollback ∨ ∃ n, e2.stmt = .rollbackTo n) :
    (S.step e1).2.agrees { cls := (p.step e1).2, exposed := p.exposed, healthy := p.healthy } ∧
    ((S.step e1).1.step e2).2.agrees
      { cls := ((p.step e1).1.step e2).2, exposed := (p.step e1).1.exposed,
        healthy := (p.step e1).1.healthy } ∧
    (((S.step e1).1.step e2).2.outcome = .ok →
      Rel ((S.step e1).1.step e2).1 ((p.step e1).1.step e2).1) := by
  have hR' := hR
  unfold Rel at hR'
  rw [if_pos hin] at hR'
  obtain ⟨c, t, hl, h⟩ := hR'
  obtain ⟨c2, t2, pl', hN, hS1, ho1, ha1, hspec1⟩ := detach_step hl h hf e1 hd
  refine ⟨?_, ?_⟩
  · unfold SOut.agrees
    rw [ho1, ha1, hspec1]
    exact ⟨rfl, fun _ _ => rfl⟩
  rw [hS1, hspec1]
  obtain ⟨c5, t5, hN5, heq⟩ := reattach_prefix hN pl' hsp hH
    (fun c => compileStmt c true e2.cf e2.stmt) (tryCompileRollback e2.stmt)
  have hstep2 := step_of_prefix (S := { S with last := some (initCurrentTx c2 pl'), txErr := true })
    hin rfl e2 c5 (some t5.current.pl) heq
  have hp1f : ({ p with failed := true } : PSpec).failed = false → False := fun hh => by simp at hh
  rcases he2 with hs | ⟨n, hs⟩
  · rw [hs] at hstep2
    have := rollback_core hN5 e2 hs (fun hh => absurd hh (by simp)) hstep2
    exact ⟨this.2, fun _ => this.1⟩
  · rw [hs] at hstep2
    rcases rollbackTo_core hN5 e2 n hs hstep2 with hok | ⟨c3', err, hst, hsp2⟩
    · exact ⟨hok.2, fun _ => hok.1⟩
    · unfold SOut.agrees
      rw [hst, hsp2]
      refine ⟨⟨rfl, fun _ hne => absurd rfl hne⟩, fun hok => ?_⟩
      simp [afterCompile] at hok

end EdbVerif.Tx
