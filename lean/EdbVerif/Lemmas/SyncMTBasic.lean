/-
C17, remote path: facts about the pieces (`sync2`, `CS.diff`, `wsyncMT`, the LRU cache).
-/
import EdbVerif.Model.SyncMTSpec
import EdbVerif.Lemmas.SyncBasic

namespace EdbVerif.SyncMT
open EdbVerif.Sync

/-! ### `_sync` on the compiler server -/

theorem stampO_cases (clock : Nat) (x : Option Tok) (old : St) :
    (x = none ∧ stampO clock x old = old) ∨ (∃ t, x = some t ∧ stampO clock x old = ⟨t, clock⟩) := by
  cases x <;> simp [stampO]

/-- every slot keeps its (stamped) value or takes the value sent for it, freshly stamped -/
theorem sync2_slot (cs cs' : CS) (db : Nat) (p : Parts) (clock : Nat) (u : Bool)
    (h : sync2 cs db p clock = some (cs', u)) (σ : Slot) :
    (p.at db σ = none ∧ cs'.get σ = cs.get σ) ∨
      ∃ t, p.at db σ = some t ∧ cs'.get σ = some ⟨t, clock⟩ := by
  unfold sync2 at h
  split at h
  · rename_i hdb
    split at h
    · simp only [Option.some.injEq, Prod.mk.injEq] at h
      obtain ⟨h, _⟩ := h; subst h
      cases σ <;> simp only [CS.get, Parts.at] <;> (try split) <;>
        simp_all [stampO_cases]
      all_goals first | (cases p.glob <;> simp [stampO]) | (cases p.sys <;> simp [stampO])
    · simp at h
  · rename_i d hdb
    split at h
    · rename_i he
      simp only [Option.some.injEq, Prod.mk.injEq] at h
      obtain ⟨h, _⟩ := h; subst h
      left
      simp only [Parts.isEmpty, Bool.and_eq_true, Option.isNone_iff_eq_none] at he
      cases σ <;> simp only [Parts.at] <;> (try split) <;> simp_all
    · simp only [Option.some.injEq, Prod.mk.injEq] at h
      obtain ⟨h, _⟩ := h; subst h
      cases σ <;> simp only [CS.get, Parts.at]
      · split
        · rename_i hi; subst hi
          split
          · simp only [if_true, Option.map_some, hdb]
            cases p.schema <;> simp [stampO]
          · rename_i hn; simp at hn; simp [hn]
        · split <;> simp_all
      · split
        · rename_i hi; subst hi
          split
          · simp only [if_true, Option.map_some, hdb]
            cases p.refl <;> simp [stampO]
          · rename_i hn; simp at hn; simp [hn]
        · split <;> simp_all
      · split
        · rename_i hi; subst hi
          split
          · simp only [if_true, Option.map_some, hdb]
            cases p.dbcfg <;> simp [stampO]
          · rename_i hn; simp at hn; simp [hn]
        · split <;> simp_all
      · cases p.glob <;> simp [stampO]
      · cases p.sys <;> simp [stampO]

theorem sync2_dbs_mono (cs cs' : CS) (db : Nat) (p : Parts) (clock : Nat) (u : Bool)
    (h : sync2 cs db p clock = some (cs', u)) (i : Nat) (hi : cs.dbs i ≠ none) :
    cs'.dbs i ≠ none := by
  unfold sync2 at h
  split at h
  · split at h
    · simp only [Option.some.injEq, Prod.mk.injEq] at h
      obtain ⟨h, _⟩ := h; subst h
      simp only []; split <;> simp_all
    · simp at h
  · split at h
    · simp only [Option.some.injEq, Prod.mk.injEq] at h
      obtain ⟨h, _⟩ := h; subst h; exact hi
    · simp only [Option.some.injEq, Prod.mk.injEq] at h
      obtain ⟨h, _⟩ := h; subst h
      simp only []; split
      · simp only []; split <;> simp_all
      · exact hi

/-- `_sync` returns `False` iff it stored nothing (same object); otherwise the new
    `ClientSchema` object is fresh -/
theorem sync2_ver (cs cs' : CS) (db : Nat) (p : Parts) (clock : Nat) (u : Bool)
    (h : sync2 cs db p clock = some (cs', u)) :
    (u = false ∧ cs' = cs) ∨ (u = true ∧ cs'.ver = clock) := by
  unfold sync2 at h
  split at h
  · split at h
    · simp only [Option.some.injEq, Prod.mk.injEq] at h
      obtain ⟨h, hu⟩ := h; subst h; right; exact ⟨hu.symm, rfl⟩
    · simp at h
  · split at h
    · simp only [Option.some.injEq, Prod.mk.injEq] at h
      obtain ⟨h, hu⟩ := h; left; exact ⟨hu.symm, h.symm⟩
    · simp only [Option.some.injEq, Prod.mk.injEq] at h
      obtain ⟨h, hu⟩ := h; subst h; right; exact ⟨hu.symm, rfl⟩

/-! ### worker `__sync__`: after a successful sync the worker holds the version sent -/

theorem fieldDiff_none (a b : St) (h : fieldDiff a b = none) : a = b := by
  unfold fieldDiff at h; split at h <;> simp_all

theorem fieldDiff_some (a b : St) (t : Tok) (h : fieldDiff a b = some t) : t = a.tok := by
  unfold fieldDiff at h; split at h <;> simp_all

theorem wsyncMT_new (env : Env) (d : Diff) (x' : WClient)
    (h : wsyncMT env none (some d) = some (some x')) :
    ∃ g y, d.glob = some g ∧ d.sys = some y ∧ x' = initResult d g y := by
  unfold wsyncMT at h
  simp only [] at h
  split at h
  · rename_i g y hg hy
    split at h
    · simp at h
    · simp only [Option.some.injEq] at h; exact ⟨g, y, hg, hy, h.symm⟩
  · simp at h

theorem wsyncMT_over (env : Env) (d : Diff) (x x' : WClient)
    (h : wsyncMT env (some x) (some d) = some (some x')) : x' = diffResult x d := by
  unfold wsyncMT at h
  simp only [] at h
  split at h
  · simp at h
  · simp only [Option.some.injEq] at h; exact h.symm

/-- FULL SYNC into a worker that does not have the client -/
theorem wsyncMT_full_new (env : Env) (cs' : CS) (x' : WClient)
    (h : wsyncMT env none (some cs'.full) = some (some x')) : Holds x' cs' := by
  obtain ⟨g, y, hg, hy, hx⟩ := wsyncMT_new env _ x' h
  subst hx
  simp only [CS.full, Option.some.injEq] at hg hy
  subst hg hy
  intro σ
  cases σ <;> simp only [WClient.get, CS.cont, CS.get, initResult, CS.full] <;>
    first
    | (rename_i db; cases cs'.dbs db <;> simp)
    | rfl

/-- the whole schema sent to a worker that still has (some version of) the client -/
theorem wsyncMT_full_over (env : Env) (cs' : CS) (x x' : WClient)
    (hdom : ∀ db, x.dbs db ≠ none → cs'.dbs db ≠ none)
    (h : wsyncMT env (some x) (some cs'.full) = some (some x')) : Holds x' cs' := by
  have hx := wsyncMT_over env _ x x' h
  subst hx
  intro σ
  cases σ <;> simp only [WClient.get, CS.cont, CS.get, diffResult, CS.full] <;>
    first
    | (rename_i db
       have := hdom db
       cases hdb : cs'.dbs db <;> cases hx : x.dbs db <;> simp_all)
    | simp

/-- DIFF SYNC against the recorded version `v` -/
theorem wsyncMT_diff (env : Env) (cs' v : CS) (x x' : WClient)
    (hj : ∀ σ, v.get σ = cs'.get σ → x.get σ = cs'.cont σ)
    (hdom : ∀ db, x.dbs db ≠ none → cs'.dbs db ≠ none)
    (hsub : ∀ db, v.dbs db ≠ none → x.dbs db ≠ none)
    (h : wsyncMT env (some x) (some (cs'.diff v)) = some (some x')) : Holds x' cs' := by
  have hx := wsyncMT_over env _ x x' h
  subst hx
  intro σ
  have hdrop : ∀ db, (cs'.diff v).dropped.contains db = true → cs'.dbs db = none := by
    intro db hc
    simp only [CS.diff, List.contains_iff_mem, List.mem_filter] at hc
    have := hc.2; simp at this; exact this.1
  cases σ with
  | glob =>
    simp only [WClient.get, CS.cont, CS.get, diffResult, CS.diff]
    cases hf : fieldDiff cs'.glob v.glob with
    | none =>
      have := hj .glob (by simp [CS.get, fieldDiff_none _ _ hf])
      simpa [WClient.get, CS.cont, CS.get] using this
    | some t => simp [fieldDiff_some _ _ _ hf]
  | sys =>
    simp only [WClient.get, CS.cont, CS.get, diffResult, CS.diff]
    cases hf : fieldDiff cs'.sys v.sys with
    | none =>
      have := hj .sys (by simp [CS.get, fieldDiff_none _ _ hf])
      simpa [WClient.get, CS.cont, CS.get] using this
    | some t => simp [fieldDiff_some _ _ _ hf]
  | schema db =>
    simp only [WClient.get, CS.cont, CS.get, diffResult]
    cases hcs : cs'.dbs db with
    | none =>
      have hxn : x.dbs db = none := by
        cases hx : x.dbs db with
        | none => rfl
        | some o => exact absurd hcs (hdom db (by simp [hx]))
      have hd : (cs'.diff v).dbs db = none := by simp [CS.diff, hcs]
      simp [hd, hxn]
    | some s =>
      have hnd : (cs'.diff v).dropped.contains db = false := by
        cases hc : (cs'.diff v).dropped.contains db with
        | false => rfl
        | true => have := hdrop db hc; simp [hcs] at this
      simp only [hnd]
      cases hv : v.dbs db with
      | none =>
        have hd : (cs'.diff v).dbs db = some ⟨some s.schema.tok, some s.refl.tok, some s.dbcfg.tok⟩ := by
          simp [CS.diff, hcs, hv]
        cases hx : x.dbs db <;> simp [hd]
      | some o =>
        by_cases hso : s = o
        · have hd : (cs'.diff v).dbs db = none := by simp [CS.diff, hcs, hv, hso]
          have := hj (.schema db) (by simp [CS.get, hcs, hv, hso])
          simpa [hd, WClient.get, CS.cont, CS.get, hcs] using this
        · have hd : (cs'.diff v).dbs db = some ⟨fieldDiff s.schema o.schema, fieldDiff s.refl o.refl,
              fieldDiff s.dbcfg o.dbcfg⟩ := by simp [CS.diff, hcs, hv, hso]
          cases hx : x.dbs db with
          | none => exact absurd hx (hsub db (by simp [hv]))
          | some o' =>
            simp only [hd, Option.map_some]
            cases hf : fieldDiff s.schema o.schema with
            | none =>
              have := hj (.schema db) (by simp [CS.get, hcs, hv, fieldDiff_none _ _ hf])
              simpa [WClient.get, CS.cont, CS.get, hcs, hx] using this
            | some t => simp [fieldDiff_some _ _ _ hf]
  | refl db =>
    simp only [WClient.get, CS.cont, CS.get, diffResult]
    cases hcs : cs'.dbs db with
    | none =>
      have hxn : x.dbs db = none := by
        cases hx : x.dbs db with
        | none => rfl
        | some o => exact absurd hcs (hdom db (by simp [hx]))
      have hd : (cs'.diff v).dbs db = none := by simp [CS.diff, hcs]
      simp [hd, hxn]
    | some s =>
      have hnd : (cs'.diff v).dropped.contains db = false := by
        cases hc : (cs'.diff v).dropped.contains db with
        | false => rfl
        | true => have := hdrop db hc; simp [hcs] at this
      simp only [hnd]
      cases hv : v.dbs db with
      | none =>
        have hd : (cs'.diff v).dbs db = some ⟨some s.schema.tok, some s.refl.tok, some s.dbcfg.tok⟩ := by
          simp [CS.diff, hcs, hv]
        cases hx : x.dbs db <;> simp [hd]
      | some o =>
        by_cases hso : s = o
        · have hd : (cs'.diff v).dbs db = none := by simp [CS.diff, hcs, hv, hso]
          have := hj (.refl db) (by simp [CS.get, hcs, hv, hso])
          simpa [hd, WClient.get, CS.cont, CS.get, hcs] using this
        · have hd : (cs'.diff v).dbs db = some ⟨fieldDiff s.schema o.schema, fieldDiff s.refl o.refl,
              fieldDiff s.dbcfg o.dbcfg⟩ := by simp [CS.diff, hcs, hv, hso]
          cases hx : x.dbs db with
          | none => exact absurd hx (hsub db (by simp [hv]))
          | some o' =>
            simp only [hd, Option.map_some]
            cases hf : fieldDiff s.refl o.refl with
            | none =>
              have := hj (.refl db) (by simp [CS.get, hcs, hv, fieldDiff_none _ _ hf])
              simpa [WClient.get, CS.cont, CS.get, hcs, hx] using this
            | some t => simp [fieldDiff_some _ _ _ hf]
  | dbcfg db =>
    simp only [WClient.get, CS.cont, CS.get, diffResult]
    cases hcs : cs'.dbs db with
    | none =>
      have hxn : x.dbs db = none := by
        cases hx : x.dbs db with
        | none => rfl
        | some o => exact absurd hcs (hdom db (by simp [hx]))
      have hd : (cs'.diff v).dbs db = none := by simp [CS.diff, hcs]
      simp [hd, hxn]
    | some s =>
      have hnd : (cs'.diff v).dropped.contains db = false := by
        cases hc : (cs'.diff v).dropped.contains db with
        | false => rfl
        | true => have := hdrop db hc; simp [hcs] at this
      simp only [hnd]
      cases hv : v.dbs db with
      | none =>
        have hd : (cs'.diff v).dbs db = some ⟨some s.schema.tok, some s.refl.tok, some s.dbcfg.tok⟩ := by
          simp [CS.diff, hcs, hv]
        cases hx : x.dbs db <;> simp [hd]
      | some o =>
        by_cases hso : s = o
        · have hd : (cs'.diff v).dbs db = none := by simp [CS.diff, hcs, hv, hso]
          have := hj (.dbcfg db) (by simp [CS.get, hcs, hv, hso])
          simpa [hd, WClient.get, CS.cont, CS.get, hcs] using this
        · have hd : (cs'.diff v).dbs db = some ⟨fieldDiff s.schema o.schema, fieldDiff s.refl o.refl,
              fieldDiff s.dbcfg o.dbcfg⟩ := by simp [CS.diff, hcs, hv, hso]
          cases hx : x.dbs db with
          | none => exact absurd hx (hsub db (by simp [hv]))
          | some o' =>
            simp only [hd, Option.map_some]
            cases hf : fieldDiff s.dbcfg o.dbcfg with
            | none =>
              have := hj (.dbcfg db) (by simp [CS.get, hcs, hv, fieldDiff_none _ _ hf])
              simpa [WClient.get, CS.cont, CS.get, hcs, hx] using this
            | some t => simp [fieldDiff_some _ _ _ hf]


/-! ### the LRU cache of a worker record -/

theorem cacheGet_cons (cache : List (Nat × CS)) (c c' : Nat) (v : CS) :
    cacheGet ((c, v) :: cache) c' = if c = c' then some v else cacheGet cache c' := by
  unfold cacheGet
  simp only [List.find?_cons]
  by_cases h : c = c'
  · simp [h]
  · have : (c == c') = false := by simp [h]
    simp [this, h]

theorem cacheGet_filter_key (cache : List (Nat × CS)) (f : Nat → Bool) (c : Nat) :
    cacheGet (cache.filter (fun e => f e.1)) c = if f c then cacheGet cache c else none := by
  induction cache with
  | nil => simp [cacheGet]
  | cons e es ih =>
    simp only [List.filter_cons]
    by_cases hf : f e.1 = true
    · simp only [hf, if_true]
      rw [cacheGet_cons, show e :: es = (e.1, e.2) :: es from rfl, cacheGet_cons, ih]
      by_cases hc : e.1 = c
      · subst hc; simp [hf]
      · simp [hc]
    · simp only [hf, Bool.false_eq_true, if_false]
      rw [ih, show e :: es = (e.1, e.2) :: es from rfl, cacheGet_cons]
      by_cases hc : e.1 = c
      · subst hc; simp [hf]
      · simp [hc]

theorem cacheGet_set (cache : List (Nat × CS)) (c c' : Nat) (v : CS) :
    cacheGet (cacheSet cache c v) c' = if c = c' then some v else cacheGet cache c' := by
  unfold cacheSet
  rw [cacheGet_cons]
  by_cases h : c = c'
  · simp [h]
  · simp only [h, if_false]
    rw [cacheGet_filter_key cache (fun k => k != c) c']
    have : (c' != c) = true := by simp [bne_iff_ne, Ne.symm h]
    simp [this]

theorem cacheGet_dropLast (cache : List (Nat × CS)) (c : Nat) (v : CS)
    (h : cacheGet cache.dropLast c = some v) : cacheGet cache c = some v := by
  induction cache with
  | nil => simp [cacheGet] at h
  | cons e es ih =>
    cases es with
    | nil => simp [cacheGet] at h
    | cons e2 es2 =>
      rw [List.dropLast_cons_cons, show e :: (e2 :: es2).dropLast = (e.1, e.2) :: (e2 :: es2).dropLast from rfl,
        cacheGet_cons] at h
      rw [show e :: e2 :: es2 = (e.1, e.2) :: e2 :: es2 from rfl, cacheGet_cons]
      by_cases hc : e.1 = c
      · simpa [hc] using h
      · simp only [hc, if_false] at h ⊢
        exact ih h

end EdbVerif.SyncMT
