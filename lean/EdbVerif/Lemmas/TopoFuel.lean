/-
Fuel lemmas: the recursion bound `g.length + 1` is never exhausted.
-/
import EdbVerif.Lemmas.TopoAux

namespace EdbVerif.Topo

/-- enough fuel for a call with DFS stack `vis` -/
def Enough (g : Graph) (fuel : Nat) (vis : List Nat) : Prop :=
  vis.Nodup ∧ vis ⊆ g.keys ∧ g.length + 1 ≤ fuel + vis.length

theorem Enough.pos {g : Graph} {fuel : Nat} {vis : List Nat} (h : Enough g fuel vis) :
    ∃ f, fuel = f + 1 := by
  obtain ⟨hn, hs, hl⟩ := h
  have := List.Nodup.length_le_of_subset hn hs
  rw [keys_length] at this
  cases fuel with
  | zero => omega
  | succ f => exact ⟨f, rfl⟩

theorem Enough.child {g : Graph} {f : Nat} {vis : List Nat} {item : Nat}
    (h : Enough g (f + 1) vis) (hni : item ∉ vis) (hk : item ∈ g.keys) :
    Enough g f (vis ++ [item]) := by
  obtain ⟨hn, hs, hl⟩ := h
  refine ⟨?_, ?_, ?_⟩
  · rw [List.nodup_append]
    refine ⟨hn, List.nodup_singleton _, ?_⟩
    intro a ha b hb
    simp at hb; subst hb
    intro hab; subst hab; exact hni ha
  · intro x hx
    simp at hx
    rcases hx with hx | rfl
    · exact hs hx
    · exact hk
  · simp; omega

theorem Enough.nil {g : Graph} {fuel : Nat} (h : g.length + 1 ≤ fuel) : Enough g fuel [] :=
  ⟨List.nodup_nil, by simp, by simpa using h⟩

theorem Enough.mono {g : Graph} {f f' : Nat} {vis : List Nat} (h : Enough g f vis)
    (hle : f ≤ f') : Enough g f' vis :=
  ⟨h.1, h.2.1, by have := h.2.2; omega⟩

theorem frame_congr {g : Graph} {child child' : Nat → Bool → Bool → St → Res} {item : Nat}
    (h : ∀ n, (n ∈ weakAdj g item ∨ n ∈ adj g item ∨ n ∈ ctrl g item) →
      ∀ fc wl s, child n fc wl s = child' n fc wl s)
    (wcur : Nat) (fc wl : Bool) (st : St) :
    frame g child wcur item fc wl st = frame g child' wcur item fc wl st := by
  have e1 : loop (fun n s => child n false true s) (wcur == 0) (weakAdj g item)
      = loop (fun n s => child' n false true s) (wcur == 0) (weakAdj g item) :=
    funext (loop_congr (fun n hn s => h n (Or.inl hn) _ _ s))
  have e2 : loop (fun n s => child n false wl s) false (adj g item)
      = loop (fun n s => child' n false wl s) false (adj g item) :=
    funext (loop_congr (fun n hn s => h n (Or.inr (Or.inl hn)) _ _ s))
  have e3 : loop (fun n s => child n true wl s) false (ctrl g item)
      = loop (fun n s => child' n true wl s) false (ctrl g item) :=
    funext (loop_congr (fun n hn s => h n (Or.inr (Or.inr hn)) _ _ s))
  simp only [frame, e1, e2, e3]

theorem child_src {g : Graph} {item n : Nat}
    (h : n ∈ weakAdj g item ∨ n ∈ adj g item ∨ n ∈ ctrl g item) : item ∈ g.keys := by
  rcases h with h | h | h
  · exact (mem_weakAdj h).src
  · exact (mem_adj h).src
  · exact (mem_ctrl h).src

theorem child_tgt {g : Graph} {item n : Nat}
    (h : n ∈ weakAdj g item ∨ n ∈ adj g item ∨ n ∈ ctrl g item) : n ∈ g.keys := by
  rcases h with h | h | h
  · exact (mem_weakAdj h).tgt
  · exact (mem_adj h).tgt
  · exact (mem_ctrl h).tgt

/-- One more unit of fuel changes nothing once there is enough. -/
theorem visit_fuel_step (g : Graph) : ∀ (f : Nat) (vis : List Nat) (w item : Nat)
    (fc wl : Bool) (st : St), Enough g f vis →
    visit g (f + 1) vis w item fc wl st = visit g f vis w item fc wl st := by
  intro f
  induction f with
  | zero => intro vis w item fc wl st h; obtain ⟨f, hf⟩ := h.pos; cases hf
  | succ f ih =>
    intro vis w item fc wl st h
    rw [visit_succ g (f + 1), visit_succ g f]
    by_cases hc : vis.contains item = true
    · simp only [hc, if_true]
    · by_cases hv : st.visited.contains item = true
      · simp only [hv, if_true]
      · simp only [hc, hv]
        apply frame_congr
        intro n hn fc' wl' s
        have hni : item ∉ vis := by simpa using hc
        exact ih _ _ _ _ _ _ (h.child hni (child_src hn))

theorem visit_fuel_ge (g : Graph) (vis : List Nat) (w item : Nat) (fc wl : Bool) (st : St)
    (f : Nat) (h : Enough g f vis) : ∀ f', f ≤ f' →
    visit g f' vis w item fc wl st = visit g f vis w item fc wl st := by
  intro f' hle
  obtain ⟨d, rfl⟩ := Nat.exists_eq_add_of_le hle
  induction d with
  | zero => rfl
  | succ d ih =>
    rw [← Nat.add_assoc, visit_fuel_step g (f + d) vis w item fc wl st (h.mono (Nat.le_add_right _ _))]
    exact ih (Nat.le_add_right _ _)

theorem topLoop_congr {g : Graph} {f f' : Nat} :
    ∀ (ks : List Nat) (st : St),
    (∀ k ∈ ks, ∀ s, visit g f [] 0 k false false s = visit g f' [] 0 k false false s) →
    topLoop g f ks st = topLoop g f' ks st := by
  intro ks
  induction ks with
  | nil => intro st _; rfl
  | cons k ks ih =>
    intro st h
    simp only [topLoop, h k List.mem_cons_self st]
    rcases visit g f' [] 0 k false false st with ⟨s', _ | c⟩
    · exact ih s' (fun k' hk' => h k' (List.mem_cons_of_mem _ hk'))
    · rfl

theorem topLoop_fuel_aux (g : Graph) (fuel : Nat) (hf : g.length + 1 ≤ fuel) (ks : List Nat)
    (st : St) : topLoop g fuel ks st = topLoop g (g.length + 1) ks st :=
  topLoop_congr ks st (fun k _ s =>
    visit_fuel_ge g [] 0 k false false s (g.length + 1) (Enough.nil (Nat.le_refl _)) fuel hf)

end EdbVerif.Topo
