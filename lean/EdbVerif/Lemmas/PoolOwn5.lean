/-
C15, ownership part — part 5: the remaining primitives and the instance of the generic
induction principle for `InvNum ∧ InvQ ∧ InvOwn`.
-/
import EdbVerif.Lemmas.PoolOwn4

namespace EdbVerif.Pool

theorem dropBlock_own {s : State} (hw : WF s) (h : InvOwn s) {u : Nat} {b : Block}
    (hb : s.find u = some b) (ha : b.acquired = 0) :
    InvOwn { s with blocks := s.blocks.filter (·.uid != u) } := by
  have hbm := State.find_some hb
  refine ⟨?_, ?_, ?_, ?_, ?_, h.single, ?_, ?_, h.limboNd, h.limboUid⟩
  · intro b1 hb1 b2 hb2 e
    exact h.nameInj b1 (List.mem_filter.mp hb1).1 b2 (List.mem_filter.mp hb2).1 e
  · intro b1 hb1 b2 hb2 c h1 h2
    exact h.disj b1 (List.mem_filter.mp hb1).1 b2 (List.mem_filter.mp hb2).1 c h1 h2
  · intro x hx; exact h.stackIdle x (List.mem_filter.mp hx).1
  · intro x hx; exact h.stackNd x (List.mem_filter.mp hx).1
  · intro x hx
    obtain ⟨b1, hb1, hn, hc⟩ := h.held x hx
    refine ⟨b1, List.mem_filter.mpr ⟨hb1, ?_⟩, hn, hc⟩
    have : b1.uid ≠ u := by
      intro e
      have hbb : b1 = b := eq_of_uid hw.uids hb1 hbm.1 (e.trans hbm.2.symm)
      have hacq := h.acq b hbm.1
      rw [ha] at hacq
      have hmem : x ∈ s.holders.filter (·.name == b.name) :=
        List.mem_filter.mpr ⟨hx, by rw [← hbb, hn]; exact beq_self_eq_true _⟩
      have : (s.holders.filter (·.name == b.name)).length = 0 := by omega
      rw [List.length_eq_zero_iff] at this
      rw [this] at hmem
      simp at hmem
    simpa using this
  · intro x hx; exact h.acq x (List.mem_filter.mp hx).1
  · intro p hp x hx hxu; exact h.limboIdle p hp x (List.mem_filter.mp hx).1 hxu

/-- a new connection joins block `u`; it is in hand until released to the waiters -/
theorem newConn_own {s : State} (hw : WF s) (h : InvOwn s) {u : Nat} {b : Block} (hb : s.find u = some b)
    (hm : List (Nat × Nat)) (lv : List Nat) :
    let s1 : State := { (s.mod u fun b => { b with failures := 0, pending := b.pending - 1, conns := b.conns ++ [(s.nextConn, false)] }) with nextConn := s.nextConn + 1, home := hm, live := lv }
    InvOwn s1 ∧ Hand s1 u s.nextConn := by
  intro s1
  have hbm := State.find_some hb
  let c := s.nextConn
  let f : Block → Block := fun b => { b with failures := 0, pending := b.pending - 1, conns := b.conns ++ [(s.nextConn, false)] }
  have hcases : ∀ x ∈ modB s.blocks u f, (x.uid ≠ u ∧ x ∈ s.blocks) ∨ x = f b :=
    fun x hx => mem_modB_cases (f := f) hw.uids hb (fun _ => rfl) hx
  have hfresh : ∀ x ∈ s.blocks, s.nextConn ∉ x.ids := by
    intro x hx hmem
    obtain ⟨p, hp, hpe⟩ := List.mem_map.mp hmem
    have := hw.cidsFresh x hx p hp
    omega
  have hsup : ∀ p ∈ b.conns, p ∈ (f b).conns := fun p hp => List.mem_append_left _ hp
  have hidsf : ∀ c', c' ∈ (f b).ids → c' ∈ b.ids ∨ c' = s.nextConn := by
    intro c' hc'
    obtain ⟨p, hp, rfl⟩ := List.mem_map.mp hc'
    rcases List.mem_append.mp hp with hp | hp
    · exact Or.inl (List.mem_map_of_mem (f := (·.1)) hp)
    · simp at hp; right; rw [hp]
  constructor
  · refine ⟨?_, ?_, ?_, ?_, ?_, h.single, ?_, ?_, h.limboNd, h.limboUid⟩
    · intro b1 hb1 b2 hb2 e
      rcases hcases b1 hb1 with ⟨_, h1⟩ | e1 <;> rcases hcases b2 hb2 with ⟨_, h2⟩ | e2
      · exact h.nameInj b1 h1 b2 h2 e
      · rw [e2] at e ⊢; exact h.nameInj b1 h1 b hbm.1 e
      · rw [e1] at e ⊢; exact h.nameInj b hbm.1 b2 h2 e
      · rw [e1, e2]
    · intro b1 hb1 b2 hb2 c' h1' h2'
      rcases hcases b1 hb1 with ⟨_, h1⟩ | e1 <;> rcases hcases b2 hb2 with ⟨_, h2⟩ | e2
      · exact h.disj b1 h1 b2 h2 c' h1' h2'
      · rw [e2] at h2' ⊢
        rcases hidsf c' h2' with hi | hi
        · exact h.disj b1 h1 b hbm.1 c' h1' hi
        · exact absurd (hi ▸ h1') (hfresh b1 h1)
      · rw [e1] at h1' ⊢
        rcases hidsf c' h1' with hi | hi
        · exact h.disj b hbm.1 b2 h2 c' hi h2'
        · exact absurd (hi ▸ h2') (hfresh b2 h2)
      · rw [e1, e2]
    · intro x hx c' hc'
      rcases hcases x hx with ⟨_, hxs⟩ | e
      · exact h.stackIdle x hxs c' hc'
      · rw [e] at hc' ⊢; exact hsup _ (h.stackIdle b hbm.1 c' hc')
    · intro x hx
      rcases hcases x hx with ⟨_, hxs⟩ | e
      · exact h.stackNd x hxs
      · rw [e]; exact h.stackNd b hbm.1
    · intro x hx
      obtain ⟨b1, hb1, hn, hc⟩ := h.held x hx
      by_cases hbu : b1.uid = u
      · have : b1 = b := eq_of_uid hw.uids hb1 hbm.1 (hbu.trans hbm.2.symm)
        subst this
        exact ⟨f b1, mem_modB_fb hb f, hn, hsup _ hc⟩
      · exact ⟨b1, mem_modB_other f hb1 hbu, hn, hc⟩
    · intro x hx
      rcases hcases x hx with ⟨_, hxs⟩ | e
      · exact h.acq x hxs
      · rw [e]; exact h.acq b hbm.1
    · intro p hp x hx hxu
      rcases hcases x hx with ⟨_, hxs⟩ | e
      · exact h.limboIdle p hp x hxs hxu
      · rw [e] at hxu ⊢
        have := h.limboIdle p hp b hbm.1 hxu
        exact ⟨hsup _ this.1, this.2⟩
  · have hff := State.find_mod (s := s) u u f (fun _ => rfl)
    refine ⟨f b, ?_, ?_, ?_, ?_⟩
    · show (s.mod u f).find u = some (f b)
      rw [hff, hb]; simp [hbm.2]
    · show (s.nextConn, false) ∈ b.conns ++ [(s.nextConn, false)]
      simp
    · intro hmem
      have := h.stackIdle b hbm.1 _ hmem
      exact hfresh b hbm.1 (List.mem_map_of_mem (f := (·.1)) this)
    · intro hl
      have := (h.limboIdle (u, s.nextConn) hl b hbm.1 hbm.2).1
      exact hfresh b hbm.1 (List.mem_map_of_mem (f := (·.1)) this)

theorem connOk_own {s : State} (hn : InvNum s) (h : InvOwn s) {u : Nat} {b : Block} (hb : s.find u = some b)
    (name : Nat) : InvOwn (connOk s u name) := by
  unfold connOk
  simp only
  obtain ⟨h1, hd⟩ := newConn_own hn.toWF h hb (s.home ++ [(s.nextConn, name)]) (s.live ++ [s.nextConn])
  have hn1 := connOk_inv hn hb (s.home ++ [(s.nextConn, name)]) (s.live ++ [s.nextConn])
  exact blockRelease_own hn1.toWF h1 hd

/-! ### view-preserving operations on waiters -/

theorem wakeNext_os (s : State) (u : Nat) : OS (wakeNext s u) s := by
  unfold wakeNext
  split
  · split
    · exact OS.refl _
    · exact OS.via (OS.mod _ u _ (by intro b; exact ⟨rfl, rfl, rfl, List.Sublist.refl _, rfl⟩)) rfl rfl rfl
  · exact OS.refl _

theorem leaveWait_os (s : State) (id u : Nat) : OS (leaveWait s id u) s := by
  unfold leaveWait
  exact OS.via (OS.mod _ u _ (by intro b; exact ⟨rfl, rfl, rfl, List.Sublist.refl _, rfl⟩)) rfl rfl rfl

theorem abortWaiters_os (s : State) (u : Nat) : OS (abortWaiters s u) s := by
  unfold abortWaiters
  split
  · exact OS.refl _
  · exact OS.via (OS.mod _ u _ (by intro b; exact ⟨rfl, rfl, rfl, List.Sublist.refl _, rfl⟩)) rfl rfl rfl

theorem enqueue_os (s : State) (id u a : Nat) (p : Bool) :
    OS { (s.mod u fun b => { b with waitersNum := b.waitersNum + 1, queue := if a > 1 then id :: b.queue else b.queue ++ [id] }) with waiters := s.waiters ++ [⟨id, u, .queued, a, p⟩] } s :=
  OS.via (OS.mod _ u _ (by intro b; exact ⟨rfl, rfl, rfl, List.Sublist.refl _, rfl⟩)) rfl rfl rfl

/-! ### starting the pool's own tasks -/

theorem taskStart_own {s : State} (hw : WF s) (h : InvOwn s) (tid : Nat) : InvOwn (taskStart s tid) := by
  cases ht : s.task tid with
  | none =>
    unfold taskStart; rw [ht]
    exact h.ofOS (OS.fields rfl rfl rfl)
  | some t =>
    by_cases hnd : ∀ u c st hh, t ≠ .disc u c st hh
    · exact h.ofOS (taskStart_os hw tid t ht hnd)
    · -- a `_discard_conn` task
      have : ∃ u c st hh, t = .disc u c st hh := by
        cases t with
        | disc u c st hh => exact ⟨u, c, st, hh, rfl⟩
        | conn u st => exact absurd (fun _ _ _ _ => by simp) hnd
        | xfer f c t ph hh => exact absurd (fun _ _ _ _ => by simp) hnd
        | discAll c st => exact absurd (fun _ _ _ _ => by simp) hnd
        | dead hh => exact absurd (fun _ _ _ _ => by simp) hnd
      obtain ⟨u, c, st, hh, rfl⟩ := this
      unfold taskStart
      rw [ht]
      cases st with
      | true => exact h.ofOS (OS.fields rfl rfl rfl)
      | false =>
        simp only
        have hmem := task_some ht
        have hlim : (u, c) ∈ limbo s := by
          rw [limbo_eq]
          exact List.mem_filterMap.mpr ⟨(tid, .disc u c false hh), hmem, rfl⟩
        split
        · exact h.ofOS (OS.ofMem (fun _ => Iff.rfl) rfl (limbo_setTask_sub' s tid _ rfl))
        · rename_i b hb
          have hbm := State.find_some hb
          have hli := h.limboIdle (u, c) hlim b hbm.1 hbm.2
          split
          · let g : Block → Block := fun b => { b with conns := b.conns.filter (·.1 != c) }
            have hsub : (limbo ((s.mod u g).setTask tid (.disc u c true hh))).Sublist (limbo s) :=
              limbo_setTask_sub' (s.mod u g) tid _ rfl
            have hgone : (u, c) ∉ limbo ((s.mod u g).setTask tid (.disc u c true hh)) := by
              rw [limbo_eq]
              have hl := h.limboNd
              rw [limbo_eq] at hl
              exact limbo_setTask_gone s.tasks tid (.disc u c false hh) (.disc u c true hh) (u, c)
                hw.tids hmem rfl rfl hl
            exact eraseConn_own hw h hb hli.1 hli.2 rfl rfl hsub hgone
          · exact h.ofOS (OS.ofMem (fun _ => Iff.rfl) rfl (limbo_setTask_sub' s tid _ rfl))

/-! ### `acquire` and `resume` -/

theorem acqFinish_own {s : State} (hn : InvNum s) (h : InvOwn s) (r u : Nat) : InvOwn (acqFinish s r u) := by
  unfold acqFinish
  cases hb : s.find u with
  | none =>
    rw [tryAcq_none hb]
    exact h.ofOS (OS.fields rfl rfl rfl)
  | some b =>
    cases hc : b.stack.getLast? with
    | some c =>
      rw [tryAcq_pop hb hc]
      obtain ⟨h1, hd⟩ := pop_own hn.toWF h hb hc
      exact lend_own (popTop_inv hn u).toWF h1 hd r
    | none =>
      rw [tryAcq_wait hb hc]
      exact h.ofOS (enqueue_os s r u 1 false)

theorem resume_own {s : State} (hn : InvNum s) (hq : InvQ s) (h : InvOwn s) (id : Nat) :
    InvOwn (resume s id) := by
  unfold resume
  split
  · exact h.ofOS (OS.fields rfl rfl rfl)
  · rename_i w hfind
    have hw : w ∈ s.waiters := List.mem_of_find?_eq_some hfind
    have hnp : w.prune = false := hq.noPrune.2 w hw
    simp only
    split
    · exact h.ofOS (OS.fields rfl rfl rfl)
    · rename_i b hb
      split
      · exact h.ofOS (OS.fields rfl rfl rfl)
      · -- aborted
        have v1 : OS (if b.stack.isEmpty then s else wakeNext s w.block) s := by
          split
          · exact OS.refl _
          · exact wakeNext_os s _
        have v2 := OS.trans (leaveWait_os (if b.stack.isEmpty then s else wakeNext s w.block) id w.block) v1
        split
        · exact h.ofOS (OS.via v2 rfl rfl rfl)
        · exact h.ofOS (OS.via v2 rfl rfl rfl)
      · -- woken
        have hl : InvOwn (leaveWait s id w.block) := h.ofOS (leaveWait_os s id w.block)
        have hnl := leaveWait_inv hn id w.block
        have hbl := find_leaveWait (id := id) hb
        split
        · rename_i c hc
          simp only [hnp, Bool.false_eq_true, ↓reduceIte]
          obtain ⟨h1, hd⟩ := pop_own hnl.toWF hl hbl hc
          exact lend_own (popTop_inv hnl _).toWF h1 hd id
        · rename_i hc
          simp only [hnp, Bool.false_eq_true, ↓reduceIte]
          rw [tryAcq_wait hbl hc]
          exact hl.ofOS (enqueue_os _ id w.block (w.attempts + 1) false)

/-! ### the instance -/

/-- everything together: C15 numeric + C16 waiters + C15 ownership -/
def PO (s : State) : Prop := PQ s ∧ InvOwn s

theorem primsO : Prims PO (fun s u c => PO s ∧ Hand s u c) Room where
  frame := fun h c => ⟨primsQ.frame h.1 c, h.2.ofOS (OS.ofCore c)⟩
  frameH := fun h c => ⟨⟨primsQ.frame h.1.1 c, h.1.2.ofOS (OS.ofCore c)⟩, h.2.ofCore c⟩
  modInert := fun u f hf h => ⟨primsQ.modInert u f hf h.1, h.2.ofOS (OS.mod _ u f hf.ov)⟩
  mapInert := fun f hf h => ⟨primsQ.mapInert f hf h.1, h.2.ofOS (OS.map _ f hf.ov)⟩
  toEnd := fun u h => ⟨primsQ.toEnd u h.1, h.2.ofOS (OS.toEnd _ u)⟩
  toFront := fun u h => ⟨primsQ.toFront u h.1, h.2.ofOS (OS.toFront _ u)⟩
  gOfLt := fun _ hlt => room_of_lt hlt
  schedNew := fun u h g => ⟨primsQ.schedNew u h.1 g, h.2.ofOS (schedNew_os _ u)⟩
  stealSome := by
    intro s u s1 c h heq
    obtain ⟨ho, hd⟩ := steal_own h.1.1.toWF h.2 heq
    exact ⟨⟨primsQ.stealSome h.1 heq, ho⟩, hd⟩
  stealNone := by
    intro s u s1 h heq
    rw [steal_none_eq heq]; exact h
  schedXfer := fun t bh h =>
    ⟨primsQ.schedXfer t bh h.1.1, schedXfer_own h.1.1.1.toWF h.1.2 h.2 t bh⟩
  schedDiscard := fun h =>
    ⟨primsQ.schedDiscard h.1.1, schedDiscard_own h.1.1.1.toWF h.1.2 h.2 false⟩
  schedDiscardH := fun h =>
    ⟨⟨(primsQ.schedDiscardH h.1.1).1, schedDiscard_own h.1.1.1.toWF h.1.2 h.2 true⟩,
      (primsQ.schedDiscardH h.1.1).2⟩
  blockRelease := fun h => ⟨primsQ.blockRelease h.1.1, blockRelease_own h.1.1.1.toWF h.1.2 h.2⟩
  getBlock := fun name h => ⟨primsQ.getBlock name h.1, getBlock_own h.1.1 h.2 name⟩
  acqFinish := fun r u h hid => ⟨primsQ.acqFinish r u h.1 hid, acqFinish_own h.1.1 h.2 r u⟩
  unlend := by
    intro s r hd b c' h hfind hb hc
    obtain ⟨ho, hh⟩ := unlend_own h.1.1.toWF h.1.2.hreq h.2 hfind hb hc
    exact ⟨⟨primsQ.unlend h.1 hfind hb hc, ho⟩, hh⟩
  dropConnTask := by
    intro s tid t h ht hc
    refine ⟨primsQ.dropConnTask h.1 ht hc, h.2.ofOS (OS.ofMem (fun _ => Iff.rfl) rfl (limbo_dropTask_sub s tid))⟩
  connOk := fun h hb => ⟨primsQ.connOk h.1 hb, connOk_own h.1.1 h.2 hb _⟩
  connFailCore := by
    intro s u b0 g h hb
    obtain ⟨a, r⟩ := primsQ.connFailCore g h.1 hb
    refine ⟨⟨a, ?_⟩, r⟩
    have v0 : OS ({ s with cur := s.cur - 1 } : State) s := OS.fields rfl rfl rfl
    exact h.2.ofOS (OS.trans (OS.mod _ u _ (by intro b; exact ⟨rfl, rfl, rfl, List.Sublist.refl _, rfl⟩)) v0)
  abortWaiters := fun u h => ⟨primsQ.abortWaiters u h.1, h.2.ofOS (abortWaiters_os _ u)⟩
  taskStart := fun tid h => ⟨primsQ.taskStart tid h.1, taskStart_own h.1.1.toWF h.2 tid⟩
  discDone := fun tid ok h => ⟨primsQ.discDone tid ok h.1, h.2.ofOS (discDone_os _ tid ok)⟩
  resume := fun id h => ⟨primsQ.resume id h.1, resume_own h.1.1 h.1.2 h.2 id⟩
  dropBlock := fun h hb hw hz ha =>
    ⟨primsQ.dropBlock h.1 hb hw hz ha, dropBlock_own h.1.1.toWF h.2 hb ha⟩

theorem initO (max : Nat) : InvOwn (init max) := by
  refine ⟨?_, ?_, ?_, ?_, ?_, by simp [init], ?_, ?_, by simp [init, limbo], ?_⟩ <;>
    simp [init, limbo]

theorem runO (max : Nat) (evs : List (Env × Ev)) (hev : ∀ x ∈ evs, Prims.NoPruneEv x.2) :
    PO (run (init max) evs) :=
  primsO.run evs hev _ ⟨⟨init_inv max, initQ max⟩, initO max⟩

theorem stepO {s : State} (h : PO s) (env : Env) (e : Ev) (he : Prims.NoPruneEv e) : PO (step s env e) :=
  primsO.step h env e he.1 he.2

/-- an idle connection is not lent to anybody -/
theorem idle_not_lent {s : State} (hw : WF s) (h : InvOwn s) {b : Block} (hb : b ∈ s.blocks) {c : Nat}
    (hc : c ∈ b.stack) : ∀ x ∈ s.holders, x.conn ≠ c := by
  intro x hx e
  obtain ⟨b1, hb1, _, hcx⟩ := h.held x hx
  rw [e] at hcx
  have hidle := h.stackIdle b hb c hc
  have hu : b1.uid = b.uid :=
    h.disj b1 hb1 b hb c (List.mem_map_of_mem (f := (·.1)) hcx) (List.mem_map_of_mem (f := (·.1)) hidle)
  have : b1 = b := eq_of_uid hw.uids hb1 hb hu
  subst this
  exact Bool.noConfusion (flag_unique (hw.cids b1 hb) hidle hcx)

end EdbVerif.Pool
