/-
Wire-level lemmas for C14: every reader of `Model/Desc.lean` inverts the
corresponding packer and returns exactly the bytes that follow; one block
(`block p f`) is parsed back to the flat descriptor `f` (`parseFlat_block`).
-/
import EdbVerif.Model.Desc

namespace EdbVerif.Desc

theorem bnd_eq {α β : Type} {r : Rd α} {f : α → Rd β} {bs bs' : Bytes} {a : α}
    (h : r bs = some (a, bs')) : bnd r f bs = f a bs' := by
  simp only [bnd, h]

theorem ret_eq {α : Type} (a : α) (bs : Bytes) : ret a bs = some (a, bs) := rfl

theorem rdU8_cons (a : Nat) (r : Bytes) : rdU8 (a :: r) = some (a, r) := rfl

theorem rdU8_u8 (a : Nat) (r : Bytes) : rdU8 (u8 a ++ r) = some (a, r) := rfl

theorem rdU16_u16 (n : Nat) (r : Bytes) (h : n < 65536) : rdU16 (u16 n ++ r) = some (n, r) := by
  simp only [u16, rdU16, List.cons_append, List.nil_append]
  congr 2; omega

theorem rdU32_u32 (n : Nat) (r : Bytes) (h : n < 4294967296) :
    rdU32 (u32 n ++ r) = some (n, r) := by
  simp only [u32, rdU32, List.cons_append, List.nil_append]
  congr 2; omega

theorem rdN_append (l r : Bytes) : rdN l.length (l ++ r) = some (l, r) := by
  simp [rdN]

theorem rdN_append' (n : Nat) (l r : Bytes) (h : l.length = n) : rdN n (l ++ r) = some (l, r) := by
  subst h; exact rdN_append l r

theorem rdStr_str (s r : Bytes) (h : s.length < 4294967296) :
    rdStr (str s ++ r) = some (s, r) := by
  unfold rdStr str
  rw [List.append_assoc, bnd_eq (rdU32_u32 _ _ h), rdN_append]

theorem rdBool_bool (b : Bool) (r : Bytes) : rdBool (bool b ++ r) = some (b, r) := by
  cases b <;> rfl

theorem rdMany_flatMap {α : Type} (rd : Rd α) (w : α → Bytes) (l : List α)
    (h : ∀ x ∈ l, ∀ r, rd (w x ++ r) = some (x, r)) (r : Bytes) :
    rdMany rd l.length (l.flatMap w ++ r) = some (l, r) := by
  induction l with
  | nil => rfl
  | cons x xs ih =>
    have hx := h x (by simp) (xs.flatMap w ++ r)
    have ih' := ih (fun y hy => h y (by simp [hy]))
    rw [List.flatMap_cons, List.append_assoc, List.length_cons, rdMany, bnd_eq hx, bnd_eq ih']
    rfl

theorem rdMany_flatMap' {α : Type} (rd : Rd α) (w : α → Bytes) (l : List α) (n : Nat)
    (hn : l.length = n)
    (h : ∀ x ∈ l, ∀ r, rd (w x ++ r) = some (x, r)) (r : Bytes) :
    rdMany rd n (l.flatMap w ++ r) = some (l, r) := by
  subst hn; exact rdMany_flatMap rd w l h r

theorem rdMany_u16 (l : List Nat) (r : Bytes) (h : ∀ x ∈ l, x < 65536) :
    rdMany rdU16 l.length (l.flatMap u16 ++ r) = some (l, r) :=
  rdMany_flatMap rdU16 u16 l (fun x hx r => rdU16_u16 x r (h x hx)) r

theorem rdRefs_refs (l : List Nat) (r : Bytes) (hl : l.length < 65536) (h : ∀ x ∈ l, x < 65536) :
    rdRefs (refs l ++ r) = some (l, r) := by
  unfold rdRefs refs
  rw [List.append_assoc, bnd_eq (rdU16_u16 _ _ hl), rdMany_u16 l r h]

theorem rdMany_str (l : List Bytes) (r : Bytes) (h : ∀ x ∈ l, x.length < 4294967296) :
    rdMany rdStr l.length (l.flatMap str ++ r) = some (l, r) :=
  rdMany_flatMap rdStr str l (fun x hx r => rdStr_str x r (h x hx)) r

theorem rdNameRef_nameRefB (nm : Bytes) (t : Nat) (r : Bytes) (h1 : nm.length < 4294967296)
    (h2 : t < 65536) : rdNameRef (nameRefB (nm, t) ++ r) = some ((nm, t), r) := by
  unfold rdNameRef nameRefB
  rw [List.append_assoc, bnd_eq (rdStr_str _ _ h1), bnd_eq (rdU16_u16 _ _ h2)]
  rfl

theorem rdEl_elB_src (e : ShEl) (t s : Nat) (r : Bytes)
    (hok : elOK e = true) (h1 : t < 65536) (h2 : s < 65536) :
    rdEl .v2 true (elB .v2 true (e, t, s) ++ r) = some ((e, t, s), r) := by
  obtain ⟨fl, c, nm⟩ := e
  simp only [elOK, Bool.and_eq_true, decide_eq_true_eq] at hok
  obtain ⟨⟨hf, hc⟩, hn⟩ := hok
  unfold rdEl elB
  simp only [List.append_assoc, and_self, if_true]
  rw [bnd_eq (rdU32_u32 _ _ hf), bnd_eq (rdU8_u8 _ _)]
  simp only [hc, Bool.not_true, Bool.false_eq_true, if_false]
  rw [bnd_eq (rdStr_str _ _ hn), bnd_eq (rdU16_u16 _ _ h1), bnd_eq (rdU16_u16 _ _ h2)]
  rfl

theorem rdEl_elB_nosrc (p : Proto) (ws : Bool) (e : ShEl) (t : Nat) (r : Bytes)
    (hp : ¬ (p = .v2 ∧ ws = true))
    (hok : elOK e = true) (h1 : t < 65536) :
    rdEl p ws (elB p ws (e, t, 0) ++ r) = some ((e, t, 0), r) := by
  obtain ⟨fl, c, nm⟩ := e
  simp only [elOK, Bool.and_eq_true, decide_eq_true_eq] at hok
  obtain ⟨⟨hf, hc⟩, hn⟩ := hok
  unfold rdEl elB
  simp only [List.append_assoc, hp, if_false, List.nil_append]
  rw [bnd_eq (rdU32_u32 _ _ hf), bnd_eq (rdU8_u8 _ _)]
  simp only [hc, Bool.not_true, Bool.false_eq_true, if_false]
  rw [bnd_eq (rdStr_str _ _ hn), bnd_eq (rdU16_u16 _ _ h1)]
  rfl

end EdbVerif.Desc

namespace EdbVerif.Desc

/-- references the decoder resolves and throws away -/
def chkOf (p : Proto) (f : Flat) : List Nat :=
  match p, f.h.kind with
  | .v2, .shape true _ => List.replicate f.pre.length 0
  | _, _ => []

theorem rdMetaAnc_metaAnc (p : Proto) (m : Option Meta) (anc : List Nat) (r : Bytes)
    (hm : metaOK p m = true) (hv1 : p = .v2 ∨ anc.length = 0) (hl : anc.length < 65536)
    (ha : ∀ x ∈ anc, x < 65536) :
    rdMetaAnc p (metaAnc p m anc ++ r) = some ((m, anc), r) := by
  cases p with
  | v1 =>
    cases m with
    | some m => simp [metaOK] at hm
    | none =>
      have : anc = [] := by
        rcases hv1 with h | h
        · cases h
        · exact List.eq_nil_of_length_eq_zero h
      subst this
      rfl
  | v2 =>
    cases m with
    | none => simp [metaOK] at hm
    | some m =>
      simp only [metaOK, decide_eq_true_eq] at hm
      unfold rdMetaAnc metaAnc
      simp only [List.append_assoc]
      rw [bnd_eq (rdStr_str _ _ hm), bnd_eq (rdBool_bool _ _), bnd_eq (rdRefs_refs _ _ hl ha)]
      rfl

end EdbVerif.Desc

namespace EdbVerif.Desc

theorem len1 {α : Type} {l : List α} (h : l.length = 1) : ∃ x, l = [x] := by
  match l, h with
  | [x], _ => exact ⟨x, rfl⟩

theorem isNone_eq {α : Type} {m : Option α} (h : m.isNone = true) : m = none := by
  cases m <;> simp_all

section zip3
variable {α β γ : Type} (a : List α) (b : List β) (c : List γ)

theorem zip3_len (h1 : a.length = b.length) (h2 : c.length = b.length) :
    (a.zip (b.zip c)).length = b.length := by
  simp [List.length_zip, h1, h2]

theorem zip3_map1 (h1 : a.length = b.length) (h2 : c.length = b.length) :
    (a.zip (b.zip c)).map (·.1) = a := by
  apply List.map_fst_zip
  simp [List.length_zip, h1, h2]

theorem zip3_map2 (h1 : a.length = b.length) (h2 : c.length = b.length) :
    (a.zip (b.zip c)).map (·.2.1) = b := by
  have : (a.zip (b.zip c)).map (·.2.1) = ((a.zip (b.zip c)).map (·.2)).map (·.1) := by
    simp [List.map_map]
  rw [this, List.map_snd_zip (by simp [List.length_zip, h1, h2]), List.map_fst_zip (by omega)]

theorem zip3_map3 (h1 : a.length = b.length) (h2 : c.length = b.length) :
    (a.zip (b.zip c)).map (·.2.2) = c := by
  have : (a.zip (b.zip c)).map (·.2.2) = ((a.zip (b.zip c)).map (·.2)).map (·.2) := by
    simp [List.map_map]
  rw [this, List.map_snd_zip (by simp [List.length_zip, h1, h2]), List.map_snd_zip (by omega)]

theorem zip3_mem {x : α × β × γ} (h : x ∈ a.zip (b.zip c)) : x.1 ∈ a ∧ x.2.1 ∈ b ∧ x.2.2 ∈ c := by
  obtain ⟨x1, x2, x3⟩ := x
  have h' := List.of_mem_zip h
  have h'' := List.of_mem_zip h'.2
  exact ⟨h'.1, h''.1, h''.2⟩
end zip3

theorem all_len {l : List Bytes} (h : l.all (fun x => decide (x.length < 4294967296)) = true) :
    ∀ x ∈ l, x.length < 4294967296 := by
  intro x hx
  have := List.all_eq_true.mp h x hx
  simpa using this

theorem all_el {l : List ShEl} (h : l.all elOK = true) : ∀ x ∈ l, elOK x = true :=
  fun x hx => List.all_eq_true.mp h x hx

theorem metaOK_v1 {m : Option Meta} (h : metaOK .v1 m = true) : m = none := by
  cases m <;> simp_all [metaOK]

theorem metaOK_v2 {m : Option Meta} (h : metaOK .v2 m = true) :
    ∃ x, m = some x ∧ x.name.length < 4294967296 := by
  cases m with
  | none => simp [metaOK] at h
  | some x => exact ⟨x, rfl, by simpa [metaOK] using h⟩

end EdbVerif.Desc

namespace EdbVerif.Desc

macro "hok_simp" h:ident : tactic => `(tactic|
  simp only [hdrOK, Bool.and_eq_true, Bool.or_eq_true, beq_iff_eq, decide_eq_true_eq, and_assoc] at $h:ident)

theorem pk_set (md : Mode) (p : Proto) (id : Id) (m) (pre post : List Nat) (rest : Bytes)
    (hok : hdrOK p ⟨.set, id, m⟩ pre.length post.length = true)
    (hpre : ∀ r ∈ pre, r < 65536) :
    parseKind md p 0 id (kindBytes p ⟨⟨.set, id, m⟩, pre, post⟩ ++ rest)
      = some ((⟨⟨.set, id, m⟩, pre, post⟩, chkOf p ⟨⟨.set, id, m⟩, pre, post⟩), rest) := by
  hok_simp hok
  obtain ⟨_, _, _, hm, h1, h0⟩ := hok
  obtain ⟨x, rfl⟩ := len1 h1
  have := List.eq_nil_of_length_eq_zero h0; subst this
  have := isNone_eq hm; subst this
  have hx : x < 65536 := hpre x (by simp)
  simp only [parseKind, if_true, kindBytes, List.flatMap_cons, List.flatMap_nil, List.append_nil]
  rw [bnd_eq (rdU16_u16 _ _ hx)]
  cases p <;> rfl

theorem pk_bscalar (md : Mode) (p : Proto) (id : Id) (m) (pre post : List Nat) (rest : Bytes)
    (hok : hdrOK p ⟨.baseScalar, id, m⟩ pre.length post.length = true) :
    parseKind md p 2 id (kindBytes p ⟨⟨.baseScalar, id, m⟩, pre, post⟩ ++ rest)
      = some ((⟨⟨.baseScalar, id, m⟩, pre, post⟩, chkOf p ⟨⟨.baseScalar, id, m⟩, pre, post⟩), rest) := by
  hok_simp hok
  obtain ⟨_, _, _, hp, hm, h1, h0⟩ := hok
  have := List.eq_nil_of_length_eq_zero h0; subst this
  have := List.eq_nil_of_length_eq_zero h1; subst this
  have := isNone_eq hm; subst this
  subst hp
  rfl

theorem pk_scalar (md : Mode) (p : Proto) (id : Id) (m) (pre post : List Nat) (rest : Bytes)
    (hok : hdrOK p ⟨.scalar, id, m⟩ pre.length post.length = true)
    (hpost : ∀ r ∈ post, r < 65536) :
    parseKind md p 3 id (kindBytes p ⟨⟨.scalar, id, m⟩, pre, post⟩ ++ rest)
      = some ((⟨⟨.scalar, id, m⟩, pre, post⟩, chkOf p ⟨⟨.scalar, id, m⟩, pre, post⟩), rest) := by
  hok_simp hok
  obtain ⟨_, _, hl, hm, h1, h0⟩ := hok
  have := List.eq_nil_of_length_eq_zero h1; subst this
  cases p with
  | v2 =>
    simp only [parseKind, kindBytes, reduceIte, Nat.reduceEqDiff]
    rw [bnd_eq (rdMetaAnc_metaAnc .v2 m post rest hm (Or.inl rfl) hl hpost)]
    rfl
  | v1 =>
    have := metaOK_v1 hm; subst this
    have h0 : post.length = 1 := by simpa using h0
    obtain ⟨x, rfl⟩ := len1 h0
    have hx : x < 65536 := hpost x (by simp)
    simp only [parseKind, kindBytes, reduceIte, Nat.reduceEqDiff, List.flatMap_cons,
      List.flatMap_nil, List.append_nil]
    rw [bnd_eq (rdU16_u16 _ _ hx)]
    rfl

theorem pk_tuple (md : Mode) (p : Proto) (id : Id) (m) (pre post : List Nat) (rest : Bytes)
    (hok : hdrOK p ⟨.tuple, id, m⟩ pre.length post.length = true)
    (hpre : ∀ r ∈ pre, r < 65536) (hpost : ∀ r ∈ post, r < 65536) :
    parseKind md p 4 id (kindBytes p ⟨⟨.tuple, id, m⟩, pre, post⟩ ++ rest)
      = some ((⟨⟨.tuple, id, m⟩, pre, post⟩, chkOf p ⟨⟨.tuple, id, m⟩, pre, post⟩), rest) := by
  hok_simp hok
  obtain ⟨_, hlp, hl, hm, hv⟩ := hok
  simp only [parseKind, kindBytes, reduceIte, Nat.reduceEqDiff, List.append_assoc]
  rw [bnd_eq (rdMetaAnc_metaAnc p m post _ hm hv hl hpost), bnd_eq (rdRefs_refs pre rest hlp hpre)]
  cases p <;> rfl
end EdbVerif.Desc

namespace EdbVerif.Desc

theorem pk_ntuple (md : Mode) (p : Proto) (id : Id) (m) (names) (pre post : List Nat) (rest : Bytes)
    (hok : hdrOK p ⟨.namedTuple names, id, m⟩ pre.length post.length = true)
    (hpre : ∀ r ∈ pre, r < 65536) (hpost : ∀ r ∈ post, r < 65536) :
    parseKind md p 5 id (kindBytes p ⟨⟨.namedTuple names, id, m⟩, pre, post⟩ ++ rest)
      = some ((⟨⟨.namedTuple names, id, m⟩, pre, post⟩,
               chkOf p ⟨⟨.namedTuple names, id, m⟩, pre, post⟩), rest) := by
  hok_simp hok
  obtain ⟨_, hlp, hl, hm, hv, hn, hnl⟩ := hok
  have hnl := all_len hnl
  simp only [parseKind, kindBytes, reduceIte, Nat.reduceEqDiff, List.append_assoc]
  have hz : (names.zip pre).length = pre.length := by simp [List.length_zip, hn]
  rw [bnd_eq (rdMetaAnc_metaAnc p m post _ hm hv hl hpost), bnd_eq (rdU16_u16 _ _ hlp),
    bnd_eq (rdMany_flatMap' rdNameRef nameRefB (names.zip pre) pre.length hz
      (fun x hx r => by
        obtain ⟨nm, t⟩ := x
        have := List.of_mem_zip hx
        exact rdNameRef_nameRefB nm t r (hnl nm this.1) (hpre t this.2)) rest)]
  simp only [ret, List.map_fst_zip (Nat.le_of_eq hn), List.map_snd_zip (Nat.le_of_eq hn.symm)]
  cases p <;> rfl

theorem i32_neg1 : i32 (-1) = u32 4294967295 := by decide
theorem i32ToInt_max : i32ToInt 4294967295 = -1 := by decide

theorem pk_array (md : Mode) (p : Proto) (id : Id) (m) (dims) (pre post : List Nat) (rest : Bytes)
    (hok : hdrOK p ⟨.array dims, id, m⟩ pre.length post.length = true)
    (hpre : ∀ r ∈ pre, r < 65536) (hpost : ∀ r ∈ post, r < 65536) :
    parseKind md p 6 id (kindBytes p ⟨⟨.array dims, id, m⟩, pre, post⟩ ++ rest)
      = some ((⟨⟨.array dims, id, m⟩, pre, post⟩,
               chkOf p ⟨⟨.array dims, id, m⟩, pre, post⟩), rest) := by
  hok_simp hok
  obtain ⟨_, _, hl, hm, hv, h1, hd⟩ := hok
  subst hd
  obtain ⟨x, rfl⟩ := len1 h1
  have hx : x < 65536 := hpre x (by simp)
  simp only [parseKind, kindBytes, reduceIte, Nat.reduceEqDiff, List.append_assoc,
    List.flatMap_cons, List.flatMap_nil, List.append_nil, List.length_cons, List.length_nil,
    i32_neg1]
  rw [bnd_eq (rdMetaAnc_metaAnc p m post _ hm hv hl hpost), bnd_eq (rdU16_u16 _ _ hx),
    bnd_eq (rdU16_u16 _ _ (by decide))]
  simp only [ne_eq, not_true_eq_false, reduceIte, Nat.zero_add]
  rw [bnd_eq (rdU32_u32 _ _ (by decide))]
  simp only [i32ToInt_max, not_true_eq_false, reduceIte]
  cases p <;> rfl

theorem pk_range (md : Mode) (p : Proto) (id : Id) (m) (pre post : List Nat) (rest : Bytes)
    (hok : hdrOK p ⟨.range, id, m⟩ pre.length post.length = true)
    (hpre : ∀ r ∈ pre, r < 65536) (hpost : ∀ r ∈ post, r < 65536) :
    parseKind md p 9 id (kindBytes p ⟨⟨.range, id, m⟩, pre, post⟩ ++ rest)
      = some ((⟨⟨.range, id, m⟩, pre, post⟩, chkOf p ⟨⟨.range, id, m⟩, pre, post⟩), rest) := by
  hok_simp hok
  obtain ⟨_, _, hl, hm, hv, h1⟩ := hok
  obtain ⟨x, rfl⟩ := len1 h1
  have hx : x < 65536 := hpre x (by simp)
  simp only [parseKind, kindBytes, reduceIte, Nat.reduceEqDiff, List.append_assoc,
    List.flatMap_cons, List.flatMap_nil, List.append_nil]
  rw [bnd_eq (rdMetaAnc_metaAnc p m post _ hm hv hl hpost), bnd_eq (rdU16_u16 _ _ hx)]
  cases p <;> rfl

theorem pk_mrange (md : Mode) (p : Proto) (id : Id) (m) (pre post : List Nat) (rest : Bytes)
    (hok : hdrOK p ⟨.multirange, id, m⟩ pre.length post.length = true)
    (hpre : ∀ r ∈ pre, r < 65536) (hpost : ∀ r ∈ post, r < 65536) :
    parseKind md p 12 id (kindBytes p ⟨⟨.multirange, id, m⟩, pre, post⟩ ++ rest)
      = some ((⟨⟨.multirange, id, m⟩, pre, post⟩,
               chkOf p ⟨⟨.multirange, id, m⟩, pre, post⟩), rest) := by
  hok_simp hok
  obtain ⟨_, _, hl, hm, hv, h1⟩ := hok
  obtain ⟨x, rfl⟩ := len1 h1
  have hx : x < 65536 := hpre x (by simp)
  simp only [parseKind, kindBytes, reduceIte, Nat.reduceEqDiff, List.append_assoc,
    List.flatMap_cons, List.flatMap_nil, List.append_nil]
  rw [bnd_eq (rdMetaAnc_metaAnc p m post _ hm hv hl hpost), bnd_eq (rdU16_u16 _ _ hx)]
  cases p <;> rfl

theorem pk_enum (md : Mode) (p : Proto) (id : Id) (m) (mem) (pre post : List Nat) (rest : Bytes)
    (hok : hdrOK p ⟨.enum mem, id, m⟩ pre.length post.length = true)
    (hpost : ∀ r ∈ post, r < 65536) :
    parseKind md p 7 id (kindBytes p ⟨⟨.enum mem, id, m⟩, pre, post⟩ ++ rest)
      = some ((⟨⟨.enum mem, id, m⟩, pre, post⟩, chkOf p ⟨⟨.enum mem, id, m⟩, pre, post⟩), rest) := by
  hok_simp hok
  obtain ⟨_, _, hl, hm, hv, h0, hml, hma⟩ := hok
  have := List.eq_nil_of_length_eq_zero h0; subst this
  simp only [parseKind, kindBytes, reduceIte, Nat.reduceEqDiff, List.append_assoc]
  rw [bnd_eq (rdMetaAnc_metaAnc p m post _ hm hv hl hpost), bnd_eq (rdU16_u16 _ _ hml),
    bnd_eq (rdMany_str mem rest (all_len hma))]
  cases p <;> rfl

theorem pk_object (md : Mode) (p : Proto) (id : Id) (m) (pre post : List Nat) (rest : Bytes)
    (hok : hdrOK p ⟨.object, id, m⟩ pre.length post.length = true) :
    parseKind md p 10 id (kindBytes p ⟨⟨.object, id, m⟩, pre, post⟩ ++ rest)
      = some ((⟨⟨.object, id, m⟩, pre, post⟩, chkOf p ⟨⟨.object, id, m⟩, pre, post⟩), rest) := by
  hok_simp hok
  obtain ⟨_, _, _, hp, hm, h1, h0⟩ := hok
  have := List.eq_nil_of_length_eq_zero h0; subst this
  have := List.eq_nil_of_length_eq_zero h1; subst this
  subst hp
  obtain ⟨x, rfl, hx⟩ := metaOK_v2 hm
  simp only [parseKind, kindBytes, nameSd, reduceIte, Nat.reduceEqDiff, List.append_assoc,
    reduceCtorEq]
  rw [bnd_eq (rdStr_str _ _ hx), bnd_eq (rdBool_bool _ _)]
  rfl

theorem pk_compound (md : Mode) (p : Proto) (id : Id) (m) (op) (pre post : List Nat) (rest : Bytes)
    (hok : hdrOK p ⟨.compound op, id, m⟩ pre.length post.length = true)
    (hpost : ∀ r ∈ post, r < 65536) :
    parseKind md p 11 id (kindBytes p ⟨⟨.compound op, id, m⟩, pre, post⟩ ++ rest)
      = some ((⟨⟨.compound op, id, m⟩, pre, post⟩,
               chkOf p ⟨⟨.compound op, id, m⟩, pre, post⟩), rest) := by
  hok_simp hok
  obtain ⟨_, _, hl, hp, hm, h1, hop⟩ := hok
  have := List.eq_nil_of_length_eq_zero h1; subst this
  subst hp
  obtain ⟨x, rfl, hx⟩ := metaOK_v2 hm
  simp only [parseKind, kindBytes, nameSd, reduceIte, Nat.reduceEqDiff, List.append_assoc,
    reduceCtorEq]
  rw [bnd_eq (rdStr_str _ _ hx), bnd_eq (rdBool_bool _ _), bnd_eq (rdU8_u8 _ _)]
  have : ¬ (op ≠ 1 ∧ op ≠ 2) := by omega
  simp only [this, reduceIte]
  rw [bnd_eq (rdRefs_refs post rest hl hpost)]
  rfl
end EdbVerif.Desc

namespace EdbVerif.Desc

theorem mem_replicate0 {n x : Nat} (h : x ∈ List.replicate n 0) : x = 0 :=
  (List.mem_replicate.mp h).2

theorem pk_ishape (md : Mode) (p : Proto) (id : Id) (m) (els) (pre post : List Nat) (rest : Bytes)
    (hok : hdrOK p ⟨.inputShape els, id, m⟩ pre.length post.length = true)
    (hpre : ∀ r ∈ pre, r < 65536) :
    parseKind md p 8 id (kindBytes p ⟨⟨.inputShape els, id, m⟩, pre, post⟩ ++ rest)
      = some ((⟨⟨.inputShape els, id, m⟩, pre, post⟩,
               chkOf p ⟨⟨.inputShape els, id, m⟩, pre, post⟩), rest) := by
  hok_simp hok
  obtain ⟨_, hlp, _, hm, hn, hel, h0⟩ := hok
  have := List.eq_nil_of_length_eq_zero h0; subst this
  have := isNone_eq hm; subst this
  have hel := all_el hel
  have hr : (List.replicate pre.length 0).length = pre.length := List.length_replicate
  simp only [parseKind, kindBytes, reduceIte, Nat.reduceEqDiff, List.append_assoc]
  rw [bnd_eq (rdU16_u16 _ _ hlp),
    bnd_eq (rdMany_flatMap' (rdEl p false) (elB p false) _ pre.length (zip3_len _ _ _ hn hr)
      (fun x hx r => by
        obtain ⟨h1, h2, h3⟩ := zip3_mem _ _ _ hx
        obtain ⟨e, t, s⟩ := x
        have := mem_replicate0 h3
        simp only at this h1 h2; subst this
        exact rdEl_elB_nosrc p false e t r (by simp) (hel e h1) (hpre t h2)) rest)]
  simp only [ret, zip3_map1 _ _ _ hn hr, zip3_map2 _ _ _ hn hr]
  cases p <;> rfl

theorem pk_shape_v1 (md : Mode) (id : Id) (m) (eph) (els) (pre post : List Nat) (rest : Bytes)
    (hok : hdrOK .v1 ⟨.shape eph els, id, m⟩ pre.length post.length = true)
    (hpre : ∀ r ∈ pre, r < 65536) :
    parseKind md .v1 1 id (kindBytes .v1 ⟨⟨.shape eph els, id, m⟩, pre, post⟩ ++ rest)
      = some ((⟨⟨.shape eph els, id, m⟩, pre, post⟩,
               chkOf .v1 ⟨⟨.shape eph els, id, m⟩, pre, post⟩), rest) := by
  hok_simp hok
  obtain ⟨_, hlp, _, hm, hn, hel, he, h0⟩ := hok
  have := List.eq_nil_of_length_eq_zero h0; subst this
  have := isNone_eq hm; subst this
  have he : eph = false := by simpa using he
  subst he
  have hel := all_el hel
  have hr : (List.replicate pre.length 0).length = pre.length := List.length_replicate
  simp only [parseKind, kindBytes, reduceIte, Nat.reduceEqDiff, List.append_assoc]
  rw [bnd_eq (rdU16_u16 _ _ hlp),
    bnd_eq (rdMany_flatMap' (rdEl .v1 true) (elB .v1 true) _ pre.length (zip3_len _ _ _ hn hr)
      (fun x hx r => by
        obtain ⟨h1, h2, h3⟩ := zip3_mem _ _ _ hx
        obtain ⟨e, t, s⟩ := x
        have := mem_replicate0 h3
        simp only at this h1 h2; subst this
        exact rdEl_elB_nosrc .v1 true e t r (by simp) (hel e h1) (hpre t h2)) rest)]
  simp only [ret, zip3_map1 _ _ _ hn hr, zip3_map2 _ _ _ hn hr]
  rfl

theorem pk_shape_v2_eph (md : Mode) (id : Id) (m) (els) (pre post : List Nat) (rest : Bytes)
    (hok : hdrOK .v2 ⟨.shape true els, id, m⟩ pre.length post.length = true)
    (hpre : ∀ r ∈ pre, r < 65536) :
    parseKind md .v2 1 id (kindBytes .v2 ⟨⟨.shape true els, id, m⟩, pre, post⟩ ++ rest)
      = some ((⟨⟨.shape true els, id, m⟩, pre, post⟩,
               chkOf .v2 ⟨⟨.shape true els, id, m⟩, pre, post⟩), rest) := by
  hok_simp hok
  obtain ⟨_, hlp, _, hm, hn, hel, h0⟩ := hok
  have h0 : post.length = 0 := by simpa using h0
  have := List.eq_nil_of_length_eq_zero h0; subst this
  have := isNone_eq hm; subst this
  have hel := all_el hel
  have hr : (List.replicate pre.length 0).length = pre.length := List.length_replicate
  simp only [parseKind, kindBytes, reduceIte, Nat.reduceEqDiff, List.append_assoc]
  rw [bnd_eq (rdBool_bool _ _), bnd_eq (rdU16_u16 _ _ (by decide)), bnd_eq (rdU16_u16 _ _ hlp),
    bnd_eq (rdMany_flatMap' (rdEl .v2 true) (elB .v2 true) _ pre.length (zip3_len _ _ _ hn hr)
      (fun x hx r => by
        obtain ⟨h1, h2, h3⟩ := zip3_mem _ _ _ hx
        obtain ⟨e, t, s⟩ := x
        have := mem_replicate0 h3
        simp only at this h1 h2; subst this
        exact rdEl_elB_src e t 0 r (hel e h1) (hpre t h2) (by decide)) rest)]
  simp only [ret, reduceIte, zip3_map1 _ _ _ hn hr, zip3_map2 _ _ _ hn hr, zip3_map3 _ _ _ hn hr]
  rfl

theorem pk_shape_v2_ne (md : Mode) (id : Id) (m) (els) (pre post : List Nat) (rest : Bytes)
    (hok : hdrOK .v2 ⟨.shape false els, id, m⟩ pre.length post.length = true)
    (hpre : ∀ r ∈ pre, r < 65536) (hpost : ∀ r ∈ post, r < 65536) :
    parseKind md .v2 1 id (kindBytes .v2 ⟨⟨.shape false els, id, m⟩, pre, post⟩ ++ rest)
      = some ((⟨⟨.shape false els, id, m⟩, pre, post⟩,
               chkOf .v2 ⟨⟨.shape false els, id, m⟩, pre, post⟩), rest) := by
  hok_simp hok
  obtain ⟨_, hlp, _, hm, hn, hel, h0⟩ := hok
  have h0 : post.length = pre.length + 1 := by simpa using h0
  have := isNone_eq hm; subst this
  match post, h0, hpost with
  | ty :: srcs, h0, hpost =>
  have hs : srcs.length = pre.length := by simpa using h0
  have hty : ty < 65536 := hpost ty (by simp)
  have hel := all_el hel
  simp only [parseKind, kindBytes, reduceIte, Nat.reduceEqDiff, List.append_assoc,
    List.headD_cons, List.tail_cons, Bool.false_eq_true]
  rw [bnd_eq (rdBool_bool _ _), bnd_eq (rdU16_u16 _ _ hty), bnd_eq (rdU16_u16 _ _ hlp),
    bnd_eq (rdMany_flatMap' (rdEl .v2 true) (elB .v2 true) _ pre.length (zip3_len _ _ _ hn hs)
      (fun x hx r => by
        obtain ⟨h1, h2, h3⟩ := zip3_mem _ _ _ hx
        obtain ⟨e, t, s⟩ := x
        exact rdEl_elB_src e t s r (hel e h1) (hpre t h2) (hpost s (by simp [h3]))) rest)]
  simp only [ret, Bool.false_eq_true, reduceIte, zip3_map1 _ _ _ hn hs, zip3_map2 _ _ _ hn hs,
    zip3_map3 _ _ _ hn hs]
  rfl
end EdbVerif.Desc

namespace EdbVerif.Desc

theorem Kind.tag_lt (k : Kind) : k.tag < 128 := by cases k <;> simp [Kind.tag]

/-- reading back what follows tag and id of one block -/
theorem pk_sqlrow (p : Proto) (id : Id) (mt) (names) (pre post : List Nat) (rest : Bytes)
    (hok : hdrOK p ⟨.sqlRow names, id, mt⟩ pre.length post.length = true)
    (hpre : ∀ r ∈ pre, r < 65536) :
    parseKind .doc p 13 id (kindBytes p ⟨⟨.sqlRow names, id, mt⟩, pre, post⟩ ++ rest)
      = some ((⟨⟨.sqlRow names, id, mt⟩, pre, post⟩,
               chkOf p ⟨⟨.sqlRow names, id, mt⟩, pre, post⟩), rest) := by
  hok_simp hok
  obtain ⟨_, hlp, _, hm, hn, hnl, h0⟩ := hok
  have := List.eq_nil_of_length_eq_zero h0; subst this
  have := isNone_eq hm; subst this
  have hnl := all_len hnl
  simp only [parseKind, kindBytes, reduceIte, Nat.reduceEqDiff, List.append_assoc, reduceCtorEq]
  have hz : (names.zip pre).length = pre.length := by simp [List.length_zip, hn]
  rw [bnd_eq (rdU16_u16 _ _ hlp),
    bnd_eq (rdMany_flatMap' rdNameRef nameRefB (names.zip pre) pre.length hz
      (fun x hx r => by
        obtain ⟨nm, t⟩ := x
        have := List.of_mem_zip hx
        exact rdNameRef_nameRefB nm t r (hnl nm this.1) (hpre t this.2)) rest)]
  simp only [ret, List.map_fst_zip (Nat.le_of_eq hn), List.map_snd_zip (Nat.le_of_eq hn.symm)]
  cases p <;> rfl

theorem parseKind_kindBytes (md : Mode) (p : Proto) (f : Flat) (rest : Bytes)
    (hok : hdrOK p f.h f.pre.length f.post.length = true)
    (hsql : md = .doc ∨ ∀ n, f.h.kind ≠ .sqlRow n)
    (hpre : ∀ r ∈ f.pre, r < 65536) (hpost : ∀ r ∈ f.post, r < 65536) :
    parseKind md p f.h.kind.tag f.h.id (kindBytes p f ++ rest) = some ((f, chkOf p f), rest) := by
  obtain ⟨⟨kind, id, m⟩, pre, post⟩ := f
  cases kind with
  | set => exact pk_set md p id m pre post rest hok hpre
  | baseScalar => exact pk_bscalar md p id m pre post rest hok
  | scalar => exact pk_scalar md p id m pre post rest hok hpost
  | tuple => exact pk_tuple md p id m pre post rest hok hpre hpost
  | namedTuple names => exact pk_ntuple md p id m names pre post rest hok hpre hpost
  | array dims => exact pk_array md p id m dims pre post rest hok hpre hpost
  | range => exact pk_range md p id m pre post rest hok hpre hpost
  | multirange => exact pk_mrange md p id m pre post rest hok hpre hpost
  | enum mem => exact pk_enum md p id m mem pre post rest hok hpost
  | object => exact pk_object md p id m pre post rest hok
  | compound op => exact pk_compound md p id m op pre post rest hok hpost
  | inputShape els => exact pk_ishape md p id m els pre post rest hok hpre
  | sqlRow n =>
    rcases hsql with rfl | hsql
    · exact pk_sqlrow p id m n pre post rest hok hpre
    · exact absurd rfl (hsql n)
  | shape eph els =>
    cases p with
    | v1 => exact pk_shape_v1 md id m eph els pre post rest hok hpre
    | v2 =>
      cases eph with
      | true => exact pk_shape_v2_eph md id m els pre post rest hok hpre
      | false => exact pk_shape_v2_ne md id m els pre post rest hok hpre hpost

theorem hdrOK_id {p : Proto} {h : Hdr} {a b : Nat} (hok : hdrOK p h a b = true) :
    h.id.length = 16 := by
  simp only [hdrOK, Bool.and_eq_true, beq_iff_eq, and_assoc] at hok
  exact hok.1

/-- **one block round-trips and the reader stops exactly at its end** -/
theorem parseFlat_block (m : Mode) (p : Proto) (f : Flat) (rest : Bytes)
    (hok : hdrOK p f.h f.pre.length f.post.length = true)
    (hsql : m = .doc ∨ ∀ n, f.h.kind ≠ .sqlRow n)
    (hpre : ∀ r ∈ f.pre, r < 65536) (hpost : ∀ r ∈ f.post, r < 65536) :
    parseFlat m p (block p f ++ rest) = some (.desc f (chkOf p f), rest) := by
  have hid := hdrOK_id hok
  have ht : ¬ 128 ≤ f.h.kind.tag := by have := Kind.tag_lt f.h.kind; omega
  have hk := parseKind_kindBytes m p f rest hok hsql hpre hpost
  cases p with
  | v1 =>
    unfold parseFlat block body
    simp only [List.append_assoc]
    rw [bnd_eq (ret_eq _ _), bnd_eq (rdU8_u8 _ _), if_neg ht,
      bnd_eq (rdN_append' 16 _ _ hid), bnd_eq hk]
    rfl
  | v2 =>
    unfold parseFlat block body
    simp only [List.append_assoc]
    rw [bnd_eq (rdN_append' 4 (u32 _) _ rfl), bnd_eq (rdU8_u8 _ _), if_neg ht,
      bnd_eq (rdN_append' 16 _ _ hid), bnd_eq hk]
    rfl

end EdbVerif.Desc
