/-
C18, EdgeQL identifiers: `quote_ident` read back by the tokenizer model.
-/
import EdbVerif.Lemmas.QuoteDollar

namespace EdbVerif.Lex
open EdbVerif.Quote

/-- `s.replace('`', '``')` -/
abbrev dbl (s : List Char) : List Char := replaceChar '`' ['`', '`'] s

theorem dbl_nil : dbl [] = [] := by simp [dbl, replaceChar]
theorem dbl_cons_bt (cs : List Char) : dbl ('`' :: cs) = '`' :: '`' :: dbl cs := by
  simp [dbl, replaceChar]
theorem dbl_cons_ne (c : Char) (cs : List Char) (h : c ≠ '`') : dbl (c :: cs) = c :: dbl cs := by
  simp [dbl, replaceChar, h]

/-! ### the back-quoted form -/

theorem scanBacktick_quoted (s rest : List Char) (hp : ∀ c ∈ s, checkProhibited c false = none)
    (hq : rest.head? ≠ some '`') :
    scanBacktick (dbl s ++ '`' :: rest) = .ok (dbl s, rest) := by
  induction s with
  | nil =>
    rw [dbl_nil]
    cases rest with
    | nil => simp [scanBacktick]
    | cons d ds =>
      have : d ≠ '`' := by simpa using hq
      simp [scanBacktick, this]
  | cons c cs ih =>
    have ih' := ih (fun x hx => hp x (by simp [hx]))
    by_cases h : c = '`'
    · subst h
      rw [dbl_cons_bt]
      simp [scanBacktick, ih']
    · rw [dbl_cons_ne c cs h]
      cases hX : dbl cs ++ '`' :: rest with
      | nil => simp at hX
      | cons d ds =>
        rw [hX] at ih'
        simp only [List.cons_append, hX]
        simp [scanBacktick, h, hp c (by simp), ih']

theorem undouble_dbl (s : List Char) : undoubleBacktick (dbl s) = s := by
  induction s with
  | nil => simp [dbl_nil, undoubleBacktick]
  | cons c cs ih =>
    by_cases h : c = '`'
    · subst h
      rw [dbl_cons_bt]
      simp [undoubleBacktick, ih]
    · rw [dbl_cons_ne c cs h]
      cases hX : dbl cs with
      | nil =>
        rw [hX] at ih
        simp [undoubleBacktick] at ih ⊢
        exact ih
      | cons d ds =>
        rw [hX] at ih
        simp [undoubleBacktick, h, ih]

theorem dbl_head (s : List Char) (x : Char) (hx : x ≠ '`') :
    (dbl s).head? = some x ↔ s.head? = some x := by
  cases s with
  | nil => simp [dbl_nil]
  | cons c cs =>
    by_cases h : c = '`'
    · subst h; rw [dbl_cons_bt]; simp [hx, Ne.symm hx]
    · rw [dbl_cons_ne c cs h]; simp

theorem dbl_isEmpty (s : List Char) : (dbl s).isEmpty = s.isEmpty := by
  cases s with
  | nil => simp [dbl_nil]
  | cons c cs =>
    by_cases h : c = '`'
    · subst h; rw [dbl_cons_bt]; simp
    · rw [dbl_cons_ne c cs h]; simp

/-- `hasNamespaceSep`, one step -/
theorem hasNS_cons_ne (c : Char) (l : List Char) (h : c ≠ ':') :
    hasNamespaceSep (c :: l) = hasNamespaceSep l := by
  cases l with
  | nil => simp [hasNamespaceSep]
  | cons d ds => simp [hasNamespaceSep, h]

theorem hasNS_cons_colon (l : List Char) :
    hasNamespaceSep (':' :: l) = (decide (l.head? = some ':') || hasNamespaceSep l) := by
  cases l with
  | nil => simp [hasNamespaceSep]
  | cons d ds => simp [hasNamespaceSep]

theorem hasNS_dbl (s : List Char) : hasNamespaceSep (dbl s) = hasNamespaceSep s := by
  induction s with
  | nil => simp [dbl_nil]
  | cons c cs ih =>
    by_cases h : c = '`'
    · subst h
      rw [dbl_cons_bt, hasNS_cons_ne _ _ (by decide), hasNS_cons_ne _ _ (by decide),
        hasNS_cons_ne _ _ (by decide), ih]
    · rw [dbl_cons_ne c cs h]
      by_cases hc : c = ':'
      · subst hc
        rw [hasNS_cons_colon, hasNS_cons_colon, ih]
        have := dbl_head cs ':' (by decide)
        simp only [this]
      · rw [hasNS_cons_ne _ _ hc, hasNS_cons_ne _ _ hc, ih]

theorem dbl_reverse (s : List Char) : (dbl s).reverse = dbl s.reverse := by
  induction s with
  | nil => simp [dbl_nil]
  | cons c cs ih =>
    by_cases h : c = '`'
    · subst h
      rw [dbl_cons_bt]
      simp only [List.reverse_cons, ih]
      simp [dbl, replaceChar, List.flatMap_append]
    · rw [dbl_cons_ne c cs h]
      simp only [List.reverse_cons, ih]
      simp [dbl, replaceChar, List.flatMap_append, h]

theorem prefix_dbl (s : List Char) : ['_', '_'].isPrefixOf (dbl s) = ['_', '_'].isPrefixOf s := by
  cases s with
  | nil => simp [dbl_nil]
  | cons c cs =>
    by_cases h : c = '`'
    · subst h; rw [dbl_cons_bt]; simp [List.isPrefixOf]
    · rw [dbl_cons_ne c cs h]
      cases cs with
      | nil => simp [dbl_nil]
      | cons d ds =>
        by_cases h2 : d = '`'
        · subst h2; rw [dbl_cons_bt]; simp [List.isPrefixOf]
        · rw [dbl_cons_ne d ds h2]; simp [List.isPrefixOf]

theorem isDunder_dbl (s : List Char) : isDunder (dbl s) = isDunder s := by
  have h1 := prefix_dbl s
  have h2 := prefix_dbl s.reverse
  rw [← dbl_reverse] at h2
  simp only [isDunder, List.isSuffixOf, h1]
  have e : (['_', '_'] : List Char).reverse = ['_', '_'] := rfl
  rw [e, h2]

/-- token kinds that count as "the identifier": an `Ident`, or a keyword that
    `quote_ident` deliberately leaves bare (not reserved, or `__type__` / `__std__`) -/
def IdentLike (k : Kind) : Prop :=
  k = .ident ∨ ∃ w, k = .keyword w ∧ (isReservedKw w = false ∨ w = dunderType ∨ w = dunderStd)

theorem lexOne_backtick (U : UClass) (cs : List Char) : lexOne U ('`' :: cs) = lexBacktick cs := by
  simp [lexOne]

/-- what the back-quoted form can carry -/
def backtickExpressible (s : List Char) : Bool :=
  !s.isEmpty && s.head? ≠ some '@' && s.head? ≠ some '$' && !hasNamespaceSep s && !isDunder s &&
  s.all (fun c => (checkProhibited c false).isNone)

theorem quoteIdentRaw_lex (U : UClass) (s rest : List Char) (he : backtickExpressible s = true)
    (hq : rest.head? ≠ some '`') :
    lexOne U (quoteIdentRaw s ++ rest) = .ok (⟨.ident, .str s⟩, rest) := by
  simp only [backtickExpressible, Bool.and_eq_true, Bool.not_eq_true', decide_eq_true_eq,
    List.all_eq_true, Option.isNone_iff_eq_none] at he
  obtain ⟨⟨⟨⟨⟨h1, h2⟩, h3⟩, h4⟩, h5⟩, h6⟩ := he
  have hs := scanBacktick_quoted s rest h6 hq
  have ha : ¬ (dbl s).head? = some '@' := fun e => h2 ((dbl_head s '@' (by decide)).mp e)
  have hd : ¬ (dbl s).head? = some '$' := fun e => h3 ((dbl_head s '$' (by decide)).mp e)
  simp only [quoteIdentRaw, List.cons_append, List.append_assoc, List.nil_append, lexOne_backtick]
  simp only [dbl] at hs ha hd
  simp only [lexBacktick, hs, ha, hd, if_false]
  have := hasNS_dbl s; have := isDunder_dbl s; have := dbl_isEmpty s; have := undouble_dbl s
  simp only [dbl] at *
  simp [*]

/-! ### the bare form -/

theorem lexOne_identStart (U : UClass) (c : Char) (cs : List Char)
    (h : c = '_' ∨ isAlpha U c = true) : lexOne U (c :: cs) = lexIdent U c cs := by
  have key : ∀ p : Char, (p.toNat < 128 ∧ isAsciiLetter p = false ∧ p ≠ '_') → c ≠ p := by
    intro p ⟨hp1, hp2, hp3⟩ e
    subst e
    rcases h with h | h
    · exact hp3 h
    · simp [isAlpha, hp1, hp2] at h
  have n0 : c ≠ ':' := key ':' (by decide)
  have n1 : c ≠ '-' := key '-' (by decide)
  have n2 : c ≠ '>' := key '>' (by decide)
  have n3 : c ≠ '<' := key '<' (by decide)
  have n4 : c ≠ '+' := key '+' (by decide)
  have n5 : c ≠ '/' := key '/' (by decide)
  have n6 : c ≠ '.' := key '.' (by decide)
  have n7 : c ≠ '?' := key '?' (by decide)
  have n8 : c ≠ '!' := key '!' (by decide)
  have n9 : c ≠ '"' := key '"' (by decide)
  have n10 : c ≠ '\'' := key '\'' (by decide)
  have n11 : c ≠ '`' := key '`' (by decide)
  have n12 : c ≠ '=' := key '=' (by decide)
  have n13 : c ≠ ',' := key ',' (by decide)
  have n14 : c ≠ '(' := key '(' (by decide)
  have n15 : c ≠ ')' := key ')' (by decide)
  have n16 : c ≠ '[' := key '[' (by decide)
  have n17 : c ≠ ']' := key ']' (by decide)
  have n18 : c ≠ '{' := key '{' (by decide)
  have n19 : c ≠ '}' := key '}' (by decide)
  have n20 : c ≠ ';' := key ';' (by decide)
  have n21 : c ≠ '*' := key '*' (by decide)
  have n22 : c ≠ '%' := key '%' (by decide)
  have n23 : c ≠ '^' := key '^' (by decide)
  have n24 : c ≠ '&' := key '&' (by decide)
  have n25 : c ≠ '|' := key '|' (by decide)
  have n26 : c ≠ '@' := key '@' (by decide)
  simp only [lexOne, n0, n1, n2, n3, n4, n5, n6, n7, n8, n9, n10, n11, n12, n13, n14, n15, n16, n17, n18, n19, n20, n21, n22, n23, n24, n25, n26, if_false, false_or, h, if_true]

theorem isAlnum_not_quote (U : UClass) (c : Char) (h : c = '_' ∨ isAlnum U c = true) :
    c ≠ '"' ∧ c ≠ '\'' ∧ c ≠ '`' := by
  refine ⟨?_, ?_, ?_⟩ <;> (intro e; subst e; rcases h with h | h <;> simp [isAlnum, isAsciiLetter, isDigit] at h)

/-- what may follow a bare identifier -/
def bareIdentDelim (U : UClass) (rest : List Char) : Prop :=
  rest = [] ∨ ∃ c cs, rest = c :: cs ∧ c ≠ '"' ∧ c ≠ '\'' ∧ c ≠ '`' ∧ c ≠ '_' ∧ isAlnum U c = false

theorem identLoop_all (U : UClass) (t rest : List Char)
    (h : ∀ c ∈ t, c = '_' ∨ isAlnum U c = true) (hd : bareIdentDelim U rest) :
    identLoop U (t ++ rest) = (t, .other, rest) := by
  induction t with
  | nil =>
    rcases hd with rfl | ⟨c, cs, rfl, h1, h2, h3, h4, h5⟩
    · simp [identLoop]
    · simp [identLoop, h1, h2, h3, h4, h5]
  | cons c cs ih =>
    obtain ⟨h1, h2, h3⟩ := isAlnum_not_quote U c (h c (by simp))
    have := h c (by simp)
    simp [identLoop, h1, h2, h3, this, ih (fun x hx => h x (by simp [hx]))]

open EdbVerif.Gen in
theorem keywords_ascii :
    (Keywords.partialReserved ++ Keywords.futureReserved ++ Keywords.currentReserved ++
      Keywords.combined ++ Keywords.unreserved).all (fun w => w.all (fun c => decide (c.toNat < 128))) = true := by
  decide +kernel

theorem isKeyword_ascii (w : List Char) (h : isKeyword w = true) : ∀ c ∈ w, c.toNat < 128 := by
  have hk := keywords_ascii
  simp only [List.all_eq_true, decide_eq_true_eq] at hk
  simp only [isKeyword, Bool.or_eq_true, List.contains_iff_mem] at h
  apply hk w
  simp only [List.mem_append]
  exact h

theorem asciiLower_ascii (c : Char) : (asciiLower c).toNat < 128 → c.toNat < 128 := by
  intro h
  by_cases hc : (65 ≤ c.toNat && c.toNat ≤ 90) = true
  · simp at hc; omega
  · simpa [asciiLower, hc] using h

/-- Python's classes are inside the tokenizer's: every `str.isalpha()`
    character is `is_alphabetic`, every `\\w` character is `_` or `is_alphanumeric`.
    On ASCII both hold by construction; outside ASCII this is a statement about
    two Unicode tables (CPython's and rustc's), checked by the harness sweep on
    every code point. -/
def Compat (P : PyUnicode) (U : UClass) : Prop :=
  (∀ c, pyIsAlpha P c = true → isAlpha U c = true) ∧
  (∀ c, pyIsWord P c = true → c = '_' ∨ isAlnum U c = true)

/-- The names that SOME identifier form can carry, phrased along the branch
    `quote_ident` takes:
    * back-quoted: the name must not start with `$`, must not be surrounded by
      double underscores, must not hold NUL / a bidi control (the tokenizer
      refuses these inside back-quotes, and such a name is no bare identifier
      either);
    * bare: non-empty, not starting with `@`, no `::` (for these three
      `quote_ident` returns the text as is — no identifier form exists for
      them), and not a double-underscore name unless that is a keyword. -/
def identExpressible (P : PyUnicode) (s : List Char) : Bool :=
  if needsQuoting P s false false then
    s.head? ≠ some '$' && !isDunder s && s.all (fun c => (checkProhibited c false).isNone)
  else
    !s.isEmpty && s.head? ≠ some '@' && !hasNamespaceSep s &&
    !((asKeyword s).isNone && isDunder s)

/-- what may follow the printed identifier -/
def identDelim (U : UClass) (quoted : Bool) (rest : List Char) : Prop :=
  if quoted then rest.head? ≠ some '`' else bareIdentDelim U rest

theorem needsQuoting_true (P : PyUnicode) (s : List Char) (a b : Bool)
    (h : needsQuoting P s a b = true) :
    s.isEmpty = false ∧ s.head? ≠ some '@' ∧ Lex.hasNamespaceSep s = false := by
  unfold needsQuoting at h
  split at h
  · simp at h
  · rename_i hc
    simp only [Bool.or_eq_true, decide_eq_true_eq, not_or, Quote.hasNamespaceSep] at hc
    exact ⟨by simpa using hc.1.1, hc.1.2, by simpa using hc.2⟩

theorem quoteIdent_lex (U : UClass) (P : PyUnicode) (hc : Compat P U) (s rest : List Char)
    (he : identExpressible P s = true)
    (hd : identDelim U (needsQuoting P s false false) rest) :
    ∃ t, lexOne U (quoteIdent P s false false false ++ rest) = .ok (t, rest) ∧
      t.val = .str s ∧ IdentLike t.kind := by
  unfold identExpressible at he
  unfold identDelim at hd
  by_cases hn : needsQuoting P s false false = true
  · simp only [hn, if_true] at he hd
    obtain ⟨h1, h2, h3⟩ := needsQuoting_true P s false false hn
    have hb : backtickExpressible s = true := by
      simp only [Bool.and_eq_true, Bool.not_eq_true', decide_eq_true_eq, List.all_eq_true] at he
      simp only [backtickExpressible, Bool.and_eq_true, Bool.not_eq_true', decide_eq_true_eq,
        List.all_eq_true]
      exact ⟨⟨⟨⟨⟨h1, h2⟩, he.1.1⟩, h3⟩, he.1.2⟩, he.2⟩
    refine ⟨⟨.ident, .str s⟩, ?_, rfl, Or.inl rfl⟩
    simp only [quoteIdent, hn, Bool.or_true, if_true]
    exact quoteIdentRaw_lex U s rest hb hd
  · have hn' : needsQuoting P s false false = false := by simpa using hn
    simp only [hn', Bool.false_eq_true, if_false] at he hd
    cases s with
    | nil => simp at he
    | cons c t =>
      simp only [Bool.and_eq_true, Bool.not_eq_true', decide_eq_true_eq, List.isEmpty_cons,
        Bool.and_eq_false_imp, Option.isNone_iff_eq_none, List.head?_cons] at he
      obtain ⟨⟨⟨_, hat⟩, hns⟩, hdun⟩ := he
      -- what `needs_quoting` = False says
      have hcond : ((c :: t).isEmpty || decide ((c :: t).head? = some '@') ||
          Quote.hasNamespaceSep (c :: t)) = false := by
        have hat' : c ≠ '@' := by simpa using hat
        simp [Quote.hasNamespaceSep, hns, hat']
      have hnq := hn'
      unfold needsQuoting at hnq
      simp only [hcond, Bool.false_eq_true, if_false, Bool.and_false, Bool.or_false,
        Bool.not_false, Bool.true_and, Bool.or_eq_false_iff, Bool.not_eq_false',
        Bool.and_eq_true, Bool.or_eq_true, decide_eq_true_eq] at hnq
      obtain ⟨⟨hmatch, hfirst⟩, hres⟩ := hnq
      have hmatch : matchIdent P (c :: t) = true := by
        rcases hmatch with h | h
        · exact h
        · exact absurd h.1 (by simp)
      simp only [matchIdent, Bool.and_eq_true, List.all_eq_true] at hmatch
      obtain ⟨hws, hwt⟩ := hmatch
      have hstart : c = '_' ∨ isAlpha U c = true := by
        rcases hfirst with (h | h) | h
        · exact Or.inl h
        · exact Or.inr (hc.1 c h)
        · simp [pyIsWordStart, h] at hws
      have htail : ∀ x ∈ t, x = '_' ∨ isAlnum U x = true := fun x hx => hc.2 x (hwt x hx)
      have hloop := identLoop_all U t rest htail hd
      simp only [quoteIdent, hn', Bool.or_false, Bool.false_eq_true, if_false, List.cons_append]
      rw [lexOne_identStart U c _ hstart]
      simp only [lexIdent, hloop]
      cases hk : asKeyword (c :: t) with
      | none =>
        have := hdun hk
        exact ⟨⟨.ident, .str (c :: t)⟩, by simp [this], rfl, Or.inl rfl⟩
      | some k =>
        refine ⟨⟨.keyword k, .str (c :: t)⟩, rfl, rfl, Or.inr ⟨k, rfl, ?_⟩⟩
        -- `k` is the ASCII lower-casing of the name and is in the keyword table
        simp only [asKeyword] at hk
        split at hk
        · simp at hk
        · split at hk
          · rename_i _ hkw
            simp at hk
            have hasc : ∀ x ∈ c :: t, x.toNat < 128 := by
              intro x hx
              apply asciiLower_ascii
              exact isKeyword_ascii _ hkw (asciiLower x) (List.mem_map_of_mem hx)
            have hl : pyLower P (c :: t) = k := by
              have : (c :: t).all (fun x => decide (x.toNat < 128)) = true := by
                simpa [List.all_eq_true] using hasc
              simp only [pyLower, this, if_true]
              exact hk
            rw [hl] at hres
            simp only [Bool.and_eq_false_imp, Bool.and_eq_true, decide_eq_true_eq, ne_eq] at hres
            by_cases e1 : k = dunderType
            · exact Or.inr (Or.inl e1)
            by_cases e2 : k = dunderStd
            · exact Or.inr (Or.inr e2)
            exact Or.inl (hres ⟨e1, e2⟩)
          · simp at hk

/-- `quote_ident(s, force=True)` -/
theorem quoteIdent_forced_lex (U : UClass) (P : PyUnicode) (s rest : List Char)
    (he : backtickExpressible s = true) (hq : rest.head? ≠ some '`') :
    lexOne U (quoteIdent P s true false false ++ rest) = .ok (⟨.ident, .str s⟩, rest) := by
  simp only [quoteIdent, Bool.true_or, if_true]
  exact quoteIdentRaw_lex U s rest he hq

end EdbVerif.Lex
