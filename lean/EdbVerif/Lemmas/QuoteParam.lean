/-
C18, parameters: `param_to_str` read back by the tokenizer model.
-/
import EdbVerif.Lemmas.QuoteIdent

namespace EdbVerif.Lex
open EdbVerif.Quote

/-- what `` $`…` `` can carry (a leading `$` is fine here, unlike in a plain back-quoted name) -/
def paramBacktickExpressible (s : List Char) : Bool :=
  !s.isEmpty && s.head? ≠ some '@' && !hasNamespaceSep s && !isDunder s &&
  s.all (fun c => (checkProhibited c false).isNone)

/-- does `param_to_str` back-quote the name? -/
def paramQuoted (P : PyUnicode) (s : List Char) : Bool :=
  (!s.isEmpty && !s.all (fun c => c = '_' || pyIsAlpha P c || isDigit c)) || needsQuoting P s true true

/-- the names SOME parameter form can carry, along the branch `param_to_str` takes: back-quoted —
    `paramBacktickExpressible`; bare — non-empty, not starting with `@`, no `::` (for these three
    `quote_ident` returns the text as is and no parameter form exists). -/
def paramExpressible (P : PyUnicode) (s : List Char) : Bool :=
  if paramQuoted P s then paramBacktickExpressible s
  else !s.isEmpty && s.head? ≠ some '@' && !hasNamespaceSep s

/-- what may follow: after `` $`…` `` no back-quote; after a bare `$name` nothing that continues the
    name (ASCII digit, `_`, alphabetic) and no `$` (which would make `$name$` a dollar-quote tag) -/
def paramDelim (U : UClass) (quoted : Bool) (rest : List Char) : Prop :=
  if quoted then rest.head? ≠ some '`'
  else rest = [] ∨ ∃ c cs, rest = c :: cs ∧ isTagChar U c = false ∧ c ≠ '$'

theorem paramBacktick_lex (U : UClass) (s rest : List Char) (he : paramBacktickExpressible s = true)
    (hq : rest.head? ≠ some '`') :
    lexOne U ('$' :: quoteIdentRaw s ++ rest) = .ok (⟨.parameter, .str s⟩, rest) := by
  simp only [paramBacktickExpressible, Bool.and_eq_true, Bool.not_eq_true', decide_eq_true_eq,
    List.all_eq_true, Option.isNone_iff_eq_none] at he
  obtain ⟨⟨⟨⟨h1, h2⟩, h4⟩, h5⟩, h6⟩ := he
  have hs := scanBacktick_quoted s rest h6 hq
  have ha : ¬ (dbl s).head? = some '@' := fun e => h2 ((dbl_head s '@' (by decide)).mp e)
  simp only [quoteIdentRaw, List.cons_append, List.append_assoc, List.nil_append, lexOne_dollar]
  simp only [dbl] at hs ha
  simp only [lexDollar, hs, ha, if_false]
  have := hasNS_dbl s; have := isDunder_dbl s; have := dbl_isEmpty s; have := undouble_dbl s
  simp only [dbl] at *
  simp [*]

theorem spanTag_all (U : UClass) (t rest : List Char) (h : ∀ c ∈ t, isTagChar U c = true)
    (hd : rest = [] ∨ ∃ c cs, rest = c :: cs ∧ isTagChar U c = false ∧ c ≠ '$') :
    spanTag U (t ++ rest) = (t, rest) := by
  induction t with
  | nil =>
    rcases hd with rfl | ⟨c, cs, rfl, hc, _⟩
    · simp [spanTag]
    · simp [spanTag, hc]
  | cons c cs ih =>
    simp [spanTag, h c (by simp), ih (fun x hx => h x (by simp [hx]))]

theorem paramToStr_lex (U : UClass) (P : PyUnicode) (hc : Compat P U) (s rest : List Char)
    (he : paramExpressible P s = true) (hd : paramDelim U (paramQuoted P s) rest) :
    lexOne U (paramToStr P s ++ rest) = .ok (⟨.parameter, .str s⟩, rest) := by
  unfold paramExpressible at he
  unfold paramDelim at hd
  by_cases hq : paramQuoted P s = true
  · simp only [hq, if_true] at he hd
    have : paramToStr P s = '$' :: quoteIdentRaw s := by
      simp only [paramQuoted, Bool.or_eq_true] at hq
      simp only [paramToStr, quoteIdent]
      rcases hq with h | h
      · simp [h]
      · simp [h]
    rw [this]
    exact paramBacktick_lex U s rest he hd
  · have hq' : paramQuoted P s = false := by simpa using hq
    simp only [hq', Bool.false_eq_true, if_false] at he hd
    simp only [paramQuoted, Bool.or_eq_false_iff] at hq'
    obtain ⟨hforce, hnq⟩ := hq'
    cases s with
    | nil => simp at he
    | cons c t =>
      simp only [List.isEmpty_cons, Bool.not_false, Bool.true_and, Bool.not_eq_false'] at hforce
      have hall : ∀ x ∈ c :: t, x = '_' ∨ pyIsAlpha P x = true ∨ isDigit x = true := by
        simpa [List.all_eq_true, or_assoc] using hforce
      have htag : ∀ x ∈ c :: t, isTagChar U x = true := by
        intro x hx
        rcases hall x hx with h | h | h
        · subst h; simp [isTagChar]
        · simp [isTagChar, hc.1 x h]
        · simp [isTagChar, h]
      have hout : paramToStr P (c :: t) = '$' :: c :: t := by
        have hf : (!(c :: t).isEmpty && !(c :: t).all (fun c => decide (c = '_') || pyIsAlpha P c || isDigit c)) = false := by
          simp only [List.isEmpty_cons, Bool.not_false, Bool.true_and, Bool.not_eq_false']
          exact hforce
        have e : paramToStr P (c :: t) = '$' :: quoteIdent P (c :: t)
            (!(c :: t).isEmpty && !(c :: t).all (fun c => decide (c = '_') || pyIsAlpha P c || isDigit c)) true true := rfl
        rw [e, hf]
        simp [quoteIdent, hnq]
      rw [hout]
      have hct := htag c (by simp)
      have hne1 : c ≠ '$' := by
        intro e; subst e
        rcases hall '$' (by simp) with h | h | h
        · exact absurd h (by decide)
        · simp [pyIsAlpha, isAsciiLetter] at h
        · simp [isDigit] at h
      have hne2 : c ≠ '`' := by
        intro e; subst e
        rcases hall '`' (by simp) with h | h | h
        · exact absurd h (by decide)
        · simp [pyIsAlpha, isAsciiLetter] at h
        · simp [isDigit] at h
      have hsp := spanTag_all U (c :: t) rest htag hd
      simp only [List.cons_append, lexOne_dollar] at hsp ⊢
      simp only [lexDollar, hne1, hne2, hct, if_true, if_false, hsp]
      -- a bare name that starts with a digit is all digits (it matched the numeric alternative)
      have hbad : ((c :: t).any (fun x => isAlpha U x || decide (x = '_')) && isDigit c) = false := by
        by_cases hdg : isDigit c = true
        · -- needs_quoting = False with a leading ASCII digit: only matchNum can have matched
          have hcond : ((c :: t).isEmpty || decide ((c :: t).head? = some '@') ||
              Quote.hasNamespaceSep (c :: t)) = false := by
            simp only [Bool.and_eq_true, Bool.not_eq_true', decide_eq_true_eq, List.isEmpty_cons,
              List.head?_cons] at he
            have hat : c ≠ '@' := by simpa using he.1.2
            simp [Quote.hasNamespaceSep, he.2, hat]
          have hn := hnq
          unfold needsQuoting at hn
          simp only [hcond, Bool.false_eq_true, if_false, Bool.not_true, Bool.false_and, Bool.or_false,
            Bool.not_eq_false', Bool.and_eq_true, Bool.or_eq_true, Bool.true_and] at hn
          have hmi : matchIdent P (c :: t) = false := by
            have : pyIsDecimal P c = true := by
              simp only [isDigit, Bool.and_eq_true, decide_eq_true_eq] at hdg
              have : c.toNat < 128 := by omega
              simp [pyIsDecimal, this, isDigit, hdg]
            simp [matchIdent, pyIsWordStart, this]
          have hmn : matchNum (c :: t) = true := by
            rcases hn.1 with h | h
            · simp [hmi] at h
            · exact h
          have hdig : ∀ x ∈ t, isDigit x = true := by
            simp only [matchNum, Bool.or_eq_true, Bool.and_eq_true, List.all_eq_true, decide_eq_true_eq] at hmn
            rcases hmn with ⟨_, h⟩ | ⟨⟨_, h⟩, _⟩
            · intro x hx; simp at h; subst h; simp at hx
            · exact h
          have : (c :: t).any (fun x => isAlpha U x || decide (x = '_')) = false := by
            simp only [List.any_eq_false]
            intro x hx
            have hxd : isDigit x = true := by
              simp only [List.mem_cons] at hx
              rcases hx with rfl | hx
              · exact hdg
              · exact hdig x hx
            simp only [isDigit, Bool.and_eq_true, decide_eq_true_eq] at hxd
            have h128 : x.toNat < 128 := by omega
            have hx_ : x ≠ '_' := by intro e; subst e; simp at hxd
            simp [isAlpha, h128, isAsciiLetter, hx_]
            omega
          simp [this]
        · simp [hdg]
      cases rest with
      | nil => simpa using hbad
      | cons d r' =>
        have hdne : d ≠ '$' := by
          rcases hd with h | ⟨c', cs', h, _, h3⟩
          · simp at h
          · simp at h; obtain ⟨rfl, _⟩ := h; exact h3
        simpa [hdne] using hbad

end EdbVerif.Lex
