/-
C17: "identities never come back" — ghost bookkeeping, the invariants it
supports, and the history-level theorems.
-/
import EdbVerif.Lemmas.SyncInv
namespace EdbVerif.Sync

/-! ### ghost bookkeeping -/

theorem supply_cur (g : Ghost) (σ τ : Slot) (t : Tok) :
    (g.supply σ t).cur τ = if τ = σ then some t else g.cur τ := rfl

theorem supply_ret_mono (g : Ghost) (σ τ : Slot) (t x : Tok) (h : x ∈ g.ret τ) :
    x ∈ (g.supply σ t).ret τ := by
  simp only [Ghost.supply]
  split
  · rename_i h'; subst h'
    split
    · split <;> simp_all
    · exact h
  · exact h

/-- supplying `t` for `σ` retires the previous identity if it is a different one -/
theorem supply_retires (g : Ghost) (σ : Slot) (t x : Tok) (h : g.cur σ = some x) (hne : x ≠ t) :
    x ∈ (g.supply σ t).ret σ := by
  simp [Ghost.supply, h, hne]

/-- the effect of a request's five supplies on one slot -/
theorem supplyAll_slots (g : Ghost) (r : CReq) (τ : Slot) :
    (∀ x, x ∈ g.ret τ → x ∈ (g.supplyAll r.slots).ret τ) ∧
    ((∀ t, (τ, t) ∉ r.slots) → (g.supplyAll r.slots).cur τ = g.cur τ) ∧
    (∀ t, (τ, t) ∈ r.slots → (g.supplyAll r.slots).cur τ = some t ∧
        ∀ x, g.cur τ = some x → x ≠ t → x ∈ (g.supplyAll r.slots).ret τ) := by
  simp only [CReq.slots, Ghost.supplyAll]
  refine ⟨?_, ?_, ?_⟩
  · intro x hx
    repeat apply supply_ret_mono
    exact hx
  · intro h
    simp only [supply_cur]
    cases τ <;> simp_all
  · intro t ht
    simp only [List.mem_cons, List.mem_nil_iff, or_false, Prod.mk.injEq] at ht
    rcases ht with ⟨h1, h2⟩ | ⟨h1, h2⟩ | ⟨h1, h2⟩ | ⟨h1, h2⟩ | ⟨h1, h2⟩ <;> subst h1 h2 <;>
      refine ⟨by simp [supply_cur], ?_⟩ <;> intro x hx hne <;>
      simp [Ghost.supply, hx, hne]


/-- a stale belief is a retired identity -/
def Inv1 (g : Ghost) (st : State) : Prop :=
  ∀ i σ x, (st i).bel.get σ = some x → (st i).act.get σ = some x ∨ x ∈ g.ret σ

/-- every believed identity is the current one or a retired one -/
def Inv2 (g : Ghost) (st : State) : Prop :=
  ∀ i σ x, (st i).bel.get σ = some x → g.cur σ = some x ∨ x ∈ g.ret σ

theorem inv2_carry (g : Ghost) (r : CReq) (σ : Slot) (x : Tok)
    (h : g.cur σ = some x ∨ x ∈ g.ret σ) :
    (g.supplyAll r.slots).cur σ = some x ∨ x ∈ (g.supplyAll r.slots).ret σ := by
  obtain ⟨hmono, hother, hslot⟩ := supplyAll_slots g r σ
  rcases h with h | h
  · by_cases hex : ∃ t, (σ, t) ∈ r.slots
    · obtain ⟨t, ht⟩ := hex
      obtain ⟨hc, hr⟩ := hslot t ht
      by_cases hxt : x = t
      · left; rw [hc, hxt]
      · right; exact hr x h hxt
    · left
      rw [hother (fun t ht => hex ⟨t, ht⟩)]; exact h
  · right; exact hmono x h

theorem inv_compile (env : Env) (g : Ghost) (st : State) (r : CReq)
    (h1 : Inv1 g st) (h2 : Inv2 g st) :
    Inv1 (g.supplyAll r.slots) (stepCompileRun env st r).1 ∧
    Inv2 (g.supplyAll r.slots) (stepCompileRun env st r).1 := by
  constructor
  · intro i σ x hx
    obtain ⟨hmono, _, hslot⟩ := supplyAll_slots g r σ
    by_cases hi : i = r.w
    case neg =>
      rw [stepCompile_frame env st r i hi] at hx ⊢
      rcases h1 i σ x hx with h | h
      · exact Or.inl h
      · exact Or.inr (hmono x h)
    subst hi
    rcases compile_bel_slot env st r σ with hb | ⟨t, _, hb, ha⟩
    · rw [hb] at hx
      rcases compile_act_slot env st r σ with ha | ⟨t, hs, ha⟩
      · rw [ha]
        rcases h1 _ σ x hx with h | h
        · exact Or.inl h
        · exact Or.inr (hmono x h)
      · by_cases hxt : x = t
        · left; rw [ha, hxt]
        · right
          have hm := (preargs_at_some _ _ _ _ hs).1
          rcases h2 _ σ x hx with h | h
          · exact (hslot t hm).2 x h hxt
          · exact hmono x h
    · rw [hb] at hx; cases hx; exact Or.inl ha
  · intro i σ x hx
    by_cases hi : i = r.w
    case neg =>
      rw [stepCompile_frame env st r i hi] at hx
      exact inv2_carry g r σ x (h2 i σ x hx)
    subst hi
    rcases compile_bel_slot env st r σ with hb | ⟨t, hs, hb, _⟩
    · rw [hb] at hx
      exact inv2_carry g r σ x (h2 _ σ x hx)
    · rw [hb] at hx; cases hx
      have hm := (preargs_at_some _ _ _ _ hs).1
      exact Or.inl ((supplyAll_slots g r σ).2.2 x hm).1

theorem inv_tx (env : Env) (g : Ghost) (st : State) (r : TReq)
    (h1 : Inv1 g st) (h2 : Inv2 g st) :
    Inv1 g (stepTx env st r).1 ∧ Inv2 g (stepTx env st r).1 := by
  constructor
  · intro i σ x hx
    rw [(stepTx_get env st r i σ).1] at hx
    rw [(stepTx_get env st r i σ).2]
    exact h1 i σ x hx
  · intro i σ x hx
    rw [(stepTx_get env st r i σ).1] at hx
    exact h2 i σ x hx

theorem inv_init (s : Side) : Inv1 (Ghost.init s) (initState s) ∧ Inv2 (Ghost.init s) (initState s) := by
  constructor
  · intro i σ x hx
    left
    have : (initState s i).act.get σ = (initState s i).bel.get σ := by cases σ <;> rfl
    rw [this]; exact hx
  · intro i σ x hx
    left
    have : (initState s i).bel.get σ = s.get σ := by cases σ <;> rfl
    rw [this] at hx
    exact hx

/-- `Inv1` + "no superseded identity is supplied" ⇒ the request is safe -/
theorem safe_of_inv1 (g : Ghost) (st : State) (r : CReq) (h1 : Inv1 g st)
    (hok : ∀ p ∈ r.slots, p.2 ∉ g.ret p.1) : Safe (st r.w) r := by
  intro _ p hp hbel
  rcases h1 r.w p.1 p.2 hbel with h | h
  · exact h
  · exact absurd h (hok p hp)

/-! ### history-level theorems -/

/-- a request the worker cannot read changes neither beliefs nor workers: the invariants
    survive the ghost update -/
theorem inv_lost (g : Ghost) (st : State) (r : CReq) (h1 : Inv1 g st) (h2 : Inv2 g st) :
    Inv1 (g.supplyAll r.slots) (stepCompileLost st r).1 ∧
    Inv2 (g.supplyAll r.slots) (stepCompileLost st r).1 := by
  constructor
  · intro i σ x hx
    obtain ⟨hb, ha⟩ := stepCompileLost_same st r i
    rw [hb σ] at hx; rw [ha]
    rcases h1 i σ x hx with h | h
    · exact Or.inl h
    · exact Or.inr ((supplyAll_slots g r σ).1 x h)
  · intro i σ x hx
    rw [(stepCompileLost_same st r i).1 σ] at hx
    exact inv2_carry g r σ x (h2 i σ x hx)

theorem noReturn_exec (env : Env) (h : List Req) :
    ∀ (g : Ghost) (st : State), Inv1 g st → Inv2 g st → ∀ q, NoReturnFrom g (h ++ [q]) →
      ∃ g', Inv1 g' (exec env st h) ∧ Inv2 g' (exec env st h) ∧ NoReturnFrom g' [q] := by
  induction h with
  | nil => intro g st h1 h2 q hq; exact ⟨g, h1, h2, hq⟩
  | cons x xs ih =>
    intro g st h1 h2 q hq
    cases x with
    | compile r =>
      simp only [List.cons_append, NoReturnFrom] at hq
      simp only [exec, step]
      by_cases hr : r.out = .requestUnreadable
      · obtain ⟨i1, i2⟩ := inv_lost g st r h1 h2
        rw [stepCompile_of_lost env st r hr]
        exact ih _ _ i1 i2 q hq.2
      · obtain ⟨i1, i2⟩ := inv_compile env g st r h1 h2
        rw [stepCompile_of_read env st r hr]
        exact ih _ _ i1 i2 q hq.2
    | tx r =>
      simp only [List.cons_append, NoReturnFrom] at hq
      obtain ⟨i1, i2⟩ := inv_tx env g st r h1 h2
      exact ih _ _ i1 i2 q hq.2

/-- a request the worker cannot read compiles nothing -/
theorem usedSupplied_of_run (env : Env) (st : State) (r : CReq)
    (h : (stepCompileRun env st r).2.usedSupplied r) : (stepCompile env st r).2.usedSupplied r := by
  by_cases hl : r.out = .requestUnreadable
  · rw [stepCompile_of_lost env st r hl]
    intro u hu'; rw [(stepCompileLost_spec st r).2.1] at hu'; cases hu'
  · rw [stepCompile_of_read env st r hl]; exact h

/-- C17_used under "identities never come back" -/
theorem used_noReturn (env : Env) (init : Side) (pre : List Req) (r : CReq)
    (h : NoReturn init (pre ++ [.compile r])) :
    (stepCompile env (exec env (initState init) pre) r).2.usedSupplied r := by
  obtain ⟨i1, i2⟩ := inv_init init
  obtain ⟨g', h1, _, hq⟩ := noReturn_exec env pre _ _ i1 i2 _ h
  simp only [NoReturnFrom] at hq
  apply usedSupplied_of_run
  intro u hu
  exact (compile_used_exact env _ r u hu).2 (safe_of_inv1 g' _ r h1 hq.1)

theorem txRoot_of (env : Env) (st : State) (r : TReq)
    (h : (st r.w).bel.get (.schema r.db) = some r.schema →
         (st r.w).act.get (.schema r.db) = some r.schema) :
    (stepTx env st r).2.usedRoot r := by
  intro u hu s hs
  have hp := stepTx_used env st r u hu
  rcases wtxPrepare_ok env _ r _ u hp with ⟨_, _, h3⟩ | ⟨h1, _, h3, _⟩ | ⟨_, _, h3⟩
  · rw [h3] at hs; cases hs
  · have := h (txSend_byName _ r h1)
    rw [h3, this] at hs; cases hs; rfl
  · rw [h3] at hs; cases hs; rfl

theorem txRoot_noReturn (env : Env) (init : Side) (pre : List Req) (r : TReq)
    (h : NoReturn init (pre ++ [.tx r])) :
    (stepTx env (exec env (initState init) pre) r).2.usedRoot r := by
  obtain ⟨i1, i2⟩ := inv_init init
  obtain ⟨g', h1, _, hq⟩ := noReturn_exec env pre _ _ i1 i2 _ h
  simp only [NoReturnFrom] at hq
  apply txRoot_of
  intro hb
  rcases h1 r.w _ _ hb with h | h
  · exact h
  · exact absurd h hq.1

/-- C17_belief: only status 2 can break "belief ⇒ actual" -/
theorem agree_exec (env : Env) (init : Side) (h : List Req) (hl : NoStatus2 h) (w : Nat) :
    Agree (exec env (initState init) h w) :=
  fun σ => agreeAt_exec env σ h _ (agreeAt_init init σ) hl w

theorem safe_of_agree (ws : WState) (r : CReq) (h : Agree ws) : Safe ws r :=
  fun _ p _ hbel => h p.1 p.2 hbel

theorem used_noStatus2 (env : Env) (init : Side) (pre : List Req) (r : CReq)
    (hl : NoStatus2 pre) :
    (stepCompile env (exec env (initState init) pre) r).2.usedSupplied r := by
  apply usedSupplied_of_run
  intro u hu
  exact (compile_used_exact env _ r u hu).2 (safe_of_agree _ r (agree_exec env init pre hl r.w))

theorem txRoot_noStatus2 (env : Env) (init : Side) (pre : List Req) (r : TReq)
    (hl : NoStatus2 pre) :
    (stepTx env (exec env (initState init) pre) r).2.usedRoot r := by
  apply txRoot_of
  exact agreeAt_exec env _ pre _ (agreeAt_init init _) hl r.w _

theorem lastLe_init (s : Side) (i : Nat) : LastLe (initState s i) := by
  intro x hx; simp [initState] at hx

/-- with `LastLe`, a transaction that supplies a (non-`None`) state runs on it -/
theorem usedState_of_lastLe (env : Env) (st : State) (r : TReq) (h : LastLe (st r.w))
    (hp : r.pstate ≠ none) : (stepTx env st r).2.usedState r := by
  intro u hu
  have hpq := stepTx_used env _ r u hu
  rcases wtxPrepare_ok env _ r _ u hpq with ⟨h1, h2, _⟩ | ⟨_, h2, _⟩ | ⟨_, h2, _⟩
  · have hb := (txSend_reuse _ r).1 h1
    cases hps : r.pstate with
    | none => exact absurd hps hp
    | some p =>
      rw [hps] at hb
      have := h p hb
      rw [h2] at this
      exact this
  · exact h2.symm
  · exact h2.symm

/-- C17_intx: every history -/
theorem intx (env : Env) (init : Side) (pre : List Req) (r : TReq) (hp : r.pstate ≠ none) :
    (stepTx env (exec env (initState init) pre) r).2.usedState r :=
  usedState_of_lastLe env _ r (lastLe_exec env pre _ (lastLe_init init) r.w) hp

/-- the REUSE marker goes only to a worker whose `LAST_STATE` is the supplied state -/
theorem reuse_only_to_holder (env : Env) (init : Side) (pre : List Req) (r : TReq)
    (hp : r.pstate ≠ none)
    (h : (stepTx env (exec env (initState init) pre) r).2.send = .reuse) :
    (exec env (initState init) pre r.w).act.last = r.pstate := by
  rw [stepTx_send] at h
  have hb := (txSend_reuse _ r).1 h
  cases hps : r.pstate with
  | none => exact absurd hps hp
  | some p =>
    rw [hps] at hb
    exact lastLe_exec env pre _ (lastLe_init init) r.w p hb

/-! ### unconditional facts -/

/-- a request that ends in `FailedStateSync` changes no believed slot and leaves
    every worker process exactly as it was -/
theorem syncFail_changes_nothing (env : Env) (st : State) (r : CReq)
    (h : (stepCompileRun env st r).2.res = .syncFail) (i : Nat) :
    (∀ σ, ((stepCompileRun env st r).1 i).bel.get σ = (st i).bel.get σ) ∧
      ((stepCompileRun env st r).1 i).act = (st i).act := by
  by_cases hi : i = r.w
  case neg => rw [stepCompile_frame env st r i hi]; exact ⟨fun _ => rfl, rfl⟩
  subst hi
  cases hW : (wsync env (st r.w).act r.db (preargs (st r.w).bel r)).2 with
  | none =>
    refine ⟨(stepCompile_bel_fail env st r hW).1, ?_⟩
    have hc := wsync_fail_clean env _ _ _ hW
    revert hW hc
    unfold stepCompileRun
    simp only []
    generalize wsync env (st r.w).act r.db (preargs (st r.w).bel r) = W
    obtain ⟨a', sres⟩ := W
    intro hW hc
    simp only [] at hW hc
    subst hW hc
    simp
  | some d =>
    exfalso
    obtain ⟨b', hb'⟩ := withAck_defined (st r.w).bel r
    revert h hW
    unfold stepCompileRun
    simp only []
    generalize wsync env (st r.w).act r.db (preargs (st r.w).bel r) = W
    obtain ⟨a', sres⟩ := W
    cases sres with
    | none => simp
    | some d' =>
      simp only [hb']
      cases hout : r.out <;> simp

/-- the `assert`s of `sync_worker_state_cb` never fire -/
theorem no_cbAssert (env : Env) (st : State) (r : CReq) :
    (stepCompileRun env st r).2.res ≠ .cbAssert := by
  obtain ⟨b', hb'⟩ := withAck_defined (st r.w).bel r
  unfold stepCompileRun
  simp only []
  generalize wsync env (st r.w).act r.db (preargs (st r.w).bel r) = W
  obtain ⟨a', sres⟩ := W
  cases sres with
  | none => simp
  | some d' =>
    simp only [hb']
    cases hout : r.out <;> simp

/-! ### the memo -/

theorem viaMemo_faithful (memo : Tok → Tok) (h : MemoFaithful memo) (p : Parts) :
    p.viaMemo memo = p := by
  have : memo = id := funext h
  subst this
  cases p
  simp [Parts.viaMemo]

/-- with a faithful memo the explicit-memo transition is the model's transition -/
theorem stepCompileMemo_faithful (memo : Tok → Tok) (h : MemoFaithful memo) (env : Env)
    (st : State) (r : CReq) : stepCompileMemo memo env st r = stepCompile env st r := by
  have : stepCompileRunMemo memo env st r = stepCompileRun env st r := by
    unfold stepCompileRunMemo stepCompileRun
    simp only [viaMemo_faithful memo h]
    rfl
  unfold stepCompileMemo stepCompile
  rw [this]

/-! ### the same facts for `stepCompile` (requests the worker cannot read included) -/

theorem compile_used_exact' (env : Env) (st : State) (r : CReq) (u : Used)
    (h : (stepCompile env st r).2.used = some u) : u = r.supplied ↔ Safe (st r.w) r := by
  by_cases hl : r.out = .requestUnreadable
  · rw [stepCompile_of_lost env st r hl, (stepCompileLost_spec st r).2.1] at h
    cases h
  · rw [stepCompile_of_read env st r hl] at h
    exact compile_used_exact env st r u h

theorem syncFail_changes_nothing' (env : Env) (st : State) (r : CReq)
    (h : (stepCompile env st r).2.res = .syncFail) (i : Nat) :
    (∀ σ, ((stepCompile env st r).1 i).bel.get σ = (st i).bel.get σ) ∧
      ((stepCompile env st r).1 i).act = (st i).act := by
  by_cases hl : r.out = .requestUnreadable
  · rw [stepCompile_of_lost env st r hl]
    exact stepCompileLost_same st r i
  · rw [stepCompile_of_read env st r hl] at h ⊢
    exact syncFail_changes_nothing env st r h i

theorem no_cbAssert' (env : Env) (st : State) (r : CReq) :
    (stepCompile env st r).2.res ≠ .cbAssert := by
  by_cases hl : r.out = .requestUnreadable
  · rw [stepCompile_of_lost env st r hl, (stepCompileLost_spec st r).2.2]
    intro h; cases h
  · rw [stepCompile_of_read env st r hl]; exact no_cbAssert env st r

theorem compile_bel_slot' (env : Env) (st : State) (r : CReq) (σ : Slot) :
    ((stepCompile env st r).1 r.w).bel.get σ = (st r.w).bel.get σ ∨
      ∃ t, (preargs (st r.w).bel r).at r.db σ = some t ∧
        ((stepCompile env st r).1 r.w).bel.get σ = some t ∧
        ((stepCompile env st r).1 r.w).act.get σ = some t := by
  by_cases hl : r.out = .requestUnreadable
  · left
    rw [stepCompile_of_lost env st r hl]
    exact (stepCompileLost_same st r r.w).1 σ
  · rw [stepCompile_of_read env st r hl]; exact compile_bel_slot env st r σ

end EdbVerif.Sync
