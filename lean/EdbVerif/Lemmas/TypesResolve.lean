/-
C12 — overload resolution (`polyres.find_callable`): what it selects, and that the selection
does not depend on the order in which the schema hands out the overloads.
-/
import EdbVerif.Lemmas.TypesOrder

namespace EdbVerif.Types
open EdbVerif.Gen.Types

/-! ### `keepMin` -/

theorem keepMin_eq_filter {α} (key : α → Int) (l : List α) :
    keepMin key l = l.filter fun x => l.all fun y => decide (key x ≤ key y) := by
  induction l with
  | nil => rfl
  | cons x xs ih =>
    simp only [keepMin]
    -- describe the recursive result
    have hmem : ∀ z, z ∈ keepMin key xs ↔ z ∈ xs ∧ ∀ y ∈ xs, key z ≤ key y := by
      intro z; rw [ih]; simp [List.mem_filter, List.all_eq_true]
    cases hr : keepMin key xs with
    | nil =>
      -- xs has no minimal element, hence is empty
      have hxs : xs = [] := by
        cases xs with
        | nil => rfl
        | cons a as =>
          exfalso
          -- a finite non-empty list has a minimal element
          have : ∃ z, z ∈ (a :: as) ∧ ∀ y ∈ (a :: as), key z ≤ key y := by
            clear hr hmem ih
            induction as generalizing a with
            | nil => exact ⟨a, by simp, by simp⟩
            | cons b bs ihb =>
              obtain ⟨z, hz, hzmin⟩ := ihb b
              by_cases hab : key a ≤ key z
              · refine ⟨a, by simp, ?_⟩
                intro y hy
                rcases List.mem_cons.1 hy with rfl | hy
                · exact Int.le_refl _
                · exact Int.le_trans hab (hzmin y hy)
              · refine ⟨z, List.mem_cons_of_mem _ hz, ?_⟩
                intro y hy
                rcases List.mem_cons.1 hy with rfl | hy
                · omega
                · exact hzmin y hy
          obtain ⟨z, hz, hzmin⟩ := this
          have := (hmem z).2 ⟨hz, hzmin⟩
          rw [hr] at this; cases this
      subst hxs
      simp
    | cons y r =>
      have hy : y ∈ xs ∧ ∀ w ∈ xs, key y ≤ key w := (hmem y).1 (by rw [hr]; simp)
      by_cases h1 : key x < key y
      · simp only [h1, ↓reduceIte]
        -- x strictly below every element of xs
        have hx : ∀ w ∈ xs, key x < key w := fun w hw => Int.lt_of_lt_of_le h1 (hy.2 w hw)
        rw [List.filter_cons]
        have : (x :: xs).all (fun w => decide (key x ≤ key w)) = true := by
          simp only [List.all_cons, Int.le_refl, decide_true, Bool.true_and, List.all_eq_true,
            decide_eq_true_eq]
          intro w hw; exact Int.le_of_lt (hx w hw)
        simp only [this, ↓reduceIte]
        congr 1
        symm
        rw [List.filter_eq_nil_iff]
        intro w hw
        simp only [List.all_cons, Bool.and_eq_true, decide_eq_true_eq, not_and]
        intro hwx
        have := hx w hw
        omega
      · simp only [h1, ↓reduceIte]
        by_cases h2 : key x = key y
        · simp only [h2, ↓reduceIte]
          rw [List.filter_cons]
          have : (x :: xs).all (fun w => decide (key x ≤ key w)) = true := by
            simp only [List.all_cons, Int.le_refl, decide_true, Bool.true_and, List.all_eq_true,
              decide_eq_true_eq]
            intro w hw; rw [h2]; exact hy.2 w hw
          simp only [this, ↓reduceIte]
          congr 1
          rw [← hr, ih]
          apply List.filter_congr
          intro w hw
          simp only [List.all_cons]
          have : decide (key w ≤ key x) = (xs.all fun y => decide (key w ≤ key y)) ∨
              (xs.all fun y => decide (key w ≤ key y)) = false ∨ decide (key w ≤ key x) = true := by
            by_cases hwm : (xs.all fun y => decide (key w ≤ key y)) = true
            · right; right
              simp only [List.all_eq_true, decide_eq_true_eq] at hwm
              simp only [decide_eq_true_eq]
              rw [h2]; exact hwm y hy.1
            · right; left; simpa using hwm
          rcases this with h | h | h
          · rw [h]; simp
          · rw [h]; simp
          · rw [h]; simp
        · simp only [h2, ↓reduceIte]
          have hlt : key y < key x := by omega
          rw [List.filter_cons]
          have : (x :: xs).all (fun w => decide (key x ≤ key w)) = false := by
            rw [List.all_eq_false]
            exact ⟨y, List.mem_cons_of_mem _ hy.1, by simp; omega⟩
          simp only [this, Bool.false_eq_true, ↓reduceIte]
          rw [← hr, ih]
          apply List.filter_congr
          intro w hw
          simp only [List.all_cons]
          by_cases hwm : (xs.all fun y => decide (key w ≤ key y)) = true
          · have : key w ≤ key x := by
              simp only [List.all_eq_true, decide_eq_true_eq] at hwm
              have := hwm y hy.1
              omega
            simp [hwm, this]
          · have : (xs.all fun y => decide (key w ≤ key y)) = false := by simpa using hwm
            simp [this]

theorem mem_keepMin {α} (key : α → Int) (l : List α) (x : α) :
    x ∈ keepMin key l ↔ x ∈ l ∧ ∀ y ∈ l, key x ≤ key y := by
  rw [keepMin_eq_filter]; simp [List.mem_filter, List.all_eq_true]

theorem keepMin_perm {α} (key : α → Int) {l l' : List α} (h : l.Perm l') :
    (keepMin key l).Perm (keepMin key l') := by
  rw [keepMin_eq_filter, keepMin_eq_filter]
  have e : (fun x => l.all fun y => decide (key x ≤ key y)) =
      (fun x => l'.all fun y => decide (key x ≤ key y)) := by
    funext x
    rw [Bool.eq_iff_iff]
    simp only [List.all_eq_true, decide_eq_true_eq]
    exact ⟨fun hx y hy => hx y (h.mem_iff.2 hy), fun hx y hy => hx y (h.mem_iff.1 hy)⟩
  rw [e]
  exact h.filter _

/-! ### `findCallable` selects the minima of the comparison order -/

theorem Better.trans {a b c : Bound} (h1 : Better a b) (h2 : Better b c) : Better a c := by
  unfold Better at *; omega

theorem Better.total (a b : Bound) : Better a b ∨ Better b a := by
  unfold Better; omega

/-- **find_callable** returns exactly the bound overloads that are minimal for
    (total implicit-cast distance, then total common-parent distance) -/
theorem mem_findCallable (cands : List Callable) (args : List Ty) (b : Bound) :
    b ∈ findCallable cands args ↔
      b ∈ boundCands cands args ∧ ∀ b' ∈ boundCands cands args, Better b b' := by
  unfold findCallable boundCands
  generalize cands.filterMap (bindCand · args) = bound
  have hK : ∀ x, x ∈ keepMin (fun b : Bound => (b.dist : Int)) bound ↔
      x ∈ bound ∧ ∀ y ∈ bound, x.dist ≤ y.dist := by
    intro x
    rw [mem_keepMin]
    constructor
    · rintro ⟨h1, h2⟩
      refine ⟨h1, fun y hy => ?_⟩
      have : (x.dist : Int) ≤ (y.dist : Int) := h2 y hy
      omega
    · rintro ⟨h1, h2⟩
      refine ⟨h1, fun y hy => ?_⟩
      have := h2 y hy
      show (x.dist : Int) ≤ (y.dist : Int)
      omega
  simp only
  split
  · rename_i hlen
    rw [hK]
    constructor
    · rintro ⟨hb, hmin⟩
      refine ⟨hb, fun b' hb' => ?_⟩
      have h1 := hmin b' hb'
      by_cases hlt : b.dist < b'.dist
      · exact Or.inl hlt
      · -- equal distance: b' is minimal too, and there is at most one minimal element
        have heq : b'.dist = b.dist := by omega
        have hb'min : b' ∈ keepMin (fun b : Bound => (b.dist : Int)) bound := by
          rw [hK]
          refine ⟨hb', fun y hy => ?_⟩
          have := hmin y hy
          omega
        have hbmin : b ∈ keepMin (fun b : Bound => (b.dist : Int)) bound := (hK b).2 ⟨hb, hmin⟩
        have : b' = b := by
          generalize keepMin (fun b : Bound => (b.dist : Int)) bound = m at hlen hb'min hbmin
          match m, hlen, hb'min, hbmin with
          | [], _, h, _ => cases h
          | [x], _, h1, h2 =>
            rw [List.mem_singleton] at h1 h2
            rw [h1, h2]
          | _ :: _ :: _, hl, _, _ => simp only [List.length_cons] at hl; omega
        subst this
        exact Or.inr ⟨rfl, Int.le_refl _⟩
    · rintro ⟨hb, hmin⟩
      refine ⟨hb, fun y hy => ?_⟩
      have := hmin y hy
      unfold Better at this
      omega
  · rw [mem_keepMin, hK]
    constructor
    · rintro ⟨⟨hb, hmin⟩, htd⟩
      refine ⟨hb, fun b' hb' => ?_⟩
      have h1 := hmin b' hb'
      by_cases hlt : b.dist < b'.dist
      · exact Or.inl hlt
      · have heq : b'.dist = b.dist := by omega
        have hb'min : b' ∈ keepMin (fun b : Bound => (b.dist : Int)) bound := by
          rw [hK]
          refine ⟨hb', fun y hy => ?_⟩
          have := hmin y hy
          omega
        exact Or.inr ⟨heq.symm, htd b' hb'min⟩
    · rintro ⟨hb, hmin⟩
      refine ⟨⟨hb, fun y hy => ?_⟩, fun y hy => ?_⟩
      · have := hmin y hy
        unfold Better at this
        omega
      · have hy' := (hK y).1 hy
        have h1 := hmin y hy'.1
        have h2 := hy'.2 b hb
        unfold Better at h1
        show b.tdist ≤ y.tdist
        omega

/-- the winner of a resolution strictly beats every other bound overload: never two winners -/
theorem findCallable_singleton (cands : List Callable) (args : List Ty) (b : Bound)
    (h : findCallable cands args = [b]) :
    b ∈ boundCands cands args ∧
    ∀ b' ∈ boundCands cands args, Better b b' ∧ (Better b' b → b' = b) := by
  have hb : b ∈ findCallable cands args := by rw [h]; simp
  have hb' := (mem_findCallable cands args b).1 hb
  refine ⟨hb'.1, fun b' hb'' => ⟨hb'.2 b' hb'', fun hbet => ?_⟩⟩
  have : b' ∈ findCallable cands args := by
    rw [mem_findCallable]
    exact ⟨hb'', fun y hy => Better.trans hbet (hb'.2 y hy)⟩
  rw [h] at this
  simpa using this

/-- ambiguity condition: at least two bound overloads tie for the minimum -/
theorem findCallable_ambiguous (cands : List Callable) (args : List Ty) (x y : Bound) (r : List Bound)
    (h : findCallable cands args = x :: y :: r) :
    x ∈ boundCands cands args ∧ y ∈ boundCands cands args ∧
    x.dist = y.dist ∧ x.tdist = y.tdist := by
  have hx := (mem_findCallable cands args x).1 (by rw [h]; simp)
  have hy := (mem_findCallable cands args y).1 (by rw [h]; simp)
  have h1 := hx.2 y hy.1
  have h2 := hy.2 x hx.1
  unfold Better at h1 h2
  exact ⟨hx.1, hy.1, by omega, by omega⟩

/-! ### independence of the iteration order of the overloads -/

theorem findCallable_perm {cands cands' : List Callable} (args : List Ty) (h : cands.Perm cands') :
    (findCallable cands args).Perm (findCallable cands' args) := by
  unfold findCallable
  have hb : (cands.filterMap (bindCand · args)).Perm (cands'.filterMap (bindCand · args)) :=
    h.filterMap _
  have hm := keepMin_perm (fun b : Bound => (b.dist : Int)) hb
  simp only
  rw [hm.length_eq]
  split
  · exact hm
  · exact keepMin_perm _ hm

theorem pick_perm {l l' : List Bound} (h : l.Perm l') : pick l = pick l' := by
  match l, l', h with
  | [], l', h => rw [List.nil_perm.1 h]
  | [b], l', h =>
    have := List.perm_singleton.1 h.symm
    rw [this]
  | a :: b :: r, l', h =>
    have hl := h.length_eq
    match l', hl with
    | [], hl => simp at hl
    | [_], hl => simp at hl
    | a' :: b' :: r', hl =>
      simp only [pick]
      rw [hl]

/-- **resolve_det (functions)** — the outcome of resolving a function call depends on the
    argument types and on the SET of overloads only, not on the order the schema lists them in -/
theorem resolveFn_order_independent (f : Fn) (args : List Ty) (cands' : List Callable)
    (h : (overloads f).Perm cands') : resolveFn f args = pick (findCallable cands' args) := by
  unfold resolveFn
  exact pick_perm (findCallable_perm args h)

theorem resolveFn_ok (f : Fn) (args : List Ty) (b : Bound) (h : resolveFn f args = .ok b) :
    b ∈ boundCands (overloads f) args ∧
    ∀ b' ∈ boundCands (overloads f) args, Better b b' ∧ (Better b' b → b' = b) := by
  unfold resolveFn at h
  have : findCallable (overloads f) args = [b] := by
    match hk : findCallable (overloads f) args, h with
    | [x], h => simp only [pick] at h ⊢; cases h; rfl
    | [], h => simp [pick] at h
    | _ :: _ :: _, h => simp [pick] at h
  exact findCallable_singleton _ _ _ this

end EdbVerif.Types
