/-
C15, ownership part — part 4: taking a connection back from its holder, new and dropped
blocks, new connections, starting a discard.
-/
import EdbVerif.Lemmas.PoolOwn3

namespace EdbVerif.Pool

theorem eq_of_map_nodup {α β : Type} (f : α → β) {l : List α} (hnd : (l.map f).Nodup) {a b : α}
    (ha : a ∈ l) (hb : b ∈ l) (e : f a = f b) : a = b := by
  induction l with
  | nil => simp at ha
  | cons x xs ih =>
    simp only [List.map_cons, List.nodup_cons] at hnd
    rcases List.mem_cons.mp ha with ha | ha <;> rcases List.mem_cons.mp hb with hb | hb
    · rw [ha, hb]
    · exfalso; apply hnd.1; rw [← ha, e]; exact List.mem_map_of_mem (f := f) hb
    · exfalso; apply hnd.1; rw [← hb, ← e]; exact List.mem_map_of_mem (f := f) ha
    · exact ih hnd.2 ha hb

/-- `release`: the holder of request `r` gives `c` back; it is then in hand -/
theorem unlend_own {s : State} (hw : WF s) (hreq : (s.holders.map (·.req)).Nodup) (h : InvOwn s)
    {r : Nat} {hd : Holder} {b : Block} {c' : Nat}
    (hfind : s.holders.find? (·.req == r) = some hd) (hb : findName s.blocks hd.name = some b)
    (hc : b.conns.find? (·.1 == hd.conn) = some (c', true)) :
    InvOwn (unlend s r b.uid hd.conn) ∧ Hand (unlend s r b.uid hd.conn) b.uid hd.conn := by
  have hbn := findName_some hb
  have hdm : hd ∈ s.holders := List.mem_of_find?_eq_some hfind
  have hdr : hd.req = r := by simpa using List.find?_some hfind
  have hct : (hd.conn, true) ∈ b.conns := find_conn_some hc
  have hbf : s.find b.uid = some b := by
    -- `b` is the block with its own uid
    cases hfb : s.find b.uid with
    | none => exact absurd rfl (findB_none hfb b hbn.1)
    | some b2 =>
      have := State.find_some hfb
      rw [eq_of_uid hw.uids this.1 hbn.1 this.2]
  let c := hd.conn
  let f : Block → Block := fun b => { b with acquired := b.acquired - 1, conns := b.conns.map fun p => if p.1 == c then (c, false) else p }
  have hcases : ∀ x ∈ modB s.blocks b.uid f, (x.uid ≠ b.uid ∧ x ∈ s.blocks) ∨ x = f b :=
    fun x hx => mem_modB_cases (f := f) hw.uids hbf (fun _ => rfl) hx
  have hidsf : (f b).ids = b.ids := map_fst_setFlag _ _ _
  have hkeepF : ∀ p ∈ b.conns, p.2 = false → p ∈ (f b).conns := by
    intro p hp hfl
    have := mem_setFlag (c := c) (v := false) hp
    by_cases hq : p.1 == c
    · simp only [hq, ↓reduceIte] at this
      have : p = (c, false) := by
        obtain ⟨a, v⟩ := p
        simp at hq hfl; rw [hq, hfl]
      rw [this]; assumption
    · simp only [hq, Bool.false_eq_true, ↓reduceIte] at this; exact this
  have hkeepNe : ∀ p ∈ b.conns, p.1 ≠ c → p ∈ (f b).conns := by
    intro p hp hne
    have := mem_setFlag (c := c) (v := false) hp
    have hq : (p.1 == c) = false := by simpa using hne
    simp only [hq, Bool.false_eq_true, ↓reduceIte] at this; exact this
  have hmemH : ∀ x, x ∈ s.holders.filter (·.req != r) ↔ x ∈ s.holders ∧ x ≠ hd := by
    intro x
    simp only [List.mem_filter, bne_iff_ne, ne_eq]
    constructor
    · rintro ⟨hx, hne⟩; exact ⟨hx, fun e => hne (e ▸ hdr)⟩
    · rintro ⟨hx, hne⟩
      exact ⟨hx, fun e => hne (eq_of_map_nodup (·.req) hreq hx hdm (e.trans hdr.symm))⟩
  have hown : InvOwn (unlend s r b.uid hd.conn) := by
    show InvOwn { (s.mod b.uid f) with holders := s.holders.filter (·.req != r) }
    refine ⟨?_, ?_, ?_, ?_, ?_, ?_, ?_, ?_, h.limboNd, h.limboUid⟩
    · intro b1 hb1 b2 hb2 e
      rcases hcases b1 hb1 with ⟨_, h1⟩ | e1 <;> rcases hcases b2 hb2 with ⟨_, h2⟩ | e2
      · exact h.nameInj b1 h1 b2 h2 e
      · rw [e2] at e ⊢; exact h.nameInj b1 h1 b hbn.1 e
      · rw [e1] at e ⊢; exact h.nameInj b hbn.1 b2 h2 e
      · rw [e1, e2]
    · intro b1 hb1 b2 hb2 c'' h1' h2'
      rcases hcases b1 hb1 with ⟨_, h1⟩ | e1 <;> rcases hcases b2 hb2 with ⟨_, h2⟩ | e2
      · exact h.disj b1 h1 b2 h2 c'' h1' h2'
      · rw [e2] at h2' ⊢; rw [hidsf] at h2'; exact h.disj b1 h1 b hbn.1 c'' h1' h2'
      · rw [e1] at h1' ⊢; rw [hidsf] at h1'; exact h.disj b hbn.1 b2 h2 c'' h1' h2'
      · rw [e1, e2]
    · intro x hx c'' hc''
      rcases hcases x hx with ⟨_, hxs⟩ | e
      · exact h.stackIdle x hxs c'' hc''
      · rw [e] at hc'' ⊢
        exact hkeepF _ (h.stackIdle b hbn.1 c'' hc'') rfl
    · intro x hx
      rcases hcases x hx with ⟨_, hxs⟩ | e
      · exact h.stackNd x hxs
      · rw [e]; exact h.stackNd b hbn.1
    · intro x hx
      obtain ⟨hxs, hxne⟩ := (hmemH x).mp hx
      obtain ⟨b1, hb1, hn, hcx⟩ := h.held x hxs
      -- another holder holds another connection
      have hxc : x.conn ≠ c := fun e => hxne (eq_of_map_nodup (·.conn) h.single hxs hdm e)
      by_cases hbu : b1.uid = b.uid
      · have : b1 = b := eq_of_uid hw.uids hb1 hbn.1 hbu
        subst this
        exact ⟨f b1, mem_modB_fb hbf f, hn, hkeepNe _ hcx hxc⟩
      · exact ⟨b1, mem_modB_other f hb1 hbu, hn, hcx⟩
    · exact (List.Sublist.map _ List.filter_sublist).nodup h.single
    · intro x hx
      show x.acquired = (((s.holders.filter (·.req != r)).filter (·.name == x.name)).length : Int)
      have hcount := length_filter_remove_holder s.holders hd (fun y => y.name == x.name) hreq hdm
      rw [hdr] at hcount
      rcases hcases x hx with ⟨hxu, hxs⟩ | e
      · have hne : (hd.name == x.name) = false := by
          have : hd.name ≠ x.name := by
            intro e'
            exact hxu (h.nameInj x hxs b hbn.1 (e'.symm.trans hbn.2.symm))
          simpa using this
        have := h.acq x hxs
        simp only [hne, Bool.false_eq_true, ↓reduceIte] at hcount
        omega
      · rw [e] at hcount ⊢
        have := h.acq b hbn.1
        have heq : (hd.name == (f b).name) = true := by
          show (hd.name == b.name) = true
          rw [hbn.2]; exact beq_self_eq_true _
        simp only [heq, ↓reduceIte] at hcount
        have e2 : (f b).name = b.name := rfl
        rw [e2] at hcount ⊢
        show b.acquired - 1 = _
        omega
    · intro p hp x hx hxu
      rcases hcases x hx with ⟨_, hxs⟩ | e
      · exact h.limboIdle p hp x hxs hxu
      · rw [e] at hxu ⊢
        have := h.limboIdle p hp b hbn.1 hxu
        exact ⟨hkeepF _ this.1 rfl, this.2⟩
  refine ⟨hown, ?_⟩
  have hff := State.find_mod (s := s) b.uid b.uid f (fun _ => rfl)
  refine ⟨f b, ?_, ?_, ?_, ?_⟩
  · show (s.mod b.uid f).find b.uid = some (f b)
    rw [hff, hbf]; simp
  · have := mem_setFlag (c := hd.conn) (v := false) hct
    simp only [beq_self_eq_true, ↓reduceIte] at this
    exact this
  · intro hm
    have := h.stackIdle b hbn.1 c hm
    exact Bool.noConfusion (flag_unique (hw.cids b hbn.1) this hct)
  · intro hl
    have := (h.limboIdle (b.uid, c) hl b hbn.1 rfl).1
    exact Bool.noConfusion (flag_unique (hw.cids b hbn.1) this hct)

/-! ### blocks come and go -/

theorem getBlock_own {s : State} (hn : InvNum s) (h : InvOwn s) (name : Nat) : InvOwn (getBlock s name).1 := by
  unfold getBlock
  split
  · exact h
  · rename_i hnone
    have hfresh : ∀ x ∈ s.blocks, x.name ≠ name := by
      intro x hx
      unfold findName at hnone
      have := List.find?_eq_none.mp hnone x hx
      simpa using this
    have h1 : InvOwn { s with blocks := s.blocks ++ [({ uid := s.nextUid, name := name } : Block)],
                              nextUid := s.nextUid + 1 } := by
      refine ⟨?_, ?_, ?_, ?_, ?_, h.single, ?_, ?_, h.limboNd,
        fun p hp => Nat.lt_succ_of_lt (h.limboUid p hp)⟩
      · intro b1 hb1 b2 hb2 e
        rcases List.mem_append.mp hb1 with h1 | h1 <;> rcases List.mem_append.mp hb2 with h2 | h2
        · exact h.nameInj b1 h1 b2 h2 e
        · simp at h2; rw [h2] at e; exact absurd e (hfresh b1 h1)
        · simp at h1; rw [h1] at e; exact absurd e.symm (hfresh b2 h2)
        · simp at h1 h2; rw [h1, h2]
      · intro b1 hb1 b2 hb2 c hc1 hc2
        rcases List.mem_append.mp hb1 with h1 | h1 <;> rcases List.mem_append.mp hb2 with h2 | h2
        · exact h.disj b1 h1 b2 h2 c hc1 hc2
        · simp at h2; rw [h2] at hc2; simp [Block.ids] at hc2
        · simp at h1; rw [h1] at hc1; simp [Block.ids] at hc1
        · simp at h1 h2; rw [h1, h2]
      · intro x hx c hc
        rcases List.mem_append.mp hx with h1 | h1
        · exact h.stackIdle x h1 c hc
        · simp at h1; rw [h1] at hc; simp at hc
      · intro x hx
        rcases List.mem_append.mp hx with h1 | h1
        · exact h.stackNd x h1
        · simp at h1; rw [h1]; simp
      · intro x hx
        obtain ⟨b1, hb1, hnm, hc⟩ := h.held x hx
        exact ⟨b1, List.mem_append_left _ hb1, hnm, hc⟩
      · intro x hx
        rcases List.mem_append.mp hx with h1 | h1
        · exact h.acq x h1
        · simp at h1; rw [h1]
          have : (s.holders.filter (·.name == name)) = [] := by
            apply List.filter_eq_nil_iff.mpr
            intro y hy
            obtain ⟨b1, hb1, hnm, _⟩ := h.held y hy
            have := hfresh b1 hb1
            rw [hnm] at this
            simpa using this
          show (0 : Int) = ((s.holders.filter (·.name == name)).length : Int)
          rw [this]; rfl
      · intro p hp x hx hxu
        rcases List.mem_append.mp hx with h1 | h1
        · exact h.limboIdle p hp x h1 hxu
        · -- the new block has a fresh uid: no limbo entry names it
          simp at h1
          exfalso
          have := h.limboUid p hp
          rw [← hxu, h1] at this
          exact Nat.lt_irrefl _ this
    have key : ∀ (s1 : State) (v : Nat), InvOwn s1 →
        InvOwn (if s1.starving then { s1 with blocks := toFront s1.blocks v } else s1) := by
      intro s1 v hs1
      split
      · exact hs1.ofOS (OS.toFront s1 v)
      · exact hs1
    exact key _ _ h1

end EdbVerif.Pool
