/-
C16: the lemmas behind `Props/C16.lean` — abort on exhausted retries, a woken waiter
that finds the stack empty, local progress, and the counterexamples to liveness.
-/
import EdbVerif.Lemmas.PoolQ5

namespace EdbVerif.Pool

/-! ### a connect failure that exhausts its retries is reported to the waiting requests -/

/-- the counter updates of a failed `_connect` (before abort / retry) -/
def connFailCore (s : State) (u : Nat) (is3D : Bool) : State :=
  ({ s with cur := s.cur - 1 } : State).mod u fun b =>
    { b with pending := b.pending - 1,
             failures := if is3D && b.failures + 1 ≤ RETRIES then RETRIES + 1 else b.failures + 1 }

theorem connFail_exhausted {s : State} {u : Nat} {b : Block} (hb : s.find u = some b) (is3D : Bool)
    (hex : is3D = true ∨ b.failures ≥ RETRIES) :
    connFail s u is3D = abortWaiters (connFailCore s u is3D) u := by
  have hbm := State.find_some hb
  unfold connFail
  have hf : (connFailCore s u is3D).find u = some
      { b with pending := b.pending - 1,
               failures := if is3D && b.failures + 1 ≤ RETRIES then RETRIES + 1 else b.failures + 1 } := by
    unfold connFailCore
    have := State.find_mod (s := ({ s with cur := s.cur - 1 } : State)) u u
      (fun b => { b with pending := b.pending - 1,
                         failures := if is3D && b.failures + 1 ≤ RETRIES then RETRIES + 1 else b.failures + 1 })
      (fun _ => rfl)
    rw [this]
    show Option.map _ (s.find u) = _
    rw [hb]; simp [hbm.2]
  show (match (connFailCore s u is3D).find u with
    | some b => if b.failures > RETRIES then abortWaiters (connFailCore s u is3D) u
                else schedNew (connFailCore s u is3D) u
    | none => connFailCore s u is3D) = _
  rw [hf]
  simp only
  have hgt : (if is3D && b.failures + 1 ≤ RETRIES then RETRIES + 1 else b.failures + 1) > RETRIES := by
    split
    · omega
    · rename_i hc
      rcases hex with h3 | hge
      · simp only [h3, Bool.true_and, decide_eq_true_eq] at hc; omega
      · omega
  rw [if_pos hgt]

/-- `abort_waiters`: the queue is emptied and every sleeping waiter of the block gets the error -/
theorem abortWaiters_spec {s : State} (hu : (s.blocks.map (·.uid)).Nodup) (h : InvQ s) {u : Nat} {b : Block}
    (hb : s.find u = some b) :
    (∀ b', (abortWaiters s u).find u = some b' → b'.queue = []) ∧
    (∀ w ∈ s.waiters, w.block = u → w.st = .queued →
      ({ w with st := .aborted } : Waiter) ∈ (abortWaiters s u).waiters) := by
  have hbm := State.find_some hb
  unfold abortWaiters
  rw [hb]
  simp only
  constructor
  · intro b' hb'
    have := State.find_mod (s := s) u u (fun b => { b with queue := [] }) (fun _ => rfl)
    have hb'' : (s.mod u fun b => { b with queue := [] }).find u = some b' := hb'
    rw [this, hb] at hb''
    simp [hbm.2] at hb''
    rw [← hb'']
  · intro w hw hblk hst
    obtain ⟨b1, hb1, hu1, hm1⟩ := h.qall w hw hst
    have : b1 = b := eq_of_uid hu hb1 hbm.1 (hu1.trans (hblk.trans hbm.2.symm))
    subst this
    have := List.mem_map_of_mem (f := setAborted b1.queue) hw
    rwa [setAborted_in hm1] at this

/-- an aborted request leaves: it is no longer waiting and holds nothing new -/
theorem resume_aborted {s : State} {id : Nat} {w : Waiter} {b : Block}
    (hfind : s.waiters.find? (·.id == id) = some w) (hb : s.find w.block = some b)
    (hst : w.st = .aborted) (hp : w.prune = false) :
    (∀ x ∈ (resume s id).waiters, x.id ≠ id) ∧ (resume s id).holders = s.holders ∧
    (resume s id).err = s.err := by
  unfold resume
  rw [hfind]
  simp only
  rw [hb]
  simp only [hst, hp, Bool.false_eq_true, ↓reduceIte]
  refine ⟨?_, ?_, ?_⟩
  · intro x hx
    have hx' : x ∈ (if b.stack.isEmpty then s else wakeNext s w.block).waiters.filter (·.id != id) := hx
    simpa using (List.mem_filter.mp hx').2
  · show (if b.stack.isEmpty then s else wakeNext s w.block).holders = s.holders
    split
    · rfl
    · unfold wakeNext; split
      · split <;> rfl
      · rfl
  · show (if b.stack.isEmpty then s else wakeNext s w.block).err = s.err
    split
    · rfl
    · unfold wakeNext; split
      · split <;> rfl
      · rfl

/-! ### a woken waiter that finds the stack empty keeps its place -/

theorem woken_empty {s : State} {id : Nat} {w : Waiter} {b : Block}
    (hfind : s.waiters.find? (·.id == id) = some w) (hb : s.find w.block = some b)
    (hst : w.st = .woken) (hp : w.prune = false) (he : b.stack = []) (ha : 1 ≤ w.attempts) :
    ∃ b', (resume s id).find w.block = some b' ∧ b'.queue = id :: b.queue ∧
      b'.waitersNum = b.waitersNum ∧ b'.stack = [] ∧
      (⟨id, w.block, .queued, w.attempts + 1, false⟩ : Waiter) ∈ (resume s id).waiters := by
  have hbm := State.find_some hb
  have hbl := find_leaveWait (id := id) hb
  have hc : ({ b with waitersNum := b.waitersNum - 1 } : Block).stack.getLast? = none := by
    show b.stack.getLast? = none
    rw [he]; rfl
  unfold resume
  rw [hfind]
  simp only
  rw [hb]
  have hc' : b.stack.getLast? = none := hc
  simp only [hst, hc', hp, Bool.false_eq_true, ↓reduceIte]
  rw [tryAcq_wait hbl hc]
  simp only
  have hgt : w.attempts + 1 > 1 := by omega
  refine ⟨{ b with waitersNum := b.waitersNum - 1 + 1, queue := id :: b.queue }, ?_, rfl, ?_, he, ?_⟩
  · have := State.find_mod (s := leaveWait s id w.block) w.block w.block
      (fun b => { b with waitersNum := b.waitersNum + 1,
                         queue := if w.attempts + 1 > 1 then id :: b.queue else b.queue ++ [id] })
      (fun _ => rfl)
    show (State.mod (leaveWait s id w.block) w.block _).find w.block = _
    rw [this, hbl]
    simp [hbm.2, hgt]
  · show b.waitersNum - 1 + 1 = b.waitersNum
    omega
  · show _ ∈ (leaveWait s id w.block).waiters ++ [_]
    simp

/-! ### local progress -/

/-- `release` into a block with sleeping waiters wakes the head of the queue and leaves the
    connection on the stack for it -/
theorem release_wakes {s : State} {u c r : Nat} {rest : List Nat} {b : Block} (hb : s.find u = some b)
    (hq : b.queue = r :: rest) (w : Waiter) (hw : w ∈ s.waiters) (hid : w.id = r) :
    ({ w with st := .woken } : Waiter) ∈ (blockRelease s u c).waiters ∧
    ∃ b', (blockRelease s u c).find u = some b' ∧ b'.stack = b.stack ++ [c] ∧ b'.queue = rest := by
  have hbm := State.find_some hb
  have hf1 := State.find_mod (s := s) u u (fun b => { b with stack := b.stack ++ [c] }) (fun _ => rfl)
  have hb1 : (s.mod u fun b => { b with stack := b.stack ++ [c] }).find u
      = some { b with stack := b.stack ++ [c] } := by
    rw [hf1, hb]; simp [hbm.2]
  unfold blockRelease wakeNext
  rw [hb1]
  simp only [hq]
  constructor
  · have := List.mem_map_of_mem (f := setWoken r) hw
    rwa [setWoken_eq hid] at this
  · have hf2 := State.find_mod (s := s.mod u fun b => { b with stack := b.stack ++ [c] }) u u
      (fun b => { b with queue := rest }) (fun _ => rfl)
    refine ⟨{ b with stack := b.stack ++ [c], queue := rest }, ?_, rfl, rfl⟩
    show (State.mod (s.mod u fun b => { b with stack := b.stack ++ [c] }) u _).find u = _
    rw [hf2, hb1]
    simp [hbm.2]

/-! ### counterexamples to liveness -/

/-- nothing is in flight, nobody holds a connection, everybody who waits sleeps, and neither
    `_tick` nor `_run_gc` changes anything — whatever the clock and the float arithmetic say -/
def Dead (s : State) : Prop :=
  s.err = none ∧ s.tasks = [] ∧ s.holders = [] ∧ s.prunes = [] ∧ s.waiters ≠ [] ∧
  (∀ w ∈ s.waiters, w.st = .queued) ∧
  (∀ env, step s env .tick = s) ∧ (∀ env, step s env .gc = s)

/-- GC race (corpus/C16/hang-2-gc-race.json, notes/C16-repro-2.py): max = 1 -/
def gcRace : List (Env × Ev) :=
  [({}, .acq 0 0), ({}, .start 0), ({}, .cdone 0 true false), ({}, .resume 0),
   ({ heldShort := [0] }, .rel 0 false), ({ heldShort := [0], quotas := [(0, 1)] }, .tick),
   ({}, .acq 1 1), ({ gcOld := [(0, 1)] }, .gc), ({}, .start 1), ({}, .ddone 1 true),
   ({ avgNZ := [1] }, .tick), ({ avgNZ := [1] }, .tick)]

def gcRaceEnd : State :=
  { max := 1, cur := 0,
    blocks := [{ uid := 1, name := 1, queue := [1], waitersNum := 1, quota := 1 }],
    nextUid := 2, nextConn := 1, nextTask := 2, starving := false, waitlist := [1], overQuota := [],
    nacq := 1, htick := true, gcReq := 0, gcTimers := 0, tasks := [],
    waiters := [⟨1, 1, .queued, 1, false⟩], holders := [], prunes := [], home := [(0, 0)], live := [],
    err := none }

theorem gcRace_end : run (init 1) gcRace = gcRaceEnd := by rfl

theorem gcRaceEnd_dead : Dead gcRaceEnd := by
  refine ⟨rfl, rfl, rfl, rfl, by decide, by decide, fun env => rfl, ?_⟩
  intro env
  have key : ∀ n, gcBlock 1 n gcRaceEnd = gcRaceEnd := by intro n; cases n <;> rfl
  show gc env gcRaceEnd = gcRaceEnd
  unfold gc
  show (match env.gcOld.find? (·.1 == 1) with
    | some (_, n) => gcBlock 1 n gcRaceEnd
    | none => gcRaceEnd) = gcRaceEnd
  split
  · exact key _
  · rfl

/-- tick-shrink strands a woken waiter (corpus/C16/hang-1-…json, notes/C16-repro-1.py): max = 3 -/
def tickShrink : List (Env × Ev) :=
  [({}, .acq 0 1), ({}, .start 0), ({}, .cdone 0 true false), ({}, .resume 0),
   ({ heldShort := [0] }, .rel 0 false),
   ({ heldShort := [0] }, .acq 1 0), ({}, .start 1), ({}, .cdone 1 true false), ({}, .resume 1),
   ({ heldShort := [0, 1] }, .acq 2 0), ({}, .start 2), ({}, .cdone 2 true false), ({}, .resume 2),
   ({ heldShort := [0, 1] }, .acq 3 0),
   ({ heldShort := [0, 1] }, .rel 1 false), ({ heldShort := [0, 1] }, .rel 2 false),
   ({ heldShort := [0, 1], avgNZ := [1], quotas := [(0, 0), (1, 1)] }, .tick),
   ({}, .resume 3),
   ({}, .start 3), ({}, .start 4), ({}, .start 5),
   ({}, .ddone 3 true), ({}, .ddone 4 true), ({}, .ddone 5 true),
   ({ avgNZ := [1] }, .tick), ({ avgNZ := [1] }, .tick), ({}, .gc), ({}, .gc)]

def tickShrinkEnd : State :=
  { max := 3, cur := 0,
    blocks := [{ uid := 1, name := 0, queue := [3], waitersNum := 1, quota := 3 }],
    nextUid := 2, nextConn := 3, nextTask := 6, starving := false, waitlist := [], overQuota := [0, 1],
    nacq := 1, htick := true, gcReq := 0, gcTimers := 0, tasks := [],
    waiters := [⟨3, 1, .queued, 2, false⟩], holders := [], prunes := [],
    home := [(0, 1), (1, 0), (2, 0)], live := [], err := none }

set_option maxRecDepth 8000 in
theorem tickShrink_end : run (init 3) tickShrink = tickShrinkEnd := by rfl

theorem tickShrinkEnd_dead : Dead tickShrinkEnd := by
  refine ⟨rfl, rfl, rfl, rfl, by decide, by decide, fun env => rfl, ?_⟩
  intro env
  have key : ∀ n, gcBlock 1 n tickShrinkEnd = tickShrinkEnd := by intro n; cases n <;> rfl
  show gc env tickShrinkEnd = tickShrinkEnd
  unfold gc
  show (match env.gcOld.find? (·.1 == 1) with
    | some (_, n) => gcBlock 1 n tickShrinkEnd
    | none => tickShrinkEnd) = tickShrinkEnd
  split
  · exact key _
  · rfl

end EdbVerif.Pool
