/-
The example spec used by the non-vacuity `example`s of Props/C19.lean, and the
facts needed to show it is `SpecOK`.
-/
import EdbVerif.Model.ConfigSpec
namespace EdbVerif.C19
open EdbVerif.Config

def exPort : TSpec :=
  { name := "Port", fields := [
      { name := "database", ty := .sc .str, unique := true },
      { name := "port", ty := .sc .int },
      { name := "address", ty := .set .str, unique := true, default := some (.set [.str "localhost"]) },
      { name := "timeout", ty := .sc .dur, default := some (.sc .none) } ] }

def exSettings : List Setting := [
  { name := "i", ty := .sc .int, default := .sc (.int 0) },
  { name := "d", ty := .sc .dur, default := .sc (.dur 10000000) },
  { name := "mem", ty := .sc .mem, default := .sc (.mem 1024) },
  { name := "ints", ty := .sc .int, setOf := true, default := .set [] },
  { name := "obj", ty := .obj exPort, default := .sc .none },
  { name := "objs", ty := .obj exPort, setOf := true, default := .objs [] } ]

def exSpec : Spec := { settings := exSettings, types := [exPort] }

theorem exPort_ok : TSpecOK exPort := by
  refine ⟨by decide, by decide, ?_⟩
  intro f hf d hd
  simp [exPort] at hf
  rcases hf with rfl | rfl | rfl | rfl <;> simp at hd
  · subst hd
    refine ⟨?_, by simp [PD]⟩
    intro x hx; simp at hx; subst hx; exact ⟨_, rfl, rfl⟩
  · subst hd; simp [FieldOK]

theorem exSpec_types (n : String) (t : TSpec) (h : exSpec.getType n = some t) : t = exPort := by
  unfold Spec.getType exSpec at h
  simp at h
  exact h.2.symm


theorem exSpec_get (n : String) (s : Setting) (h : exSpec.get n = some s) : s ∈ exSpec.settings := by
  unfold Spec.get at h
  exact List.mem_reverse.mp (List.mem_of_find?_eq_some h)

end EdbVerif.C19
