/-
Auxiliary lemmas for the C20 topological-sort model: membership in the
adjacency lists, the generic `loop` rules, the `frame` unfolding of `visit`.
-/
import Mathlib.Logic.Relation
import Mathlib.Data.List.Nodup
import Mathlib.Data.List.Perm.Basic
import EdbVerif.Model.TopoSpec

namespace EdbVerif.Topo

/-! ### dedup / present / lookup -/

theorem mem_dedup {x : Nat} : ∀ {l : List Nat}, x ∈ dedup l ↔ x ∈ l
  | [] => by simp [dedup]
  | y :: ys => by
    have ih := @mem_dedup x ys
    by_cases hxy : x = y
    · subst hxy; simp [dedup]
    · simp [dedup, List.mem_filter, ih, hxy]

theorem has_iff {g : Graph} {k : Nat} : g.has k = true ↔ k ∈ g.keys := by
  simp [Graph.has]

theorem mem_present {g : Graph} {l : List Nat} {x : Nat} :
    x ∈ present g l ↔ x ∈ l ∧ x ∈ g.keys := by
  simp [present, List.mem_filter, has_iff]

theorem keys_length (g : Graph) : g.keys.length = g.length := by
  simp [Graph.keys]

theorem lookup_some {g : Graph} {k : Nat} {e : Entry} (h : lookup g k = some e) :
    e ∈ g ∧ e.key = k := by
  unfold lookup at h
  have h1 := List.mem_of_find?_eq_some h
  have h2 := List.find?_some h
  simp at h2
  exact ⟨h1, h2⟩

theorem lookup_of_mem {g : Graph} (hwf : WF g) {e : Entry} (he : e ∈ g) :
    lookup g e.key = some e := by
  unfold WF Graph.keys at hwf
  unfold lookup
  induction g with
  | nil => cases he
  | cons x xs ih =>
    simp only [List.map_cons, List.nodup_cons] at hwf
    rcases List.mem_cons.1 he with rfl | he'
    · simp
    · have hne : x.key ≠ e.key := by
        intro hk
        exact hwf.1 (hk ▸ List.mem_map_of_mem he')
      simp [hne, ih hwf.2 he']

theorem mem_weakAdj {g : Graph} {a b : Nat} (h : b ∈ weakAdj g a) : Weak g a b := by
  unfold weakAdj at h
  split at h
  · rename_i e he
    obtain ⟨hm, hk⟩ := lookup_some he
    simp only [weakAdjOf, mem_dedup, mem_present] at h
    exact ⟨e, hm, hk, h.1, h.2⟩
  · cases h

theorem mem_adj {g : Graph} {a b : Nat} (h : b ∈ adj g a) : Hard g a b := by
  unfold adj at h
  split at h
  · rename_i e he
    obtain ⟨hm, hk⟩ := lookup_some he
    simp only [adjOf, mem_dedup, mem_present, List.mem_append] at h
    exact ⟨e, hm, hk, h.1, h.2⟩
  · cases h

theorem mem_ctrl {g : Graph} {a b : Nat} (h : b ∈ ctrl g a) : Ctrl g a b := by
  unfold ctrl at h
  split at h
  · rename_i e he
    obtain ⟨hm, hk⟩ := lookup_some he
    simp only [ctrlOf, mem_dedup, mem_present] at h
    exact ⟨e, hm, hk, h.1, h.2⟩
  · cases h

theorem weak_mem_weakAdj {g : Graph} (hwf : WF g) {a b : Nat} (h : Weak g a b) :
    b ∈ weakAdj g a := by
  obtain ⟨e, hm, rfl, hb, hk⟩ := h
  simp only [weakAdj, lookup_of_mem hwf hm, weakAdjOf, mem_dedup, mem_present]
  exact ⟨hb, hk⟩

theorem hard_mem_adj {g : Graph} (hwf : WF g) {a b : Nat} (h : Hard g a b) :
    b ∈ adj g a := by
  obtain ⟨e, hm, rfl, hb, hk⟩ := h
  simp only [adj, lookup_of_mem hwf hm, adjOf, mem_dedup, mem_present, List.mem_append]
  exact ⟨hb, hk⟩

theorem ctrl_mem_ctrl {g : Graph} (hwf : WF g) {a b : Nat} (h : Ctrl g a b) :
    b ∈ ctrl g a := by
  obtain ⟨e, hm, rfl, hb, hk⟩ := h
  simp only [ctrl, lookup_of_mem hwf hm, ctrlOf, mem_dedup, mem_present]
  exact ⟨hb, hk⟩

theorem Weak.src {g : Graph} {a b : Nat} (h : Weak g a b) : a ∈ g.keys := by
  obtain ⟨e, hm, rfl, _, _⟩ := h
  exact List.mem_map_of_mem hm
theorem Hard.src {g : Graph} {a b : Nat} (h : Hard g a b) : a ∈ g.keys := by
  obtain ⟨e, hm, rfl, _, _⟩ := h
  exact List.mem_map_of_mem hm
theorem Ctrl.src {g : Graph} {a b : Nat} (h : Ctrl g a b) : a ∈ g.keys := by
  obtain ⟨e, hm, rfl, _, _⟩ := h
  exact List.mem_map_of_mem hm
theorem Weak.tgt {g : Graph} {a b : Nat} (h : Weak g a b) : b ∈ g.keys := by
  obtain ⟨e, _, _, _, hk⟩ := h; exact hk
theorem Hard.tgt {g : Graph} {a b : Nat} (h : Hard g a b) : b ∈ g.keys := by
  obtain ⟨e, _, _, _, hk⟩ := h; exact hk
theorem Ctrl.tgt {g : Graph} {a b : Nat} (h : Ctrl g a b) : b ∈ g.keys := by
  obtain ⟨e, _, _, _, hk⟩ := h; exact hk


/-! ### the generic `loop` -/

theorem loop_congr {f f' : Nat → St → Res} {sw : Bool} {l : List Nat}
    (h : ∀ n ∈ l, ∀ s, f n s = f' n s) : ∀ st, loop f sw l st = loop f' sw l st := by
  induction l with
  | nil => intro st; rfl
  | cons n ns ih =>
    intro st
    have ih' := ih (fun m hm => h m (List.mem_cons_of_mem _ hm))
    simp only [loop, h n List.mem_cons_self st]
    rcases f' n st with ⟨s', _ | c⟩
    · exact ih' s'
    · simp only [ih' s']

/-- Hoare rule for `loop`: an invariant `I` kept by every call, and a fact `C n`
    established by every call that returns without error and stable under later
    calls, holds for all `n` after an error-free non-swallowing loop. -/
theorem loop_rule {f : Nat → St → Res} {sw : Bool} {l : List Nat}
    (I : St → Prop) (C : Nat → St → Prop)
    (hstep : ∀ n ∈ l, ∀ s, I s → I (f n s).1 ∧ ((f n s).2 = none → C n (f n s).1))
    (hmono : ∀ n ∈ l, ∀ m ∈ l, ∀ s, I s → C n s → C n (f m s).1) :
    ∀ st, I st → I (loop f sw l st).1 ∧
      (sw = false → (loop f sw l st).2 = none → ∀ n ∈ l, C n (loop f sw l st).1) := by
  induction l with
  | nil => intro st hI; exact ⟨hI, fun _ _ n hn => by cases hn⟩
  | cons n ns ih =>
    intro st hI
    have ih' := ih (fun m hm => hstep m (List.mem_cons_of_mem _ hm))
      (fun a ha b hb => hmono a (List.mem_cons_of_mem _ ha) b (List.mem_cons_of_mem _ hb))
    obtain ⟨hI1, hC1⟩ := hstep n List.mem_cons_self st hI
    -- stability of `C n` along the rest of the loop
    have hstab : ∀ (l' : List Nat), (∀ m ∈ l', m ∈ n :: ns) → ∀ s, I s → C n s →
        C n (loop f sw l' s).1 := by
      intro l'
      induction l' with
      | nil => intro _ s _ hc; exact hc
      | cons m ms ihm =>
        intro hsub s hIs hc
        have hm : m ∈ n :: ns := hsub m List.mem_cons_self
        have hI' := (hstep m hm s hIs).1
        have hc' := hmono n List.mem_cons_self m hm s hIs hc
        have hsub' : ∀ x ∈ ms, x ∈ n :: ns := fun x hx => hsub x (List.mem_cons_of_mem _ hx)
        simp only [loop]
        rcases hfm : f m s with ⟨s', _ | c⟩
        · rw [hfm] at hI' hc'; exact ihm hsub' s' hI' hc'
        · rw [hfm] at hI' hc'
          cases sw
          · exact hc'
          · exact ihm hsub' s' hI' hc'
    simp only [loop]
    rcases hfn : f n st with ⟨s', _ | c⟩
    · rw [hfn] at hI1 hC1
      obtain ⟨hI2, hC2⟩ := ih' s' hI1
      refine ⟨hI2, fun hsw hnone m hm => ?_⟩
      rcases List.mem_cons.1 hm with rfl | hm'
      · exact hstab ns (fun x hx => List.mem_cons_of_mem _ hx) s' hI1 (hC1 rfl)
      · exact hC2 hsw hnone m hm'
    · rw [hfn] at hI1
      cases sw
      · exact ⟨hI1, fun _ hnone => by simp at hnone⟩
      · obtain ⟨hI2, _⟩ := ih' s' hI1
        exact ⟨hI2, fun h => by cases h⟩

/-- invariant-only version -/
theorem loop_inv {f : Nat → St → Res} {sw : Bool} {l : List Nat} (I : St → Prop)
    (hstep : ∀ n ∈ l, ∀ s, I s → I (f n s).1) (st : St) (hI : I st) :
    I (loop f sw l st).1 :=
  (loop_rule (f := f) (sw := sw) (l := l) I (fun _ _ => True)
    (fun n hn s hs => ⟨hstep n hn s hs, fun _ => trivial⟩)
    (fun _ _ _ _ _ _ _ => trivial) st hI).1

/-- a swallowing loop never fails -/
theorem loop_swallow (f : Nat → St → Res) (l : List Nat) :
    ∀ st, (loop f true l st).2 = none := by
  induction l with
  | nil => intro st; rfl
  | cons n ns ih =>
    intro st
    simp only [loop]
    rcases f n st with ⟨s', _ | c⟩
    · exact ih s'
    · simpa using ih s'

/-- if no call fails (from invariant states) the loop does not fail -/
theorem loop_none_of_all {f : Nat → St → Res} {sw : Bool} {l : List Nat} (I : St → Prop)
    (hstep : ∀ n ∈ l, ∀ s, I s → I (f n s).1 ∧ (f n s).2 = none) :
    ∀ st, I st → (loop f sw l st).2 = none := by
  induction l with
  | nil => intro st _; rfl
  | cons n ns ih =>
    intro st hI
    obtain ⟨h1, h2⟩ := hstep n List.mem_cons_self st hI
    simp only [loop]
    rcases hfn : f n st with ⟨s', _ | c⟩
    · rw [hfn] at h1
      exact ih (fun m hm => hstep m (List.mem_cons_of_mem _ hm)) s' h1
    · rw [hfn] at h2; cases h2

/-- a failing loop has a failing call (from an invariant state) -/
theorem loop_some_exists {f : Nat → St → Res} {sw : Bool} {l : List Nat} (I : St → Prop)
    (hstep : ∀ n ∈ l, ∀ s, I s → I (f n s).1) {st : St} (hI : I st) {c : Cyc}
    (h : (loop f sw l st).2 = some c) : ∃ n ∈ l, ∃ s, I s ∧ (f n s).2 = some c := by
  induction l generalizing st with
  | nil => cases h
  | cons n ns ih =>
    have h1 := hstep n List.mem_cons_self st hI
    simp only [loop] at h
    rcases hfn : f n st with ⟨s', _ | c'⟩
    · rw [hfn] at h h1
      obtain ⟨m, hm, s, hs, hc⟩ := ih (fun m hm => hstep m (List.mem_cons_of_mem _ hm)) h1 h
      exact ⟨m, List.mem_cons_of_mem _ hm, s, hs, hc⟩
    · rw [hfn] at h h1
      cases sw
      · simp at h
        exact ⟨n, List.mem_cons_self, st, hI, by rw [hfn, h]⟩
      · simp at h
        obtain ⟨m, hm, s, hs, hc⟩ := ih (fun m hm => hstep m (List.mem_cons_of_mem _ hm)) h1 h
        exact ⟨m, List.mem_cons_of_mem _ hm, s, hs, hc⟩

/-! ### one `visit` frame -/

/-- what `visit` appends when the frame finishes -/
def push (item : Nat) (s : St) : St :=
  { visited := item :: s.visited, order := s.order ++ [item] }

/-- The body of a `visit` frame, abstracted over the recursive call. -/
def frame (g : Graph) (child : Nat → Bool → Bool → St → Res) (wcur item : Nat)
    (fc wl : Bool) (st : St) : Res :=
  let r1 := loop (fun n s => child n false true s) (wcur == 0) (weakAdj g item) st
  let r2 : Res := match r1 with
    | (s, some c) => (s, some c)
    | (s, none) => loop (fun n s => child n false wl s) false (adj g item) s
  let r3 : Res := match r2 with
    | (s, some c) => (s, some c)
    | (s, none) => loop (fun n s => child n true wl s) false (ctrl g item) s
  match r3 with
  | (s, none) => if fc then (s, none) else (push item s, none)
  | (s, some c) => if wcur == 1 then (s, none) else (s, some c)

/-- `wcur` of a frame -/
def wcurOf (w : Nat) (wl : Bool) : Nat := if wl then w + 1 else w

theorem visit_zero (g : Graph) (vis : List Nat) (w item : Nat) (fc wl : Bool) (st : St) :
    visit g 0 vis w item fc wl st = (st, none) := rfl

theorem visit_succ (g : Graph) (fuel : Nat) (vis : List Nat) (w item : Nat) (fc wl : Bool)
    (st : St) :
    visit g (fuel + 1) vis w item fc wl st =
      if vis.contains item then (st, some ⟨item, vis.filter (· != item)⟩)
      else if st.visited.contains item then (st, none)
      else frame g (fun n fc' wl' s => visit g fuel (vis ++ [item]) (wcurOf w wl) n fc' wl' s)
            (wcurOf w wl) item fc wl st := rfl

/-- Case analysis of a frame: which loop (if any) failed. -/
theorem frame_cases (g : Graph) (child : Nat → Bool → Bool → St → Res) (wcur item : Nat)
    (fc wl : Bool) (st : St) :
    let L1 := loop (fun n s => child n false true s) (wcur == 0) (weakAdj g item) st
    let L2 := loop (fun n s => child n false wl s) false (adj g item) L1.1
    let L3 := loop (fun n s => child n true wl s) false (ctrl g item) L2.1
    let out (s : St) (c : Cyc) : Res := if wcur == 1 then (s, none) else (s, some c)
    (∃ c, L1.2 = some c ∧ frame g child wcur item fc wl st = out L1.1 c) ∨
    (L1.2 = none ∧
      ((∃ c, L2.2 = some c ∧ frame g child wcur item fc wl st = out L2.1 c) ∨
       (L2.2 = none ∧
        ((∃ c, L3.2 = some c ∧ frame g child wcur item fc wl st = out L3.1 c) ∨
         (L3.2 = none ∧ frame g child wcur item fc wl st =
            if fc then (L3.1, none) else (push item L3.1, none)))))) := by
  intro L1 L2 L3 out
  unfold frame
  rcases h1 : loop (fun n s => child n false true s) (wcur == 0) (weakAdj g item) st
    with ⟨s1, _ | c1⟩
  · right
    have e1 : L1 = (s1, none) := h1
    refine ⟨by rw [e1], ?_⟩
    rcases h2 : loop (fun n s => child n false wl s) false (adj g item) s1 with ⟨s2, _ | c2⟩
    · right
      have e2 : L2 = (s2, none) := by show loop _ _ _ L1.1 = _; rw [e1]; exact h2
      refine ⟨by rw [e2], ?_⟩
      rcases h3 : loop (fun n s => child n true wl s) false (ctrl g item) s2 with ⟨s3, _ | c3⟩
      · right
        have e3 : L3 = (s3, none) := by show loop _ _ _ L2.1 = _; rw [e2]; exact h3
        refine ⟨by rw [e3], ?_⟩
        simp only [h2, h3, e3, push]
      · left
        have e3 : L3 = (s3, some c3) := by show loop _ _ _ L2.1 = _; rw [e2]; exact h3
        refine ⟨c3, by rw [e3], ?_⟩
        simp only [h2, h3, e3, out]
    · left
      have e2 : L2 = (s2, some c2) := by show loop _ _ _ L1.1 = _; rw [e1]; exact h2
      refine ⟨c2, by rw [e2], ?_⟩
      simp only [h2, e2, out]
  · left
    have e1 : L1 = (s1, some c1) := h1
    refine ⟨c1, by rw [e1], ?_⟩
    simp only [e1, out]

end EdbVerif.Topo
