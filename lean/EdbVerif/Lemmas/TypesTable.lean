/-
C12 — facts about the GENERATED tables, re-proved by kernel evaluation whenever
`Gen/Types.lean` changes (`decide +kernel`, no extra axiom), and their quantified
consequences.
-/
import EdbVerif.Model.TypesSpec

namespace EdbVerif.Types
open EdbVerif.Gen.Types

theorem Scalar.mem_all (s : Scalar) : s ∈ Scalar.all := by cases s <;> decide

theorem Fn.mem_all (f : Fn) : f ∈ Fn.all := by cases f <;> decide

/-! ### the implicit-cast graph on scalars -/

set_option maxRecDepth 100000 in
/-- generated obligation: the cast graph is a partial order in which `find_common_castable_type`
    returns the least upper bound whatever the iteration order, and casts preserve the value kind -/
theorem scalarTable : scalarTableOK = true := by decide +kernel

theorem castableS_refl (a : Scalar) : castableS a a = true := by
  have h := scalarTable
  simp only [scalarTableOK, List.all_eq_true, Bool.and_eq_true] at h
  exact (h a (Scalar.mem_all a)).1

theorem scalar_pair (a b : Scalar) :
    (castableS a b = true → castableS b a = true → a = b) ∧ commonOK a b = true ∧
    kindOK a b = true ∧
    ∀ c, castableS a b = true → castableS b c = true → castableS a c = true := by
  have h := scalarTable
  simp only [scalarTableOK, List.all_eq_true, Bool.and_eq_true] at h
  obtain ⟨⟨⟨h1, h2⟩, h3⟩, h4⟩ := (h a (Scalar.mem_all a)).2 b (Scalar.mem_all b)
  refine ⟨?_, h2, h3, ?_⟩
  · intro hab hba
    simp [hab, hba] at h1
    exact h1
  · intro c hab hbc
    have := h4 c (Scalar.mem_all c)
    simp [hab, hbc] at this
    exact this

theorem castableS_trans {a b c : Scalar} (h1 : castableS a b = true) (h2 : castableS b c = true) :
    castableS a c = true := (scalar_pair a b).2.2.2 c h1 h2

theorem castableS_antisymm {a b : Scalar} (h1 : castableS a b = true) (h2 : castableS b a = true) :
    a = b := (scalar_pair a b).1 h1 h2

theorem lubB_iff (a b c : Scalar) :
    lubB a b c = true ↔
      castableS a c = true ∧ castableS b c = true ∧
      ∀ u, castableS a u = true → castableS b u = true → castableS c u = true := by
  simp only [lubB, Bool.and_eq_true, List.all_eq_true, Bool.or_eq_true, Bool.not_eq_true']
  constructor
  · rintro ⟨⟨h1, h2⟩, h3⟩
    refine ⟨h1, h2, fun u hu1 hu2 => ?_⟩
    rcases h3 u (Scalar.mem_all u) with h | h
    · simp [hu1, hu2] at h
    · exact h
  · rintro ⟨h1, h2, h3⟩
    refine ⟨⟨h1, h2⟩, fun u _ => ?_⟩
    by_cases hu : castableS a u = true ∧ castableS b u = true
    · exact Or.inr (h3 u hu.1 hu.2)
    · left
      cases h : (castableS a u && castableS b u)
      · rfl
      · simp only [Bool.and_eq_true] at h; exact absurd h hu

/-- what the real `find_common_castable_type` can return, on the generated table: nothing when
    the two scalars have no common upper bound, otherwise exactly their least upper bound —
    for every iteration order of the `set`s involved -/
theorem commonS_spec (a b : Scalar) :
    (commonS a b = [] ∧ ∀ u, ¬ (castableS a u = true ∧ castableS b u = true)) ∨
    (∃ c, commonS a b = [c] ∧ lubB a b c = true) := by
  have h := (scalar_pair a b).2.1
  unfold commonOK at h
  split at h
  · rename_i heq
    left
    refine ⟨heq, fun u hu => ?_⟩
    simp only [List.all_eq_true, Bool.not_eq_true'] at h
    have := h u (Scalar.mem_all u)
    simp [hu.1, hu.2] at this
  · rename_i c heq
    exact Or.inr ⟨c, heq, h⟩
  · exact absurd h (by simp)

theorem commonScalar_spec (a b : Scalar) :
    (commonScalar a b = none ∧ ∀ u, ¬ (castableS a u = true ∧ castableS b u = true)) ∨
    (∃ c, commonScalar a b = some c ∧ lubB a b c = true) := by
  rcases commonS_spec a b with ⟨h, hn⟩ | ⟨c, h, hl⟩
  · exact Or.inl ⟨by simp [commonScalar, h], hn⟩
  · exact Or.inr ⟨c, by simp [commonScalar, h], hl⟩

theorem kind_of_castable {a b : Scalar} (h : castableS a b = true) :
    isNumeric a = isNumeric b ∧ isOpaque a = isOpaque b ∧ ((a == .str) = (b == .str)) ∧
    ((a == .bool) = (b == .bool)) := by
  have hk := (scalar_pair a b).2.2.1
  simp only [kindOK, h, Bool.not_true, Bool.false_or, Bool.and_eq_true, beq_iff_eq] at hk
  exact ⟨hk.1.1.1, hk.1.1.2, hk.1.2, hk.2⟩

set_option maxRecDepth 100000 in
/-- generated obligation: the implicit cast distance is the shortest-path metric of the graph -/
theorem distTable : distTableOK = true := by decide +kernel

/-! ### literals -/

theorem numeric_lits : isNumeric .int64 = true ∧ isNumeric .float64 = true ∧
    isNumeric .bigint = true ∧ isNumeric .decimal = true ∧ isNumeric .str = false ∧
    isNumeric .bool = false := by decide

/-! ### operator tables -/

set_option maxRecDepth 100000 in
/-- generated obligation (numeric_table): for every arithmetic operator and every pair of numeric
    scalars, overload resolution and the promotion semantics of the typed evaluator agree — on the
    result type and on whether the operation is defined at all — and resolution is never ambiguous;
    every numeric arithmetic overload returns what its primitive computes on that carrier -/
theorem numericTable : numericTableOK = true := by decide +kernel

set_option maxRecDepth 100000 in
/-- generated obligation: comparison operators on numeric pairs resolve unambiguously to `bool` -/
theorem compareTable : compareTableOK = true := by decide +kernel

set_option maxRecDepth 100000 in
/-- generated obligation: no operator has both recursive and non-recursive collection overloads
    (`compile_operator` relies on it, looking only at the first one) -/
theorem recursiveTable : recursiveTableOK = true := by decide +kernel

end EdbVerif.Types
