/-
C15, ownership part — part 2: a connection "in hand", and the primitives that take a
connection off the stack, put it back, erase it, lend it or take it back from its holder.
-/
import EdbVerif.Lemmas.PoolOwn

namespace EdbVerif.Pool

/-- connection `c` of block `u` is in hand: a connection of the block that is not marked in
    use, not on the stack and not scheduled for discard -/
def Hand (s : State) (u c : Nat) : Prop :=
  ∃ b, s.find u = some b ∧ (c, false) ∈ b.conns ∧ c ∉ b.stack ∧ (u, c) ∉ limbo s

theorem Hand.ofCore {s s' : State} {u c : Nat} (h : Hand s u c) (hc : SameCore s' s) : Hand s' u c := by
  obtain ⟨_, _, hb, _, _, _, ht, _, _, _, _, _⟩ := hc
  obtain ⟨b, h1, h2, h3, h4⟩ := h
  refine ⟨b, ?_, h2, h3, ?_⟩
  · show findB s'.blocks u = some b
    rw [hb]; exact h1
  · rw [limbo_congr ht]; exact h4

/-- pairs with distinct first components: the flag of a connection is determined -/
theorem flag_unique {l : List (Nat × Bool)} (hnd : (l.map (·.1)).Nodup) {c : Nat} {v w : Bool}
    (h1 : (c, v) ∈ l) (h2 : (c, w) ∈ l) : v = w := by
  induction l with
  | nil => simp at h1
  | cons x xs ih =>
    simp only [List.map_cons, List.nodup_cons] at hnd
    rcases List.mem_cons.mp h1 with e1 | e1 <;> rcases List.mem_cons.mp h2 with e2 | e2
    · have := e1.trans e2.symm; exact (Prod.mk.inj this).2
    · exfalso; apply hnd.1; rw [← e1]; exact List.mem_map_of_mem (f := (·.1)) e2
    · exfalso; apply hnd.1; rw [← e2]; exact List.mem_map_of_mem (f := (·.1)) e1
    · exact ih hnd.2 e1 e2

/-! ### taking a connection off the stack -/

/-- updating the one block `u`: every other block is untouched -/
theorem own_cases {s : State} (hu : (s.blocks.map (·.uid)).Nodup) {u : Nat} {b : Block}
    (hb : s.find u = some b) {f : Block → Block} (hf : KeepsUid f) {x : Block}
    (hx : x ∈ (s.mod u f).blocks) : (x.uid ≠ u ∧ x ∈ s.blocks) ∨ x = f b :=
  mem_modB_cases hu hb hf hx

theorem steal_own {s : State} (hw : WF s) (h : InvOwn s) {u : Nat} {s1 : State} {c : Nat}
    (heq : steal s u = (s1, some c)) : InvOwn s1 ∧ Hand s1 u c := by
  unfold steal at heq
  split at heq
  · rename_i b hb
    have hbm := State.find_some hb
    split at heq
    · cases heq
    · rename_i c0 rest hst
      cases heq
      have hv : OS (s.mod u fun b => { b with stack := rest }) s := by
        refine ⟨?_, ?_, rfl, List.Sublist.refl _, Nat.le_refl _⟩
        · intro x hx
          rcases own_cases hw.uids hb (f := fun b => { b with stack := rest }) (fun _ => rfl) hx with ⟨_, hxs⟩ | e
          · exact ⟨x, hxs, OV.refl x⟩
          · refine ⟨b, hbm.1, ?_⟩
            rw [e]
            exact ⟨rfl, rfl, rfl, by show rest.Sublist b.stack; rw [hst]; exact List.sublist_cons_self _ _, rfl⟩
        · intro b1 hb1
          by_cases hbu : b1.uid = u
          · have : b1 = b := eq_of_uid hw.uids hb1 hbm.1 (hbu.trans hbm.2.symm)
            subst this
            refine ⟨_, mem_modB_fb hb _, ?_⟩
            exact ⟨rfl, rfl, rfl, by show rest.Sublist b1.stack; rw [hst]; exact List.sublist_cons_self _ _, rfl⟩
          · exact ⟨b1, mem_modB_other _ hb1 hbu, OV.refl b1⟩
      refine ⟨h.ofOS hv, ?_⟩
      have hf := State.find_mod (s := s) u u (fun b => { b with stack := rest }) (fun _ => rfl)
      refine ⟨{ b with stack := rest }, ?_, ?_, ?_, ?_⟩
      · rw [hf, hb]; simp [hbm.2]
      · exact h.stackIdle b hbm.1 c (by rw [hst]; simp)
      · have := h.stackNd b hbm.1
        rw [hst] at this
        exact (List.nodup_cons.mp this).1
      · intro hl
        have := (h.limboIdle (u, c) hl b hbm.1 hbm.2).2
        apply this; rw [hst]; simp
  · cases heq

theorem steal_none_eq {s : State} {u : Nat} {s1 : State} (heq : steal s u = (s1, none)) : s1 = s := by
  unfold steal at heq
  split at heq
  · split at heq
    · cases heq; rfl
    · cases heq
  · cases heq; rfl

theorem dropLast_getLast {l : List Nat} {c : Nat} (h : l.getLast? = some c) : l = l.dropLast ++ [c] := by
  induction l with
  | nil => simp at h
  | cons x xs ih =>
    cases xs with
    | nil => simp at h; simp [h]
    | cons y ys =>
      have : (y :: ys).getLast? = some c := by simpa [List.getLast?_cons_cons] using h
      have := ih this
      simp only [List.dropLast_cons_cons, List.cons_append]
      rw [← this]

/-- taking the top of the stack -/
theorem pop_own {s : State} (hw : WF s) (h : InvOwn s) {u : Nat} {b : Block} {c : Nat}
    (hb : s.find u = some b) (hc : b.stack.getLast? = some c) :
    InvOwn (popTop s u) ∧ Hand (popTop s u) u c := by
  have hbm := State.find_some hb
  unfold popTop
  have hsub : b.stack.dropLast.Sublist b.stack := List.dropLast_sublist _
  have hst : b.stack = b.stack.dropLast ++ [c] := dropLast_getLast hc
  have hv : OS (s.mod u fun b => { b with stack := b.stack.dropLast }) s := by
    refine ⟨?_, ?_, rfl, List.Sublist.refl _, Nat.le_refl _⟩
    · intro x hx
      rcases own_cases hw.uids hb (f := fun b => { b with stack := b.stack.dropLast }) (fun _ => rfl) hx with ⟨_, hxs⟩ | e
      · exact ⟨x, hxs, OV.refl x⟩
      · exact ⟨b, hbm.1, e ▸ ⟨rfl, rfl, rfl, hsub, rfl⟩⟩
    · intro b1 hb1
      by_cases hbu : b1.uid = u
      · have : b1 = b := eq_of_uid hw.uids hb1 hbm.1 (hbu.trans hbm.2.symm)
        subst this
        exact ⟨_, mem_modB_fb hb _, ⟨rfl, rfl, rfl, List.dropLast_sublist _, rfl⟩⟩
      · exact ⟨b1, mem_modB_other _ hb1 hbu, OV.refl b1⟩
  refine ⟨h.ofOS hv, ?_⟩
  have hf := State.find_mod (s := s) u u (fun b => { b with stack := b.stack.dropLast }) (fun _ => rfl)
  have hcm : c ∈ b.stack := by rw [hst]; simp
  refine ⟨{ b with stack := b.stack.dropLast }, ?_, ?_, ?_, ?_⟩
  · rw [hf, hb]; simp [hbm.2]
  · exact h.stackIdle b hbm.1 c hcm
  · have := h.stackNd b hbm.1
    rw [hst, List.nodup_append] at this
    intro hm
    exact this.2.2 c hm c (by simp) rfl
  · intro hl
    exact (h.limboIdle (u, c) hl b hbm.1 hbm.2).2 hcm

/-! ### putting a connection in hand somewhere -/

theorem schedDiscard_own {s : State} (hw : WF s) (h : InvOwn s) {u c : Nat} (hd : Hand s u c) (bh : Bool) :
    InvOwn (schedDiscard s u c bh) := by
  obtain ⟨b, hb, hc1, hc2, hc3⟩ := hd
  have hbm := State.find_some hb
  unfold schedDiscard
  have hl : limbo (s.addTask (.disc u c false bh)) = limbo s ++ [(u, c)] := by
    rw [limbo_addTask]; rfl
  refine ⟨h.nameInj, h.disj, h.stackIdle, h.stackNd, h.held, h.single, h.acq, ?_, ?_, ?_⟩
  rotate_left 2
  · intro p hp
    rw [hl] at hp
    rcases List.mem_append.mp hp with hp | hp
    · exact h.limboUid p hp
    · simp at hp; subst hp
      show u < s.nextUid
      rw [← hbm.2]; exact hw.uidsFresh b hbm.1
  · intro p hp x hx hxu
    rw [hl] at hp
    rcases List.mem_append.mp hp with hp | hp
    · exact h.limboIdle p hp x hx hxu
    · simp at hp; subst hp
      have : x = b := eq_of_uid hw.uids hx hbm.1 (hxu.trans hbm.2.symm)
      subst this
      exact ⟨hc1, hc2⟩
  · rw [hl, List.nodup_append]
    refine ⟨h.limboNd, by simp, ?_⟩
    intro a ha b' hb' hab
    simp at hb'
    exact hc3 (hb' ▸ hab ▸ ha)

theorem blockRelease_own {s : State} (hw : WF s) (h : InvOwn s) {u c : Nat} (hd : Hand s u c) :
    InvOwn (blockRelease s u c) := by
  obtain ⟨b, hb, hc1, hc2, hc3⟩ := hd
  have hbm := State.find_some hb
  -- the push
  have hp : InvOwn (s.mod u fun b => { b with stack := b.stack ++ [c] }) := by
    have hcases := fun x hx => own_cases hw.uids hb (f := fun b => { b with stack := b.stack ++ [c] })
      (fun _ => rfl) (x := x) hx
    refine ⟨?_, ?_, ?_, ?_, ?_, h.single, ?_, ?_, h.limboNd, h.limboUid⟩
    · intro b1 hb1 b2 hb2 e
      rcases hcases b1 hb1 with ⟨_, h1⟩ | e1 <;> rcases hcases b2 hb2 with ⟨_, h2⟩ | e2
      · exact h.nameInj b1 h1 b2 h2 e
      · rw [e2] at e ⊢; exact h.nameInj b1 h1 b hbm.1 e
      · rw [e1] at e ⊢; exact h.nameInj b hbm.1 b2 h2 e
      · rw [e1, e2]
    · intro b1 hb1 b2 hb2 c' hc1' hc2'
      rcases hcases b1 hb1 with ⟨_, h1⟩ | e1 <;> rcases hcases b2 hb2 with ⟨_, h2⟩ | e2
      · exact h.disj b1 h1 b2 h2 c' hc1' hc2'
      · rw [e2] at hc2' ⊢; exact h.disj b1 h1 b hbm.1 c' hc1' hc2'
      · rw [e1] at hc1' ⊢; exact h.disj b hbm.1 b2 h2 c' hc1' hc2'
      · rw [e1, e2]
    · intro x hx c' hc'
      rcases hcases x hx with ⟨_, hxs⟩ | e
      · exact h.stackIdle x hxs c' hc'
      · rw [e] at hc' ⊢
        rcases List.mem_append.mp hc' with hm | hm
        · exact h.stackIdle b hbm.1 c' hm
        · simp at hm; rw [hm]; exact hc1
    · intro x hx
      rcases hcases x hx with ⟨_, hxs⟩ | e
      · exact h.stackNd x hxs
      · rw [e]
        show (b.stack ++ [c]).Nodup
        rw [List.nodup_append]
        refine ⟨h.stackNd b hbm.1, by simp, ?_⟩
        intro a ha b' hb' hab
        simp at hb'
        exact hc2 (hb' ▸ hab ▸ ha)
    · intro x hx
      obtain ⟨b1, hb1, hn, hc⟩ := h.held x hx
      by_cases hbu : b1.uid = u
      · have : b1 = b := eq_of_uid hw.uids hb1 hbm.1 (hbu.trans hbm.2.symm)
        subst this
        exact ⟨_, mem_modB_fb hb _, hn, hc⟩
      · exact ⟨b1, mem_modB_other _ hb1 hbu, hn, hc⟩
    · intro x hx
      rcases hcases x hx with ⟨_, hxs⟩ | e
      · exact h.acq x hxs
      · rw [e]; exact h.acq b hbm.1
    · intro p hp x hx hxu
      rcases hcases x hx with ⟨_, hxs⟩ | e
      · exact h.limboIdle p hp x hxs hxu
      · rw [e] at hxu ⊢
        have := h.limboIdle p hp b hbm.1 hxu
        refine ⟨this.1, ?_⟩
        intro hm
        rcases List.mem_append.mp hm with hm | hm
        · exact this.2 hm
        · simp at hm
          apply hc3
          have hpu : p.1 = u := hxu.symm.trans hbm.2
          rw [← hpu, ← hm]; exact hp
  -- the wake-up only touches queues and waiters
  unfold blockRelease
  refine hp.ofOS ?_
  unfold wakeNext
  split
  · split
    · exact OS.refl _
    · exact OS.via (OS.mod _ u _ (by intro b; exact ⟨rfl, rfl, rfl, List.Sublist.refl _, rfl⟩)) rfl rfl rfl
  · exact OS.refl _

end EdbVerif.Pool
