/-
C17, remote path: preservation of the invariant and the history-level theorems.
-/
import EdbVerif.Lemmas.SyncMTInv
import EdbVerif.Lemmas.SyncStep

namespace EdbVerif.SyncMT
open EdbVerif.Sync

theorem cliOK_mono {cli : Nat → Option CS} {clock : Nat} (h : CliOK cli clock) : CliOK cli (clock + 1) :=
  fun c v hv => ⟨by have := (h c v hv).1; omega, fun σ s hs => by have := (h c v hv).2 σ s hs; omega⟩

theorem entryOK_mono {cli : Nat → Option CS} {clock c : Nat} {v : CS} {a : Option WClient}
    (h : EntryOK cli clock c v a) : EntryOK cli (clock + 1) c v a := by
  obtain ⟨h1, h2, h3⟩ := h
  exact ⟨fun σ s hs => by have := h1 σ s hs; omega, by omega, h3⟩

theorem actOK_none (cli : Nat → Option CS) (c : Nat) : ActOK cli c none := by
  intro _ _ _ _ h; cases h

/-- what `serve` leaves behind for the client it served, when the sync succeeded -/
theorem inv_step (env : Env) (st : MTState) (q : MReq) (hI : Inv st) :
    Inv (stepMTRun env st q).1 := by
  rcases stepMT_cases env st q with ⟨hcli, hwk, hclk, _, _, _⟩ |
    ⟨cs, cs', u, hcs, hs, hcli, hwk, hclk, _, _, _⟩
  · exact ⟨by rw [hcli, hclk]; exact cliOK_mono hI.cli, by rw [hwk]; exact hI.invalNil,
      by rw [hcli, hwk, hclk]; exact fun w c v h => entryOK_mono (hI.entry w c v h),
      by rw [hcli, hwk]; exact hI.act⟩
  · generalize hpr : prepare (st.wk q.r.w) q.c cs' st.cacheSize = pr at hwk
    generalize hsv : serve env pr.1 pr.2.2.2 q.c q.r.db cs' pr.2.2.1 q.r.out = sv at hwk
    have hP := prepare_spec (st.wk q.r.w) q.c cs' st.cacheSize (hI.invalNil q.r.w)
    rw [hpr] at hP
    obtain ⟨hP1, hP2, hP3, hP4, _⟩ := hP
    have hS := serve_spec env pr.1 pr.2.2.2 q.c q.r.db cs' pr.2.2.1 q.r.out
    rw [hsv] at hS
    obtain ⟨hS1, hS2⟩ := hS
    have hcli' : (fun i => if i = q.c then some cs' else st.cli i) q.c = some cs' := by simp
    have hC' := cliOK_step hI.cli hcs hs
    have hE' : ∀ w c' v, cacheGet (st.wk w).cache c' = some v →
        EntryOK (fun i => if i = q.c then some cs' else st.cli i) (st.clock + 1) c' v ((st.wk w).act c') :=
      fun w c' v h => entryOK_step hcs hs (hI.entry w c' v h)
    have hA' : ∀ w c', ActOK (fun i => if i = q.c then some cs' else st.cli i) c' ((st.wk w).act c') :=
      fun w c' => actOK_step hcs hs (hI.act w c')
    -- the worker entry of the served client before the call is the old one
    have hact1c : (if pr.2.2.2.contains q.c = true then none else pr.1.act q.c) = (st.wk q.r.w).act q.c := by
      rw [hP4, hP2]; simp
    refine ⟨by rw [hcli, hclk]; exact hC', ?_, ?_, ?_⟩
    · intro w
      rw [hwk]
      by_cases hw : w = q.r.w
      · simp only [hw, if_true]; rw [hS1, hP1]
      · simp only [hw, if_false]; exact hI.invalNil w
    · intro w c' v hv
      rw [hcli, hclk]
      rw [hwk] at hv ⊢
      by_cases hw : w = q.r.w
      case neg => simp only [hw, if_false] at hv ⊢; exact hE' w c' v hv
      simp only [hw, if_true] at hv ⊢
      rcases hS2 with ⟨_, hcache, hact, _⟩ | ⟨a', hws, hact, _, _, hcache, _⟩
      · -- FailedStateSync: nothing recorded, only the evicted clients are gone
        rw [hcache] at hv
        obtain ⟨hv0, hnin⟩ := hP3 c' v hv
        rw [hact]
        simp only [hnin, Bool.false_eq_true, if_false, hP2]
        exact hE' q.r.w c' v hv0
      · have hws : wsyncMT env ((st.wk q.r.w).act q.c) pr.2.2.1 = some a' := by
          rw [← hact1c]; exact hws
        obtain ⟨x', hx', hh⟩ := served_holds env _ (st.clock + 1) (st.wk q.r.w) q.c cs' st.cacheSize a'
          (hI.invalNil q.r.w) hcli' (fun v hv => hE' q.r.w q.c v hv) (hA' q.r.w q.c)
          (by rw [hpr]; exact hws)
        subst hx'
        rw [hact]
        by_cases hc : c' = q.c
        · subst hc
          simp only [if_true]
          rcases hcache with ⟨hc1, _⟩ | ⟨hc1, _, _⟩
          · rw [hc1, cacheGet_set] at hv
            simp only [if_true, Option.some.injEq] at hv
            subst hv
            exact entryOK_new hC' hcli' hh
          · rw [hc1] at hv
            exact entryOK_ahead hcli' hh (hA' q.r.w q.c) (hE' q.r.w q.c v (hP3 _ _ hv).1)
        · simp only [hc, if_false]
          have hv' : cacheGet pr.1.cache c' = some v := by
            rcases hcache with ⟨hc1, _⟩ | ⟨hc1, _, _⟩
            · rw [hc1, cacheGet_set] at hv
              simpa [Ne.symm hc] using hv
            · rw [hc1] at hv; exact hv
          obtain ⟨hv0, hnin⟩ := hP3 c' v hv'
          simp only [hnin, Bool.false_eq_true, if_false, hP2]
          exact hE' q.r.w c' v hv0
    · intro w c'
      rw [hcli, hwk]
      by_cases hw : w = q.r.w
      case neg => simp only [hw, if_false]; exact hA' w c'
      simp only [hw, if_true]
      have hact1 : ∀ i, ActOK (fun i => if i = q.c then some cs' else st.cli i) i
          (if pr.2.2.2.contains i = true then none else pr.1.act i) := by
        intro i
        split
        · exact actOK_none _ _
        · rw [hP2]; exact hA' q.r.w i
      rcases hS2 with ⟨_, _, hact, _⟩ | ⟨a', hws, hact, _, _, _, _⟩
      · rw [hact]; exact hact1 c'
      · have hws : wsyncMT env ((st.wk q.r.w).act q.c) pr.2.2.1 = some a' := by
          rw [← hact1c]; exact hws
        obtain ⟨x', hx', hh⟩ := served_holds env _ (st.clock + 1) (st.wk q.r.w) q.c cs' st.cacheSize a'
          (hI.invalNil q.r.w) hcli' (fun v hv => hE' q.r.w q.c v hv) (hA' q.r.w q.c)
          (by rw [hpr]; exact hws)
        subst hx'
        rw [hact]
        by_cases hc : c' = q.c
        · subst hc; simp only [if_true]; exact actOK_holds hcli' hh
        · simp only [hc, if_false]; exact hact1 c'

theorem inv_init (init : Nat → Side) (dom : Nat → List Nat) (size : Nat) :
    Inv (initMT init dom size) := by
  refine ⟨?_, fun _ => rfl, ?_, ?_⟩
  · intro c v hv
    simp only [initMT, Option.some.injEq] at hv
    subst hv
    refine ⟨by simp [initMT, initCS], ?_⟩
    intro σ s hs
    cases σ <;> simp only [CS.get, initCS] at hs
    · simp at hs; obtain ⟨a, _, ha⟩ := hs; subst ha; simp [initMT]
    · simp at hs; obtain ⟨a, _, ha⟩ := hs; subst ha; simp [initMT]
    · simp at hs; obtain ⟨a, _, ha⟩ := hs; subst ha; simp [initMT]
    · simp at hs; subst hs; simp [initMT]
    · simp at hs; subst hs; simp [initMT]
  · intro w c v hv
    simp [initMT, cacheGet] at hv
  · intro w c
    exact actOK_none _ _

theorem stepMT_of_read (env : Env) (st : MTState) (q : MReq) (h : q.r.out ≠ .requestUnreadable) :
    stepMT env st q = stepMTRun env st q := by
  simp [stepMT, h]

theorem stepMT_of_lost (env : Env) (st : MTState) (q : MReq) (h : q.r.out = .requestUnreadable) :
    stepMT env st q = stepMTLost st q := by
  simp [stepMT, h]

/-- a request the compiler server cannot read changes nothing (but the request counter)
    and compiles nothing -/
theorem stepMTLost_spec (st : MTState) (q : MReq) :
    (stepMTLost st q).1.cli = st.cli ∧ (stepMTLost st q).1.wk = st.wk ∧
    (stepMTLost st q).1.clock = st.clock + 1 ∧ (stepMTLost st q).2.used = none ∧
    (stepMTLost st q).2.res = .syncFail ∧ (stepMTLost st q).1.bel = st.bel :=
  ⟨rfl, rfl, rfl, rfl, rfl, rfl⟩

theorem inv_step' (env : Env) (st : MTState) (q : MReq) (hI : Inv st) :
    Inv (stepMT env st q).1 := by
  by_cases hl : q.r.out = .requestUnreadable
  · rw [stepMT_of_lost env st q hl]
    obtain ⟨hcli, hwk, hclk, _, _, _⟩ := stepMTLost_spec st q
    exact ⟨by rw [hcli, hclk]; exact cliOK_mono hI.cli, by rw [hwk]; exact hI.invalNil,
      by rw [hcli, hwk, hclk]; exact fun w c v h => entryOK_mono (hI.entry w c v h),
      by rw [hcli, hwk]; exact hI.act⟩
  · rw [stepMT_of_read env st q hl]; exact inv_step env st q hI

theorem inv_exec (env : Env) (h : List MReq) : ∀ st, Inv st → Inv (execMT env st h) := by
  induction h with
  | nil => intro st hI; exact hI
  | cons q qs ih => intro st hI; exact ih _ (inv_step' env st q hI)

theorem holds_current (x : WClient) (v : CS) (h : Holds x v) (db : Nat) (d3 : Db3)
    (hx : x.dbs db = some d3) :
    currentOf v db = some ⟨d3.schema, x.glob, d3.refl, d3.dbcfg, x.sys⟩ := by
  have h1 := h (.schema db)
  have h2 := h (.refl db)
  have h3 := h (.dbcfg db)
  have h4 := h .glob
  have h5 := h .sys
  simp only [WClient.get, CS.cont, CS.get, hx, Option.map_some] at h1 h2 h3 h4 h5
  unfold currentOf
  cases hv : v.dbs db with
  | none => simp [hv] at h1
  | some d =>
    simp only [hv, Option.map_some, Option.some.injEq] at h1 h2 h3 h4 h5
    simp [h1, h2, h3, h4, h5]

/-- **Every request is compiled against the compiler server's current state** of the
    client and database it names — whatever happened before. -/
theorem usedCurrent_step (env : Env) (st : MTState) (q : MReq) (hI : Inv st) :
    (stepMTRun env st q).2.usedCurrent (stepMTRun env st q).1 q := by
  intro u hu
  rcases stepMT_cases env st q with ⟨_, _, _, _, hused, _⟩ |
    ⟨cs, cs', _, hcs, hs, hcli, _, _, hused, _, _⟩
  · rw [hused] at hu; cases hu
  · rw [hused] at hu
    refine ⟨cs', by rw [hcli]; simp, ?_⟩
    have hP := prepare_spec (st.wk q.r.w) q.c cs' st.cacheSize (hI.invalNil q.r.w)
    obtain ⟨_, hP2, _, hP4, _⟩ := hP
    have hS := (serve_spec env (prepare (st.wk q.r.w) q.c cs' st.cacheSize).1
      (prepare (st.wk q.r.w) q.c cs' st.cacheSize).2.2.2 q.c q.r.db cs'
      (prepare (st.wk q.r.w) q.c cs' st.cacheSize).2.2.1 q.r.out).2
    rcases hS with ⟨_, _, _, _, hnone, _⟩ | ⟨a', hws, _, _, _, _, hu'⟩
    · rw [hnone] at hu; cases hu
    · obtain ⟨x, d3, hx, hd3, hueq⟩ := hu' u hu
      have hws' : wsyncMT env ((st.wk q.r.w).act q.c)
          (prepare (st.wk q.r.w) q.c cs' st.cacheSize).2.2.1 = some a' := by
        have : (if (prepare (st.wk q.r.w) q.c cs' st.cacheSize).2.2.2.contains q.c = true then none
            else (prepare (st.wk q.r.w) q.c cs' st.cacheSize).1.act q.c) = (st.wk q.r.w).act q.c := by
          rw [hP4, hP2]; simp
        rw [← this]; exact hws
      have hcli' : (fun i => if i = q.c then some cs' else st.cli i) q.c = some cs' := by simp
      obtain ⟨x', hx', hh⟩ := served_holds env _ (st.clock + 1) (st.wk q.r.w) q.c cs' st.cacheSize a'
        (hI.invalNil q.r.w) hcli'
        (fun v hv => entryOK_step hcs hs (hI.entry q.r.w q.c v hv))
        (actOK_step hcs hs (hI.act q.r.w q.c)) hws'
      rw [hx'] at hx; cases hx
      rw [hueq]
      exact holds_current x cs' hh q.r.db d3 hd3



/-- a request that does not end in `FailedStateSync` keeps "tier-1 belief ⇒ compiler server" -/
theorem agree1_step (env : Env) (st : MTState) (q : MReq) (c : Nat) (h : Agree1 st c)
    (hres : (stepMTRun env st q).2.res ≠ .syncFail) : Agree1 (stepMTRun env st q).1 c := by
  rcases stepMT_cases env st q with ⟨_, _, _, _, _, hr⟩ |
    ⟨cs, cs', u, hcs, hs, hcli, _, _, _, hr, hbel⟩
  · exact absurd hr hres
  · have hS := (serve_spec env (prepare (st.wk q.r.w) q.c cs' st.cacheSize).1
      (prepare (st.wk q.r.w) q.c cs' st.cacheSize).2.2.2 q.c q.r.db cs'
      (prepare (st.wk q.r.w) q.c cs' st.cacheSize).2.2.1 q.r.out).2
    rw [hr] at hres
    have hb : (serve env (prepare (st.wk q.r.w) q.c cs' st.cacheSize).1
      (prepare (st.wk q.r.w) q.c cs' st.cacheSize).2.2.2 q.c q.r.db cs'
      (prepare (st.wk q.r.w) q.c cs' st.cacheSize).2.2.1 q.r.out).2.2.2 = true := by
      rcases hS with ⟨_, _, _, h1, _⟩ | ⟨_, _, _, h1, _⟩
      · exact absurd h1 hres
      · exact h1
    rw [hb] at hbel
    obtain ⟨b', hb'⟩ := withAck_defined (st.bel q.c) q.r
    intro σ t hσ
    rw [hbel] at hσ
    simp only [belAfter, if_true, hb'] at hσ
    rw [hcli]
    by_cases hc : c = q.c
    · subst hc
      simp only [if_true] at hσ ⊢
      refine ⟨cs', rfl, ?_⟩
      rcases sync2_slot _ _ _ _ _ _ hs σ with ⟨hns, hget⟩ | ⟨t', hsent, hget⟩
      · rcases withAck_slot _ b' _ _ hb' σ with hb2 | ⟨t2, hs2, _⟩
        · rw [hb2] at hσ
          obtain ⟨v, hv, hcont⟩ := h σ t hσ
          rw [hcs] at hv; cases hv
          simp only [CS.cont, hget]; exact hcont
        · rw [hns] at hs2; cases hs2
      · have := withAck_records _ b' _ _ hb' σ t' hsent
        rw [this] at hσ; cases hσ
        simp [CS.cont, hget]
    · simp only [hc, if_false] at hσ ⊢
      exact h σ t hσ

theorem agree1_init (init : Nat → Side) (dom : Nat → List Nat) (size : Nat) (c : Nat) :
    Agree1 (initMT init dom size) c := by
  intro σ t hσ
  refine ⟨_, rfl, ?_⟩
  simp only [initMT] at hσ
  cases σ <;> simp only [CS.cont, CS.get, initCS, Side.get] at hσ ⊢
  · cases h : (init c).dbs _ <;> simp_all
  · cases h : (init c).dbs _ <;> simp_all
  · cases h : (init c).dbs _ <;> simp_all
  · simpa using hσ
  · simpa using hσ

/-- with "tier-1 belief ⇒ compiler server" the request is compiled against what it supplied -/
theorem usedSupplied_step (env : Env) (st : MTState) (q : MReq) (hI : Inv st)
    (ha : Agree1 st q.c) : (stepMTRun env st q).2.usedSupplied q := by
  intro u hu
  obtain ⟨v, hv, hcur⟩ := usedCurrent_step env st q hI u hu
  rcases stepMT_cases env st q with ⟨_, _, _, _, hused, _⟩ |
    ⟨cs, cs', _, hcs, hs, hcli, _, _, _, _, _⟩
  · rw [hused] at hu; cases hu
  · rw [hcli] at hv
    simp only [if_true, Option.some.injEq] at hv
    subst hv
    -- every one of the five slots of cs' has the supplied content
    have hslot : ∀ p ∈ q.r.slots, cs'.cont p.1 = some p.2 := by
      intro p hp
      rcases sync2_slot _ _ _ _ _ _ hs p.1 with ⟨hns, hget⟩ | ⟨t', hsent, hget⟩
      · have hb := preargs_at_none _ q.r p.1 p.2 hp hns
        obtain ⟨v, hv, hcont⟩ := ha p.1 p.2 hb
        rw [hcs] at hv; cases hv
        simp only [CS.cont, hget]; exact hcont
      · have := slots_fun q.r p.1 t' p.2 (preargs_at_some _ _ _ _ hsent).1 hp
        subst this
        simp [CS.cont, hget]
    have h1 := hslot (.schema q.r.db, q.r.schema) (by simp [CReq.slots])
    have h2 := hslot (.refl q.r.db, q.r.refl) (by simp [CReq.slots])
    have h3 := hslot (.glob, q.r.glob) (by simp [CReq.slots])
    have h4 := hslot (.dbcfg q.r.db, q.r.dbcfg) (by simp [CReq.slots])
    have h5 := hslot (.sys, q.r.sys) (by simp [CReq.slots])
    unfold currentOf at hcur
    simp only [CS.cont, CS.get] at h1 h2 h3 h4 h5
    cases hd : cs'.dbs q.r.db with
    | none => simp [hd] at hcur
    | some d =>
      simp only [hd, Option.some.injEq, Option.map_some] at hcur h1 h2 h3 h4 h5
      rw [← hcur]
      simp [CReq.supplied, h1, h2, h3, h4, h5]



/-- without status 2: "recorded version ⇒ the worker holds exactly that version" is preserved -/
theorem recordExact_step (env : Env) (st : MTState) (q : MReq) (hI : Inv st)
    (hR : RecordExact st) (hout : q.r.out ≠ .resultUnpicklable) :
    RecordExact (stepMTRun env st q).1 := by
  rcases stepMT_cases env st q with ⟨_, hwk, _, _, _, _⟩ |
    ⟨cs, cs', u, hcs, hs, _, hwk, _, _, _, _⟩
  · intro w c v hv; rw [hwk] at hv ⊢; exact hR w c v hv
  · generalize hpr : prepare (st.wk q.r.w) q.c cs' st.cacheSize = pr at hwk
    generalize hsv : serve env pr.1 pr.2.2.2 q.c q.r.db cs' pr.2.2.1 q.r.out = sv at hwk
    have hP := prepare_spec (st.wk q.r.w) q.c cs' st.cacheSize (hI.invalNil q.r.w)
    rw [hpr] at hP
    obtain ⟨_, hP2, hP3, hP4, _⟩ := hP
    have hS := serve_spec env pr.1 pr.2.2.2 q.c q.r.db cs' pr.2.2.1 q.r.out
    rw [hsv] at hS
    obtain ⟨_, hS2⟩ := hS
    have hact1c : (if pr.2.2.2.contains q.c = true then none else pr.1.act q.c) = (st.wk q.r.w).act q.c := by
      rw [hP4, hP2]; simp
    have hcli' : (fun i => if i = q.c then some cs' else st.cli i) q.c = some cs' := by simp
    intro w c' v hv
    rw [hwk] at hv ⊢
    by_cases hw : w = q.r.w
    case neg => simp only [hw, if_false] at hv ⊢; exact hR w c' v hv
    simp only [hw, if_true] at hv ⊢
    rcases hS2 with ⟨_, hcache, hact, _⟩ | ⟨a', hws, hact, _, _, hcache, _⟩
    · rw [hcache] at hv
      obtain ⟨hv0, hnin⟩ := hP3 c' v hv
      rw [hact]
      simp only [hnin, Bool.false_eq_true, if_false, hP2]
      exact hR q.r.w c' v hv0
    · have hws : wsyncMT env ((st.wk q.r.w).act q.c) pr.2.2.1 = some a' := by
        rw [← hact1c]; exact hws
      obtain ⟨x', hx', hh⟩ := served_holds env _ (st.clock + 1) (st.wk q.r.w) q.c cs' st.cacheSize a'
        (hI.invalNil q.r.w) hcli'
        (fun v hv => entryOK_step hcs hs (hI.entry q.r.w q.c v hv))
        (actOK_step hcs hs (hI.act q.r.w q.c)) (by rw [hpr]; exact hws)
      subst hx'
      rw [hact]
      rcases hcache with ⟨hc1, _⟩ | ⟨_, hunp, _⟩
      case inr => exact absurd hunp hout
      by_cases hc : c' = q.c
      · subst hc
        rw [hc1, cacheGet_set] at hv
        simp only [if_true, Option.some.injEq] at hv
        subst hv
        exact ⟨x', by simp, hh⟩
      · rw [hc1, cacheGet_set] at hv
        have hv' : cacheGet pr.1.cache c' = some v := by simpa [Ne.symm hc] using hv
        obtain ⟨hv0, hnin⟩ := hP3 c' v hv'
        simp only [hc, if_false, hnin, Bool.false_eq_true, hP2]
        exact hR q.r.w c' v hv0


/-! ### histories -/

theorem recordExact_init (init : Nat → Side) (dom : Nat → List Nat) (size : Nat) :
    RecordExact (initMT init dom size) := by
  intro w c v hv; simp [initMT, cacheGet] at hv

theorem recordExact_step' (env : Env) (st : MTState) (q : MReq) (hI : Inv st)
    (hR : RecordExact st) (hout : q.r.out ≠ .resultUnpicklable) :
    RecordExact (stepMT env st q).1 := by
  by_cases hl : q.r.out = .requestUnreadable
  · rw [stepMT_of_lost env st q hl]
    obtain ⟨_, hwk, _, _, _, _⟩ := stepMTLost_spec st q
    intro w c v hv; rw [hwk] at hv ⊢; exact hR w c v hv
  · rw [stepMT_of_read env st q hl]; exact recordExact_step env st q hI hR hout

theorem recordExact_exec (env : Env) (h : List MReq) :
    ∀ st, Inv st → RecordExact st → NoStatus2MT h → RecordExact (execMT env st h) := by
  induction h with
  | nil => intro st _ hR _; exact hR
  | cons q qs ih =>
    intro st hI hR hn
    exact ih _ (inv_step' env st q hI) (recordExact_step' env st q hI hR (hn q (by simp)))
      (fun q' hq' => hn q' (by simp [hq']))

theorem agree1_exec (env : Env) (c : Nat) (h : List MReq) :
    ∀ st, Agree1 st c → NoFailedSync env st h → Agree1 (execMT env st h) c := by
  induction h with
  | nil => intro st ha _; exact ha
  | cons q qs ih =>
    intro st ha hn
    have hres := hn (stepMT env st q).2 (by simp [traceMT])
    by_cases hq : q.r.out = .requestUnreadable
    · exfalso
      rw [stepMT_of_lost env st q hq] at hres
      exact hres (stepMTLost_spec st q).2.2.2.2.1
    simp only [execMT]
    rw [stepMT_of_read env st q hq] at hres ⊢
    apply ih _ (agree1_step env st q c ha hres)
    intro o ho
    apply hn o
    simp only [traceMT, List.mem_cons]
    right
    rw [stepMT_of_read env st q hq]; exact ho

theorem usedCurrent_step' (env : Env) (st : MTState) (q : MReq) (hI : Inv st) :
    (stepMT env st q).2.usedCurrent (stepMT env st q).1 q := by
  by_cases hl : q.r.out = .requestUnreadable
  · rw [stepMT_of_lost env st q hl]
    obtain ⟨_, _, _, hu, _, _⟩ := stepMTLost_spec st q
    intro u hu'; rw [hu] at hu'; cases hu'
  · rw [stepMT_of_read env st q hl]; exact usedCurrent_step env st q hI

theorem usedSupplied_step' (env : Env) (st : MTState) (q : MReq) (hI : Inv st)
    (ha : Agree1 st q.c) : (stepMT env st q).2.usedSupplied q := by
  by_cases hl : q.r.out = .requestUnreadable
  · rw [stepMT_of_lost env st q hl]
    obtain ⟨_, _, _, hu, _, _⟩ := stepMTLost_spec st q
    intro u hu'; rw [hu] at hu'; cases hu'
  · rw [stepMT_of_read env st q hl]; exact usedSupplied_step env st q hI ha

end EdbVerif.SyncMT
