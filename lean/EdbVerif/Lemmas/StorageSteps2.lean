/-
C05 helper lemmas, part 5: link-property renames / computed<->stored, creating and
dropping pointers, dropping a type.
-/
import EdbVerif.Lemmas.StorageSteps
namespace EdbVerif.Storage

theorem mem_mapLProp {p : Ptr} {lpid : Nat} {f : LProp → LProp} {l' : LProp} :
    l' ∈ (p.mapLProp lpid f).lprops ↔ ∃ l ∈ p.lprops, l' = if l.id = lpid then f l else l := by
  simp only [Ptr.mapLProp, List.mem_map]
  constructor
  · rintro ⟨l, hl, rfl⟩; exact ⟨l, hl, rfl⟩
  · rintro ⟨l, hl, rfl⟩; exact ⟨l, hl, rfl⟩

theorem mapLProp_ids (p : Ptr) (lpid : Nat) (f : LProp → LProp) (hf : ∀ l, (f l).id = l.id) :
    (p.mapLProp lpid f).lprops.map (·.id) = p.lprops.map (·.id) := by
  simp only [Ptr.mapLProp, List.map_map]
  apply List.map_congr_left
  intro l _
  by_cases h : l.id = lpid <;> simp [h, hf]

theorem lpropCols_mapLProp_congr {p : Ptr} {lpid : Nat} {f : LProp → LProp}
    (hf : ∀ l ∈ p.lprops, l.id = lpid → (f l).col = l.col ∧ (f l).computed = l.computed) :
    ∀ c, c ∈ (p.mapLProp lpid f).lpropCols ↔ c ∈ p.lpropCols := by
  intro c
  rw [mem_lpropCols, mem_lpropCols]
  constructor
  · rintro ⟨l', hl', h1, h2⟩
    obtain ⟨l, hl, rfl⟩ := mem_mapLProp.mp hl'
    by_cases h : l.id = lpid
    · simp only [h, if_true] at h1 h2
      obtain ⟨e1, e2⟩ := hf l hl h
      exact ⟨l, hl, by rw [← e2]; exact h1, by rw [h2, e1]⟩
    · simp only [h, if_false] at h1 h2
      exact ⟨l, hl, h1, h2⟩
  · rintro ⟨l, hl, h1, h2⟩
    refine ⟨_, mem_mapLProp.mpr ⟨l, hl, rfl⟩, ?_, ?_⟩
    · by_cases h : l.id = lpid
      · simp only [h, if_true]; rw [(hf l hl h).2]; exact h1
      · simp only [h, if_false]; exact h1
    · by_cases h : l.id = lpid
      · simp only [h, if_true]; rw [(hf l hl h).1, h2]
      · simp only [h, if_false]; exact h2

theorem mapLProp_noop {s : Schema} {c : Catalog} (w : WF s) (he : c.Equiv (layout s))
    {i : Nat} {p : Ptr} (hf : s.findPtr i = some p) (lpid : Nat) (f : LProp → LProp)
    (hid : ∀ l, (f l).id = l.id)
    (hfc : ∀ l ∈ p.lprops, l.id = lpid → (f l).computed = l.computed)
    (hcol : ∀ l ∈ p.lprops, l.id = lpid → (f l).col = l.col)
    (hin : ∀ l ∈ p.lprops, (f l).implicitName = false) :
    ∃ c', execAll c [] = some c' ∧ WF (s.updPtr i (fun q => q.mapLProp lpid f)) ∧
      c'.Equiv (layout (s.updPtr i (fun q => q.mapLProp lpid f))) := by
  obtain ⟨hp, hpi⟩ := findPtr_some hf
  have hnd : ((p.mapLProp lpid f).lprops.map (·.id)).Nodup := by
    rw [mapLProp_ids p lpid f hid]; exact w.lpids p hp
  have hln : ∀ l' ∈ (p.mapLProp lpid f).lprops, l'.implicitName = false := by
    intro l' hl'
    obtain ⟨l, hl, rfl⟩ := mem_mapLProp.mp hl'
    by_cases h : l.id = lpid
    · simp only [h, if_true]; exact hin l hl
    · simp only [h, if_false]; exact w.lpnames p hp l hl
  refine step_upd w he hf (fun q => q.mapLProp lpid f) (fun _ => rfl) rfl rfl (Or.inl rfl) hnd hln ?_
  have hcols := lpropCols_mapLProp_congr (p := p) (lpid := lpid) (f := f)
    (fun l hl h => ⟨hcol l hl h, hfc l hl h⟩)
  have hu := userProps_congr hcols
  have hht := hasTable_congr (p := p) (p' := p.mapLProp lpid f) rfl rfl rfl rfl hu
  exact local_noop hht (ptrCols_congr rfl rfl hht hcols)

theorem step_renameLProp {s s' : Schema} {c : Catalog} {ops : List Op} (w : WF s) (he : c.Equiv (layout s))
    (i lpid : Nat) (name : LName) (hsafe : safeStep s (.renameLProp i lpid name) = true)
    (hem : emit s (.renameLProp i lpid name) = some (s', ops)) :
    ∃ c', execAll c ops = some c' ∧ WF s' ∧ c'.Equiv (layout s') := by
  simp only [emit] at hem
  split at hem
  · cases hem
  · rename_i p hf
    split at hem
    · simp only [Option.some.injEq, Prod.mk.injEq] at hem
      obtain ⟨rfl, rfl⟩ := hem
      obtain ⟨hp, _⟩ := findPtr_some hf
      have hother : ∃ n, name = .other n := by
        simp only [safeStep, Bool.and_eq_true] at hsafe
        cases name with
        | other n => exact ⟨n, rfl⟩
        | source => simp at hsafe
        | target => simp at hsafe
      obtain ⟨n, rfl⟩ := hother
      refine mapLProp_noop w he hf lpid (fun l => { l with name := .other n }) (fun _ => rfl) (fun _ _ _ => rfl)
        ?_ (fun _ _ => rfl)
      intro l hl _
      rw [col_of_plain (w.lpnames p hp l hl)]
      rfl
    · cases hem

theorem step_setLPropComputed {s s' : Schema} {c : Catalog} {ops : List Op} (w : WF s)
    (he : c.Equiv (layout s)) (i lpid : Nat) (b : Bool)
    (hem : emit s (.setLPropComputed i lpid b) = some (s', ops)) :
    ∃ c', execAll c ops = some c' ∧ WF s' ∧ c'.Equiv (layout s') := by
  simp only [emit] at hem
  split at hem
  · cases hem
  · rename_i p hf
    obtain ⟨hp, hpi⟩ := findPtr_some hf
    split at hem
    · cases hem
    · rename_i lp hfind
      obtain ⟨hlp, hlpid⟩ := find_lp hfind
      have hnd0 := w.lpids p hp
      have honly : ∀ l ∈ p.lprops, l.id = lpid → l = lp := fun l hl h => nodup_lp hnd0 hl hlp (by rw [h, hlpid])
      have hnd : ((p.mapLProp lpid (fun l => { l with computed := b })).lprops.map (·.id)).Nodup := by
        rw [mapLProp_ids p lpid (fun l => { l with computed := b }) (fun _ => rfl)]; exact hnd0
      have hpl := w.lpnames p hp
      have hln : ∀ (b' : Bool), ∀ l' ∈ (p.mapLProp lpid (fun l => { l with computed := b' })).lprops,
          l'.implicitName = false := by
        intro b' l' hl'
        obtain ⟨l, hl, rfl⟩ := mem_mapLProp.mp hl'
        by_cases h : l.id = lpid
        · simp only [h, if_true]; exact hpl l hl
        · simp only [h, if_false]; exact hpl l hl
      rw [col_of_plain (hpl lp hlp), hpl lp hlp, hlpid] at hem
      split at hem
      · rename_i hsame
        simp only [Option.some.injEq, Prod.mk.injEq] at hem
        obtain ⟨rfl, rfl⟩ := hem
        refine mapLProp_noop w he hf lpid (fun l => { l with computed := b }) (fun _ => rfl) ?_
          (fun _ _ _ => rfl) (fun l hl => hpl l hl)
        intro l hl h
        rw [honly l hl h]; exact hsame.symm
      · rename_i hdiff
        split at hem
        · rename_i hb
          subst hb
          have hlc : lp.computed = false := by cases h : lp.computed <;> simp_all
          simp only [Option.some.injEq, Prod.mk.injEq] at hem
          obtain ⟨rfl, rfl⟩ := hem
          refine step_upd w he hf (fun q => q.mapLProp lpid (fun l => { l with computed := true }))
            (fun _ => rfl) rfl rfl (Or.inl rfl) hnd (hln true) ?_
          have hcols : ∀ c, c ∈ (p.mapLProp lpid (fun l => { l with computed := true })).lpropCols ↔
              c ≠ .col lpid ∧ c ∈ p.lpropCols := by
            intro c
            rw [mem_lpropCols_plain (hln true), mem_lpropCols_plain hpl]
            constructor
            · rintro ⟨l', hl', h1, h2⟩
              obtain ⟨l, hl, rfl⟩ := mem_mapLProp.mp hl'
              by_cases h : l.id = lpid
              · simp [h] at h1
              · simp only [h, if_false] at h1 h2
                exact ⟨by rw [h2]; simpa using h, l, hl, h1, h2⟩
            · rintro ⟨hne, l, hl, h1, h2⟩
              have h : l.id ≠ lpid := by rintro rfl; exact hne h2
              exact ⟨_, mem_mapLProp.mpr ⟨l, hl, rfl⟩, by simp [h, h1], by simp [h, h2]⟩
          have hold : CName.col lpid ∈ p.lpropCols := (mem_lpropCols_plain hpl).mpr ⟨lp, hlp, hlc, by rw [hlpid]⟩
          have hu := userProps_of_lpropCols (p' := p)
            (p := p.mapLProp lpid (fun l => { l with computed := true })) (fun c hc => ((hcols c).mp hc).2)
          exact local_lpropUnstore (p := p) (p' := p.mapLProp lpid (fun l => { l with computed := true }))
            rfl rfl hcols hold
            (hasTable_mono (p' := p) (p := p.mapLProp lpid (fun l => { l with computed := true }))
              rfl rfl rfl rfl hu)
        · rename_i hb
          have hb : b = false := by simpa using hb
          subst hb
          have hlc : lp.computed = true := by cases h : lp.computed <;> simp_all
          simp only [Option.some.injEq, Prod.mk.injEq] at hem
          obtain ⟨rfl, rfl⟩ := hem
          refine step_upd w he hf (fun q => q.mapLProp lpid (fun l => { l with computed := false }))
            (fun _ => rfl) rfl rfl (Or.inl rfl) hnd (hln false) ?_
          have hcols : ∀ c, c ∈ (p.mapLProp lpid (fun l => { l with computed := false })).lpropCols ↔
              c = .col lpid ∨ c ∈ p.lpropCols := by
            intro c
            rw [mem_lpropCols_plain (hln false), mem_lpropCols_plain hpl]
            constructor
            · rintro ⟨l', hl', h1, h2⟩
              obtain ⟨l, hl, rfl⟩ := mem_mapLProp.mp hl'
              by_cases h : l.id = lpid
              · simp only [h, if_true] at h2
                exact Or.inl (by rw [h2])
              · simp only [h, if_false] at h1 h2
                exact Or.inr ⟨l, hl, h1, h2⟩
            · rintro (rfl | ⟨l, hl, h1, h2⟩)
              · exact ⟨_, mem_mapLProp.mpr ⟨lp, hlp, rfl⟩, by simp [hlpid], by simp [hlpid]⟩
              · refine ⟨_, mem_mapLProp.mpr ⟨l, hl, rfl⟩, ?_, ?_⟩
                · by_cases h : l.id = lpid <;> simp [h, h1]
                · by_cases h : l.id = lpid <;> simp [h, h2]
          have hnew : CName.col lpid ∉ p.lpropCols := by
            rw [mem_lpropCols_plain hpl]
            rintro ⟨l, hl, h1, h2⟩
            have := honly l hl (CName.col.inj h2).symm
            rw [this, hlc] at h1; cases h1
          have hu := userProps_of_lpropCols (p := p)
            (p' := p.mapLProp lpid (fun l => { l with computed := false })) (fun c hc => (hcols c).mpr (Or.inr hc))
          exact local_lpropStore (p := p) (p' := p.mapLProp lpid (fun l => { l with computed := false }))
            rfl rfl hcols hnew (hasTable_mono rfl rfl rfl rfl hu) (lpropCols_nil_of_table rfl rfl rfl rfl)


/-! ### creating and dropping pointers -/

theorem wf_filter_ptrs {s : Schema} (w : WF s) (g : Ptr → Bool) : WF { s with ptrs := s.ptrs.filter g } := by
  refine ⟨?_, ?_, ?_, ?_, fun a ha => w.lpnames a (List.mem_filter.mp ha).1⟩
  · exact List.Nodup.sublist (List.Sublist.map _ List.filter_sublist) w.ids
  · intro a ha b hb
    exact w.names a ((List.mem_filter.mp ha).1) b ((List.mem_filter.mp hb).1)
  · intro a ha; exact w.srcs a ((List.mem_filter.mp ha).1)
  · intro a ha; exact w.lpids a ((List.mem_filter.mp ha).1)

theorem step_dropPtr {s s' : Schema} {c : Catalog} {ops : List Op} (w : WF s) (he : c.Equiv (layout s))
    (i : Nat) (hem : emit s (.dropPtr i) = some (s', ops)) :
    ∃ c', execAll c ops = some c' ∧ WF s' ∧ c'.Equiv (layout s') := by
  simp only [emit] at hem
  split at hem
  · cases hem
  · rename_i p hf
    obtain ⟨hp, hpi⟩ := findPtr_some hf
    simp only [Option.some.injEq, Prod.mk.injEq] at hem
    obtain ⟨rfl, rfl⟩ := hem
    have hd := dead_computed p p.single
    obtain ⟨c', e, w1, h1⟩ := step_upd w he hf (fun q => { q with computed := true }) (fun _ => rfl) rfl rfl
      (Or.inl rfl) (w.lpids p hp) (w.lpnames p hp) (local_unstore (p := p) hd.1 hd.2)
    refine ⟨c', e, wf_filter_ptrs w _, equiv_trans h1 (layout_congr (fun _ => Iff.rfl) ?_)⟩
    intro q hq
    rw [mem_updPtr w hf]
    simp only [List.mem_filter, ne_eq, decide_eq_true_eq]
    constructor
    · rintro (rfl | h)
      · exact absurd hd hq
      · exact h
    · intro h; exact Or.inr h

theorem step_createPtr {s s' : Schema} {c : Catalog} {ops : List Op} (w : WF s) (he : c.Equiv (layout s))
    (p : Ptr) (hem : emit s (.createPtr p) = some (s', ops)) :
    ∃ c', execAll c ops = some c' ∧ WF s' ∧ c'.Equiv (layout s') := by
  simp only [emit] at hem
  split at hem
  · cases hem
  · rename_i hcond
    simp only [Bool.or_eq_true, decide_eq_true_eq, Bool.not_eq_eq_eq_not, Bool.not_true, not_or,
      Bool.not_eq_true] at hcond
    obtain ⟨⟨hfresh, hname⟩, hlps⟩ := hcond
    have hlps : p.lprops = [] := by simpa using hlps
    · simp only [Option.ite_none_left_eq_some, Option.some.injEq, Prod.mk.injEq] at hem
      obtain ⟨hsrcok, rfl, rfl⟩ := hem
      -- first add the pointer without storage, then store it
      let dead : Ptr := { p with computed := true }
      have hd : Dead dead := dead_computed p p.single
      let s0 : Schema := { s with ptrs := s.ptrs ++ [dead] }
      have hne : ∀ q ∈ s.ptrs, q.id ≠ p.id := by
        intro q hq h; exact hfresh (h ▸ mem_ptrIds_of_mem hq)
      have w0 : WF s0 := by
        refine ⟨?_, ?_, ?_, ?_, ?_⟩
        · show (List.map (·.id) (s.ptrs ++ [dead])).Nodup
          rw [List.map_append, List.nodup_append]
          refine ⟨w.ids, by simp, ?_⟩
          intro a ha b hb
          simp only [List.map_cons, List.map_nil, List.mem_singleton] at hb
          rw [hb]; rintro rfl; exact hfresh ha
        · intro a ha b hb hs hn
          have hnu : ∀ q ∈ s.ptrs, q.src = p.src → q.name = p.name → False := by
            intro q hq h1 h2
            simp only [Schema.nameUsed, List.any_eq_false, Bool.and_eq_true, beq_iff_eq, not_and] at hname
            exact hname q hq h1 h2
          rcases List.mem_append.mp ha with ha | ha <;> rcases List.mem_append.mp hb with hb | hb
          · exact w.names a ha b hb hs hn
          · rw [List.mem_singleton.mp hb] at hs hn
            exact (hnu a ha hs hn).elim
          · rw [List.mem_singleton.mp ha] at hs hn
            exact (hnu b hb hs.symm hn.symm).elim
          · rw [List.mem_singleton.mp ha, List.mem_singleton.mp hb]
        · intro a ha t ht
          rcases List.mem_append.mp ha with ha | ha
          · exact w.srcs a ha t ht
          · rw [List.mem_singleton.mp ha] at ht
            have ht : p.src = some t := ht
            rw [ht] at hsrcok
            show t ∈ s.typeIds
            simpa using hsrcok
        · intro a ha
          rcases List.mem_append.mp ha with ha | ha
          · exact w.lpids a ha
          · rw [List.mem_singleton.mp ha]
            show (List.map (·.id) p.lprops).Nodup
            rw [hlps]; simp
        · intro a ha lp hlp
          rcases List.mem_append.mp ha with ha | ha
          · exact w.lpnames a ha lp hlp
          · rw [List.mem_singleton.mp ha] at hlp
            have hlp : lp ∈ p.lprops := hlp
            rw [hlps] at hlp; cases hlp
      have he0 : c.Equiv (layout s0) := by
        refine equiv_trans he (layout_congr (fun _ => Iff.rfl) ?_)
        intro q hq
        show q ∈ s.ptrs ↔ q ∈ s.ptrs ++ [dead]
        rw [List.mem_append, List.mem_singleton]
        constructor
        · exact Or.inl
        · rintro (h | rfl)
          · exact h
          · exact absurd hd hq
      have hf0 : s0.findPtr p.id = some dead := by
        show List.find? (fun q => q.id == p.id) (s.ptrs ++ [dead]) = some dead
        rw [List.find?_append]
        have : List.find? (fun q => q.id == p.id) s.ptrs = none := by
          rw [List.find?_eq_none]
          intro q hq; simpa using hne q hq
        rw [this]
        simp [dead]
      have hup : p.userProps = false := by simp [Ptr.userProps, hlps]
      obtain ⟨c', e, w1, h1⟩ := step_upd w0 he0 hf0 (fun q => { q with computed := p.computed })
        (fun _ => rfl) rfl rfl (Or.inl rfl) (by show (List.map (·.id) p.lprops).Nodup; rw [hlps]; simp)
        (by intro lp hlp; have hlp : lp ∈ p.lprops := hlp; rw [hlps] at hlp; cases hlp)
        (local_store (p := dead) (p' := p) rfl rfl rfl hd.1 hd.2 hup)
      have hs' : s0.updPtr p.id (fun q => { q with computed := p.computed }) = { s with ptrs := s.ptrs ++ [p] } := by
        show ({ s with ptrs := List.map _ (s.ptrs ++ [dead]) } : Schema) = _
        congr 1
        rw [List.map_append]
        congr 1
        · conv => rhs; rw [← List.map_id s.ptrs]
          apply List.map_congr_left
          intro q hq
          simp [hne q hq]
        · simp [dead]
      rw [hs'] at w1 h1
      exact ⟨c', e, w1, h1⟩

/-! ### dropping a type -/

theorem execAll_dropPtrTables (l : List Ptr) (c : Catalog) (hnd : (l.map (·.id)).Nodup)
    (hin : ∀ q ∈ l, TName.ptr q.id ∈ c.tables) :
    ∃ c', execAll c (l.map dropPtrTable) = some c' ∧
      (∀ u, u ∈ c'.tables ↔ u ∈ c.tables ∧ ∀ q ∈ l, u ≠ .ptr q.id) ∧
      (∀ x, x ∈ c'.cols ↔ x ∈ c.cols ∧ ∀ q ∈ l, x.1 ≠ .ptr q.id) := by
  induction l generalizing c with
  | nil => exact ⟨c, rfl, by simp, by simp⟩
  | cons q l ih =>
    simp only [List.map_cons, List.nodup_cons, List.mem_map, not_exists, not_and] at hnd
    obtain ⟨c1, e1, hT1, hC1⟩ := exec_dropTable (q.kind == .link) (hin q (List.mem_cons_self))
    have hin1 : ∀ q' ∈ l, TName.ptr q'.id ∈ c1.tables := by
      intro q' hq'
      rw [hT1]
      refine ⟨?_, hin q' (List.mem_cons_of_mem _ hq')⟩
      intro h; exact hnd.1 q' hq' (TName.ptr.inj h)
    obtain ⟨c2, e2, hT2, hC2⟩ := ih c1 hnd.2 hin1
    refine ⟨c2, ?_, ?_, ?_⟩
    · simp only [List.map_cons]
      rw [execAll_cons _ (by simpa [dropPtrTable] using e1)]; exact e2
    · intro u; rw [hT2, hT1]; simp only [List.mem_cons, forall_eq_or_imp]; grind
    · intro x; rw [hC2, hC1]; simp only [List.mem_cons, forall_eq_or_imp]; grind

theorem step_dropType {s s' : Schema} {c : Catalog} {ops : List Op} (w : WF s) (he : c.Equiv (layout s))
    (t : Nat) (hem : emit s (.dropType t) = some (s', ops)) :
    ∃ c', execAll c ops = some c' ∧ WF s' ∧ c'.Equiv (layout s') := by
  simp only [emit] at hem
  split at hem
  · rename_i ht
    simp only [Option.some.injEq, Prod.mk.injEq] at hem
    obtain ⟨rfl, rfl⟩ := hem
    let L := (s.ptrs.filter (fun p => p.src = some t)).filter (·.hasTable)
    have hL : ∀ q, q ∈ L ↔ q ∈ s.ptrs ∧ q.src = some t ∧ q.hasTable = true := by
      intro q; simp only [L, List.mem_filter, decide_eq_true_eq]; grind
    have hnd : (L.map (·.id)).Nodup :=
      List.Nodup.sublist (List.Sublist.map _ ((List.filter_sublist).trans List.filter_sublist)) w.ids
    have hin : ∀ q ∈ L, TName.ptr q.id ∈ c.tables := by
      intro q hq
      obtain ⟨hq1, _, hq3⟩ := (hL q).mp hq
      rw [he.1, mem_layout_tables]
      exact Or.inr ⟨q, hq1, mem_ptrTables.mpr ⟨hq3, rfl⟩⟩
    obtain ⟨c1, e1, hT1, hC1⟩ := execAll_dropPtrTables L c hnd hin
    have hobj : TName.obj t ∈ c1.tables := by
      rw [hT1]
      refine ⟨?_, fun q _ h => by cases h⟩
      rw [he.1, mem_layout_tables]
      simp only [Schema.typeIds, List.mem_map] at ht
      obtain ⟨d, hd, rfl⟩ := ht
      exact Or.inl ⟨d, hd, rfl⟩
    obtain ⟨c2, e2, hT2, hC2⟩ := exec_dropTable false hobj
    refine ⟨c2, ?_, ?_, ?_, ?_⟩
    · rw [execAll_append, e1]; simp only [Option.bind_some]
      rw [execAll_cons _ e2, execAll_nil]
    · refine ⟨?_, ?_, ?_, ?_, fun a ha => w.lpnames a (List.mem_filter.mp ha).1⟩
      · exact List.Nodup.sublist (List.Sublist.map _ List.filter_sublist) w.ids
      · intro a ha b hb
        exact w.names a ((List.mem_filter.mp ha).1) b ((List.mem_filter.mp hb).1)
      · intro a ha u hu
        have ha' := List.mem_filter.mp ha
        have := w.srcs a ha'.1 u hu
        simp only [Schema.typeIds, List.mem_map, List.mem_filter] at this ⊢
        obtain ⟨d, hd, rfl⟩ := this
        refine ⟨d, ⟨hd, ?_⟩, rfl⟩
        have h2 := ha'.2
        simp only [ne_eq, decide_eq_true_eq] at h2 ⊢
        intro h; exact h2 (by rw [hu, h])
      · intro a ha; exact w.lpids a ((List.mem_filter.mp ha).1)
    · intro u
      rw [hT2, hT1, he.1, mem_layout_tables, mem_layout_tables]
      simp only [List.mem_filter, ne_eq, decide_eq_true_eq]
      constructor
      · rintro ⟨hne, (⟨d, hd, rfl⟩ | ⟨q, hq, hqt⟩), hall⟩
        · exact Or.inl ⟨d, ⟨hd, fun h => hne (by rw [h])⟩, rfl⟩
        · obtain ⟨hq3, rfl⟩ := mem_ptrTables.mp hqt
          refine Or.inr ⟨q, ⟨hq, ?_⟩, hqt⟩
          intro hs
          exact hall q ((hL q).mpr ⟨hq, hs, hq3⟩) rfl
      · rintro (⟨d, ⟨hd, hne⟩, rfl⟩ | ⟨q, ⟨hq, hs⟩, hqt⟩)
        · exact ⟨fun h => hne (TName.obj.inj h), Or.inl ⟨d, hd, rfl⟩, fun _ _ h => by cases h⟩
        · obtain ⟨hq3, rfl⟩ := mem_ptrTables.mp hqt
          refine ⟨(fun h => by cases h), Or.inr ⟨q, hq, hqt⟩, ?_⟩
          intro q' hq' h
          have : q = q' := w.eq_of_id hq ((hL q').mp hq').1 (TName.ptr.inj h)
          subst this
          exact hs ((hL q).mp hq').2.1
    · intro x
      rw [hC2, hC1, he.2, mem_layout_cols, mem_layout_cols]
      simp only [List.mem_filter, ne_eq, decide_eq_true_eq]
      constructor
      · rintro ⟨hne, ⟨q, hq, hx⟩, hall⟩
        refine ⟨q, ⟨hq, ?_⟩, hx⟩
        intro hs
        rcases mem_ptrCols.mp hx with h | ⟨h1, h2, _⟩
        · obtain ⟨t', hs', _, _, _, rfl⟩ := srcCol_eq_some.mp h
          rw [hs] at hs'
          exact hne (by rw [Option.some.inj hs'])
        · exact hall q ((hL q).mpr ⟨hq, hs, h1⟩) h2
      · rintro ⟨q, ⟨hq, hs⟩, hx⟩
        refine ⟨?_, ⟨q, hq, hx⟩, ?_⟩
        · rcases mem_ptrCols.mp hx with h | ⟨_, h2, _⟩
          · obtain ⟨t', hs', _, _, _, rfl⟩ := srcCol_eq_some.mp h
            intro h; exact hs (by rw [hs', TName.obj.inj h])
          · rw [h2]; intro h; cases h
        · intro q' hq' h
          rcases mem_ptrCols.mp hx with h0 | ⟨_, h2, _⟩
          · obtain ⟨t', _, _, _, _, rfl⟩ := srcCol_eq_some.mp h0
            cases h
          · rw [h2] at h
            have : q = q' := w.eq_of_id hq ((hL q').mp hq').1 (TName.ptr.inj h)
            subst this
            exact hs ((hL q).mp hq').2.1
  · cases hem

end EdbVerif.Storage
