/-
C07 — exact coverage of the rewrite plan where the hierarchy below the selected
type is a forest (no diamonds, no redundant bases below it): every visible
object of the type or a subtype is yielded exactly as often as it is stored.
-/
import EdbVerif.Lemmas.PolicyPlan

namespace EdbVerif.Policy

/-! ### more facts about stored ancestors -/

theorem anc_rank {sch : Schema} (wf : WF sch) : ∀ (n : Nat) (d a : TypeId), rank sch d = n →
    a ∈ ancestorsOf sch d → rank sch a < rank sch d := by
  intro n
  induction n using Nat.strongRecOn with
  | ind n ih =>
    intro d a hn ha
    obtain ⟨b, hdb, r⟩ := anc_base wf ha
    have hr := rank_child wf hdb
    rcases r with rfl | hb
    · exact hr.1
    · have := ih (rank sch b) (by omega) b a rfl hb
      omega

theorem anc_material {sch : Schema} (wf : WF sch) : ∀ (n : Nat) (d a : TypeId), rank sch d = n →
    a ∈ ancestorsOf sch d → isMaterial sch a = true := by
  intro n
  induction n using Nat.strongRecOn with
  | ind n ih =>
    intro d a hn ha
    obtain ⟨b, hdb, r⟩ := anc_base wf ha
    have hr := rank_child wf hdb
    rcases r with rfl | hb
    · exact child_material wf hdb
    · exact ih (rank sch b) (by omega) b a rfl hb

/-- the first step down from an ancestor -/
theorem anc_first_step {sch : Schema} (wf : WF sch) {t : TypeId} : ∀ (n : Nat) (d : TypeId),
    rank sch d = n → t ∈ ancestorsOf sch d →
    ∃ c ∈ children sch t, d = c ∨ c ∈ ancestorsOf sch d := by
  intro n
  induction n using Nat.strongRecOn with
  | ind n ih =>
    intro d hn ht
    obtain ⟨b, hdb, r⟩ := anc_base wf ht
    have hr := rank_child wf hdb
    rcases r with rfl | hb
    · exact ⟨d, hdb, Or.inl rfl⟩
    · obtain ⟨c, hc, r2⟩ := ih (rank sch b) (by omega) b rfl hb
      refine ⟨c, hc, Or.inr ?_⟩
      rcases r2 with rfl | h2
      · exact child_anc wf hdb
      · exact anc_up wf hdb h2

theorem children_nodup {sch : Schema} (wf : WF sch) (t : TypeId) : (children sch t).Nodup := by
  unfold children
  exact List.Nodup.sublist (List.Sublist.map _ List.filter_sublist) wf.nodup

/-! ### cones -/

theorem inCone_iff {sch : Schema} {t d : TypeId} :
    inCone sch t d = true ↔ d = t ∨ t ∈ ancestorsOf sch d := by
  simp [inCone]

theorem inCone_child {sch : Schema} (wf : WF sch) {t c s : TypeId} (hc : c ∈ children sch t)
    (h : inCone sch c s = true) : inCone sch t s = true := by
  rw [inCone_iff] at h ⊢
  right
  rcases h with rfl | h
  · exact child_anc wf hc
  · exact anc_trans wf _ s c t rfl h (child_anc wf hc)

/-- Below `t` the hierarchy is a forest and the overlap branch of
    `try_type_rewrite` is never taken. -/
structure Regular (sch : Schema) (t : TypeId) : Prop where
  tree : TreeBelow sch t
  noOverlap : ∀ s, inCone sch t s = true → childrenOverlap sch ⟨s, false⟩ = false

theorem Regular.child {sch : Schema} (wf : WF sch) {t c : TypeId} (h : Regular sch t)
    (hc : c ∈ children sch t) : Regular sch c :=
  ⟨fun s hs => h.tree s (inCone_child wf hc hs), fun s hs => h.noOverlap s (inCone_child wf hc hs)⟩

/-! ### the policies in a quiet cone -/

theorem polsOf_cone_equiv {sch : Schema} (wf : WF sch) {t : TypeId} (o : Obj)
    (hq : o.ty ≠ t → QuietBelow sch t) (hin : o.ty = t ∨ t ∈ ancestorsOf sch o.ty)
    (hm : isMaterial sch o.ty = true) : ∀ p, p ∈ polsOf sch o.ty ↔ p ∈ polsOf sch t := by
  by_cases hty : o.ty = t
  · intro p; rw [hty]
  · have ht : t ∈ ancestorsOf sch o.ty := by
      rcases hin with h | h
      · exact absurd h hty
      · exact h
    intro p
    exact ⟨(quiet_desc wf (hq hty) _ o.ty rfl ht).1 p, inherit_desc wf _ o.ty rfl hm ht p⟩

theorem isEmpty_congr {α} {l₁ l₂ : List α} (h : ∀ p, p ∈ l₁ ↔ p ∈ l₂) : l₁.isEmpty = l₂.isEmpty := by
  rw [Bool.eq_iff_iff, List.isEmpty_iff, List.isEmpty_iff, List.eq_nil_iff_forall_not_mem,
    List.eq_nil_iff_forall_not_mem]
  exact ⟨fun h1 p hp => h1 p ((h p).2 hp), fun h1 p hp => h1 p ((h p).1 hp)⟩

theorem visible_eq_of_cone {sch : Schema} (wf : WF sch) (holds : CondId → Obj → Bool) {t : TypeId} (o : Obj)
    (hq : o.ty ≠ t → QuietBelow sch t) (hin : o.ty = t ∨ t ∈ ancestorsOf sch o.ty)
    (hm : isMaterial sch o.ty = true) :
    visible sch holds o =
      ((polsOf sch t).isEmpty || decision .select (polsOf sch t) (fun c => holds c o)) := by
  show ((polsOf sch o.ty).isEmpty || decision .select (polsOf sch o.ty) (fun c => holds c o)) = _
  have he := polsOf_cone_equiv wf o hq hin hm
  rw [isEmpty_congr he, decision_congr .select _ _ _ he]

/-! ### counting -/

theorem countP_unique {α} (l : List α) (hn : l.Nodup) (a : α) (ha : a ∈ l) (q : α → Bool)
    (hq : q a = true) (hu : ∀ x ∈ l, q x = true → x = a) : l.countP q = 1 := by
  induction l with
  | nil => cases ha
  | cons x xs ih =>
    rw [List.nodup_cons] at hn
    rw [List.countP_cons]
    by_cases hxa : x = a
    · subst hxa
      have : xs.countP q = 0 := by
        rw [List.countP_eq_zero]
        intro y hy hqy
        have := hu y (by simp [hy]) hqy
        exact hn.1 (this ▸ hy)
      simp [this, hq]
    · have hax : a ∈ xs := by
        rcases List.mem_cons.1 ha with h | h
        · exact absurd h.symm hxa
        · exact h
      have hqx : q x = false := by
        cases h : q x
        · rfl
        · exact absurd (hu x (by simp) h) hxa
      rw [ih hn.2 hax (fun y hy => hu y (by simp [hy]))]
      simp [hqx]

theorem sum_indicator {α} (l : List α) (q : α → Bool) (c : Nat) :
    (l.map (fun x => if q x = true then c else 0)).sum = c * l.countP q := by
  induction l with
  | nil => simp
  | cons x xs ih =>
    rw [List.map_cons, List.sum_cons, ih, List.countP_cons]
    cases q x <;> simp [Nat.mul_add, Nat.add_comm]

theorem count_filter_ite (db : DB) (p : Obj → Bool) (o : Obj) :
    (db.filter p).count o = if p o = true then db.count o else 0 := by
  cases hp : p o
  · simp only [Bool.false_eq_true, ↓reduceIte]
    apply List.count_eq_zero_of_not_mem
    rw [List.mem_filter]
    intro h
    rw [hp] at h
    exact absurd h.2 (by simp)
  · simp only [↓reduceIte]
    exact List.count_filter hp

/-- the parts of a union entry when the overlap branch is not taken -/
theorem entry_union_parts {sch : Schema} {k : Key} {ks : List Key} (h : entry sch k = .union ks)
    (ho : childrenOverlap sch k = false) :
    ks = (if isAbstract sch k.ty then [] else [⟨k.ty, true⟩]) ++
      ((children sch k.ty).map (fun c => (⟨c, false⟩ : Key))).filter (fun k' => isMaterial sch k'.ty) := by
  have hc := (entry_union h).1
  unfold entry at h
  simp only [hc, Bool.not_true, Bool.and_false, Bool.false_eq_true, ↓reduceIte, ho,
    Entry.union.injEq] at h
  exact h.symm

/-- a part of a union entry only reads inside the scope of the key -/
theorem inScope_part {sch : Schema} (wf : WF sch) {k : Key} {ks : List Key} (he : entry sch k = .union ks)
    {k' : Key} (hk' : k' ∈ ks) {o : Obj} (hsc : inScope sch k' o = true) : inScope sch k o = true := by
  obtain ⟨hc, hks⟩ := entry_union he
  have hskip := chp_true hc
  have hin := inScope_iff.1 hsc
  rw [inScope_iff]
  rcases hks k' hk' with ⟨rfl, _⟩ | ⟨⟨_, hch, _⟩ | ⟨hs, hd, _⟩, _⟩
  · rcases hin with h1 | h1
    · exact Or.inl h1
    · simp at h1
  · right
    refine ⟨hskip, ?_⟩
    rcases hin with h1 | h1
    · rw [h1]; exact child_anc wf hch
    · exact anc_trans wf _ o.ty k'.ty k.ty rfl h1.2 (child_anc wf hch)
  · right
    refine ⟨hskip, ?_⟩
    rcases hin with h1 | h1
    · rw [h1]; exact mem_allDescs wf hd
    · rw [hs] at h1; simp at h1

/-- **Exact coverage on forests.**  Counting version: for a key whose type has a
    forest below it, reading the key yields every object in scope that is
    visible exactly as often as the database holds it, and nothing else. -/
theorem evalKey_count {sch : Schema} (wf : WF sch) (holds : CondId → Obj → Bool) (db : DB)
    (hdb : WFDB sch db) :
    ∀ (n : Nat) (k : Key), need sch k ≤ n → (k.skip = false → Regular sch k.ty) → ∀ o : Obj,
      (evalKey sch holds db n k).count o
        = (db.filter (fun x => inScope sch k x && visible sch holds x)).count o := by
  intro n
  induction n with
  | zero => intro k hn; unfold need at hn; split at hn <;> omega
  | succ n ih =>
    intro k hn hreg o
    cases he : entry sch k with
    | none =>
      have hE : evalKey sch holds db (n + 1) k = db.filter (inScope sch k) := by
        rw [evalKey_succ, he]
      rw [hE]
      congr 1
      apply List.filter_congr
      intro x hx
      cases hin : inScope sch k x
      · rfl
      · have : x ∈ evalKey sch holds db (n + 1) k := by rw [hE, List.mem_filter]; exact ⟨hx, hin⟩
        rw [(evalKey_sound wf holds db _ _ x this).2.2]; rfl
    | filter f =>
      have hE : evalKey sch holds db (n + 1) k
          = db.filter (fun o => inScope sch k o && denote (fun c => holds c o) f) := by
        rw [evalKey_succ, he]
      rw [hE]
      congr 1
      apply List.filter_congr
      intro x hx
      cases hin : inScope sch k x
      · rfl
      · obtain ⟨hc, hf⟩ := entry_filter he
        have hin' := inScope_iff.1 hin
        have hm := (hdb x hx).2.1
        have hne : (polsOf sch k.ty).isEmpty = false := by
          cases hp : (polsOf sch k.ty).isEmpty
          · rfl
          · have : rewriteFilter .select (polsOf sch k.ty) = none :=
              (rewriteFilter_none_iff _ _).2 (List.isEmpty_iff.1 hp)
            rw [this] at hf; cases hf
        rw [visible_eq_of_cone wf holds x (t := k.ty) ?_ ?_ hm, hne,
          denote_rewriteFilter .select _ f hf]
        · rfl
        · intro hne'
          rcases hin' with h1 | h1
          · exact absurd h1 hne'
          · exact chp_false_quiet hc h1.1
        · rcases hin' with h1 | h1
          · exact Or.inl h1
          · exact Or.inr h1.2
    | union ks =>
      obtain ⟨hc, hks⟩ := entry_union he
      have hskip := chp_true hc
      have hreg' := hreg hskip
      have hk : k = ⟨k.ty, false⟩ := by cases k; simp_all
      have ho : childrenOverlap sch k = false := by
        rw [hk]; exact hreg'.noOverlap k.ty (by simp [inCone])
      have hparts := entry_union_parts he ho
      obtain ⟨c0, hc0⟩ := chp_true_child hc
      have hr0 := rank_child wf hc0
      have hn' : sch.length - rank sch k.ty ≤ n := by
        unfold need at hn
        simp only [hskip, Bool.false_eq_true, ↓reduceIte] at hn
        omega
      -- every part, by induction hypothesis
      have hpart : ∀ k' ∈ ks, (evalKey sch holds db n k').count o
          = if (inScope sch k' o && visible sch holds o) = true then db.count o else 0 := by
        intro k' hk'
        rw [← count_filter_ite db (fun x => inScope sch k' x && visible sch holds x) o]
        rcases hks k' hk' with ⟨rfl, _⟩ | ⟨⟨hs, hch, _⟩ | ⟨hs, _, hov⟩, _⟩
        · exact ih _ (by unfold need; simp; omega) (by simp) o
        · have hr := rank_child wf hch
          refine ih _ (by unfold need; simp only [hs, Bool.false_eq_true, ↓reduceIte]; omega) ?_ o
          intro _
          exact hreg'.child wf hch
        · rw [ho] at hov; cases hov
      rw [evalKey_succ, he]
      simp only
      rw [List.count_flatMap, List.map_congr_left (g := fun k' =>
        if (inScope sch k' o && visible sch holds o) = true then db.count o else 0)
        (fun k' hk' => by simpa using hpart k' hk'),
        sum_indicator, count_filter_ite]
      -- how many parts have the object in scope
      cases hv : visible sch holds o
      · simp
      · simp only [Bool.and_true]
        cases hin : inScope sch k o
        · have : ks.countP (fun k' => inScope sch k' o) = 0 := by
            rw [List.countP_eq_zero]
            intro a ha hsa
            rw [inScope_part wf he ha hsa] at hin
            cases hin
          simp [this]
        · simp only [↓reduceIte]
          by_cases hmem : o ∈ db
          · suffices h1 : ks.countP (fun k' => inScope sch k' o) = 1 by rw [h1]; simp
            obtain ⟨_, hmat, habs⟩ := hdb o hmem
            rw [hparts, List.countP_append, List.countP_filter, List.countP_map]
            have hin' := inScope_iff.1 hin
            by_cases hty : o.ty = k.ty
            · -- the object sits in the type's own table
              have h1 : (if isAbstract sch k.ty = true then [] else [(⟨k.ty, true⟩ : Key)]).countP
                  (fun k' => inScope sch k' o) = 1 := by
                rw [← hty, habs]
                simp [inScope]
              have h2 : (children sch k.ty).countP
                  ((fun a : Key => inScope sch a o && isMaterial sch a.ty) ∘ fun c => (⟨c, false⟩ : Key)) = 0 := by
                rw [List.countP_eq_zero]
                intro c hcc hq
                simp only [Function.comp_apply, Bool.and_eq_true] at hq
                have hr := rank_child wf hcc
                rcases inScope_iff.1 hq.1 with h3 | h3
                · simp only at h3
                  rw [hty] at h3
                  rw [h3] at hr
                  omega
                · have := anc_rank wf _ o.ty c rfl h3.2
                  rw [hty] at this
                  omega
              rw [h1, h2]
            · have ht : k.ty ∈ ancestorsOf sch o.ty := by
                rcases hin' with h3 | h3
                · exact absurd h3 hty
                · exact h3.2
              have h1 : (if isAbstract sch k.ty = true then [] else [(⟨k.ty, true⟩ : Key)]).countP
                  (fun k' => inScope sch k' o) = 0 := by
                rw [List.countP_eq_zero]
                intro a ha hq
                have : a = ⟨k.ty, true⟩ := by
                  split at ha
                  · cases ha
                  · simpa using ha
                rw [this] at hq
                rcases inScope_iff.1 hq with h3 | h3
                · exact hty h3
                · simp at h3
              obtain ⟨c, hcc, hcd⟩ := anc_first_step wf _ o.ty rfl ht
              have hcm : isMaterial sch c = true := by
                rcases hcd with h3 | h3
                · rw [← h3]; exact hmat
                · exact anc_material wf _ o.ty c rfl h3
              have h2 : (children sch k.ty).countP
                  ((fun a : Key => inScope sch a o && isMaterial sch a.ty) ∘ fun c => (⟨c, false⟩ : Key)) = 1 := by
                apply countP_unique _ (children_nodup wf k.ty) c hcc
                · simp only [Function.comp_apply, Bool.and_eq_true]
                  refine ⟨inScope_iff.2 ?_, hcm⟩
                  rcases hcd with h3 | h3
                  · exact Or.inl h3
                  · exact Or.inr ⟨rfl, h3⟩
                · intro c' hc' hq
                  simp only [Function.comp_apply, Bool.and_eq_true] at hq
                  apply hreg'.tree k.ty (by simp [inCone]) c' hc' c hcc o.ty
                  · rw [inCone_iff]
                    rcases inScope_iff.1 hq.1 with h3 | h3
                    · exact Or.inl h3
                    · exact Or.inr h3.2
                  · rw [inCone_iff]; exact hcd
              rw [h1, h2]
          · have : db.count o = 0 := List.count_eq_zero_of_not_mem hmem
            rw [this]; simp

/-- executable check of `Regular` (all quantifiers range over declared types) -/
def regularB (sch : Schema) (t : TypeId) : Bool :=
  (t :: sch.map (·.id)).all fun s => !inCone sch t s ||
    (!childrenOverlap sch ⟨s, false⟩ &&
     (children sch s).all fun c₁ => (children sch s).all fun c₂ => (sch.map (·.id)).all fun d =>
       !(inCone sch c₁ d && inCone sch c₂ d) || c₁ == c₂)

theorem declared_of_inCone {sch : Schema} {t s : TypeId} (h : inCone sch t s = true) :
    s ∈ t :: sch.map (·.id) := by
  rcases inCone_iff.1 h with rfl | h
  · simp
  · obtain ⟨d, hd, rfl, _⟩ := mem_of_ancestorsOf h
    exact List.mem_cons_of_mem _ (List.mem_map_of_mem hd)

theorem regular_of_check {sch : Schema} {t : TypeId} (h : regularB sch t = true) : Regular sch t := by
  unfold regularB at h
  rw [List.all_eq_true] at h
  constructor
  · intro s hs c₁ hc₁ c₂ hc₂ d hd₁ hd₂
    have := h s (declared_of_inCone hs)
    simp only [hs, Bool.not_true, Bool.false_or, Bool.and_eq_true, List.all_eq_true] at this
    have hd : d ∈ sch.map (·.id) := by
      rcases List.mem_cons.1 (declared_of_inCone hd₁) with rfl | h'
      · obtain ⟨dd, hdd, rfl, _⟩ := mem_children.1 hc₁
        exact List.mem_map_of_mem hdd
      · exact h'
    have := this.2 c₁ hc₁ c₂ hc₂ d hd
    simpa [hd₁, hd₂] using this
  · intro s hs
    have := h s (declared_of_inCone hs)
    simp only [hs, Bool.not_true, Bool.false_or, Bool.and_eq_true] at this
    simpa using this.1

/-! ### on a forest the overlap branch is never taken -/

theorem hasDup_false_of_nodup : ∀ {l : List Nat}, l.Nodup → hasDup l = false
  | [], _ => rfl
  | x :: xs, h => by
    rw [List.nodup_cons] at h
    simp only [hasDup, Bool.or_eq_false_iff]
    exact ⟨by simpa using h.1, hasDup_false_of_nodup h.2⟩

theorem descendants_nodup {sch : Schema} (wf : WF sch) (t : TypeId) : (descendants sch t).Nodup := by
  unfold descendants
  exact List.Nodup.sublist (List.Sublist.map _ List.filter_sublist) wf.nodup

theorem flatMap_descendants_nodup {sch : Schema} (wf : WF sch) : ∀ (cs : List TypeId), cs.Nodup →
    (∀ c₁ ∈ cs, ∀ c₂ ∈ cs, ∀ d, d ∈ descendants sch c₁ → d ∈ descendants sch c₂ → c₁ = c₂) →
    (cs.flatMap (descendants sch)).Nodup
  | [], _, _ => by simp
  | c :: cs, hn, hp => by
    rw [List.nodup_cons] at hn
    rw [List.flatMap_cons, List.nodup_append]
    refine ⟨descendants_nodup wf c, ?_, ?_⟩
    · exact flatMap_descendants_nodup wf cs hn.2
        (fun c₁ h₁ c₂ h₂ => hp c₁ (by simp [h₁]) c₂ (by simp [h₂]))
    · intro a ha b hb hab
      subst hab
      obtain ⟨c', hc', hb'⟩ := List.mem_flatMap.1 hb
      have := hp c (by simp) c' (by simp [hc']) a ha hb'
      exact hn.1 (this ▸ hc')

theorem inCone_of_mem_descendants {sch : Schema} (wf : WF sch) {c d : TypeId}
    (h : d ∈ descendants sch c) : inCone sch c d = true := by
  obtain ⟨dd, hdd, rfl, ha⟩ := mem_descendants.1 h
  rw [inCone_iff]
  right
  rw [ancestorsOf_of_mem wf hdd]
  exact ha

theorem regular_of_tree {sch : Schema} (wf : WF sch) {t : TypeId} (h : TreeBelow sch t) :
    Regular sch t := by
  refine ⟨h, ?_⟩
  intro s hs
  unfold childrenOverlap
  have : (allDescs sch s).Nodup := by
    unfold allDescs
    apply flatMap_descendants_nodup wf _ (children_nodup wf s)
    intro c₁ h₁ c₂ h₂ d hd₁ hd₂
    exact h s hs c₁ h₁ c₂ h₂ d (inCone_of_mem_descendants wf hd₁) (inCone_of_mem_descendants wf hd₂)
  simp [hasDup_false_of_nodup this]

/-- `select T` on a forest: exactly the visible objects of the type and its
    subtypes, as a bag. -/
theorem selectType_perm {sch : Schema} (wf : WF sch) (holds : CondId → Obj → Bool) (db : DB)
    (hdb : WFDB sch db) (t : TypeId) (htree : TreeBelow sch t) :
    (selectType sch holds db t).Perm
      (db.filter (fun o => inScope sch ⟨t, false⟩ o && visible sch holds o)) := by
  rw [List.perm_iff_count]
  intro o
  exact evalKey_count wf holds db hdb _ _ (need_le sch _) (fun _ => regular_of_tree wf htree) o

end EdbVerif.Policy
