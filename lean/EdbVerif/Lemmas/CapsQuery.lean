/-
C08 — lemmas about the query part: what `record` (the compiler's `dml_exprs` bookkeeping)
returns versus the syntactic `containsDML` / `containsStmt`, and purity of `run` when no DML
statement was reached.
-/
import EdbVerif.Model.CapsSpec

namespace EdbVerif.Caps
open EdbVerif.Gen.Caps

/-! ### `appendR` -/

theorem appendR_ok {a b : Except Reject (List Rec)} {l : List Rec} (h : appendR a b = .ok l) :
    ∃ la lb, a = .ok la ∧ b = .ok lb ∧ l = la ++ lb := by
  cases a with
  | error e => simp [appendR] at h
  | ok la =>
    cases b with
    | error e => simp [appendR] at h
    | ok lb =>
      simp only [appendR, Except.ok.injEq] at h
      exact ⟨la, lb, rfl, rfl, h.symm⟩

theorem appendR_any {p : Rec → Bool} {a b : Except Reject (List Rec)} {l : List Rec}
    (h : appendR a b = .ok l) (hp : l.any p = false) :
    ∃ la lb, a = .ok la ∧ b = .ok lb ∧ la.any p = false ∧ lb.any p = false := by
  obtain ⟨la, lb, ha, hb, hl⟩ := appendR_ok h
  subst hl
  rw [List.any_append, Bool.or_eq_false_iff] at hp
  exact ⟨la, lb, ha, hb, hp.1, hp.2⟩

/-- "when compilation succeeds, some recorded entry satisfies `p` exactly when `b` is true" -/
def OkAny (p : Rec → Bool) (r : Except Reject (List Rec)) (b : Bool) : Prop :=
  ∀ l, r = .ok l → l.any p = b

theorem OkAny.append {p : Rec → Bool} {a b : Except Reject (List Rec)} {x y : Bool}
    (ha : OkAny p a x) (hb : OkAny p b y) : OkAny p (appendR a b) (x || y) := by
  intro l h
  obtain ⟨la, lb, ea, eb, el⟩ := appendR_ok h
  subst el
  rw [List.any_append, ha la ea, hb lb eb]

theorem OkAny.nil {p : Rec → Bool} : OkAny p (.ok []) false := by
  intro l h; cases h; rfl

theorem OkAny.error {p : Rec → Bool} {e : Reject} {b : Bool} : OkAny p (.error e) b := by
  intro l h; cases h

theorem OkAny.single {p : Rec → Bool} {r : Rec} : OkAny p (.ok [r]) (p r) := by
  intro l h; cases h; simp

theorem OkAny.guard {p : Rec → Bool} {cx : Cx} {r : Except Reject (List Rec)} {b : Bool}
    (h : OkAny p r b) :
    OkAny p (match dmlGuard cx with | .error e => .error e | .ok () => r) b := by
  cases dmlGuard cx with
  | error e => exact OkAny.error
  | ok u => cases u; exact h

/-- the two readings of the recorded list: "anything recorded" (`has_dml`) and "a DML statement
reached" (volatility inference) -/
structure Reading (p : Rec → Bool) (g : FnDecl → Bool) : Prop where
  stmt : ∀ k, p (.stmt k) = true
  call : ∀ f (d : FnDecl), p (.call f d.dmlStmt) = g d

theorem reading_all : Reading (fun _ => true) (fun _ => true) := ⟨fun _ => rfl, fun _ _ => rfl⟩
theorem reading_stmt : Reading Rec.isStmt (·.dmlStmt) := ⟨fun _ => rfl, fun _ _ => rfl⟩

theorem OkAny.stmtHead {p : Rec → Bool} {g : FnDecl → Bool} (hr : Reading p g) {k : DmlKind}
    {r : Except Reject (List Rec)} {b : Bool} (h : OkAny p r b) :
    OkAny p (appendR (.ok [.stmt k]) r) true := by
  have := (OkAny.single (p := p) (r := .stmt k)).append h
  rw [hr.stmt, Bool.true_or] at this
  exact this

theorem okAny_callRec {p : Rec → Bool} {g : FnDecl → Bool} (hr : Reading p g)
    (cx : Cx) (f : Nat) (d : FnDecl) : OkAny p (callRec cx f d) (d.modifying && g d) := by
  unfold callRec
  cases hm : d.modifying with
  | false => simpa using OkAny.nil
  | true =>
    simp only [if_true, Bool.true_and]
    split
    · exact OkAny.error
    · split
      · exact OkAny.error
      · split
        · exact OkAny.error
        · rw [← hr.call f d]; exact OkAny.single
      · rw [← hr.call f d]; exact OkAny.single

theorem okAny_callee {p : Rec → Bool} {g : FnDecl → Bool} (hr : Reading p g)
    (fe : FnEnv) (cx : Cx) (f : Nat) :
    OkAny p (match fe[f]? with
       | none => .error .unknownFn
       | some d => callRec cx f d) (fnFlag g fe f) := by
  unfold fnFlag
  cases hf : fe[f]? with
  | none => exact OkAny.error
  | some d => exact okAny_callRec hr cx f d

/-! ### the recorded list versus the syntactic predicates -/

mutual
theorem record_charG {p : Rec → Bool} {g : FnDecl → Bool} (hr : Reading p g) (fe : FnEnv) :
    ∀ (q : Q) (cx : Cx), OkAny p (record fe cx q) (containsG g fe q)
  | .lit _, _ => by simpa [record, containsG] using OkAny.nil
  | .var _, _ => by simpa [record, containsG] using OkAny.nil
  | .objs _, _ => by simpa [record, containsG] using OkAny.nil
  | .op args, cx => by
    simp only [record, containsG]; exact recordL_charG hr fe args cx
  | .call f args, cx => by
    simp only [record, containsG]
    exact (recordL_charG hr fe args cx).append (okAny_callee hr fe cx f)
  | .ifElse c t e, cx => by
    simp only [record, containsG]
    exact (record_charG hr fe c cx).append ((record_charG hr fe t cx).append (record_charG hr fe e cx))
  | .select subj shape filter order offlim, cx => by
    simp only [record, containsG]
    exact (record_charG hr fe subj _).append ((recordL_charG hr fe shape _).append
      ((recordL_charG hr fe filter _).append ((recordL_charG hr fe order _).append
        (recordL_charG hr fe offlim _))))
  | .withB _ b body, cx => by
    simp only [record, containsG]
    exact (record_charG hr fe b _).append (record_charG hr fe body cx)
  | .forQ _ iter body, cx => by
    simp only [record, containsG]
    exact (record_charG hr fe iter _).append (record_charG hr fe body cx)
  | .insert _ shape onC els, cx => by
    simp only [record, containsG]
    exact OkAny.guard (OkAny.stmtHead hr ((recordL_charG hr fe shape _).append
      ((recordL_charG hr fe onC cx).append (recordL_charG hr fe els cx))))
  | .update subj filter shape, cx => by
    simp only [record, containsG]
    exact OkAny.guard (OkAny.stmtHead hr ((record_charG hr fe subj _).append
      ((recordL_charG hr fe filter _).append (recordL_charG hr fe shape _))))
  | .delete subj filter order offlim, cx => by
    simp only [record, containsG]
    exact OkAny.guard (OkAny.stmtHead hr ((record_charG hr fe subj _).append
      ((recordL_charG hr fe filter _).append ((recordL_charG hr fe order _).append
        (recordL_charG hr fe offlim _)))))
  | .free shape, cx => by
    simp only [record, containsG]; exact recordL_charG hr fe shape _
theorem recordL_charG {p : Rec → Bool} {g : FnDecl → Bool} (hr : Reading p g) (fe : FnEnv) :
    ∀ (qs : QList) (cx : Cx), OkAny p (recordL fe cx qs) (containsGL g fe qs)
  | .nil, _ => by simpa [recordL, containsGL] using OkAny.nil
  | .cons q qs, cx => by
    simp only [recordL, containsGL]
    exact (record_charG hr fe q cx).append (recordL_charG hr fe qs cx)
end

theorem hasDml_eq_any (l : List Rec) : hasDml l = l.any (fun _ => true) := by
  cases l <;> simp [hasDml]

/-- `has_dml` is true exactly when the query contains DML (nodes or calls of Modifying functions) -/
theorem record_hasDml {fe : FnEnv} {cx : Cx} {q : Q} {l : List Rec}
    (h : record fe cx q = .ok l) : hasDml l = containsDML fe q := by
  rw [hasDml_eq_any]; exact record_charG reading_all fe q cx l h

/-- a DML statement is recorded (directly or through an inlined call) exactly when `containsStmt` -/
theorem record_isStmt {fe : FnEnv} {cx : Cx} {q : Q} {l : List Rec}
    (h : record fe cx q = .ok l) : l.any Rec.isStmt = containsStmt fe q :=
  record_charG reading_stmt fe q cx l h

theorem record_nonempty {fe : FnEnv} {cx : Cx} {q : Q} {l : List Rec}
    (h : record fe cx q = .ok l) (hd : containsDML fe q = true) : hasDml l = true := by
  rw [record_hasDml h, hd]

theorem record_empty {fe : FnEnv} {cx : Cx} {q : Q} {l : List Rec}
    (h : record fe cx q = .ok l) (hd : containsDML fe q = false) : hasDml l = false := by
  rw [record_hasDml h, hd]

/-- reaching a DML statement is a special case of containing DML -/
theorem fnFlag_mono (g : FnDecl → Bool) (fe : FnEnv) (f : Nat) (h : fnFlag g fe f = true) :
    fnFlag (fun _ => true) fe f = true := by
  unfold fnFlag at *
  cases hf : fe[f]? with
  | none => simp [hf] at h
  | some d => simp [hf] at h ⊢; exact h.1

mutual
theorem containsG_mono (g : FnDecl → Bool) (fe : FnEnv) :
    ∀ q : Q, containsG g fe q = true → containsG (fun _ => true) fe q = true
  | .lit _, h => by simp [containsG] at h
  | .var _, h => by simp [containsG] at h
  | .objs _, h => by simp [containsG] at h
  | .op args, h => by
    simp only [containsG] at h ⊢; exact containsGL_mono g fe args h
  | .call f args, h => by
    simp only [containsG, Bool.or_eq_true] at h ⊢
    rcases h with h | h
    · exact Or.inl (containsGL_mono g fe args h)
    · exact Or.inr (fnFlag_mono g fe f h)
  | .ifElse c t e, h => by
    simp only [containsG, Bool.or_eq_true] at h ⊢
    rcases h with h | h | h
    · exact Or.inl (containsG_mono g fe c h)
    · exact Or.inr (Or.inl (containsG_mono g fe t h))
    · exact Or.inr (Or.inr (containsG_mono g fe e h))
  | .select subj shape filter order offlim, h => by
    simp only [containsG, Bool.or_eq_true] at h ⊢
    rcases h with h | h | h | h | h
    · exact Or.inl (containsG_mono g fe subj h)
    · exact Or.inr (Or.inl (containsGL_mono g fe shape h))
    · exact Or.inr (Or.inr (Or.inl (containsGL_mono g fe filter h)))
    · exact Or.inr (Or.inr (Or.inr (Or.inl (containsGL_mono g fe order h))))
    · exact Or.inr (Or.inr (Or.inr (Or.inr (containsGL_mono g fe offlim h))))
  | .withB _ b body, h => by
    simp only [containsG, Bool.or_eq_true] at h ⊢
    rcases h with h | h
    · exact Or.inl (containsG_mono g fe b h)
    · exact Or.inr (containsG_mono g fe body h)
  | .forQ _ iter body, h => by
    simp only [containsG, Bool.or_eq_true] at h ⊢
    rcases h with h | h
    · exact Or.inl (containsG_mono g fe iter h)
    · exact Or.inr (containsG_mono g fe body h)
  | .insert .., _ => by simp [containsG]
  | .update .., _ => by simp [containsG]
  | .delete .., _ => by simp [containsG]
  | .free shape, h => by
    simp only [containsG] at h ⊢; exact containsGL_mono g fe shape h
theorem containsGL_mono (g : FnDecl → Bool) (fe : FnEnv) :
    ∀ qs : QList, containsGL g fe qs = true → containsGL (fun _ => true) fe qs = true
  | .nil, h => by simp [containsGL] at h
  | .cons q qs, h => by
    simp only [containsGL, Bool.or_eq_true] at h ⊢
    rcases h with h | h
    · exact Or.inl (containsG_mono g fe q h)
    · exact Or.inr (containsGL_mono g fe qs h)
end

theorem containsStmt_containsDML {fe : FnEnv} {q : Q} (h : containsStmt fe q = true) :
    containsDML fe q = true := containsG_mono _ fe q h

/-! ### no DML statement reached ⇒ evaluation does not change the DB -/

theorem foldl_fst {β : Type} (g : DB → Nat → DB × Val) (hg : ∀ db v, (g db v).1 = db) :
    ∀ (vs : List Nat) (db : DB) (acc : Val),
      (vs.foldl (fun (a : DB × Val) v => let s := g a.1 v; (s.1, a.2 ++ s.2)) (db, acc)).1 = db
  | [], _, _ => rfl
  | v :: vs, db, acc => by
    simp only [List.foldl_cons]
    have := foldl_fst (β := β) g hg vs (g db v).1 (acc ++ (g db v).2)
    rw [this, hg]

theorem callee_pure {fe : FnEnv} (hwf : fe.WF) {cx : Cx} {f : Nat} {lc : List Rec}
    (h : (match fe[f]? with
       | none => (.error .unknownFn : Except Reject (List Rec))
       | some d => callRec cx f d) = .ok lc) (hs : lc.any Rec.isStmt = false) :
    ∃ d, fe[f]? = some d ∧ ∀ db vs, (d.sem db vs).1 = db := by
  cases hf : fe[f]? with
  | none => simp [hf] at h
  | some d =>
    refine ⟨d, rfl, ?_⟩
    have hw := hwf f d hf
    simp only [hf] at h
    have hany := okAny_callRec reading_stmt cx f d lc h
    rw [hs] at hany
    cases hm : d.modifying with
    | false => exact hw.2 (hw.1 hm)
    | true =>
      rw [hm, Bool.true_and] at hany
      exact hw.2 hany.symm

theorem guard_stmt {cx : Cx} {s : DmlKind} {r : Except Reject (List Rec)} {l : List Rec}
    (h : (match dmlGuard cx with
          | .error e => (Except.error e : Except Reject (List Rec))
          | .ok () => appendR (.ok [.stmt s]) r) = .ok l) (hs : l.any Rec.isStmt = false) : False := by
  cases hg : dmlGuard cx with
  | error e => simp [hg] at h
  | ok u =>
    cases u
    simp only [hg] at h
    obtain ⟨la, lb, ha, _, h1, _⟩ := appendR_any h hs
    cases ha
    simp [Rec.isStmt] at h1

mutual
theorem run_pureS (fe : FnEnv) (hwf : fe.WF) :
    ∀ (q : Q) (cx : Cx) (l : List Rec) (ρ : VEnv) (db : DB), record fe cx q = .ok l →
      l.any Rec.isStmt = false → (run fe ρ db q).1 = db
  | .lit _, _, _, _, _, _, _ => rfl
  | .var _, _, _, _, _, _, _ => rfl
  | .objs _, _, _, _, _, _, _ => rfl
  | .op args, cx, l, ρ, db, h, hs => by
    simp only [record] at h
    simp only [run]; exact runL_pureS fe hwf args cx l ρ db h hs
  | .call f args, cx, l, ρ, db, h, hs => by
    simp only [record] at h
    obtain ⟨la, lc, ha, hc, hsa, hsc⟩ := appendR_any h hs
    obtain ⟨d, hd, hp⟩ := callee_pure hwf hc hsc
    simp only [run, hd]
    rw [hp]; exact runL_pureS fe hwf args cx la ρ db ha hsa
  | .ifElse c t e, cx, l, ρ, db, h, hs => by
    simp only [record] at h
    obtain ⟨l1, l', h1, h', hs1, hs'⟩ := appendR_any h hs
    obtain ⟨l2, l3, h2, h3, hs2, hs3⟩ := appendR_any h' hs'
    simp only [run]
    split
    · rw [run_pureS fe hwf t cx l2 ρ _ h2 hs2]; exact run_pureS fe hwf c cx l1 ρ db h1 hs1
    · rw [run_pureS fe hwf e cx l3 ρ _ h3 hs3]; exact run_pureS fe hwf c cx l1 ρ db h1 hs1
  | .select subj shape filter order offlim, cx, l, ρ, db, h, hs => by
    simp only [record] at h
    obtain ⟨l1, l', h1, h', hs1, hs'⟩ := appendR_any h hs
    obtain ⟨l2, l'', h2, h'', hs2, hs''⟩ := appendR_any h' hs'
    obtain ⟨l3, l''', h3, h''', hs3, hs'''⟩ := appendR_any h'' hs''
    obtain ⟨l4, l5, h4, h5, hs4, hs5⟩ := appendR_any h''' hs'''
    simp only [run]
    rw [runL_pureS fe hwf offlim _ l5 ρ _ h5 hs5, runL_pureS fe hwf order _ l4 ρ _ h4 hs4,
      runL_pureS fe hwf filter _ l3 ρ _ h3 hs3, runL_pureS fe hwf shape _ l2 ρ _ h2 hs2]
    exact run_pureS fe hwf subj _ l1 ρ db h1 hs1
  | .withB x b body, cx, l, ρ, db, h, hs => by
    simp only [record] at h
    obtain ⟨l1, l2, h1, h2, hs1, hs2⟩ := appendR_any h hs
    simp only [run]
    rw [run_pureS fe hwf body cx l2 _ _ h2 hs2]; exact run_pureS fe hwf b _ l1 ρ db h1 hs1
  | .forQ x iter body, cx, l, ρ, db, h, hs => by
    simp only [record] at h
    obtain ⟨l1, l2, h1, h2, hs1, hs2⟩ := appendR_any h hs
    simp only [run]
    have := foldl_fst (β := Unit) (fun d v => run fe ((x, [v]) :: ρ) d body)
      (fun d v => run_pureS fe hwf body cx l2 _ d h2 hs2) (run fe ρ db iter).2 (run fe ρ db iter).1 []
    rw [this]; exact run_pureS fe hwf iter _ l1 ρ db h1 hs1
  | .insert _ _ _ _, cx, l, _, _, h, hs => by
    simp only [record] at h
    exact (guard_stmt h hs).elim
  | .update _ _ _, cx, l, _, _, h, hs => by
    simp only [record] at h
    exact (guard_stmt h hs).elim
  | .delete _ _ _ _, cx, l, _, _, h, hs => by
    simp only [record] at h
    exact (guard_stmt h hs).elim
  | .free shape, cx, l, ρ, db, h, hs => by
    simp only [record] at h
    simp only [run]; exact runL_pureS fe hwf shape _ l ρ db h hs
theorem runL_pureS (fe : FnEnv) (hwf : fe.WF) :
    ∀ (qs : QList) (cx : Cx) (l : List Rec) (ρ : VEnv) (db : DB), recordL fe cx qs = .ok l →
      l.any Rec.isStmt = false → (runL fe ρ db qs).1 = db
  | .nil, _, _, _, _, _, _ => rfl
  | .cons q qs, cx, l, ρ, db, h, hs => by
    simp only [recordL] at h
    obtain ⟨l1, l2, h1, h2, hs1, hs2⟩ := appendR_any h hs
    simp only [runL]
    rw [runL_pureS fe hwf qs cx l2 ρ _ h2 hs2]; exact run_pureS fe hwf q cx l1 ρ db h1 hs1
end

/-- nothing recorded at all (no MODIFICATIONS) ⇒ evaluation does not change the DB -/
theorem run_pure (fe : FnEnv) (hwf : fe.WF) (q : Q) (cx : Cx) (ρ : VEnv) (db : DB)
    (h : record fe cx q = .ok []) : (run fe ρ db q).1 = db :=
  run_pureS fe hwf q cx [] ρ db h rfl

/-! ### `create function` keeps the environment well-formed -/

theorem wf_nil : FnEnv.WF [] := by
  intro f d h; simp at h

theorem declare_ok {fe fe' : FnEnv} {decl : Option Bool} {params : List Nat} {body : Q}
    (h : declare fe decl params body = .ok fe') :
    ∃ l, record fe Cx.top body = .ok l ∧ ¬ (decl = some false ∧ l.any Rec.isStmt = true) ∧
      fe' = fe ++ [{ modifying := decl == some true || l.any Rec.isStmt
                     dmlStmt := l.any Rec.isStmt
                     sem := fun db vs => run fe (params.zip vs) db body }] := by
  unfold declare at h
  cases hr : record fe Cx.top body with
  | error e => simp [hr] at h
  | ok l =>
    simp only [hr] at h
    split at h
    · cases h
    · rename_i hc
      cases h
      refine ⟨l, rfl, ?_, rfl⟩
      intro ⟨h1, h2⟩
      apply hc
      simp [h1, h2]

theorem getElem?_snoc {α : Type} (l : List α) (a : α) (i : Nat) (x : α)
    (h : (l ++ [a])[i]? = some x) : l[i]? = some x ∨ (i = l.length ∧ x = a) := by
  by_cases hlt : i < l.length
  · rw [List.getElem?_append_left hlt] at h; exact Or.inl h
  · rw [List.getElem?_append_right (Nat.le_of_not_lt hlt)] at h
    cases hidx : i - l.length with
    | succ n => simp [hidx] at h
    | zero =>
      simp only [hidx, List.getElem?_cons_zero, Option.some.injEq] at h
      exact Or.inr ⟨by omega, h.symm⟩

theorem declare_wf {fe fe' : FnEnv} {decl : Option Bool} {params : List Nat} {body : Q}
    (hwf : fe.WF) (h : declare fe decl params body = .ok fe') : fe'.WF := by
  obtain ⟨l, hr, _, hfe⟩ := declare_ok h
  subst hfe
  intro f d hf
  rcases getElem?_snoc _ _ _ _ hf with hf | ⟨_, hd⟩
  · exact hwf f d hf
  · subst hd
    constructor
    · intro hm
      simp only [Bool.or_eq_false_iff] at hm
      exact hm.2
    · intro hs db vs
      exact run_pureS fe hwf body Cx.top l _ db hr hs

/-- a declared function whose body reaches a DML statement (directly, in any position, or through
calls of functions that do) is Modifying and is known to reach one -/
theorem declare_modifying {fe fe' : FnEnv} {decl : Option Bool} {params : List Nat} {body : Q}
    (h : declare fe decl params body = .ok fe') (hb : containsStmt fe body = true) :
    fnModifying fe' fe.length = true ∧ fnDmlStmt fe' fe.length = true := by
  obtain ⟨l, hr, _, hfe⟩ := declare_ok h
  subst hfe
  have hs : l.any Rec.isStmt = true := by rw [record_isStmt hr, hb]
  simp [fnModifying, fnDmlStmt, fnFlag, hs]

end EdbVerif.Caps
