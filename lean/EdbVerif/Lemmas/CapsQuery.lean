/-
C08 — lemmas about the query part: what `record` (the compiler's `dml_exprs` bookkeeping)
returns versus the syntactic `containsDML`, and purity of `run` when nothing was recorded.
-/
import EdbVerif.Model.CapsSpec

namespace EdbVerif.Caps
open EdbVerif.Gen.Caps

/-! ### `appendR` -/

theorem appendR_ok {a b : Except Reject (List Rec)} {l : List Rec} (h : appendR a b = .ok l) :
    ∃ la lb, a = .ok la ∧ b = .ok lb ∧ l = la ++ lb := by
  cases a with
  | error e => simp [appendR] at h
  | ok la =>
    cases b with
    | error e => simp [appendR] at h
    | ok lb =>
      simp only [appendR, Except.ok.injEq] at h
      exact ⟨la, lb, rfl, rfl, h.symm⟩

theorem appendR_nil {a b : Except Reject (List Rec)} (h : appendR a b = .ok []) :
    a = .ok [] ∧ b = .ok [] := by
  obtain ⟨la, lb, ha, hb, hl⟩ := appendR_ok h
  have := List.append_eq_nil_iff.mp hl.symm
  exact ⟨by rw [ha, this.1], by rw [hb, this.2]⟩

/-- "when compilation succeeds, the recorded list is empty exactly when `b` is false" -/
def OkEmpty (r : Except Reject (List Rec)) (b : Bool) : Prop :=
  ∀ l, r = .ok l → l.isEmpty = !b

theorem OkEmpty.append {a b : Except Reject (List Rec)} {x y : Bool}
    (ha : OkEmpty a x) (hb : OkEmpty b y) : OkEmpty (appendR a b) (x || y) := by
  intro l h
  obtain ⟨la, lb, ea, eb, el⟩ := appendR_ok h
  have h1 := ha la ea
  have h2 := hb lb eb
  subst el
  cases x <;> cases y <;> simp_all [List.isEmpty_iff]

theorem OkEmpty.nil : OkEmpty (.ok []) false := by
  intro l h; cases h; rfl

theorem OkEmpty.error {e : Reject} {b : Bool} : OkEmpty (.error e) b := by
  intro l h; cases h

theorem OkEmpty.single {r : Rec} : OkEmpty (.ok [r]) true := by
  intro l h; cases h; rfl

theorem OkEmpty.guard {cx : Cx} {r : Except Reject (List Rec)} {b : Bool} (h : OkEmpty r b) :
    OkEmpty (match dmlGuard cx with | .error e => .error e | .ok () => r) b := by
  cases dmlGuard cx with
  | error e => exact OkEmpty.error
  | ok u => cases u; exact h

theorem okEmpty_callee (fe : FnEnv) (cx : Cx) (f : Nat) :
    OkEmpty (match fe[f]? with
       | none => .error .unknownFn
       | some d =>
         if d.modifying then
           if d.dmlStmt && cx.disallow then .error .clause
           else if cx.selShape then .error .shape
           else .ok [.call f d.dmlStmt]
         else .ok []) (fnModifying fe f) := by
  unfold fnModifying
  cases hf : fe[f]? with
  | none => exact OkEmpty.error
  | some d =>
    simp only
    cases hm : d.modifying with
    | false => simpa using OkEmpty.nil
    | true =>
      simp only [if_true]
      split
      · exact OkEmpty.error
      · split
        · exact OkEmpty.error
        · exact OkEmpty.single

/-! ### the recorded list is non-empty exactly when the query contains DML -/

mutual
theorem record_char (fe : FnEnv) : ∀ (q : Q) (cx : Cx), OkEmpty (record fe cx q) (containsDML fe q)
  | .lit _, _ => by simpa [record, containsDML] using OkEmpty.nil
  | .var _, _ => by simpa [record, containsDML] using OkEmpty.nil
  | .objs _, _ => by simpa [record, containsDML] using OkEmpty.nil
  | .op args, cx => by
    simp only [record, containsDML]; exact recordL_char fe args cx
  | .call f args, cx => by
    simp only [record, containsDML]
    rw [Bool.or_comm]
    exact (recordL_char fe args cx).append (okEmpty_callee fe cx f)
  | .ifElse c t e, cx => by
    simp only [record, containsDML, Bool.or_assoc]
    exact (record_char fe c cx).append ((record_char fe t cx).append (record_char fe e cx))
  | .select subj shape filter order offlim, cx => by
    simp only [record, containsDML, Bool.or_assoc]
    exact (record_char fe subj cx).append ((recordL_char fe shape _).append
      ((recordL_char fe filter _).append ((recordL_char fe order _).append (recordL_char fe offlim cx))))
  | .withB _ b body, cx => by
    simp only [record, containsDML]
    exact (record_char fe b cx).append (record_char fe body cx)
  | .forQ _ iter body, cx => by
    simp only [record, containsDML]
    exact (record_char fe iter cx).append (record_char fe body cx)
  | .insert _ shape onC els, cx => by
    simp only [record, containsDML]
    exact OkEmpty.guard (OkEmpty.single.append ((recordL_char fe shape _).append
      ((recordL_char fe onC cx).append (recordL_char fe els cx))))
  | .update subj filter shape, cx => by
    simp only [record, containsDML]
    exact OkEmpty.guard (OkEmpty.single.append ((record_char fe subj cx).append
      ((recordL_char fe filter _).append (recordL_char fe shape _))))
  | .delete subj filter order offlim, cx => by
    simp only [record, containsDML]
    exact OkEmpty.guard (OkEmpty.single.append ((record_char fe subj cx).append
      ((recordL_char fe filter _).append ((recordL_char fe order _).append (recordL_char fe offlim cx)))))
theorem recordL_char (fe : FnEnv) : ∀ (qs : QList) (cx : Cx), OkEmpty (recordL fe cx qs) (containsDMLL fe qs)
  | .nil, _ => by simpa [recordL, containsDMLL] using OkEmpty.nil
  | .cons q qs, cx => by
    simp only [recordL, containsDMLL]
    exact (record_char fe q cx).append (recordL_char fe qs cx)
end

theorem record_nonempty {fe : FnEnv} {cx : Cx} {q : Q} {l : List Rec}
    (h : record fe cx q = .ok l) (hd : containsDML fe q = true) : hasDml l = true := by
  have := record_char fe q cx l h
  simp [hasDml, this, hd]

theorem record_empty {fe : FnEnv} {cx : Cx} {q : Q} {l : List Rec}
    (h : record fe cx q = .ok l) (hd : containsDML fe q = false) : hasDml l = false := by
  have := record_char fe q cx l h
  simp [hasDml, this, hd]

/-! ### nothing recorded ⇒ evaluation does not change the DB -/

theorem foldl_fst {β : Type} (g : DB → Nat → DB × Val) (hg : ∀ db v, (g db v).1 = db) :
    ∀ (vs : List Nat) (db : DB) (acc : Val),
      (vs.foldl (fun (a : DB × Val) v => let s := g a.1 v; (s.1, a.2 ++ s.2)) (db, acc)).1 = db
  | [], _, _ => rfl
  | v :: vs, db, acc => by
    simp only [List.foldl_cons]
    have := foldl_fst (β := β) g hg vs (g db v).1 (acc ++ (g db v).2)
    rw [this, hg]

theorem callee_nil {fe : FnEnv} {cx : Cx} {f : Nat}
    (h : (match fe[f]? with
       | none => (.error .unknownFn : Except Reject (List Rec))
       | some d =>
         if d.modifying then
           if d.dmlStmt && cx.disallow then .error .clause
           else if cx.selShape then .error .shape
           else .ok [.call f d.dmlStmt]
         else .ok []) = .ok []) : ∃ d, fe[f]? = some d ∧ d.modifying = false := by
  cases hf : fe[f]? with
  | none => simp [hf] at h
  | some d =>
    refine ⟨d, rfl, ?_⟩
    cases hm : d.modifying with
    | false => rfl
    | true =>
      simp only [hf, hm, if_true] at h
      split at h
      · cases h
      · split at h <;> cases h

theorem guard_nil {cx : Cx} {s : Rec} {r : Except Reject (List Rec)}
    (h : (match dmlGuard cx with
          | .error e => (Except.error e : Except Reject (List Rec))
          | .ok () => appendR (.ok [s]) r) = .ok []) : False := by
  cases hg : dmlGuard cx with
  | error e => simp [hg] at h
  | ok u =>
    cases u
    simp only [hg] at h
    have := (appendR_nil h).1
    cases this

mutual
theorem run_pure (fe : FnEnv) (hwf : fe.WF) :
    ∀ (q : Q) (cx : Cx) (ρ : VEnv) (db : DB), record fe cx q = .ok [] → (run fe ρ db q).1 = db
  | .lit _, _, _, _, _ => rfl
  | .var _, _, _, _, _ => rfl
  | .objs _, _, _, _, _ => rfl
  | .op args, cx, ρ, db, h => by
    simp only [record] at h
    simp only [run]; exact runL_pure fe hwf args cx ρ db h
  | .call f args, cx, ρ, db, h => by
    simp only [record] at h
    obtain ⟨ha, hc⟩ := appendR_nil h
    obtain ⟨d, hd, hm⟩ := callee_nil hc
    simp only [run, hd]
    rw [hwf f d hd hm]; exact runL_pure fe hwf args cx ρ db ha
  | .ifElse c t e, cx, ρ, db, h => by
    simp only [record] at h
    obtain ⟨hc, h2⟩ := appendR_nil h
    obtain ⟨ht, he⟩ := appendR_nil h2
    simp only [run]
    split
    · rw [run_pure fe hwf t cx ρ _ ht]; exact run_pure fe hwf c cx ρ db hc
    · rw [run_pure fe hwf e cx ρ _ he]; exact run_pure fe hwf c cx ρ db hc
  | .select subj shape filter order offlim, cx, ρ, db, h => by
    simp only [record] at h
    obtain ⟨h1, h⟩ := appendR_nil h
    obtain ⟨h2, h⟩ := appendR_nil h
    obtain ⟨h3, h⟩ := appendR_nil h
    obtain ⟨h4, h5⟩ := appendR_nil h
    simp only [run]
    rw [runL_pure fe hwf offlim _ ρ _ h5, runL_pure fe hwf order _ ρ _ h4,
      runL_pure fe hwf filter _ ρ _ h3, runL_pure fe hwf shape _ ρ _ h2]
    exact run_pure fe hwf subj cx ρ db h1
  | .withB x b body, cx, ρ, db, h => by
    simp only [record] at h
    obtain ⟨h1, h2⟩ := appendR_nil h
    simp only [run]
    rw [run_pure fe hwf body cx _ _ h2]; exact run_pure fe hwf b cx ρ db h1
  | .forQ x iter body, cx, ρ, db, h => by
    simp only [record] at h
    obtain ⟨h1, h2⟩ := appendR_nil h
    simp only [run]
    have := foldl_fst (β := Unit) (fun d v => run fe ((x, [v]) :: ρ) d body)
      (fun d v => run_pure fe hwf body cx _ d h2) (run fe ρ db iter).2 (run fe ρ db iter).1 []
    rw [this]; exact run_pure fe hwf iter cx ρ db h1
  | .insert _ _ _ _, cx, _, _, h => by
    simp only [record] at h
    exact (guard_nil h).elim
  | .update _ _ _, cx, _, _, h => by
    simp only [record] at h
    exact (guard_nil h).elim
  | .delete _ _ _ _, cx, _, _, h => by
    simp only [record] at h
    exact (guard_nil h).elim
theorem runL_pure (fe : FnEnv) (hwf : fe.WF) :
    ∀ (qs : QList) (cx : Cx) (ρ : VEnv) (db : DB), recordL fe cx qs = .ok [] → (runL fe ρ db qs).1 = db
  | .nil, _, _, _, _ => rfl
  | .cons q qs, cx, ρ, db, h => by
    simp only [recordL] at h
    obtain ⟨h1, h2⟩ := appendR_nil h
    simp only [runL]
    rw [runL_pure fe hwf qs cx ρ _ h2]; exact run_pure fe hwf q cx ρ db h1
end

/-! ### `create function` keeps the environment well-formed -/

theorem wf_nil : FnEnv.WF [] := by
  intro f d h; simp at h

theorem declare_wf {fe fe' : FnEnv} {decl : Option Bool} {params : List Nat} {body : Q}
    (hwf : fe.WF) (h : declare fe decl params body = .ok fe') : fe'.WF := by
  unfold declare at h
  cases hr : record fe Cx.top body with
  | error e => simp [hr] at h
  | ok l =>
    simp only [hr] at h
    split at h
    · cases h
    · cases h
      intro f d hf hm db vs
      by_cases hlt : f < fe.length
      · rw [List.getElem?_append_left hlt] at hf
        exact hwf f d hf hm db vs
      · rw [List.getElem?_append_right (Nat.le_of_not_lt hlt)] at hf
        cases hidx : f - fe.length with
        | succ n => simp [hidx] at hf
        | zero =>
          simp only [hidx, List.getElem?_cons_zero, Option.some.injEq] at hf
          subst hf
          simp only [Bool.or_eq_false_iff] at hm
          have hl : l = [] := by
            have := hm.2; simp [hasDml] at this; exact this
          subst hl
          exact run_pure fe hwf body Cx.top _ db hr

/-- a declared function is Modifying whenever its body contains DML (declared lower is rejected) -/
theorem declare_modifying {fe fe' : FnEnv} {decl : Option Bool} {params : List Nat} {body : Q}
    (h : declare fe decl params body = .ok fe') (hb : containsDML fe body = true) :
    fnModifying fe' fe.length = true := by
  unfold declare at h
  cases hr : record fe Cx.top body with
  | error e => simp [hr] at h
  | ok l =>
    simp only [hr] at h
    have hd := record_nonempty hr hb
    split at h
    · cases h
    · cases h
      simp [fnModifying, hd]

end EdbVerif.Caps
