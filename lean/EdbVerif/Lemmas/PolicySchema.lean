/-
C07 — facts about the stored schema data under `WF`: look-ups, the rank
(position in the topological listing), stored ancestors.
-/
import EdbVerif.Model.PolicySpec

namespace EdbVerif.Policy

theorem find_some {sch : Schema} {t : TypeId} {d : TypeDecl} (h : find sch t = some d) :
    d ∈ sch ∧ d.id = t := by
  unfold find at h
  refine ⟨List.mem_of_find?_eq_some h, ?_⟩
  have := List.find?_some h
  simpa using this

theorem find_of_mem {sch : Schema} (hn : (sch.map (·.id)).Nodup) {d : TypeDecl} (hd : d ∈ sch) :
    find sch d.id = some d := by
  unfold find
  induction sch with
  | nil => cases hd
  | cons x xs ih =>
    simp only [List.map_cons, List.nodup_cons] at hn
    rw [List.find?_cons]
    rcases List.mem_cons.1 hd with rfl | hx
    · simp
    · have hne : x.id ≠ d.id := by
        intro he
        exact hn.1 (he ▸ List.mem_map_of_mem hx)
      have : (x.id == d.id) = false := by simpa using hne
      rw [this]
      exact ih hn.2 hx

theorem eq_of_id_eq {sch : Schema} (hn : (sch.map (·.id)).Nodup) {x y : TypeDecl}
    (hx : x ∈ sch) (hy : y ∈ sch) (h : x.id = y.id) : x = y := by
  have h1 := find_of_mem hn hx
  have h2 := find_of_mem hn hy
  rw [h] at h1
  rw [h1] at h2
  exact Option.some.inj h2

theorem mem_children {sch : Schema} {c t : TypeId} :
    c ∈ children sch t ↔ ∃ d ∈ sch, d.id = c ∧ t ∈ d.bases := by
  simp [children, List.mem_map, List.mem_filter, and_assoc, and_comm]

theorem mem_descendants {sch : Schema} {x t : TypeId} :
    x ∈ descendants sch t ↔ ∃ d ∈ sch, d.id = x ∧ t ∈ d.ancestors := by
  simp [descendants, List.mem_map, List.mem_filter, and_assoc, and_comm]

/-! ### rank -/

theorem rank_lt_of_mem {sch : Schema} {d : TypeDecl} (hd : d ∈ sch) : rank sch d.id < sch.length := by
  unfold rank
  exact List.findIdx_lt_length_of_exists ⟨d, hd, by simp⟩

theorem find_none_of_rank {sch : Schema} {t : TypeId} (h : sch.length ≤ rank sch t) : find sch t = none := by
  unfold find
  rw [List.find?_eq_none]
  intro x hx hp
  have : rank sch t < sch.length := by
    unfold rank
    exact List.findIdx_lt_length_of_exists ⟨x, hx, hp⟩
  omega

theorem topoFrom_take : ∀ (l pre : List TypeDecl), TopoFrom pre l → ∀ i (h : i < l.length),
    ∀ b ∈ l[i].bases, ∃ e ∈ pre ++ l.take i, e.id = b ∧ e.material = true
  | [], _, _, i, h, _, _ => by simp at h
  | d :: rest, pre, ht, i, h, b, hb => by
    unfold TopoFrom at ht
    cases i with
    | zero =>
      simp only [List.getElem_cons_zero] at hb
      obtain ⟨e, he, r⟩ := ht.1 b hb
      exact ⟨e, by simp [he], r⟩
    | succ i =>
      simp only [List.getElem_cons_succ] at hb
      have h' : i < rest.length := by simpa using h
      obtain ⟨e, he, r⟩ := topoFrom_take rest (pre ++ [d]) ht.2 i h' b hb
      refine ⟨e, ?_, r⟩
      simpa [List.take_succ_cons, List.append_assoc] using he

/-- a base sits strictly earlier in the listing, is declared and material -/
theorem base_earlier {sch : Schema} (wf : WF sch) {d : TypeDecl} (hd : d ∈ sch) {b : TypeId}
    (hb : b ∈ d.bases) :
    rank sch b < rank sch d.id ∧ ∃ e ∈ sch, e.id = b ∧ e.material = true := by
  have hi := rank_lt_of_mem hd
  -- the element at position `rank d.id` is `d`
  have hget : (sch[rank sch d.id]'hi).id = d.id := by
    have h2 := List.findIdx_getElem (xs := sch) (p := fun x : TypeDecl => x.id == d.id) (w := hi)
    exact eq_of_beq h2
  have hdd : sch[rank sch d.id]'hi = d :=
    eq_of_id_eq wf.nodup (List.getElem_mem hi) hd hget
  obtain ⟨e, he, hid, hm⟩ := topoFrom_take sch [] wf.topo (rank sch d.id) hi b (by rw [hdd]; exact hb)
  simp only [List.nil_append] at he
  have hes : e ∈ sch := List.mem_of_mem_take he
  refine ⟨?_, e, hes, hid, hm⟩
  -- `e` occurs before position `rank d.id`
  obtain ⟨j, hj, hje⟩ := List.mem_take_iff_getElem.1 he
  have hj' : j < rank sch d.id := by omega
  have hjl : j < sch.length := by omega
  apply Nat.lt_of_le_of_lt _ hj'
  apply Nat.le_of_not_lt
  intro hlt
  have := List.not_of_lt_findIdx (xs := sch) (p := fun x : TypeDecl => x.id == b) (i := j)
    (by simpa [rank] using hlt)
  have h2 : sch[j] = e := by simpa using hje
  simp [h2, hid] at this

theorem rank_child {sch : Schema} (wf : WF sch) {c t : TypeId} (h : c ∈ children sch t) :
    rank sch t < rank sch c ∧ rank sch c < sch.length := by
  obtain ⟨d, hd, rfl, hb⟩ := mem_children.1 h
  exact ⟨(base_earlier wf hd hb).1, rank_lt_of_mem hd⟩

theorem children_nil_of_rank {sch : Schema} (wf : WF sch) {t : TypeId} (h : sch.length ≤ rank sch t) :
    children sch t = [] := by
  rw [List.eq_nil_iff_forall_not_mem]
  intro c hc
  have := rank_child wf hc
  omega

theorem polRefs_nil_of_rank {sch : Schema} {t : TypeId} (h : sch.length ≤ rank sch t) :
    polRefs sch t = [] := by
  unfold polRefs
  rw [find_none_of_rank h]

/-! ### stored fields of a declared type -/

theorem polRefs_of_mem {sch : Schema} (wf : WF sch) {d : TypeDecl} (hd : d ∈ sch) :
    polRefs sch d.id = d.pols := by
  unfold polRefs; rw [find_of_mem wf.nodup hd]

theorem ancestorsOf_of_mem {sch : Schema} (wf : WF sch) {d : TypeDecl} (hd : d ∈ sch) :
    ancestorsOf sch d.id = d.ancestors := by
  unfold ancestorsOf; rw [find_of_mem wf.nodup hd]

theorem isMaterial_of_mem {sch : Schema} (wf : WF sch) {d : TypeDecl} (hd : d ∈ sch) :
    isMaterial sch d.id = d.material := by
  unfold isMaterial; rw [find_of_mem wf.nodup hd]

theorem mem_of_ancestorsOf {sch : Schema} {t a : TypeId} (h : a ∈ ancestorsOf sch t) :
    ∃ d ∈ sch, d.id = t ∧ a ∈ d.ancestors := by
  unfold ancestorsOf at h
  cases hf : find sch t with
  | none => simp [hf] at h
  | some d =>
    simp only [hf] at h
    exact ⟨d, (find_some hf).1, (find_some hf).2, h⟩

/-- one step up from a stored ancestor -/
theorem anc_base {sch : Schema} (wf : WF sch) {t d : TypeId} (h : t ∈ ancestorsOf sch d) :
    ∃ b, d ∈ children sch b ∧ (t = b ∨ t ∈ ancestorsOf sch b) := by
  obtain ⟨dd, hdd, rfl, ha⟩ := mem_of_ancestorsOf h
  obtain ⟨b, hb, r⟩ := wf.anc_sound dd hdd t ha
  exact ⟨b, mem_children.2 ⟨dd, hdd, rfl, hb⟩, r⟩

theorem child_anc {sch : Schema} (wf : WF sch) {c t : TypeId} (h : c ∈ children sch t) :
    t ∈ ancestorsOf sch c := by
  obtain ⟨d, hd, rfl, hb⟩ := mem_children.1 h
  rw [ancestorsOf_of_mem wf hd]
  exact (wf.anc_complete d hd t hb).1

theorem anc_up {sch : Schema} (wf : WF sch) {c b a : TypeId} (h : c ∈ children sch b)
    (ha : a ∈ ancestorsOf sch b) : a ∈ ancestorsOf sch c := by
  obtain ⟨d, hd, rfl, hb⟩ := mem_children.1 h
  rw [ancestorsOf_of_mem wf hd]
  exact (wf.anc_complete d hd b hb).2 a ha

/-- stored ancestors are transitively closed -/
theorem anc_trans {sch : Schema} (wf : WF sch) : ∀ (n : Nat) (d c t : TypeId), rank sch d = n →
    c ∈ ancestorsOf sch d → t ∈ ancestorsOf sch c → t ∈ ancestorsOf sch d := by
  intro n
  induction n using Nat.strongRecOn with
  | ind n ih =>
    intro d c t hn hc ht
    obtain ⟨b, hdb, r⟩ := anc_base wf hc
    rcases r with rfl | hcb
    · exact anc_up wf hdb ht
    · have hr := rank_child wf hdb
      exact anc_up wf hdb (ih (rank sch b) (by omega) b c t rfl hcb ht)

/-- stored ancestors are exactly spec-level subtyping -/
theorem sub_of_anc {sch : Schema} (wf : WF sch) {t : TypeId} : ∀ (n : Nat) (d : TypeId), rank sch d = n →
    t ∈ ancestorsOf sch d → Sub sch d t := by
  intro n
  induction n using Nat.strongRecOn with
  | ind n ih =>
    intro d hn ht
    obtain ⟨b, hdb, r⟩ := anc_base wf ht
    rcases r with rfl | hb
    · exact Sub.step hdb (Sub.refl _)
    · have hr := rank_child wf hdb
      exact Sub.step hdb (ih (rank sch b) (by omega) b rfl hb)

theorem anc_of_sub {sch : Schema} (wf : WF sch) {d t : TypeId} (h : Sub sch d t) :
    d = t ∨ t ∈ ancestorsOf sch d := by
  induction h with
  | refl => exact Or.inl rfl
  | step hc _ ih =>
    right
    rcases ih with rfl | h'
    · exact child_anc wf hc
    · exact anc_up wf hc h'

theorem inScope_iff_sub {sch : Schema} (wf : WF sch) (t : TypeId) (o : Obj) :
    inScope sch ⟨t, false⟩ o = true ↔ Sub sch o.ty t := by
  simp only [inScope, Bool.not_false, Bool.true_and, Bool.or_eq_true, beq_iff_eq,
    List.contains_iff_mem]
  constructor
  · rintro (h | h)
    · rw [h]; exact Sub.refl _
    · exact sub_of_anc wf _ o.ty rfl h
  · exact anc_of_sub wf

theorem child_material {sch : Schema} (wf : WF sch) {c t : TypeId} (h : c ∈ children sch t) :
    isMaterial sch t = true := by
  obtain ⟨d, hd, rfl, hb⟩ := mem_children.1 h
  obtain ⟨_, e, he, rfl, hm⟩ := base_earlier wf hd hb
  rw [isMaterial_of_mem wf he, hm]

end EdbVerif.Policy
