/-
C05 helper lemmas, part 2: the frame argument.  A change of one pointer only
needs a *local* correctness statement (`LocalOK`): the emitted operations take
the part of the catalog in the pointer's footprint from the layout of the old
pointer to the layout of the new one and touch nothing else.
-/
import EdbVerif.Lemmas.StorageBasic

namespace EdbVerif.Storage

/-- `c` agrees with the layout of `p` on `p`'s footprint; the source's table exists -/
structure Agrees (c : Catalog) (p : Ptr) : Prop where
  tbl : .ptr p.id ∈ c.tables ↔ p.hasTable = true
  cols : ∀ x, Foot p x → (x ∈ c.cols ↔ x ∈ ptrCols p)
  src : ∀ t, p.src = some t → .obj t ∈ c.tables

/-- the operations succeed, take the local state of `p` to that of `p'` and
    touch nothing outside the footprint -/
def LocalOK (p p' : Ptr) (ops : List Op) : Prop :=
  ∀ c, Agrees c p → ∃ c', execAll c ops = some c' ∧
    (∀ t, t ≠ .ptr p.id → (t ∈ c'.tables ↔ t ∈ c.tables)) ∧
    (.ptr p.id ∈ c'.tables ↔ p'.hasTable = true) ∧
    (∀ x, ¬ Foot p x → (x ∈ c'.cols ↔ x ∈ c.cols)) ∧
    (∀ x, Foot p x → (x ∈ c'.cols ↔ x ∈ ptrCols p'))

theorem agrees_of_equiv {s : Schema} {c : Catalog} (w : WF s) (he : c.Equiv (layout s))
    {p : Ptr} (hp : p ∈ s.ptrs) : Agrees c p := by
  refine ⟨?_, ?_, ?_⟩
  · rw [he.1, mem_layout_tables]
    constructor
    · rintro (⟨d, _, h⟩ | ⟨q, hq, h⟩)
      · cases h
      · obtain ⟨ht, hid⟩ := mem_ptrTables.mp h
        have : p = q := w.eq_of_id hp hq (TName.ptr.inj hid)
        rw [this]; exact ht
    · intro h
      exact Or.inr ⟨p, hp, mem_ptrTables.mpr ⟨h, rfl⟩⟩
  · intro x hx
    rw [he.2, mem_layout_cols]
    constructor
    · rintro ⟨q, hq, h⟩
      have : p = q := w.foot_disjoint hp hq hx (foot_of_mem_ptrCols h)
      rw [this]; exact h
    · intro h; exact ⟨p, hp, h⟩
  · intro t ht
    rw [he.1, mem_layout_tables]
    have := w.srcs p hp t ht
    unfold Schema.typeIds at this
    obtain ⟨d, hd, rfl⟩ := List.mem_map.mp this
    exact Or.inl ⟨d, hd, rfl⟩

theorem mem_updPtr {s : Schema} (w : WF s) {i : Nat} {p : Ptr} (hf : s.findPtr i = some p)
    (f : Ptr → Ptr) {q' : Ptr} :
    q' ∈ (s.updPtr i f).ptrs ↔ q' = f p ∨ (q' ∈ s.ptrs ∧ q'.id ≠ i) := by
  obtain ⟨hp, hpi⟩ := findPtr_some hf
  simp only [Schema.updPtr, List.mem_map]
  constructor
  · rintro ⟨q, hq, rfl⟩
    by_cases h : q.id = i
    · have : q = p := w.eq_of_id hq hp (by rw [h, hpi])
      subst this
      left; simp [h]
    · simp [h, hq]
  · rintro (rfl | ⟨hq, hne⟩)
    · exact ⟨p, hp, by simp [hpi]⟩
    · exact ⟨q', hq, by simp [hne]⟩

theorem foot_congr {p p' : Ptr} (hid : p'.id = p.id) (hsrc : p'.src = p.src)
    (hcol : colOf p'.name p'.id = colOf p.name p.id) (x : TName × CName) : Foot p' x ↔ Foot p x := by
  unfold Foot
  rw [hid] at hcol
  rw [hid, hsrc, hcol]

/-- local correctness lifts to the whole catalog -/
theorem lift_local {s : Schema} {c : Catalog} (w : WF s) (he : c.Equiv (layout s))
    {i : Nat} {p : Ptr} (hf : s.findPtr i = some p) (f : Ptr → Ptr)
    (hid : (f p).id = p.id) (hsrc : (f p).src = p.src)
    (hcol : colOf (f p).name (f p).id = colOf p.name p.id)
    {ops : List Op} (hl : LocalOK p (f p) ops) :
    ∃ c', execAll c ops = some c' ∧ c'.Equiv (layout (s.updPtr i f)) := by
  obtain ⟨hp, hpi⟩ := findPtr_some hf
  obtain ⟨c', hex, hT, hTp, hC, hCp⟩ := hl c (agrees_of_equiv w he hp)
  refine ⟨c', hex, ?_, ?_⟩
  · intro t
    rw [mem_layout_tables]
    have htypes : (s.updPtr i f).types = s.types := rfl
    rw [htypes]
    by_cases ht : t = .ptr p.id
    · subst ht
      rw [hTp]
      constructor
      · intro h
        exact Or.inr ⟨f p, (mem_updPtr w hf f).mpr (Or.inl rfl), mem_ptrTables.mpr ⟨h, by rw [hid]⟩⟩
      · rintro (⟨d, _, h⟩ | ⟨q', hq', h⟩)
        · cases h
        · obtain ⟨hht, hq⟩ := mem_ptrTables.mp h
          rcases (mem_updPtr w hf f).mp hq' with rfl | ⟨hq1, hq2⟩
          · exact hht
          · exact absurd ((TName.ptr.inj hq).symm.trans hpi) hq2
    · rw [hT t ht, he.1, mem_layout_tables]
      constructor
      · rintro (h | ⟨q, hq, h⟩)
        · exact Or.inl h
        · refine Or.inr ⟨q, (mem_updPtr w hf f).mpr (Or.inr ⟨hq, ?_⟩), h⟩
          intro hqi
          have : q = p := w.eq_of_id hq hp (by rw [hqi, hpi])
          subst this
          exact ht (mem_ptrTables.mp h).2
      · rintro (h | ⟨q', hq', h⟩)
        · exact Or.inl h
        · rcases (mem_updPtr w hf f).mp hq' with rfl | ⟨hq1, _⟩
          · exact absurd ((mem_ptrTables.mp h).2.trans (by rw [hid])) ht
          · exact Or.inr ⟨q', hq1, h⟩
  · intro x
    rw [mem_layout_cols]
    by_cases hx : Foot p x
    · rw [hCp x hx]
      constructor
      · intro h; exact ⟨f p, (mem_updPtr w hf f).mpr (Or.inl rfl), h⟩
      · rintro ⟨q', hq', h⟩
        rcases (mem_updPtr w hf f).mp hq' with rfl | ⟨hq1, hq2⟩
        · exact h
        · have : p = q' := w.foot_disjoint hp hq1 hx (foot_of_mem_ptrCols h)
          exact absurd (this ▸ hpi) hq2
    · rw [hC x hx, he.2, mem_layout_cols]
      constructor
      · rintro ⟨q, hq, h⟩
        refine ⟨q, (mem_updPtr w hf f).mpr (Or.inr ⟨hq, ?_⟩), h⟩
        intro hqi
        have : q = p := w.eq_of_id hq hp (by rw [hqi, hpi])
        subst this
        exact hx (foot_of_mem_ptrCols h)
      · rintro ⟨q', hq', h⟩
        rcases (mem_updPtr w hf f).mp hq' with rfl | ⟨hq1, _⟩
        · exact absurd ((foot_congr hid hsrc hcol x).mp (foot_of_mem_ptrCols h)) hx
        · exact ⟨q', hq1, h⟩

/-- well-formedness survives the update of one pointer -/
theorem wf_updPtr {s : Schema} (w : WF s) {i : Nat} {p : Ptr} (hf : s.findPtr i = some p)
    (f : Ptr → Ptr) (hid : ∀ q, (f q).id = q.id) (hsrc : (f p).src = p.src)
    (hname : (f p).name = p.name ∨ s.nameUsed p.src (f p).name = false)
    (hlp : ((f p).lprops.map (·.id)).Nodup)
    (hln : ∀ lp ∈ (f p).lprops, lp.implicitName = false) : WF (s.updPtr i f) := by
  obtain ⟨hp, hpi⟩ := findPtr_some hf
  refine ⟨?_, ?_, ?_, ?_, ?_⟩
  · have : (s.updPtr i f).ptrIds = s.ptrIds := by
      simp only [Schema.ptrIds, Schema.updPtr, List.map_map]
      apply List.map_congr_left
      intro q _
      by_cases h : q.id = i <;> simp [h, hid]
    rw [this]; exact w.ids
  · intro a ha b hb hs hn
    rcases (mem_updPtr w hf f).mp ha with rfl | ⟨ha1, ha2⟩ <;>
      rcases (mem_updPtr w hf f).mp hb with rfl | ⟨hb1, hb2⟩
    · rfl
    · rw [hid]
      rcases hname with hname | hname
      · exact w.names p hp b hb1 (by rw [← hsrc, hs]) (by rw [← hname, hn])
      · exfalso
        simp only [Schema.nameUsed, List.any_eq_false, Bool.and_eq_true, beq_iff_eq, not_and] at hname
        exact hname b hb1 (by rw [← hs, hsrc]) hn.symm
    · rw [hid]
      rcases hname with hname | hname
      · exact w.names a ha1 p hp (by rw [hs, hsrc]) (by rw [hn, hname])
      · exfalso
        simp only [Schema.nameUsed, List.any_eq_false, Bool.and_eq_true, beq_iff_eq, not_and] at hname
        exact hname a ha1 (by rw [hs, hsrc]) hn
    · exact w.names a ha1 b hb1 hs hn
  · intro a ha t ht
    have htypes : (s.updPtr i f).typeIds = s.typeIds := rfl
    rw [htypes]
    rcases (mem_updPtr w hf f).mp ha with rfl | ⟨ha1, _⟩
    · exact w.srcs p hp t (by rw [← hsrc]; exact ht)
    · exact w.srcs a ha1 t ht
  · intro a ha
    rcases (mem_updPtr w hf f).mp ha with rfl | ⟨ha1, _⟩
    · exact hlp
    · exact w.lpids a ha1
  · intro a ha
    rcases (mem_updPtr w hf f).mp ha with rfl | ⟨ha1, _⟩
    · exact hln
    · exact w.lpnames a ha1

end EdbVerif.Storage
