/-
C19: `from_json(to_json(m)) == m` – the map level and the scalar / set-of-scalar
value codecs.  (Objects: `ConfigJsonObj.lean`.)
-/
import EdbVerif.Lemmas.Config
import EdbVerif.Lemmas.Duration
import EdbVerif.Lemmas.Memory
namespace EdbVerif.Config

theorem Scope.ofName_name (sc : Scope) : Scope.ofName sc.name = some sc := by
  cases sc <;> decide

theorem mapE_cons_ok {α β : Type} (f : α → Except Err β) (x : α) (r : List α) (y : β) (ys : List β)
    (h1 : f x = .ok y) (h2 : mapE f r = .ok ys) : mapE f (x :: r) = .ok (y :: ys) := by
  simp [mapE, h1, h2]

/-- the JSON entry `to_json_obj` writes for one setting -/
def entryJson (k : String) (sv : SV) (j : JV) : JV :=
  .obj [("name", .str k), ("source", .str sv.source), ("scope", .str sv.scope.name), ("value", j)]

theorem entryFromJson_entryJson (sp : Spec) (k : String) (s : Setting) (sv : SV) (j : JV)
    (hn : sv.name = k) (hv : valueFromJson sp s j = .ok sv.value) :
    entryFromJson sp k s (entryJson k sv j) = .ok sv := by
  unfold entryFromJson entryJson
  have e1 : jget [("name", JV.str k), ("source", .str sv.source), ("scope", .str sv.scope.name), ("value", j)] "value" = some j := by
    simp [jget, List.find?]
  have e2 : jget [("name", JV.str k), ("source", .str sv.source), ("scope", .str sv.scope.name), ("value", j)] "source" = some (.str sv.source) := by
    simp [jget, List.find?]
  have e3 : jget [("name", JV.str k), ("source", .str sv.source), ("scope", .str sv.scope.name), ("value", j)] "scope" = some (.str sv.scope.name) := by
    simp [jget, List.find?]
  simp only [e1, e2, e3, hv, Scope.ofName_name]
  cases sv; simp_all

theorem json_roundtrip_aux (sp : Spec) : ∀ (m acc : SMap),
    (acc ++ m).WF →
    (∀ kv ∈ m, ∃ s, sp.get kv.1 = some s ∧ kv.2.name = kv.1 ∧ RT sp s kv.2.value) →
    ∃ es, mapE (toJsonEntry sp) m = .ok es ∧
      fromJsonEntries sp es acc = .ok (acc ++ m) := by
  intro m
  induction m with
  | nil => intro acc _ _; exact ⟨[], rfl, by simp [fromJsonEntries]⟩
  | cons kv r ih =>
    intro acc hwf hent
    obtain ⟨k, sv⟩ := kv
    obtain ⟨s, hs, hn, j, hj1, hj2⟩ := hent (k, sv) (by simp)
    have hk : k ∉ acc.keys := by
      unfold SMap.WF SMap.keys at hwf
      simp only [List.map_append, List.map_cons] at hwf
      rw [List.nodup_append] at hwf
      intro hmem
      exact hwf.2.2 k hmem k (by simp) rfl
    have hwf' : ((acc ++ [(k, sv)]) ++ r).WF := by simpa using hwf
    obtain ⟨es, he1, he2⟩ := ih (acc ++ [(k, sv)]) hwf' (fun kv h => hent kv (by simp [h]))
    refine ⟨(k, entryJson k sv j) :: es, ?_, ?_⟩
    · apply mapE_cons_ok _ _ _ _ _ _ he1
      simp only [toJsonEntry, hs, hj1, entryJson]
    · unfold fromJsonEntries
      simp only [hs, entryFromJson_entryJson sp k s sv j hn hj2]
      rw [SMap.set_of_not_mem acc k sv hk, he2]
      simp

/-- `from_json(to_json(m)) == m` for every storage map whose entries round-trip
    value-wise -/
theorem json_roundtrip (sp : Spec) (m : SMap) (hwf : m.WF)
    (hent : ∀ kv ∈ m, ∃ s, sp.get kv.1 = some s ∧ kv.2.name = kv.1 ∧ RT sp s kv.2.value) :
    ∃ j, toJson sp m = .ok j ∧ fromJson sp j = .ok m := by
  obtain ⟨es, h1, h2⟩ := json_roundtrip_aux sp m [] (by simpa using hwf) hent
  refine ⟨.obj es, ?_, ?_⟩
  · unfold toJson; rw [h1]
  · simpa [fromJson] using h2

/-! ### frozenset as a duplicate-free list -/

theorem dedupPy_of_PD : ∀ (l acc : List Scalar), PD (acc.reverse ++ l) → dedupPy acc l = acc.reverse ++ l := by
  intro l
  induction l with
  | nil => intro acc _; simp [dedupPy]
  | cons x r ih =>
    intro acc h
    have hx : memPy x acc = false := by
      unfold memPy
      rw [Bool.eq_false_iff, ne_eq, List.any_eq_true]
      rintro ⟨a, ha, hax⟩
      unfold PD at h
      rw [List.pairwise_append] at h
      have := h.2.2 a (by simpa using ha) x (by simp)
      rw [this] at hax; exact Bool.noConfusion hax
    unfold dedupPy
    simp only [hx, Bool.false_eq_true, if_false]
    have := ih (x :: acc) (by simpa using h)
    simpa using this

theorem mkSet_of_PD (l : List Scalar) (h : PD l) : mkSet l = l := by
  simpa [mkSet] using dedupPy_of_PD l [] (by simpa using h)

theorem dedupPy_PD : ∀ (l acc : List Scalar), PD acc.reverse → PD (dedupPy acc l) := by
  intro l
  induction l with
  | nil => intro acc h; simpa [dedupPy] using h
  | cons x r ih =>
    intro acc h
    unfold dedupPy
    by_cases hx : memPy x acc = true
    · simp only [hx, if_true]; exact ih acc h
    · simp only [hx, Bool.false_eq_true, if_false]
      apply ih
      unfold PD at *
      rw [List.reverse_cons, List.pairwise_append]
      refine ⟨h, by simp, ?_⟩
      intro a ha b hb
      simp at hb; subst hb
      have : memPy b acc = false := by simpa using hx
      unfold memPy at this
      rw [Bool.eq_false_iff, ne_eq, List.any_eq_true] at this
      cases hab : a.pyEq b with
      | false => rfl
      | true => exact absurd ⟨a, by simpa using ha, hab⟩ this

/-- what `frozenset(...)` builds is duplicate-free, and rebuilding it is the identity -/
theorem mkSet_PD (l : List Scalar) : PD (mkSet l) := dedupPy_PD l [] (by simp [PD])

theorem mkSet_idem (l : List Scalar) : mkSet (mkSet l) = mkSet l := mkSet_of_PD _ (mkSet_PD l)

/-! ### atoms -/

theorem raw_roundtrip (x : Scalar) (h : Raw x) : ∃ j, rawToJson x = .ok j ∧ atomOfJson j = .ok x := by
  cases x <;> simp [Raw] at h <;> exact ⟨_, rfl, rfl⟩

theorem raw_list_roundtrip : ∀ (l : List Scalar), (∀ x ∈ l, Raw x) →
    ∃ js, mapE rawToJson l = .ok js ∧ mapE atomOfJson js = .ok l := by
  intro l
  induction l with
  | nil => intro _; exact ⟨[], rfl, rfl⟩
  | cons x r ih =>
    intro h
    obtain ⟨j, h1, h2⟩ := raw_roundtrip x (h x (by simp))
    obtain ⟨js, h3, h4⟩ := ih (fun y hy => h y (by simp [hy]))
    exact ⟨j :: js, mapE_cons_ok _ _ _ _ _ h1 h3, mapE_cons_ok _ _ _ _ _ h2 h4⟩

theorem toList_ofList (l : List Char) : (String.ofList l).toList = l := by simp

/-! ### value-level round trips, one per kind of setting -/

theorem RT_set (sp : Spec) (s : Setting) (t : STy) (l : List Scalar)
    (hty : s.ty = .sc t) (hso : s.setOf = true) (hraw : ∀ x ∈ l, Raw x) (hpd : PD l) :
    RT sp s (.set l) := by
  obtain ⟨js, h1, h2⟩ := raw_list_roundtrip l hraw
  refine ⟨.list js, ?_, ?_⟩
  · unfold valueToJson; simp [hty, hso, h1, Except.map]
  · unfold valueFromJson; simp [hty, hso, sizedItems, h2, mkSet_of_PD l hpd, Except.map]

theorem RT_raw (sp : Spec) (s : Setting) (t : STy) (x : Scalar)
    (hty : s.ty = .sc t) (hso : s.setOf = false) (ht : t = .bool ∨ t = .int ∨ t = .str)
    (hraw : Raw x) : RT sp s (.sc x) := by
  obtain ⟨j, h1, h2⟩ := raw_roundtrip x hraw
  refine ⟨j, ?_, ?_⟩
  · unfold valueToJson
    rcases ht with rfl | rfl | rfl <;> simp [hty, hso, STy.isScalarType, h1]
  · unfold valueFromJson
    rcases ht with rfl | rfl | rfl <;> simp [hty, hso, h2]

theorem RT_dur (sp : Spec) (s : Setting) (us : Int)
    (hty : s.ty = .sc .dur) (hso : s.setOf = false) : RT sp s (.sc (.dur us)) := by
  refine ⟨.str (String.ofList (Duration.toIso us)), ?_, ?_⟩
  · unfold valueToJson; simp [hty, hso, STy.isScalarType, scalarToJson]
  · unfold valueFromJson
    simp [hty, hso, mkDurationIso, Duration.parseIso_toIso, Except.map]

theorem RT_mem (sp : Spec) (s : Setting) (n : Nat)
    (hty : s.ty = .sc .mem) (hso : s.setOf = false) : RT sp s (.sc (.mem n)) := by
  refine ⟨.str (String.ofList (Memory.memToStr n)), ?_, ?_⟩
  · unfold valueToJson; simp [hty, hso, STy.isScalarType, scalarToJson]
  · unfold valueFromJson
    simp [hty, hso, mkMemory, Memory.memory_roundtrip, Except.map]

theorem RT_enum (sp : Spec) (s : Setting) (vals : List String) (ql x : String)
    (hty : s.ty = .sc (.enum vals ql)) (hso : s.setOf = false) (hx : vals.contains x = true) :
    RT sp s (.sc (.enum x)) := by
  refine ⟨.str x, ?_, ?_⟩
  · unfold valueToJson; simp [hty, hso, STy.isScalarType, scalarToJson]
  · unfold valueFromJson
    have hx' : x ∈ vals := by simpa using hx
    simp [hty, hso, mkEnum, hx', Except.map]

end EdbVerif.Config
