/-
The order-theoretic core of C11, independent of the SDL model:
any two linear extensions of a dependency relation give the same result when
independent steps commute.
-/
import Mathlib.Data.List.Perm.Basic
import Mathlib.Data.List.Nodup

namespace EdbVerif.Sdl

variable {α σ : Type}

/-- run partial steps left to right (`none` = some step was rejected) -/
def runSteps (step : σ → α → Option σ) (s : σ) (l : List α) : Option σ :=
  l.foldlM step s

@[simp] theorem runSteps_nil (step : σ → α → Option σ) (s : σ) : runSteps step s [] = some s := rfl

@[simp] theorem runSteps_cons (step : σ → α → Option σ) (s : σ) (a : α) (l : List α) :
    runSteps step s (a :: l) = (step s a).bind fun s' => runSteps step s' l := by
  simp [runSteps, List.foldlM_cons]

theorem runSteps_append (step : σ → α → Option σ) (s : σ) (l₁ l₂ : List α) :
    runSteps step s (l₁ ++ l₂) = (runSteps step s l₁).bind fun s' => runSteps step s' l₂ := by
  induction l₁ generalizing s with
  | nil => simp
  | cons a t ih =>
    simp only [List.cons_append, runSteps_cons, ih]
    cases step s a <;> simp

/-- Two steps commute (in the `Option` monad). -/
def CommuteAt (step : σ → α → Option σ) (a b : α) : Prop :=
  ∀ s, (step s a).bind (fun s' => step s' b) = (step s b).bind (fun s' => step s' a)

/-- moving a step to the front past steps it commutes with -/
theorem runSteps_move_front (step : σ → α → Option σ) (a : α) (u v : List α)
    (hc : ∀ x ∈ u, CommuteAt step x a) (s : σ) :
    runSteps step s (u ++ a :: v) = runSteps step s (a :: (u ++ v)) := by
  induction u generalizing s with
  | nil => simp
  | cons x u ih =>
    have hx := hc x (by simp)
    have ih' := fun s => ih (fun y hy => hc y (by simp [hy])) s
    simp only [List.cons_append, runSteps_cons, ih']
    -- (step s x >>= fun s' => step s' a >>= run (u++v)) = (step s a >>= fun s' => step s' x >>= run (u ++ v))
    have h := hx s
    calc (step s x).bind (fun s' => (step s' a).bind fun s'' => runSteps step s'' (u ++ v))
        = ((step s x).bind fun s' => step s' a).bind fun s'' => runSteps step s'' (u ++ v) := by
          cases step s x <;> simp
      _ = ((step s a).bind fun s' => step s' x).bind fun s'' => runSteps step s'' (u ++ v) := by rw [h]
      _ = (step s a).bind (fun s' => (step s' x).bind fun s'' => runSteps step s'' (u ++ v)) := by
          cases step s a <;> simp

/--
**Linear extensions agree.**  `Dep a b` reads "a depends on b".  If steps that
do not depend on each other commute, then any two duplicate-free orderings of
the same steps in which nothing precedes something it depends on produce the
same result (including the same failure).
-/
theorem linear_extensions_equal (step : σ → α → Option σ) (Dep : α → α → Prop)
    (comm : ∀ a b, a ≠ b → ¬ Dep a b → ¬ Dep b a → CommuteAt step a b)
    {l₁ l₂ : List α} (hp : l₁.Perm l₂) (hn : l₁.Nodup)
    (h₁ : l₁.Pairwise fun x y => ¬ Dep x y) (h₂ : l₂.Pairwise fun x y => ¬ Dep x y) (s : σ) :
    runSteps step s l₁ = runSteps step s l₂ := by
  induction l₁ generalizing l₂ s with
  | nil => rw [hp.nil_eq]
  | cons a t ih =>
    have ha : a ∈ l₂ := hp.subset (by simp)
    obtain ⟨u, v, rfl⟩ := List.append_of_mem ha
    have hpt : t.Perm (u ++ v) := (List.perm_middle.symm.trans hp.symm).cons_inv.symm |>.symm |>.symm
    have hn₂ : (u ++ a :: v).Nodup := hp.nodup_iff.mp hn
    have hat : ∀ y ∈ t, ¬ Dep a y := (List.pairwise_cons.mp h₁).1
    have hu : ∀ x ∈ u, CommuteAt step x a := by
      intro x hx
      have hxa : x ≠ a := by
        intro h; subst h
        have := List.nodup_append.mp hn₂
        exact this.2.2 x hx x (by simp) rfl
      have hxt : x ∈ t := by
        have : x ∈ a :: t := hp.symm.subset (by simp [hx])
        rcases List.mem_cons.mp this with h | h
        · exact absurd h hxa
        · exact h
      have hdx : ¬ Dep x a := by
        have := List.pairwise_append.mp h₂
        exact this.2.2 x hx a (by simp)
      exact comm x a hxa hdx (hat x hxt)
    rw [runSteps_move_front step a u v hu s, runSteps_cons, runSteps_cons]
    have h₂' : (u ++ v).Pairwise fun x y => ¬ Dep x y :=
      h₂.sublist (List.Sublist.append (List.Sublist.refl u) (List.sublist_cons_self a v))
    have := fun s' => ih hpt (List.nodup_cons.mp hn).2 (List.pairwise_cons.mp h₁).2 h₂' s'
    simp only [this]

/-- From "dependencies come first" (positions) to the pairwise form. -/
theorem pairwise_of_idxOf [DecidableEq α] (R : α → α → Prop) :
    ∀ (l : List α), l.Nodup →
      (∀ a b, a ∈ l → b ∈ l → R a b → l.idxOf b < l.idxOf a) →
      l.Pairwise fun x y => ¬ R x y
  | [], _, _ => List.Pairwise.nil
  | x :: t, hn, h => by
    have hxt : x ∉ t := (List.nodup_cons.mp hn).1
    refine List.pairwise_cons.mpr ⟨?_, pairwise_of_idxOf R t (List.nodup_cons.mp hn).2 ?_⟩
    · intro y hy hr
      have := h x y (by simp) (by simp [hy])  hr
      simp at this
    · intro a b ha hb hr
      have hax : a ≠ x := fun e => hxt (e ▸ ha)
      have hbx : b ≠ x := fun e => hxt (e ▸ hb)
      have := h a b (by simp [ha]) (by simp [hb]) hr
      rw [List.idxOf_cons_ne _ (Ne.symm hbx), List.idxOf_cons_ne _ (Ne.symm hax)] at this
      omega

end EdbVerif.Sdl
