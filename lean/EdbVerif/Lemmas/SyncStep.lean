/-
C17: what one request does to the chosen worker, slot by slot.
-/
import EdbVerif.Lemmas.SyncBasic

namespace EdbVerif.Sync

/-- `Side.get` only looks at the three state fields -/
theorem Side.get_congr (s s' : Side) (h1 : s.dbs = s'.dbs) (h2 : s.glob = s'.glob)
    (h3 : s.sys = s'.sys) (σ : Slot) : s.get σ = s'.get σ := by
  cases σ <;> simp [Side.get, h1, h2, h3]

/-! ### compile -/

theorem stepCompile_frame (env : Env) (st : State) (r : CReq) (i : Nat) (h : i ≠ r.w) :
    (stepCompileRun env st r).1 i = st i := by
  unfold stepCompileRun
  simp only []
  split
  · exact upd_other _ _ _ _ h
  · split
    · exact upd_other _ _ _ _ h
    · split
      · exact upd_other _ _ _ _ h
      · split <;> exact upd_other _ _ _ _ h

/-- the worker's slots after the request are those `__sync__` left -/
theorem stepCompile_act (env : Env) (st : State) (r : CReq) (σ : Slot) :
    ((stepCompileRun env st r).1 r.w).act.get σ =
      (wsync env (st r.w).act r.db (preargs (st r.w).bel r)).1.get σ := by
  unfold stepCompileRun
  simp only []
  split
  · rename_i h; simp [h]
  · rename_i h
    split
    · simp [h]; cases σ <;> rfl
    · split
      · simp [h]; cases σ <;> rfl
      · split <;> (simp [h]; cases σ <;> rfl)

theorem Side.forget_get (b : Side) (σ : Slot) : b.forget.get σ = b.get σ := by
  cases σ <;> rfl

/-- `FailedStateSync` ⇒ no believed slot changes -/
theorem stepCompile_bel_fail (env : Env) (st : State) (r : CReq) :
    (wsync env (st r.w).act r.db (preargs (st r.w).bel r)).2 = none →
    (∀ σ, ((stepCompileRun env st r).1 r.w).bel.get σ = (st r.w).bel.get σ) ∧
      (stepCompileRun env st r).2.used = none ∧ (stepCompileRun env st r).2.res = .syncFail := by
  unfold stepCompileRun
  simp only []
  generalize wsync env (st r.w).act r.db (preargs (st r.w).bel r) = W
  obtain ⟨a', sres⟩ := W
  cases sres <;> simp [Side.forget_get]

/-- status 2 ⇒ no believed slot changes although the worker synced -/
theorem stepCompile_bel_unp (env : Env) (st : State) (r : CReq) (h : r.out = .resultUnpicklable)
    (σ : Slot) : ((stepCompileRun env st r).1 r.w).bel.get σ = (st r.w).bel.get σ := by
  unfold stepCompileRun
  simp only []
  generalize wsync env (st r.w).act r.db (preargs (st r.w).bel r) = W
  obtain ⟨a', sres⟩ := W
  cases sres <;> simp [h, Side.forget_get]

/-- complete sync and a reply that can be sent ⇒ the callback ran -/
theorem stepCompile_bel_acked (env : Env) (st : State) (r : CReq) (d : Db3)
    (ho : r.out ≠ .resultUnpicklable) :
    (wsync env (st r.w).act r.db (preargs (st r.w).bel r)).2 = some d →
    ∃ b', withAck (st r.w).bel r.db (preargs (st r.w).bel r) = some b' ∧
      ∀ σ, ((stepCompileRun env st r).1 r.w).bel.get σ = b'.get σ := by
  obtain ⟨b', hb'⟩ := withAck_defined (st r.w).bel r
  unfold stepCompileRun
  simp only []
  generalize wsync env (st r.w).act r.db (preargs (st r.w).bel r) = W
  obtain ⟨a', sres⟩ := W
  intro h
  cases sres with
  | none => simp at h
  | some d' =>
    refine ⟨b', hb', ?_⟩
    simp only [hb']
    cases hout : r.out <;> simp_all <;> intro σ <;> cases σ <;> rfl

/-- what the compiler received: the record `__sync__` returned plus the two globals -/
theorem stepCompile_used (env : Env) (st : State) (r : CReq) (u : Used) :
    (stepCompileRun env st r).2.used = some u →
    ∃ d, (wsync env (st r.w).act r.db (preargs (st r.w).bel r)).2 = some d ∧
      u = ⟨d.schema, (wsync env (st r.w).act r.db (preargs (st r.w).bel r)).1.glob, d.refl, d.dbcfg,
           (wsync env (st r.w).act r.db (preargs (st r.w).bel r)).1.sys⟩ := by
  obtain ⟨b', hb'⟩ := withAck_defined (st r.w).bel r
  unfold stepCompileRun
  simp only []
  generalize wsync env (st r.w).act r.db (preargs (st r.w).bel r) = W
  obtain ⟨a', sres⟩ := W
  cases sres with
  | none => simp
  | some d' =>
    simp only [hb']
    cases hout : r.out <;> simp <;> intro h <;> exact h.symm



/-- a `compile` request changes a worker-side slot only to the value sent for it -/
theorem compile_act_slot (env : Env) (st : State) (r : CReq) (σ : Slot) :
    ((stepCompileRun env st r).1 r.w).act.get σ = (st r.w).act.get σ ∨
      ∃ t, (preargs (st r.w).bel r).at r.db σ = some t ∧
        ((stepCompileRun env st r).1 r.w).act.get σ = some t := by
  rw [stepCompile_act]
  exact wsync_slot ..

/-- a `compile` request changes a believed slot only to the value sent for it,
    and only when the worker has installed that value -/
theorem compile_bel_slot (env : Env) (st : State) (r : CReq) (σ : Slot) :
    ((stepCompileRun env st r).1 r.w).bel.get σ = (st r.w).bel.get σ ∨
      ∃ t, (preargs (st r.w).bel r).at r.db σ = some t ∧
        ((stepCompileRun env st r).1 r.w).bel.get σ = some t ∧
        ((stepCompileRun env st r).1 r.w).act.get σ = some t := by
  cases hW : (wsync env (st r.w).act r.db (preargs (st r.w).bel r)).2 with
  | none => left; rw [(stepCompile_bel_fail env st r hW).1 σ]
  | some d =>
    by_cases ho : r.out = .resultUnpicklable
    · left; rw [stepCompile_bel_unp env st r ho σ]
    · obtain ⟨b', hb', hget⟩ := stepCompile_bel_acked env st r d ho hW
      rcases withAck_slot _ b' _ _ hb' σ with h | ⟨t, hs, ht⟩
      · left; rw [hget, h]
      · right
        refine ⟨t, hs, by rw [hget, ht], ?_⟩
        rw [stepCompile_act]
        exact wsync_ok_slot env _ _ _ d σ t hs hW

/-- the compiler received the supplied tuple iff the worker holds the supplied
    value in each of the five slots after `__sync__` -/
theorem compile_used_iff (env : Env) (st : State) (r : CReq) (u : Used)
    (h : (stepCompileRun env st r).2.used = some u) :
    u = r.supplied ↔ ∀ p ∈ r.slots, ((stepCompileRun env st r).1 r.w).act.get p.1 = some p.2 := by
  obtain ⟨d, hW, hu⟩ := stepCompile_used env st r u h
  have hdb := wsync_ok_db env _ _ _ d hW
  simp only [stepCompile_act]
  subst hu
  simp [CReq.slots, CReq.supplied, Side.get, hdb]
  intro _
  constructor <;> (intro h; simp_all)


theorem slots_fun (r : CReq) (σ : Slot) (t t' : Tok) (h : (σ, t) ∈ r.slots) (h' : (σ, t') ∈ r.slots) :
    t = t' := by
  simp only [CReq.slots, List.mem_cons, List.mem_nil_iff, or_false, Prod.mk.injEq] at h h'
  rcases h with h | h | h | h | h <;> rcases h' with h' | h' | h' | h' | h' <;>
    (obtain ⟨h1, h2⟩ := h; obtain ⟨h3, h4⟩ := h'; subst h1; simp_all)

/-- **Exactness.**  A `compile` request that reaches the compiler is served
    with the supplied five parts iff no elided part is held differently by the
    worker. -/
theorem compile_used_exact (env : Env) (st : State) (r : CReq) (u : Used)
    (h : (stepCompileRun env st r).2.used = some u) : u = r.supplied ↔ Safe (st r.w) r := by
  rw [compile_used_iff env st r u h]
  obtain ⟨d, hW, _⟩ := stepCompile_used env st r u h
  constructor
  · intro hall hb p hp hbel
    have hns : (preargs (st r.w).bel r).at r.db p.1 = none := by
      cases hat : (preargs (st r.w).bel r).at r.db p.1 with
      | none => rfl
      | some t =>
        obtain ⟨hm, hne⟩ := preargs_at_some _ _ _ _ hat
        have := slots_fun r p.1 t p.2 hm hp
        subst this
        exact absurd hbel (hne hb)
    rcases compile_act_slot env st r p.1 with h1 | ⟨t, h1, _⟩
    · rw [← h1]; exact hall p hp
    · rw [hns] at h1; cases h1
  · intro hsafe p hp
    cases hat : (preargs (st r.w).bel r).at r.db p.1 with
    | some t =>
      obtain ⟨hm, _⟩ := preargs_at_some _ _ _ _ hat
      have := slots_fun r p.1 t p.2 hm hp
      subst this
      rw [stepCompile_act]
      exact wsync_ok_slot env _ _ _ d p.1 _ hat hW
    | none =>
      have hbel := preargs_at_none _ r p.1 p.2 hp hat
      have hb : (st r.w).bel.dbs r.db ≠ none := by
        intro hb
        rw [preargs_unknown_db _ r hb p.1 p.2 hp] at hat
        cases hat
      rcases compile_act_slot env st r p.1 with h1 | ⟨t, h1, _⟩
      · rw [h1]; exact hsafe hb p hp hbel
      · rw [hat] at h1; cases h1

/-! ### requests the worker cannot read -/

theorem stepCompile_of_read (env : Env) (st : State) (r : CReq) (h : r.out ≠ .requestUnreadable) :
    stepCompile env st r = stepCompileRun env st r := by
  simp [stepCompile, h]

theorem stepCompile_of_lost (env : Env) (st : State) (r : CReq) (h : r.out = .requestUnreadable) :
    stepCompile env st r = stepCompileLost st r := by
  simp [stepCompile, h]

/-- nothing happens in the worker, nothing is compiled, nothing is acknowledged -/
theorem stepCompileLost_spec (st : State) (r : CReq) :
    (stepCompileLost st r).1 = upd st r.w ⟨(st r.w).bel.forget, (st r.w).act⟩ ∧
      (stepCompileLost st r).2.used = none ∧ (stepCompileLost st r).2.res = .syncFail :=
  ⟨rfl, rfl, rfl⟩

/-- … for every worker: believed slots and the worker process are as before -/
theorem stepCompileLost_same (st : State) (r : CReq) (i : Nat) :
    (∀ σ, ((stepCompileLost st r).1 i).bel.get σ = (st i).bel.get σ) ∧
      ((stepCompileLost st r).1 i).act = (st i).act := by
  rw [(stepCompileLost_spec st r).1]
  by_cases hi : i = r.w
  · subst hi; rw [upd_same]; exact ⟨fun σ => Side.forget_get _ σ, rfl⟩
  · rw [upd_other _ _ _ _ hi]; exact ⟨fun _ => rfl, rfl⟩

theorem stepCompile_frame' (env : Env) (st : State) (r : CReq) (i : Nat) (h : i ≠ r.w) :
    (stepCompile env st r).1 i = st i := by
  by_cases hl : r.out = .requestUnreadable
  · rw [stepCompile_of_lost env st r hl, (stepCompileLost_spec st r).1]
    exact upd_other _ _ _ _ h
  · rw [stepCompile_of_read env st r hl]; exact stepCompile_frame env st r i h

end EdbVerif.Sync
