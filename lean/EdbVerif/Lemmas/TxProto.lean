/-
Level 2 of C09: the composed system  server (dbview model) × compiler state, with the pickle
transport, refines the PostgreSQL-style session `PSpec` on every history inside the envelope
`PSpec.coversAll`.  Core Lean only.
-/
import EdbVerif.Lemmas.Tx

namespace EdbVerif.Tx

/-! ### dict lemmas -/

theorem dictGet_id {d : List TxState} {i : Nat} {x : TxState} (h : dictGet d i = some x) : x.id = i := by
  have := List.find?_some h
  simpa using this

theorem dictGet_mem {d : List TxState} {i : Nat} {x : TxState} (h : dictGet d i = some x) : x ∈ d :=
  List.mem_of_find?_eq_some h

theorem dictHas_eq (d : List TxState) (i : Nat) : dictHas d i = (dictGet d i).isSome := by
  unfold dictHas dictGet
  induction d with
  | nil => rfl
  | cons x xs ih =>
    simp only [List.any_cons, List.find?_cons]
    by_cases h : x.id == i <;> simp [h, ih]

theorem dictGet_append_fresh (d : List TxState) (s : TxState) (i : Nat) :
    dictGet (d ++ [s]) i = match dictGet d i with
      | some x => some x
      | none => if s.id = i then some s else none := by
  unfold dictGet
  rw [List.find?_append]
  cases h : List.find? (fun x => x.id == i) d with
  | some x => simp
  | none =>
    by_cases hs : s.id = i <;> simp [hs]

theorem dictGet_dictSet (d : List TxState) (s : TxState) (i : Nat) :
    dictGet (dictSet d s) i = if s.id = i then some s else dictGet d i := by
  unfold dictSet
  by_cases hany : d.any (fun x => x.id == s.id)
  · simp only [hany, ↓reduceIte]
    unfold dictGet
    induction d with
    | nil => simp at hany
    | cons x xs ih =>
      simp only [List.map_cons, List.find?_cons]
      by_cases hx : x.id = s.id
      · simp only [hx, beq_self_eq_true, ↓reduceIte]
        by_cases hi : s.id = i
        · simp [hi]
        · have : (s.id == i) = false := by simp [hi]
          simp only [this, hi, ↓reduceIte]
          by_cases hany' : xs.any (fun x => x.id == s.id)
          · have := ih hany'
            simp only [hi, ↓reduceIte] at this
            exact this
          · -- no further occurrence: the map is the identity on xs
            have hid : xs.map (fun x => if (x.id == s.id) = true then s else x) = xs := by
              have : ∀ y ∈ xs, (if (y.id == s.id) = true then s else y) = y := by
                intro y hy
                have : ¬ (y.id == s.id) = true := by
                  intro hc; exact hany' (List.any_eq_true.mpr ⟨y, hy, hc⟩)
                simp [this]
              calc xs.map _ = xs.map id := List.map_congr_left this
                _ = xs := List.map_id xs
            rw [hid]
      · have hxb : (x.id == s.id) = false := by simp [hx]
        simp only [hxb, Bool.false_eq_true, ↓reduceIte]
        have hany' : xs.any (fun x => x.id == s.id) = true := by
          simpa [List.any_cons, hxb] using hany
        by_cases hxi : x.id = i
        · have : s.id ≠ i := fun h => hx (hxi.trans h.symm)
          simp [hxi, this]
        · have : (x.id == i) = false := by simp [hxi]
          simp only [this]
          exact ih hany'
  · simp only [hany, Bool.false_eq_true, ↓reduceIte]
    rw [dictGet_append_fresh]
    have hnone : s.id = i → dictGet d i = none := by
      intro h
      unfold dictGet
      rw [List.find?_eq_none]
      intro x hx hxi
      apply hany
      exact List.any_eq_true.mpr ⟨x, hx, by simpa [h] using hxi⟩
    by_cases hs : s.id = i
    · simp [hs, hnone hs]
    · simp only [hs, ↓reduceIte]
      cases dictGet d i <;> rfl

theorem dictGet_filter_le (d : List TxState) (k i : Nat) :
    dictGet (d.filter (fun x => !(x.id > k))) i = if i ≤ k then dictGet d i else none := by
  unfold dictGet
  induction d with
  | nil => simp
  | cons x xs ih =>
    simp only [List.filter_cons]
    by_cases hx : x.id > k
    · simp only [hx, decide_true, Bool.not_true, Bool.false_eq_true, ↓reduceIte, List.find?_cons]
      rw [ih]
      by_cases hi : i ≤ k
      · have : (x.id == i) = false := by simp; omega
        simp [hi, this]
      · simp [hi]
    · simp only [hx, decide_false, Bool.not_false, ↓reduceIte, List.find?_cons]
      by_cases hxi : x.id = i
      · have : i ≤ k := by omega
        simp [hxi, this]
      · have : (x.id == i) = false := by simp [hxi]
        simp only [this]
        exact ih


/-! ### the coupling invariant -/

/-- a payload as the compiler sees it once the request's aliases / config are applied -/
def withView (pl : Payload) (a v : Nat) : Payload := { pl with aliases := a, config := v }

/-- Inside a transaction: server `S`, its `_last_comp_state` `c` with current transaction `t`,
    and the spec state `p`. -/
structure InTx (S : Server) (c : ConState) (t : Txn) (p : PSpec) : Prop where
  inv1     : Inv1 c t
  expl     : t.implicit = false
  sorted   : (t.sps.map (·.id)).Pairwise (· < ·)
  spsLog   : ∀ x ∈ t.sps, dictGet c.log x.id = some x ∧ x.tx = c.cur
  curKey   : t.current.tx = c.cur
  curBound : c.cur ≤ c.count
  stSorted : (S.sps.map (·.spid)).Pairwise (· < ·)
  stLog    : ∀ q ∈ S.sps, q.spid ≤ c.count ∧ ∃ sp, dictGet c.log q.spid = some sp ∧
               sp.name = some q.name ∧ sp.tx = c.cur ∧ sp.pl.aliases = q.aliases ∧ sp.pl.config = q.config
  live     : ∀ x ∈ t.sps, ∃ q ∈ S.sps, q.spid = x.id
  shadow   : ∀ q1 ∈ S.sps, ∀ q2 ∈ S.sps, q1.spid < q2.spid → q1.name = q2.name →
               (∃ x ∈ t.sps, x.id = q1.spid) → ∃ x ∈ t.sps, x.id = q2.spid
  state0   : t.state0.pl.uschema = S.uschema ∧ t.state0.pl.gschema = S.gschema
  frames   : t.sps.reverse.map frameOf = p.frames
  base     : p.base = ⟨S.uschema, S.gschema, S.aliases, S.config⟩
  pin      : p.inTx = true
  sin      : S.inTx = true
  pfail    : p.failed = S.txErr
  sync     : (t.id = S.txid ∧ (p.failed = false → withView t.current.pl S.txAliases S.txConfig = p.cur)) ∨
             (t.id ≠ S.txid ∧ ∃ sp, dictGet c.log S.txid = some sp ∧ sp.tx = c.cur ∧
                (∀ x ∈ t.sps, x.id ≤ S.txid) ∧ (∀ q ∈ S.sps, q.spid ≤ S.txid) ∧
                sp.pl.aliases = S.txAliases ∧ sp.pl.config = S.txConfig ∧
                (p.failed = false → sp.pl = p.cur))

/-- … after `compile_in_tx` has applied the session view and synchronised to `txid`. -/
structure NTx (S : Server) (c : ConState) (t : Txn) (p : PSpec) : Prop extends InTx S c t p where
  idEq   : t.id = S.txid
  viewA  : p.failed = false → t.current.pl.aliases = S.txAliases
  viewC  : p.failed = false → t.current.pl.config = S.txConfig
  curPl  : p.failed = false → t.current.pl = p.cur

/-- The coupling between the server (with the compiler state it keeps) and the spec. -/
def Rel (S : Server) (p : PSpec) : Prop :=
  if S.inTx then ∃ c t, S.last = some c ∧ InTx S c t p
  else S.txErr = false ∧ S.sps = [] ∧ p = PSpec.out ⟨S.uschema, S.gschema, S.aliases, S.config⟩

theorem withView_self (pl : Payload) : withView pl pl.aliases pl.config = pl := by
  cases pl; rfl

/-! ### `compile_in_tx` up to the statement: session view + `sync_tx` -/

theorem getTx_setTx_ne (c : ConState) (k k' : Nat) (t : Txn) (h : k ≠ k') :
    getTx (setTx c k' t) k = getTx c k := by
  have : (k == k') = false := by simp [h]
  simp [getTx, setTx, List.lookup, this]

theorem applySession_eq (c : ConState) (t : Txn) (h : curTx c = some t) (ra rc : Nat) :
    ∃ c1, applySession c ra rc = .ok c1 ∧
      curTx c1 = some { t with current := { t.current with pl := withView t.current.pl ra rc } } ∧
      c1.cur = c.cur ∧ c1.log = c.log ∧ c1.count = c.count ∧
      (∀ k, k ≠ c.cur → getTx c1 k = getTx c k) := by
  unfold applySession
  simp only [h]
  by_cases ha : t.current.pl.aliases = ra <;> by_cases hc : t.current.pl.config = rc
  · refine ⟨c, ?_, ?_, rfl, rfl, rfl, fun _ _ => rfl⟩
    · simp [ha, hc, h]
    · rw [h]; congr 1
      cases t with | mk id imp cur s0 sps =>
      cases cur with | mk cid cn cpl ctx =>
      cases cpl; simp_all [withView]
  · refine ⟨setTx c c.cur { t with current := { t.current with pl := { t.current.pl with config := rc } } }, ?_, ?_, rfl, rfl, rfl, ?_⟩
    · simp [ha, hc, h]
    · simp only [curTx_setTx]; congr 2
      cases t with | mk id imp cur s0 sps =>
      cases cur with | mk cid cn cpl ctx =>
      cases cpl; simp_all [withView]
    · intro k hk; simp [getTx_setTx_ne, hk]
  · refine ⟨setTx c c.cur { t with current := { t.current with pl := { t.current.pl with aliases := ra } } }, ?_, ?_, rfl, rfl, rfl, ?_⟩
    · simp [ha, hc]
    · simp only [curTx_setTx]; congr 2
      cases t with | mk id imp cur s0 sps =>
      cases cur with | mk cid cn cpl ctx =>
      cases cpl; simp_all [withView]
    · intro k hk; simp [getTx_setTx_ne, hk]
  · refine ⟨setTx (setTx c c.cur { t with current := { t.current with pl := { t.current.pl with aliases := ra } } }) c.cur
        { t with current := { t.current with pl := { t.current.pl with aliases := ra, config := rc } } }, ?_, ?_, rfl, rfl, rfl, ?_⟩
    · simp [ha, hc]
    · have := curTx_setTx (setTx c c.cur { t with current := { t.current with pl := { t.current.pl with aliases := ra } } })
        { t with current := { t.current with pl := { t.current.pl with aliases := ra, config := rc } } }
      simp only [setTx_cur] at this
      rw [this]; rfl
    · intro k hk; simp [getTx_setTx_ne, hk]


/-- the `sync` clause of `InTx`, named -/
def SyncOk (S : Server) (c : ConState) (t : Txn) (p : PSpec) : Prop :=
  (t.id = S.txid ∧ (p.failed = false → withView t.current.pl S.txAliases S.txConfig = p.cur)) ∨
  (t.id ≠ S.txid ∧ ∃ sp, dictGet c.log S.txid = some sp ∧ sp.tx = c.cur ∧
    (∀ x ∈ t.sps, x.id ≤ S.txid) ∧ (∀ q ∈ S.sps, q.spid ≤ S.txid) ∧
    sp.pl.aliases = S.txAliases ∧ sp.pl.config = S.txConfig ∧
    (p.failed = false → sp.pl = p.cur))

/-- Moving the invariant to a state with the same savepoint structure (same `_savepoints`,
    same server stack, the log entries they refer to still there). -/
theorem InTx.transport {S : Server} {c : ConState} {t : Txn} {p : PSpec} (h : InTx S c t p)
    {S' : Server} {c' : ConState} {t' : Txn} {p' : PSpec}
    (hcur : curTx c' = some t') (hcount : c.count ≤ c'.count) (hk : c'.cur = c.cur)
    (hlog : ∀ i x, dictGet c.log i = some x →
      ((∃ y ∈ t.sps, y.id = i) ∨ (∃ q ∈ S.sps, q.spid = i)) → dictGet c'.log i = some x)
    (hsps : t'.sps = t.sps) (himp : t'.implicit = t.implicit) (hs0 : t'.state0 = t.state0)
    (hck : t'.current.tx = c.cur)
    (hS : S'.sps = S.sps ∧ S'.uschema = S.uschema ∧ S'.gschema = S.gschema ∧
      S'.aliases = S.aliases ∧ S'.config = S.config ∧ S'.inTx = S.inTx)
    (hp : p'.base = p.base ∧ p'.frames = p.frames ∧ p'.inTx = p.inTx)
    (hf : p'.failed = S'.txErr)
    (hsync : SyncOk S' c' t' p') : InTx S' c' t' p' := by
  obtain ⟨hS1, hS2, hS3, hS4, hS5, hS6⟩ := hS
  obtain ⟨hp1, hp2, hp3⟩ := hp
  refine
    { inv1 := ⟨hcur, by rw [hsps]; exact h.inv1.nodup,
        fun s hs => by rw [hsps] at hs; exact Nat.le_trans (h.inv1.bound s hs) hcount,
        fun s hs => by rw [hsps] at hs; exact h.inv1.named s hs⟩
      expl := by rw [himp]; exact h.expl
      sorted := by rw [hsps]; exact h.sorted
      spsLog := ?_
      curKey := by rw [hck, hk]
      curBound := by rw [hk]; exact Nat.le_trans h.curBound hcount
      stSorted := by rw [hS1]; exact h.stSorted
      stLog := ?_
      live := by rw [hsps, hS1]; exact h.live
      shadow := by rw [hsps, hS1]; exact h.shadow
      state0 := by rw [hs0, hS2, hS3]; exact h.state0
      frames := by rw [hsps, hp2]; exact h.frames
      base := by rw [hp1, hS2, hS3, hS4, hS5]; exact h.base
      pin := by rw [hp3]; exact h.pin
      sin := by rw [hS6]; exact h.sin
      pfail := hf
      sync := hsync }
  · intro x hx
    rw [hsps] at hx
    obtain ⟨h1, h2⟩ := h.spsLog x hx
    exact ⟨hlog _ _ h1 (Or.inl ⟨x, hx, rfl⟩), by rw [hk]; exact h2⟩
  · intro q hq
    rw [hS1] at hq
    obtain ⟨h1, sp, h2, h3, h4, h5, h6⟩ := h.stLog q hq
    exact ⟨Nat.le_trans h1 hcount, sp, hlog _ _ h2 (Or.inr ⟨q, hq, rfl⟩), h3, by rw [hk]; exact h4, h5, h6⟩

theorem withView_withView (pl : Payload) (a v : Nat) : withView (withView pl a v) a v = withView pl a v := rfl

/-- `compile_in_tx` up to the statement: the session view is applied, `sync_tx(txid)` succeeds,
    the `_try_compile_rollback` escape is not taken, and the statement (`body`) runs on a
    normalised state whose current payload is the one the spec exposes. -/
theorem compile_prefix {S : Server} {c : ConState} {t : Txn} {p : PSpec} (h : InTx S c t p)
    (er : Bool) {α : Type} (body : ConState → ConState × M α) (esc : M α) :
    ∃ c2 t2, NTx S c2 t2 p ∧
      compileInTxWith c S.txid S.txAliases S.txConfig er body esc =
        { st := (body c2).1, against := some t2.current.pl, res := (body c2).2 } := by
  obtain ⟨c1, hap, hc1, hk1, hl1, hn1, _⟩ := applySession_eq c t h.inv1.cur S.txAliases S.txConfig
  let t1 : Txn := { t with current := { t.current with pl := withView t.current.pl S.txAliases S.txConfig } }
  rcases h.sync with ⟨hid, hpl⟩ | ⟨hid, sp, hsp, hsptx, hle1, hle2, hva, hvc, hpl⟩
  · -- already at txid
    have hI : InTx S c1 t1 p := h.transport hc1 (by omega) hk1 (fun i x hx _ => by rw [hl1]; exact hx)
      rfl rfl rfl h.curKey ⟨rfl, rfl, rfl, rfl, rfl, rfl⟩ ⟨rfl, rfl, rfl⟩ h.pfail
      (Or.inl ⟨hid, fun hf => by simpa [t1, withView_withView] using hpl hf⟩)
    refine ⟨c1, t1, ⟨hI, hid, fun _ => rfl, fun _ => rfl, fun hf => hpl hf⟩, ?_⟩
    unfold compileInTxWith
    simp only [hap, hc1]
    have hne : (t.id != S.txid) = false := by simp [hid]
    simp only [hne, Bool.and_false, Bool.false_and, Bool.false_eq_true, ↓reduceIte]
    have hs : syncTx c1 S.txid = .ok c1 := by
      unfold syncTx; simp [hc1, hid]
    simp only [hs, curPayload, hc1, Option.map_some]
    rfl
  · -- pending synchronisation to a savepoint
    have hhas : dictHas c1.log S.txid = true := by rw [hl1, dictHas_eq, hsp]; rfl
    have hfil : t.sps.filter (fun x => !(x.id > S.txid)) = t.sps := by
      rw [List.filter_eq_self]; intro x hx
      have := hle1 x hx; simp; omega
    let t2 : Txn := { t1 with current := sp, id := S.txid, sps := t1.sps.filter (fun x => !(x.id > S.txid)) }
    let c2 : ConState := { setTx c1 sp.tx t2 with cur := sp.tx, log := c1.log.filter (fun x => !(x.id > S.txid)) }
    have hs : syncTx c1 S.txid = .ok c2 := by
      unfold syncTx
      have hne : (t.id == S.txid) = false := by simp [hid]
      simp only [hc1, hne, Bool.false_eq_true, ↓reduceIte, hhas]
      unfold syncToSavepoint
      have hg : getTx c1 sp.tx = some t1 := by
        rw [hsptx, ← hk1]; exact hc1
      have hsp1 : dictGet c1.log S.txid = some sp := by rw [hl1]; exact hsp
      simp only [hsp1, hg]
      rfl
    have hcur2 : curTx c2 = some t2 := by simp [curTx, getTx, c2, setTx]
    have hI : InTx S c2 t2 p := by
      refine h.transport hcur2 (by simp [c2, hn1]) (by simp [c2, hsptx]) ?_ (by simp [t2, t1, hfil]) rfl rfl
        (by simp [t2, hsptx]) ⟨rfl, rfl, rfl, rfl, rfl, rfl⟩ ⟨rfl, rfl, rfl⟩ h.pfail
        (Or.inl ⟨rfl, fun hf => by
          have := hpl hf
          show withView sp.pl S.txAliases S.txConfig = p.cur
          rw [← hva, ← hvc, withView_self]; exact this⟩)
      intro i x hx hor
      show dictGet (c1.log.filter (fun x => !(x.id > S.txid))) i = some x
      rw [dictGet_filter_le, hl1]
      have hile : i ≤ S.txid := by
        rcases hor with ⟨y, hy, rfl⟩ | ⟨q, hq, rfl⟩
        · exact hle1 y hy
        · exact hle2 q hq
      simp [hile, hx]
    refine ⟨c2, t2, ⟨hI, rfl, fun _ => hva, fun _ => hvc, fun hf => hpl hf⟩, ?_⟩
    unfold compileInTxWith
    simp only [hap, hc1]
    have hne : (t.id != S.txid) = true := by simp [hid]
    simp only [hne, hhas, Bool.not_true, Bool.and_false, Bool.false_eq_true, ↓reduceIte, hs,
      curPayload, hcur2, Option.map_some]


/-! ### one statement inside a transaction -/

/-- what `Server.step` does with the result of the statement's compilation -/
def afterCompile (S : Server) (e : SEv) (ag : Option Payload) (r : ConState × M QUnit) : Server × SOut :=
  match r with
  | (_, .error err) =>
    ({ S with txErr := true }, { outcome := .rejected (S.relabel err), against := ag })
  | (c3, .ok u) =>
    let r := ({ S with last := some c3 } : Server).run u e.bf e.stay
    (r.1, { outcome := r.2, against := ag, unit := some u })

theorem step_inTx_unfold {S : Server} {c : ConState} {t : Txn} {p : PSpec}
    (hl : S.last = some c) (h : InTx S c t p) (e : SEv) :
    ∃ c2 t2, NTx S c2 t2 p ∧
      S.step e = afterCompile S e (some t2.current.pl) (compileStmt c2 S.txErr e.cf e.stmt) := by
  obtain ⟨c2, t2, hN, heq⟩ := compile_prefix h S.txErr
    (fun c2 => compileStmt c2 S.txErr e.cf e.stmt) (tryCompileRollback e.stmt)
  refine ⟨c2, t2, hN, ?_⟩
  unfold Server.step Server.stepOn
  simp only [Server.compileOn, h.sin, ↓reduceIte, hl, compileInTx, heq]
  unfold afterCompile
  rcases hcs : compileStmt c2 S.txErr e.cf e.stmt with ⟨c3, _ | u⟩
  · simp [Server.compileFailed, h.sin]
  · simp [h.sin]

/-- the invariant survives "the block is now aborted" -/
theorem InTx.fail {S : Server} {c : ConState} {t : Txn} {p : PSpec} (h : InTx S c t p) :
    InTx { S with txErr := true } c t { p with failed := true } := by
  refine h.transport h.inv1.cur (Nat.le_refl _) rfl (fun i x hx _ => hx) rfl rfl rfl h.curKey
    ⟨rfl, rfl, rfl, rfl, rfl, rfl⟩ ⟨rfl, rfl, rfl⟩ rfl ?_
  rcases h.sync with ⟨hid, _⟩ | ⟨hid, sp, h1, h2, h3, h4, h5, h6, _⟩
  · exact Or.inl ⟨hid, fun hf => by simp at hf⟩
  · exact Or.inr ⟨hid, sp, h1, h2, h3, h4, h5, h6, fun hf => by simp at hf⟩

theorem rel_fail {S : Server} {c : ConState} {t : Txn} {p : PSpec}
    (hl : S.last = some c) (h : InTx S c t p) :
    Rel { S with txErr := true } { p with failed := true } := by
  unfold Rel
  rw [if_pos (show ({ S with txErr := true } : Server).inTx = true from h.sin)]
  exact ⟨c, t, hl, h.fail⟩


/-- what has to be shown of one statement -/
def StepOk (S : Server) (p : PSpec) (e : SEv) : Prop :=
  Rel (S.step e).1 (p.step e).1 ∧
  (S.step e).2.agrees { cls := (p.step e).2, exposed := p.exposed, healthy := p.healthy }

theorem failed_self (p : PSpec) (h : p.failed = true) : { p with failed := true } = p := by
  cases p; simp_all

/-- the statement was rejected by the compiler, the spec rejects it and aborts the block -/
theorem stepOk_rejected {S : Server} {c : ConState} {t : Txn} {p : PSpec}
    (hl : S.last = some c) (h : InTx S c t p) (e : SEv) (ag : Option Payload) (c3 : ConState) (err : Err)
    (hstep : S.step e = afterCompile S e ag (c3, .error err))
    (hspec : p.step e = ({ p with failed := true }, .rejected)) : StepOk S p e := by
  unfold StepOk
  rw [hstep, hspec]
  exact ⟨rel_fail hl h, rfl, fun _ hne => absurd rfl hne⟩

theorem spec_inTx_failed_reject (p : PSpec) (e : SEv) (hin : p.inTx = true) (hf : p.failed = true)
    (hs : (match e.stmt with | .rollback => false | .rollbackTo _ => false | _ => true) = true) :
    p.step e = ({ p with failed := true }, .rejected) := by
  rw [failed_self p hf]
  unfold PSpec.step
  simp only [hin, hf, Bool.not_true, Bool.false_eq_true, ↓reduceIte]
  cases hst : e.stmt <;> simp_all

theorem stepOk_start_inTx {S : Server} {c : ConState} {t : Txn} {p : PSpec}
    (hl : S.last = some c) (h : InTx S c t p) (e : SEv) (hs : e.stmt = .start) : StepOk S p e := by
  obtain ⟨c2, t2, hN, hstep⟩ := step_inTx_unfold hl h e
  rw [hs] at hstep
  by_cases hf : p.failed = true
  · have her : S.txErr = true := by rw [← h.pfail]; exact hf
    have : compileStmt c2 S.txErr e.cf .start = (c2, .error .expectedRollback) := by
      simp [compileStmt, her]
    rw [this] at hstep
    exact stepOk_rejected hl h e _ _ _ hstep (spec_inTx_failed_reject p e h.pin hf (by simp [hs]))
  · have hf' : p.failed = false := by simpa using hf
    have her : S.txErr = false := by rw [← h.pfail]; exact hf'
    have : compileStmt c2 S.txErr e.cf .start = (c2, .error .alreadyInTx) := by
      simp [compileStmt, her, startTx, hN.inv1.cur, hN.expl]
    rw [this] at hstep
    refine stepOk_rejected hl h e _ _ _ hstep ?_
    unfold PSpec.step
    simp [h.pin, hf', hs, PSpec.abort]


/-- same savepoint structure, new `_current` (a payload update, or none) -/
theorem NTx.withCurrent {S : Server} {c2 : ConState} {t2 : Txn} {p : PSpec} (hN : NTx S c2 t2 p)
    (X : TxState) (hX : X.tx = c2.cur) {S' : Server} {p' : PSpec}
    (hS : S'.sps = S.sps ∧ S'.uschema = S.uschema ∧ S'.gschema = S.gschema ∧
      S'.aliases = S.aliases ∧ S'.config = S.config ∧ S'.inTx = S.inTx)
    (htxid : S'.txid = S.txid)
    (hp : p'.base = p.base ∧ p'.frames = p.frames ∧ p'.inTx = p.inTx)
    (hf : p'.failed = S'.txErr)
    (hv : p'.failed = false → withView X.pl S'.txAliases S'.txConfig = p'.cur) :
    InTx S' (setTx c2 c2.cur { t2 with current := X }) { t2 with current := X } p' :=
  hN.toInTx.transport (by simp) (Nat.le_refl _) rfl (fun i x hx _ => hx) rfl rfl rfl hX hS hp hf
    (Or.inl ⟨by rw [htxid]; exact hN.idEq, hv⟩)

theorem NTx.sameState {S : Server} {c2 : ConState} {t2 : Txn} {p : PSpec} (hN : NTx S c2 t2 p)
    {S' : Server} {p' : PSpec}
    (hS : S'.sps = S.sps ∧ S'.uschema = S.uschema ∧ S'.gschema = S.gschema ∧
      S'.aliases = S.aliases ∧ S'.config = S.config ∧ S'.inTx = S.inTx)
    (htxid : S'.txid = S.txid)
    (hp : p'.base = p.base ∧ p'.frames = p.frames ∧ p'.inTx = p.inTx)
    (hf : p'.failed = S'.txErr)
    (hv : p'.failed = false → withView t2.current.pl S'.txAliases S'.txConfig = p'.cur) :
    InTx S' c2 t2 p' :=
  hN.toInTx.transport hN.inv1.cur (Nat.le_refl _) rfl (fun i x hx _ => hx) rfl rfl rfl hN.curKey hS hp hf
    (Or.inl ⟨by rw [htxid]; exact hN.idEq, hv⟩)

theorem rel_inTx {S : Server} {c : ConState} {t : Txn} {p : PSpec} (hl : S.last = some c)
    (h : InTx S c t p) : Rel S p := by
  unfold Rel; rw [if_pos h.sin]; exact ⟨c, t, hl, h⟩

theorem stepOk_of {S : Server} {p : PSpec} {e : SEv} (R : Server × SOut)
    (hstep : S.step e = R) (S3 : Server) (o : Outcome) (ag : Option Payload)
    (h1 : R.1 = S3) (h2 : R.2.outcome = o) (h3 : R.2.against = ag)
    (p' : PSpec) (cl : OCls) (hspec : p.step e = (p', cl))
    (hrel : Rel S3 p') (hcls : o.cls = cl)
    (hag : p.healthy = true → o.cls ≠ .rejected → ag = some p.exposed) : StepOk S p e := by
  unfold StepOk SOut.agrees
  rw [hstep, hspec, h1, h2, h3]
  exact ⟨hrel, hcls, hag⟩

theorem stepOk_upd_inTx {S : Server} {c : ConState} {t : Txn} {p : PSpec}
    (hl : S.last = some c) (h : InTx S c t p) (e : SEv) (u : Upd) (hs : e.stmt = .upd u) : StepOk S p e := by
  obtain ⟨c2, t2, hN, hstep⟩ := step_inTx_unfold hl h e
  rw [hs] at hstep
  by_cases hcf : e.cf = true
  · -- the statement's own compilation fails
    have : compileStmt c2 S.txErr e.cf (.upd u) = (c2, .error .compileError) := by simp [compileStmt, hcf]
    rw [this] at hstep
    refine stepOk_rejected hl h e _ _ _ hstep ?_
    by_cases hf : p.failed = true
    · exact spec_inTx_failed_reject p e h.pin hf (by simp [hs])
    · unfold PSpec.step; simp [h.pin, hf, hs, hcf, PSpec.abort]
  · have hcf' : e.cf = false := by simpa using hcf
    let X : TxState := { t2.current with pl := u.apply t2.current.pl }
    let c3 := setTx c2 c2.cur { t2 with current := X }
    have hX : X.tx = c2.cur := hN.curKey
    have hexp : p.failed = false → some t2.current.pl = some p.exposed := fun hf => by
      simp [PSpec.exposed, h.pin, hN.curPl hf]
    by_cases hf : p.failed = true
    · -- aborted block: compiled, then refused by `_check_in_tx_error`
      have her : S.txErr = true := by rw [← h.pfail]; exact hf
      have hI : InTx { S with last := some c3 } c3 { t2 with current := X } p :=
        hN.withCurrent X hX ⟨rfl, rfl, rfl, rfl, rfl, rfl⟩ rfl ⟨rfl, rfl, rfl⟩ h.pfail
          (fun h' => by rw [hf] at h'; cases h')
      have hspec := spec_inTx_failed_reject p e h.pin hf (by simp [hs])
      rw [failed_self p hf] at hspec
      refine stepOk_of _ hstep { S with last := some c3 } (.rejected .inTxError) (some t2.current.pl)
        ?_ ?_ ?_ _ _ hspec (rel_inTx rfl hI) rfl (fun _ hne => absurd rfl hne) <;>
      cases u <;>
        simp [compileStmt, hcf', update, hN.inv1.cur, curPayload, afterCompile,
          Server.run, her, c3, X]
    · have hf' : p.failed = false := by simpa using hf
      have her : S.txErr = false := by rw [← h.pfail]; exact hf'
      have hcur : t2.current.pl = p.cur := hN.curPl hf'
      by_cases hbf : e.bf = true
      · -- the backend fails: nothing of the unit is applied, the block is aborted
        have hI : InTx { S with last := some c3, txErr := true } c3 { t2 with current := X }
            { p with failed := true } :=
          hN.withCurrent X hX ⟨rfl, rfl, rfl, rfl, rfl, rfl⟩ rfl ⟨rfl, rfl, rfl⟩ rfl
            (fun h' => by simp at h')
        have hspec : p.step e = ({ p with failed := true }, .failed) := by
          unfold PSpec.step; simp [h.pin, hf', hs, hcf', hbf, PSpec.abort]
        refine stepOk_of _ hstep { S with last := some c3, txErr := true } .failed (some t2.current.pl)
          ?_ ?_ ?_ _ _ hspec (rel_inTx rfl hI) rfl (fun _ _ => hexp hf') <;>
        cases u <;>
          simp [compileStmt, hcf', update, hN.inv1.cur, curPayload, afterCompile,
            Server.run, her, c3, X, Server.execute, Server.start, hbf, h.sin]
      · have hbf' : e.bf = false := by simpa using hbf
        have hspec : p.step e = ({ p with cur := u.apply p.cur }, .ok) := by
          unfold PSpec.step; simp [h.pin, hf', hs, hcf', hbf']
        have hva := hN.viewA hf'
        have hvc := hN.viewC hf'
        cases u with
        | schema us gs =>
          have hI : InTx { S with last := some c3 } c3 { t2 with current := X }
              { p with cur := Upd.apply (.schema us gs) p.cur } :=
            hN.withCurrent X hX ⟨rfl, rfl, rfl, rfl, rfl, rfl⟩ rfl ⟨rfl, rfl, rfl⟩ h.pfail
              (fun _ => by
                simp only [X, Upd.apply, withView, ← hcur, ← hva, ← hvc])
          refine stepOk_of _ hstep { S with last := some c3 } .ok (some t2.current.pl)
            ?_ ?_ ?_ _ _ hspec (rel_inTx rfl hI) rfl (fun _ _ => hexp hf') <;>
          simp [compileStmt, hcf', update, hN.inv1.cur, curPayload, afterCompile,
              Server.run, her, c3, X, Server.execute, Server.start, hbf', h.sin, Server.onSuccess]
        | aliases a =>
          have hI : InTx { S with last := some c3, txAliases := a } c3 { t2 with current := X }
              { p with cur := Upd.apply (.aliases a) p.cur } :=
            hN.withCurrent X hX ⟨rfl, rfl, rfl, rfl, rfl, rfl⟩ rfl ⟨rfl, rfl, rfl⟩ h.pfail
              (fun _ => by
                simp only [X, Upd.apply, withView, ← hcur, ← hvc])
          refine stepOk_of _ hstep { S with last := some c3, txAliases := a } .ok (some t2.current.pl)
            ?_ ?_ ?_ _ _ hspec (rel_inTx rfl hI) rfl (fun _ _ => hexp hf') <;>
          simp [compileStmt, hcf', update, hN.inv1.cur, curPayload, afterCompile,
              Server.run, her, c3, X, Server.execute, Server.start, hbf', h.sin, Server.onSuccess,
              Server.setAliases, Upd.apply]
        | config v =>
          have hI : InTx { S with last := some c3, txConfig := v } c3 { t2 with current := X }
              { p with cur := Upd.apply (.config v) p.cur } :=
            hN.withCurrent X hX ⟨rfl, rfl, rfl, rfl, rfl, rfl⟩ rfl ⟨rfl, rfl, rfl⟩ h.pfail
              (fun _ => by
                simp only [X, Upd.apply, withView, ← hcur, ← hva])
          refine stepOk_of _ hstep { S with last := some c3, txConfig := v } .ok (some t2.current.pl)
            ?_ ?_ ?_ _ _ hspec (rel_inTx rfl hI) rfl (fun _ _ => hexp hf') <;>
          simp [compileStmt, hcf', update, hN.inv1.cur, curPayload, afterCompile,
              Server.run, her, c3, X, Server.execute, Server.start, hbf', h.sin, Server.onSuccess,
              Server.setAliases, Server.setConfig, Upd.apply, hva]


theorem stepOk_query_inTx {S : Server} {c : ConState} {t : Txn} {p : PSpec}
    (hl : S.last = some c) (h : InTx S c t p) (e : SEv) (hs : e.stmt = .query) : StepOk S p e := by
  obtain ⟨c2, t2, hN, hstep⟩ := step_inTx_unfold hl h e
  rw [hs] at hstep
  by_cases hcf : e.cf = true
  · have : compileStmt c2 S.txErr e.cf .query = (c2, .error .compileError) := by simp [compileStmt, hcf]
    rw [this] at hstep
    refine stepOk_rejected hl h e _ _ _ hstep ?_
    by_cases hf : p.failed = true
    · exact spec_inTx_failed_reject p e h.pin hf (by simp [hs])
    · unfold PSpec.step; simp [h.pin, hf, hs, hcf, PSpec.abort]
  · have hcf' : e.cf = false := by simpa using hcf
    have hexp : p.failed = false → some t2.current.pl = some p.exposed := fun hf => by
      simp [PSpec.exposed, h.pin, hN.curPl hf]
    by_cases hf : p.failed = true
    · have her : S.txErr = true := by rw [← h.pfail]; exact hf
      have hI : InTx { S with last := some c2 } c2 t2 p :=
        hN.sameState ⟨rfl, rfl, rfl, rfl, rfl, rfl⟩ rfl ⟨rfl, rfl, rfl⟩ h.pfail
          (fun h' => by rw [hf] at h'; cases h')
      have hspec := spec_inTx_failed_reject p e h.pin hf (by simp [hs])
      rw [failed_self p hf] at hspec
      refine stepOk_of _ hstep { S with last := some c2 } (.rejected .inTxError) (some t2.current.pl)
        ?_ ?_ ?_ _ _ hspec (rel_inTx rfl hI) rfl (fun _ hne => absurd rfl hne) <;>
        simp [compileStmt, hcf', afterCompile, Server.run, her]
    · have hf' : p.failed = false := by simpa using hf
      have her : S.txErr = false := by rw [← h.pfail]; exact hf'
      have hcur : t2.current.pl = p.cur := hN.curPl hf'
      by_cases hbf : e.bf = true
      · have hI : InTx { S with last := some c2, txErr := true } c2 t2 { p with failed := true } :=
          hN.sameState ⟨rfl, rfl, rfl, rfl, rfl, rfl⟩ rfl ⟨rfl, rfl, rfl⟩ rfl (fun h' => by simp at h')
        have hspec : p.step e = ({ p with failed := true }, .failed) := by
          unfold PSpec.step; simp [h.pin, hf', hs, hcf', hbf, PSpec.abort]
        refine stepOk_of _ hstep { S with last := some c2, txErr := true } .failed (some t2.current.pl)
          ?_ ?_ ?_ _ _ hspec (rel_inTx rfl hI) rfl (fun _ _ => hexp hf') <;>
          simp [compileStmt, hcf', afterCompile, Server.run, her, Server.execute, Server.start, hbf, h.sin]
      · have hbf' : e.bf = false := by simpa using hbf
        have hspec : p.step e = (p, .ok) := by
          unfold PSpec.step; simp [h.pin, hf', hs, hcf', hbf']
        have hI : InTx { S with last := some c2 } c2 t2 p :=
          hN.sameState ⟨rfl, rfl, rfl, rfl, rfl, rfl⟩ rfl ⟨rfl, rfl, rfl⟩ h.pfail
            (fun _ => by rw [← hN.viewA hf', ← hN.viewC hf', withView_self]; exact hcur)
        refine stepOk_of _ hstep { S with last := some c2 } .ok (some t2.current.pl)
          ?_ ?_ ?_ _ _ hspec (rel_inTx rfl hI) rfl (fun _ _ => hexp hf') <;>
          simp [compileStmt, hcf', afterCompile, Server.run, her, Server.execute, Server.start, hbf',
            h.sin, Server.onSuccess]

/-- leaving the transaction: the relation outside a block -/
theorem rel_out (S : Server) (hin : S.inTx = false) (he : S.txErr = false) (hsps : S.sps = []) :
    Rel S (PSpec.out ⟨S.uschema, S.gschema, S.aliases, S.config⟩) := by
  unfold Rel; simp [hin, he, hsps]

/-- ROLLBACK on a synchronised state (no backend failure in a healthy block). -/
theorem rollback_core {S : Server} {c2 : ConState} {t2 : Txn} {p : PSpec} (hN : NTx S c2 t2 p)
    (e : SEv) (hs : e.stmt = .rollback) (hbf : p.failed = false → e.bf = false)
    (hstep : S.step e = afterCompile S e (some t2.current.pl) (compileStmt c2 S.txErr e.cf .rollback)) :
    StepOk S p e := by
  have hbase := hN.base
  by_cases hf : p.failed = true
  · have her : S.txErr = true := by rw [← hN.pfail]; exact hf
    have hspec : p.step e = (PSpec.out p.base, .ok) := by
      unfold PSpec.step; simp [hN.pin, hf, hs]
    refine stepOk_of _ hstep (({ S with last := some (initCurrentTx c2 t2.state0.pl) } : Server).resetTx)
      .ok (some t2.current.pl) ?_ ?_ ?_ _ _ hspec ?_ rfl
      (fun hh => by simp [PSpec.healthy, hN.pin, hf] at hh) <;>
      try simp [compileStmt, rollbackTx, hN.inv1.cur, afterCompile, Server.run, her]
    rw [hbase]; exact rel_out _ rfl rfl rfl
  · have hf' : p.failed = false := by simpa using hf
    have hbf' := hbf hf'
    have her : S.txErr = false := by rw [← hN.pfail]; exact hf'
    have hspec : p.step e = (PSpec.out p.base, .ok) := by
      unfold PSpec.step; simp [hN.pin, hf', hs, hbf']
    refine stepOk_of _ hstep
      (({ S with last := some (initCurrentTx c2 t2.state0.pl), txAliases := t2.state0.pl.aliases } : Server).resetTx)
      .ok (some t2.current.pl) ?_ ?_ ?_ _ _ hspec ?_ rfl
      (fun _ _ => by simp [PSpec.exposed, hN.pin, hN.curPl hf']) <;>
      try simp [compileStmt, rollbackTx, hN.inv1.cur, afterCompile, Server.run, her, Server.execute,
        Server.start, hbf', Server.onSuccess, hN.sin, Server.setAliases]
    rw [hbase]; exact rel_out _ rfl rfl rfl

theorem stepOk_rollback_inTx {S : Server} {c : ConState} {t : Txn} {p : PSpec}
    (hl : S.last = some c) (h : InTx S c t p) (e : SEv) (hs : e.stmt = .rollback)
    (hcov : p.covers e = true) : StepOk S p e := by
  obtain ⟨c2, t2, hN, hstep⟩ := step_inTx_unfold hl h e
  rw [hs] at hstep
  have hbf : e.bf = false := by
    unfold PSpec.covers at hcov
    simp only [hs, Bool.and_true] at hcov
    simpa using hcov
  exact rollback_core hN e hs (fun _ => hbf) hstep

theorem stepOk_commit_inTx {S : Server} {c : ConState} {t : Txn} {p : PSpec}
    (hl : S.last = some c) (h : InTx S c t p) (e : SEv) (hs : e.stmt = .commit)
    (hcov : p.covers e = true) : StepOk S p e := by
  obtain ⟨c2, t2, hN, hstep⟩ := step_inTx_unfold hl h e
  rw [hs] at hstep
  by_cases hf : p.failed = true
  · have her : S.txErr = true := by rw [← h.pfail]; exact hf
    have : compileStmt c2 S.txErr e.cf .commit = (c2, .error .expectedRollback) := by
      simp [compileStmt, her]
    rw [this] at hstep
    exact stepOk_rejected hl h e _ _ _ hstep (spec_inTx_failed_reject p e h.pin hf (by simp [hs]))
  · have hf' : p.failed = false := by simpa using hf
    have her : S.txErr = false := by rw [← h.pfail]; exact hf'
    have hcur : t2.current.pl = p.cur := hN.curPl hf'
    have hexp : some t2.current.pl = some p.exposed := by simp [PSpec.exposed, h.pin, hcur]
    have hbase := h.base
    have himp : t2.implicit = false := hN.expl
    by_cases hbf : e.bf = true
    · -- a failed COMMIT ends the transaction: `abort_tx()`
      have hstay : e.stay = false := by
        unfold PSpec.covers at hcov
        simp only [hs, hbf, Bool.not_true, Bool.false_or, Bool.and_true] at hcov
        simpa using hcov
      have hspec : p.step e = (PSpec.out p.base, .failed) := by
        unfold PSpec.step; simp [h.pin, hf', hs, hbf, hstay]
      refine stepOk_of _ hstep
        (({ S with last := some (initCurrentTx c2 t2.current.pl), txErr := true } : Server).resetTx)
        .failed (some t2.current.pl) ?_ ?_ ?_ _ _ hspec ?_ rfl (fun _ _ => hexp) <;>
        try simp [compileStmt, commitTx, hN.inv1.cur, himp, afterCompile, Server.run, her, Server.execute,
          Server.start, hbf, hstay, h.sin]
      rw [hbase]; exact rel_out _ rfl rfl rfl
    · have hbf' : e.bf = false := by simpa using hbf
      have hspec : p.step e = (PSpec.out p.cur, .ok) := by
        unfold PSpec.step; simp [h.pin, hf', hs, hbf']
      obtain ⟨hs0u, hs0g⟩ := hN.state0
      -- the unit carries the schemas only when they differ from the transaction's `_state0`
      let uu : Option Nat := if t2.current.pl.uschema == t2.state0.pl.uschema then none else some t2.current.pl.uschema
      let ug : Option Nat := if t2.current.pl.gschema == t2.state0.pl.gschema then none else some t2.current.pl.gschema
      have huu : uu.getD S.uschema = p.cur.uschema := by
        simp only [uu]
        by_cases hq : t2.current.pl.uschema = t2.state0.pl.uschema
        · simp [hq, ← hs0u, ← hcur]
        · simp [hq, ← hcur]
      have hug : ug.getD S.gschema = p.cur.gschema := by
        simp only [ug]
        by_cases hq : t2.current.pl.gschema = t2.state0.pl.gschema
        · simp [hq, ← hs0g, ← hcur]
        · simp [hq, ← hcur]
      let S3 : Server :=
        ({ S with last := some (initCurrentTx c2 t2.current.pl), txAliases := t2.current.pl.aliases,
                  config := S.txConfig, aliases := t2.current.pl.aliases,
                  uschema := uu.getD S.uschema, gschema := ug.getD S.gschema } : Server).resetTx
      have hac : afterCompile S e (some t2.current.pl) (compileStmt c2 S.txErr e.cf .commit) =
          (S3, { outcome := .ok, against := some t2.current.pl,
                 unit := some { txCommit := true, aliases := some t2.current.pl.aliases,
                                uschema := uu, gschema := ug } }) := by
        simp [compileStmt, commitTx, hN.inv1.cur, himp, afterCompile, Server.run, her, Server.execute,
          Server.start, hbf', h.sin, Server.onSuccess, Server.setAliases, uu, ug, S3]
      rw [hac] at hstep
      refine stepOk_of _ hstep S3 .ok (some t2.current.pl) rfl rfl rfl _ _ hspec ?_ rfl (fun _ _ => hexp)
      have : p.cur = ⟨S3.uschema, S3.gschema, S3.aliases, S3.config⟩ := by
        show p.cur = ⟨uu.getD S.uschema, ug.getD S.gschema, t2.current.pl.aliases, S.txConfig⟩
        rw [huu, hug, ← hN.viewC hf', hcur]
      rw [this]
      exact rel_out S3 rfl rfl rfl


/-! ### the savepoint scans as list decompositions -/

theorem scanRelease_split (n : Nat) (R : List TxState) :
    match scanRelease n R with
    | none => ∀ x ∈ R, x.name ≠ some n
    | some ids => ∃ pre f post, R = pre ++ f :: post ∧ ids = (pre ++ [f]).map (·.id) ∧
        f.name = some n ∧ ∀ x ∈ pre, x.name ≠ some n := by
  induction R with
  | nil => simp [scanRelease]
  | cons s R ih =>
    simp only [scanRelease]
    by_cases hs : s.name = some n
    · simp only [hs, beq_self_eq_true, ↓reduceIte]
      exact ⟨[], s, R, by simp, by simp, hs, by simp⟩
    · have : (s.name == some n) = false := by simp [hs]
      simp only [this, Bool.false_eq_true, ↓reduceIte]
      cases hr : scanRelease n R with
      | none =>
        rw [hr] at ih
        simp only
        intro x hx
        rcases List.mem_cons.mp hx with rfl | hx
        · exact hs
        · exact ih x hx
      | some ids =>
        rw [hr] at ih
        obtain ⟨pre, f, post, h1, h2, h3, h4⟩ := ih
        refine ⟨s :: pre, f, post, by simp [h1], by simp [h2], h3, ?_⟩
        intro x hx
        rcases List.mem_cons.mp hx with rfl | hx
        · exact hs
        · exact h4 x hx

theorem scanRollback_split (n : Nat) (R : List TxState) :
    match scanRollback n R with
    | none => ∀ x ∈ R, x.name ≠ some n
    | some (f, ids) => ∃ pre post, R = pre ++ f :: post ∧ ids = pre.map (·.id) ∧
        f.name = some n ∧ ∀ x ∈ pre, x.name ≠ some n := by
  induction R with
  | nil => simp [scanRollback]
  | cons s R ih =>
    simp only [scanRollback]
    by_cases hs : s.name = some n
    · simp only [hs, beq_self_eq_true, ↓reduceIte]
      exact ⟨[], R, by simp, by simp, by first | exact hs | trivial, by simp⟩
    · have : (s.name == some n) = false := by simp [hs]
      simp only [this, Bool.false_eq_true, ↓reduceIte]
      cases hr : scanRollback n R with
      | none =>
        rw [hr] at ih
        simp only
        intro x hx
        rcases List.mem_cons.mp hx with rfl | hx
        · exact hs
        · exact ih x hx
      | some v =>
        obtain ⟨f, ids⟩ := v
        rw [hr] at ih
        obtain ⟨pre, post, h1, h2, h3, h4⟩ := ih
        refine ⟨s :: pre, post, by simp [h1], by simp [h2], h3, ?_⟩
        intro x hx
        rcases List.mem_cons.mp hx with rfl | hx
        · exact hs
        · exact h4 x hx

/-- `release_savepoint(n)` on `_savepoints = sps` (ids duplicate-free): either no savepoint is
    called `n`, or `sps = A ++ f :: B` with `f` the last one called `n`, and `A` is what stays. -/
theorem release_split (n : Nat) (sps : List TxState) (hnd : (sps.map (·.id)).Nodup) :
    match scanRelease n sps.reverse with
    | none => ∀ x ∈ sps, x.name ≠ some n
    | some ids => ∃ A f B, sps = A ++ f :: B ∧ f.name = some n ∧ (∀ x ∈ B, x.name ≠ some n) ∧
        popAll sps ids = A := by
  have := scanRelease_split n sps.reverse
  cases hr : scanRelease n sps.reverse with
  | none => rw [hr] at this; exact fun x hx => this x (List.mem_reverse.mpr hx)
  | some ids =>
    rw [hr] at this
    obtain ⟨pre, f, post, h1, h2, h3, h4⟩ := this
    have hsps : sps = post.reverse ++ f :: pre.reverse := by
      have := congrArg List.reverse h1
      simpa using this
    refine ⟨post.reverse, f, pre.reverse, hsps, h3, fun x hx => h4 x (List.mem_reverse.mp hx), ?_⟩
    have hnd' : ((((pre ++ [f]) ++ post)).map (·.id)).Nodup := by
      have := nodup_ids_reverse _ hnd
      rw [h1] at this; simpa using this
    have : (popAll sps ids).reverse = post := by
      rw [popAll_eq_filter, ← List.filter_reverse, h1, h2]
      have := filter_drop_prefix (pre ++ [f]) post hnd'
      simpa using this
    have := congrArg List.reverse this
    simpa using this

theorem rollback_split (n : Nat) (sps : List TxState) (hnd : (sps.map (·.id)).Nodup) :
    match scanRollback n sps.reverse with
    | none => ∀ x ∈ sps, x.name ≠ some n
    | some (f, ids) => ∃ A B, sps = A ++ f :: B ∧ f.name = some n ∧ (∀ x ∈ B, x.name ≠ some n) ∧
        popAll sps ids = A ++ [f] := by
  have := scanRollback_split n sps.reverse
  cases hr : scanRollback n sps.reverse with
  | none => rw [hr] at this; exact fun x hx => this x (List.mem_reverse.mpr hx)
  | some v =>
    obtain ⟨f, ids⟩ := v
    rw [hr] at this
    obtain ⟨pre, post, h1, h2, h3, h4⟩ := this
    have hsps : sps = post.reverse ++ f :: pre.reverse := by
      have := congrArg List.reverse h1
      simpa using this
    refine ⟨post.reverse, pre.reverse, hsps, h3, fun x hx => h4 x (List.mem_reverse.mp hx), ?_⟩
    have hnd' : ((pre ++ (f :: post)).map (·.id)).Nodup := by
      have := nodup_ids_reverse _ hnd
      rw [h1] at this; exact this
    have : (popAll sps ids).reverse = f :: post := by
      rw [popAll_eq_filter, ← List.filter_reverse, h1, h2]
      exact filter_drop_prefix pre (f :: post) hnd'
    have := congrArg List.reverse this
    simpa using this

/-- the spec's view of the same decomposition -/
theorem findFrame_split (n : Nat) (A B : List TxState) (f : TxState)
    (hf : f.name = some n) (hB : ∀ x ∈ B, ∃ m, x.name = some m ∧ m ≠ n) :
    findFrame n ((A ++ f :: B).reverse.map frameOf) = some (frameOf f :: A.reverse.map frameOf) ∧
    releaseSplit n ((A ++ f :: B).reverse.map frameOf) =
      some (B.reverse.map (fun x => (frameOf x).1) ++ [n], A.reverse.map frameOf) := by
  have hrev : (A ++ f :: B).reverse = B.reverse ++ f :: A.reverse := by simp
  rw [hrev]
  have hB' : ∀ x ∈ B.reverse, ∃ m, x.name = some m ∧ m ≠ n := fun x hx => hB x (List.mem_reverse.mp hx)
  generalize B.reverse = L at hB'
  induction L with
  | nil => simp [findFrame, releaseSplit, frameOf, hf]
  | cons x L ih =>
    obtain ⟨m, hm, hmn⟩ := hB' x (by simp)
    have ih' := ih (fun y hy => hB' y (by simp [hy]))
    have hne : (m == n) = false := by simp [hmn]
    simp only [List.cons_append, List.map_cons, findFrame, releaseSplit, frameOf, hm, Option.getD_some, hne,
      Bool.false_eq_true, ↓reduceIte]
    simp only [frameOf] at ih'
    rw [ih'.1, ih'.2]
    simp

theorem findFrame_none_of (n : Nat) (L : List TxState) (h : ∀ x ∈ L, ∃ m, x.name = some m ∧ m ≠ n) :
    findFrame n (L.map frameOf) = none := by
  induction L with
  | nil => rfl
  | cons x L ih =>
    obtain ⟨m, hm, hmn⟩ := h x (by simp)
    have hne : (m == n) = false := by simp [hmn]
    simp only [List.map_cons, findFrame, frameOf, hm, Option.getD_some, hne, Bool.false_eq_true, ↓reduceIte]
    exact ih (fun y hy => h y (by simp [hy]))

theorem sorted_split {A B : List TxState} {f : TxState}
    (h : ((A ++ f :: B).map (·.id)).Pairwise (· < ·)) :
    (∀ x ∈ A, x.id < f.id) ∧ (∀ x ∈ B, f.id < x.id) := by
  rw [List.map_append, List.map_cons, List.pairwise_append] at h
  obtain ⟨_, h2, h3⟩ := h
  rw [List.pairwise_cons] at h2
  refine ⟨fun x hx => h3 x.id (List.mem_map.mpr ⟨x, hx, rfl⟩) f.id (by simp), fun x hx => ?_⟩
  exact h2.1 x.id (List.mem_map.mpr ⟨x, hx, rfl⟩)

/-- the server's `while … pop()` loop as a decomposition -/
theorem popTo_split (n : Nat) (L : List SrvSp) :
    match popTo n L with
    | none => ∀ y ∈ L, y.name ≠ n
    | some l => ∃ pre q post, L = pre ++ q :: post ∧ l = q :: post ∧ q.name = n ∧ ∀ y ∈ pre, y.name ≠ n := by
  induction L with
  | nil => simp [popTo]
  | cons y L ih =>
    simp only [popTo]
    by_cases hy : y.name = n
    · simp only [hy, beq_self_eq_true, ↓reduceIte]
      exact ⟨[], y, L, by simp, rfl, hy, by simp⟩
    · have : (y.name == n) = false := by simp [hy]
      simp only [this, Bool.false_eq_true, ↓reduceIte]
      cases hr : popTo n L with
      | none =>
        rw [hr] at ih
        intro z hz
        rcases List.mem_cons.mp hz with rfl | hz
        · exact hy
        · exact ih z hz
      | some l =>
        rw [hr] at ih
        obtain ⟨pre, q, post, h1, h2, h3, h4⟩ := ih
        refine ⟨y :: pre, q, post, by simp [h1], h2, h3, ?_⟩
        intro z hz
        rcases List.mem_cons.mp hz with rfl | hz
        · exact hy
        · exact h4 z hz


/-- a live savepoint and the server's entry with the same id describe the same savepoint -/
theorem InTx.live_eq {S : Server} {c : ConState} {t : Txn} {p : PSpec} (h : InTx S c t p)
    {x : TxState} (hx : x ∈ t.sps) {q : SrvSp} (hq : q ∈ S.sps) (hid : q.spid = x.id) :
    x.name = some q.name ∧ x.pl.aliases = q.aliases ∧ x.pl.config = q.config := by
  obtain ⟨h1, _⟩ := h.spsLog x hx
  obtain ⟨_, sp, h2, h3, _, h5, h6⟩ := h.stLog q hq
  rw [hid, h1] at h2
  cases h2
  exact ⟨h3, h5, h6⟩

theorem stepOk_declare_inTx {S : Server} {c : ConState} {t : Txn} {p : PSpec}
    (hl : S.last = some c) (h : InTx S c t p) (e : SEv) (n : Nat) (hs : e.stmt = .declare n)
    (hcov : p.covers e = true) : StepOk S p e := by
  obtain ⟨c2, t2, hN, hstep⟩ := step_inTx_unfold hl h e
  rw [hs] at hstep
  by_cases hf : p.failed = true
  · have her : S.txErr = true := by rw [← h.pfail]; exact hf
    have : compileStmt c2 S.txErr e.cf (.declare n) = (c2, .error .expectedRollback) := by
      simp [compileStmt, her]
    rw [this] at hstep
    exact stepOk_rejected hl h e _ _ _ hstep (spec_inTx_failed_reject p e h.pin hf (by simp [hs]))
  · have hf' : p.failed = false := by simpa using hf
    have her : S.txErr = false := by rw [← h.pfail]; exact hf'
    have hcur : t2.current.pl = p.cur := hN.curPl hf'
    have hexp : some t2.current.pl = some p.exposed := by simp [PSpec.exposed, h.pin, hcur]
    have hbf : e.bf = false := by
      unfold PSpec.covers at hcov
      simp only [hs, Bool.and_true] at hcov
      simpa using hcov
    have himp : t2.implicit = false := hN.expl
    let spid := c2.count + 1
    let sp : TxState := { t2.current with id := spid, name := some n }
    have hfresh : ∀ x ∈ t2.sps, x.id ≠ spid := fun x hx => by
      have := hN.inv1.bound x hx; omega
    have hds : dictSet t2.sps sp = t2.sps ++ [sp] := dictSet_fresh _ _ hfresh
    let t3 : Txn := { t2 with sps := t2.sps ++ [sp] }
    let c3 : ConState := { setTx { c2 with count := spid } c2.cur t3 with log := dictSet c2.log sp }
    let q : SrvSp := ⟨n, spid, S.txAliases, S.txConfig⟩
    let S3 : Server := { S with last := some c3, sps := S.sps ++ [q] }
    have hspec : p.step e = ({ p with frames := (n, p.cur) :: p.frames }, .ok) := by
      unfold PSpec.step; simp [h.pin, hf', hs, hbf]
    have hac : afterCompile S e (some t2.current.pl) (compileStmt c2 S.txErr e.cf (.declare n)) =
        (S3, { outcome := .ok, against := some t2.current.pl,
               unit := some { spDeclare := true, spName := some n, spId := some spid } }) := by
      simp [compileStmt, declareSavepoint, hN.inv1.cur, himp, afterCompile, Server.run, her, Server.execute,
        Server.start, hbf, h.sin, Server.onSuccess, Server.viewAliases, Server.viewConfig, hds, S3, c3, t3,
        sp, spid, q]
    rw [hac] at hstep
    refine stepOk_of _ hstep S3 .ok (some t2.current.pl) rfl rfl rfl _ _ hspec ?_ rfl (fun _ _ => hexp)
    have hlog : ∀ i, i ≤ c2.count → dictGet c3.log i = dictGet c2.log i := fun i hi => by
      show dictGet (dictSet c2.log sp) i = _
      rw [dictGet_dictSet]
      have : sp.id ≠ i := by show spid ≠ i; omega
      simp [this]
    have hlogsp : dictGet c3.log spid = some sp := by
      show dictGet (dictSet c2.log sp) spid = _
      rw [dictGet_dictSet]; simp [sp]
    have hcur3 : curTx c3 = some t3 := by simp [curTx, getTx, c3, setTx]
    have hI : InTx S3 c3 t3 { p with frames := (n, p.cur) :: p.frames } := by
      refine
        { inv1 := ⟨hcur3, ?_, ?_, ?_⟩
          expl := himp
          sorted := ?_
          spsLog := ?_
          curKey := hN.curKey
          curBound := Nat.le_trans hN.curBound (Nat.le_succ _)
          stSorted := ?_
          stLog := ?_
          live := ?_
          shadow := ?_
          state0 := hN.state0
          frames := ?_
          base := hN.base
          pin := hN.pin
          sin := hN.sin
          pfail := hN.pfail
          sync := Or.inl ⟨hN.idEq, fun _ => by
            show withView t2.current.pl S.txAliases S.txConfig = p.cur
            rw [← hN.viewA hf', ← hN.viewC hf', withView_self]; exact hcur⟩ }
      · -- nodup
        show ((t2.sps ++ [sp]).map (·.id)).Nodup
        simp only [List.map_append, List.map_cons, List.map_nil]
        rw [List.nodup_append]
        refine ⟨hN.inv1.nodup, by simp, ?_⟩
        intro a ha b hb
        obtain ⟨x, hx, rfl⟩ := List.mem_map.mp ha
        simp only [List.mem_cons, List.not_mem_nil, or_false] at hb
        rw [hb]; exact hfresh x hx
      · intro s hs'
        show s.id ≤ spid
        rcases List.mem_append.mp hs' with hs' | hs'
        · have := hN.inv1.bound s hs'; omega
        · simp only [List.mem_cons, List.not_mem_nil, or_false] at hs'; rw [hs']; exact Nat.le_refl _
      · intro s hs'
        rcases List.mem_append.mp hs' with hs' | hs'
        · exact hN.inv1.named s hs'
        · simp only [List.mem_cons, List.not_mem_nil, or_false] at hs'; exact ⟨n, by rw [hs']⟩
      · -- sorted
        show ((t2.sps ++ [sp]).map (·.id)).Pairwise (· < ·)
        simp only [List.map_append, List.map_cons, List.map_nil]
        rw [List.pairwise_append]
        refine ⟨hN.sorted, by simp, ?_⟩
        intro a ha b hb
        obtain ⟨x, hx, rfl⟩ := List.mem_map.mp ha
        simp only [List.mem_cons, List.not_mem_nil, or_false] at hb
        have := hN.inv1.bound x hx
        rw [hb]; show x.id < spid; omega
      · -- spsLog
        intro x hx
        rcases List.mem_append.mp hx with hx | hx
        · obtain ⟨h1, h2⟩ := hN.spsLog x hx
          exact ⟨by rw [hlog _ (hN.inv1.bound x hx)]; exact h1, h2⟩
        · simp only [List.mem_cons, List.not_mem_nil, or_false] at hx
          rw [hx]; exact ⟨hlogsp, hN.curKey⟩
      · -- stSorted
        show ((S.sps ++ [q]).map (·.spid)).Pairwise (· < ·)
        simp only [List.map_append, List.map_cons, List.map_nil]
        rw [List.pairwise_append]
        refine ⟨hN.stSorted, by simp, ?_⟩
        intro a ha b hb
        obtain ⟨y, hy, rfl⟩ := List.mem_map.mp ha
        simp only [List.mem_cons, List.not_mem_nil, or_false] at hb
        have := (hN.stLog y hy).1
        rw [hb]; show y.spid < spid; omega
      · -- stLog
        intro y hy
        rcases List.mem_append.mp hy with hy | hy
        · obtain ⟨h1, sp', h2, h3, h4, h5, h6⟩ := hN.stLog y hy
          exact ⟨by show y.spid ≤ spid; omega, sp', by rw [hlog _ h1]; exact h2, h3, h4, h5, h6⟩
        · simp only [List.mem_cons, List.not_mem_nil, or_false] at hy
          rw [hy]
          exact ⟨Nat.le_refl _, sp, hlogsp, rfl, hN.curKey, hN.viewA hf', hN.viewC hf'⟩
      · -- live
        intro x hx
        rcases List.mem_append.mp hx with hx | hx
        · obtain ⟨y, hy, hyx⟩ := hN.live x hx
          exact ⟨y, List.mem_append.mpr (Or.inl hy), hyx⟩
        · simp only [List.mem_cons, List.not_mem_nil, or_false] at hx
          exact ⟨q, List.mem_append.mpr (Or.inr (by simp)), by rw [hx]⟩
      · -- shadow
        intro q1 hq1 q2 hq2 hlt hnm hlive
        rcases List.mem_append.mp hq2 with hq2 | hq2
        · have h2b := (hN.stLog q2 hq2).1
          rcases List.mem_append.mp hq1 with hq1 | hq1
          · obtain ⟨x, hx, hxid⟩ := hlive
            have hx' : x ∈ t2.sps := by
              rcases List.mem_append.mp hx with hx | hx
              · exact hx
              · simp only [List.mem_cons, List.not_mem_nil, or_false] at hx
                have h1b := (hN.stLog q1 hq1).1
                rw [hx] at hxid
                have : spid = q1.spid := hxid
                omega
            obtain ⟨x2, hx2, hx2id⟩ := hN.shadow q1 hq1 q2 hq2 hlt hnm ⟨x, hx', hxid⟩
            exact ⟨x2, List.mem_append.mpr (Or.inl hx2), hx2id⟩
          · simp only [List.mem_cons, List.not_mem_nil, or_false] at hq1
            rw [hq1] at hlt
            have : spid < q2.spid := hlt
            omega
        · simp only [List.mem_cons, List.not_mem_nil, or_false] at hq2
          exact ⟨sp, List.mem_append.mpr (Or.inr (by simp)), by rw [hq2]⟩
      · -- frames
        show (t2.sps ++ [sp]).reverse.map frameOf = (n, p.cur) :: p.frames
        simp only [List.reverse_append, List.reverse_cons, List.reverse_nil, List.nil_append,
          List.cons_append, List.map_cons]
        rw [hN.frames]
        simp [frameOf, sp, hcur]
    exact rel_inTx rfl hI


theorem named_ne {t : Txn} {c : ConState} (hI : Inv1 c t) {B : List TxState} {n : Nat}
    (hsub : ∀ x ∈ B, x ∈ t.sps) (hB : ∀ x ∈ B, x.name ≠ some n) :
    ∀ x ∈ B, ∃ m, x.name = some m ∧ m ≠ n := fun x hx => by
  obtain ⟨m, hm⟩ := hI.named x (hsub x hx)
  exact ⟨m, hm, fun hmn => hB x hx (by rw [hm, hmn])⟩

theorem stepOk_release_inTx {S : Server} {c : ConState} {t : Txn} {p : PSpec}
    (hl : S.last = some c) (h : InTx S c t p) (e : SEv) (n : Nat) (hs : e.stmt = .release n)
    (hcov : p.covers e = true) : StepOk S p e := by
  obtain ⟨c2, t2, hN, hstep⟩ := step_inTx_unfold hl h e
  rw [hs] at hstep
  by_cases hf : p.failed = true
  · have her : S.txErr = true := by rw [← h.pfail]; exact hf
    have : compileStmt c2 S.txErr e.cf (.release n) = (c2, .error .expectedRollback) := by
      simp [compileStmt, her]
    rw [this] at hstep
    exact stepOk_rejected hl h e _ _ _ hstep (spec_inTx_failed_reject p e h.pin hf (by simp [hs]))
  · have hf' : p.failed = false := by simpa using hf
    have her : S.txErr = false := by rw [← h.pfail]; exact hf'
    have hcur : t2.current.pl = p.cur := hN.curPl hf'
    have hexp : some t2.current.pl = some p.exposed := by simp [PSpec.exposed, h.pin, hcur]
    have hbf : e.bf = false := by
      unfold PSpec.covers at hcov
      simp only [hs, Bool.and_eq_true, Bool.or_eq_true, Bool.not_eq_eq_eq_not, Bool.not_true] at hcov
      simpa using hcov.1
    have himp : t2.implicit = false := hN.expl
    have hsplit := release_split n t2.sps hN.inv1.nodup
    cases hsc : scanRelease n t2.sps.reverse with
    | none =>
      rw [hsc] at hsplit
      have : compileStmt c2 S.txErr e.cf (.release n) = (c2, .error .noSavepoint) := by
        simp [compileStmt, her, releaseSavepoint, hN.inv1.cur, himp, hsc]
      rw [this] at hstep
      refine stepOk_rejected hl h e _ _ _ hstep ?_
      have hff : findFrame n p.frames = none := by
        rw [← hN.frames]
        exact findFrame_none_of n _ (fun x hx => by
          have hx' := List.mem_reverse.mp hx
          exact named_ne hN.inv1 (fun y hy => hy) hsplit x hx')
      unfold PSpec.step; simp [h.pin, hf', hs, hff, PSpec.abort]
    | some ids =>
      rw [hsc] at hsplit
      obtain ⟨A, f, B, hsps, hfn, hBn, hpop⟩ := hsplit
      have hBsub : ∀ x ∈ B, x ∈ t2.sps := fun x hx => by rw [hsps]; simp [hx]
      have hAsub : ∀ x ∈ A, x ∈ t2.sps := fun x hx => by rw [hsps]; simp [hx]
      have hfmem : f ∈ t2.sps := by rw [hsps]; simp
      obtain ⟨hff, hrs⟩ := findFrame_split n A B f hfn (named_ne hN.inv1 hBsub hBn)
      rw [← hsps, hN.frames] at hff hrs
      let t3 : Txn := { t2 with sps := A }
      let c3 : ConState := setTx c2 c2.cur t3
      let S3 : Server := { S with last := some c3 }
      have hspec : p.step e = ({ p with frames := A.reverse.map frameOf }, .ok) := by
        unfold PSpec.step; simp [h.pin, hf', hs, hff, hbf]
      have hac : afterCompile S e (some t2.current.pl) (compileStmt c2 S.txErr e.cf (.release n)) =
          (S3, { outcome := .ok, against := some t2.current.pl, unit := some {} }) := by
        simp [compileStmt, releaseSavepoint, hN.inv1.cur, himp, hsc, hpop, afterCompile, Server.run, her,
          Server.execute, Server.start, hbf, h.sin, Server.onSuccess, S3, c3, t3]
      rw [hac] at hstep
      refine stepOk_of _ hstep S3 .ok (some t2.current.pl) rfl rfl rfl _ _ hspec ?_ rfl (fun _ _ => hexp)
      -- the envelope: no name that goes away is carried by a savepoint that stays
      have hsafe : ∀ x ∈ f :: B, ∀ y ∈ A, (frameOf y).1 ≠ (frameOf x).1 := by
        unfold PSpec.covers at hcov
        simp only [hs, h.pin, hf', hbf, hrs, Bool.and_eq_true] at hcov
        have hall := hcov.2
        simp at hall
        intro x hx y hy
        rcases List.mem_cons.mp hx with rfl | hx
        · have := hall.2 y hy
          simpa [frameOf, hfn] using this
        · exact hall.1 x hx y hy
      have hsplitSorted := sorted_split (by rw [← hsps]; exact hN.sorted)
      have hI : InTx S3 c3 t3 { p with frames := A.reverse.map frameOf } := by
        refine
          { inv1 := ⟨by simp [c3, t3], ?_, fun s hs' => hN.inv1.bound s (hAsub s hs'),
                     fun s hs' => hN.inv1.named s (hAsub s hs')⟩
            expl := himp
            sorted := ?_
            spsLog := fun x hx => hN.spsLog x (hAsub x hx)
            curKey := hN.curKey
            curBound := hN.curBound
            stSorted := hN.stSorted
            stLog := hN.stLog
            live := fun x hx => hN.live x (hAsub x hx)
            shadow := ?_
            state0 := hN.state0
            frames := rfl
            base := hN.base
            pin := hN.pin
            sin := hN.sin
            pfail := hN.pfail
            sync := Or.inl ⟨hN.idEq, fun _ => by
              show withView t2.current.pl S.txAliases S.txConfig = p.cur
              rw [← hN.viewA hf', ← hN.viewC hf', withView_self]; exact hcur⟩ }
        · have : (A.map (·.id)).Sublist (t2.sps.map (·.id)) := by
            rw [hsps]; exact (List.sublist_append_left A (f :: B)).map _
          exact this.nodup hN.inv1.nodup
        · have : (A.map (·.id)).Sublist (t2.sps.map (·.id)) := by
            rw [hsps]; exact (List.sublist_append_left A (f :: B)).map _
          exact hN.sorted.sublist this
        · intro q1 hq1 q2 hq2 hlt hnm ⟨x1, hx1, hx1id⟩
          obtain ⟨x2, hx2, hx2id⟩ := hN.shadow q1 hq1 q2 hq2 hlt hnm ⟨x1, hAsub x1 hx1, hx1id⟩
          rw [hsps] at hx2
          rcases List.mem_append.mp hx2 with hx2 | hx2
          · exact ⟨x2, hx2, hx2id⟩
          · exfalso
            have hx2m : x2 ∈ t2.sps := by rw [hsps]; exact List.mem_append.mpr (Or.inr hx2)
            have hn1 := (hN.toInTx.live_eq (hAsub x1 hx1) hq1 hx1id.symm).1
            have hn2 := (hN.toInTx.live_eq hx2m hq2 hx2id.symm).1
            have := hsafe x2 hx2 x1 hx1
            apply this
            simp [frameOf, hn1, hn2, hnm]
      exact rel_inTx rfl hI


/-- ROLLBACK TO on a synchronised state: either it is accepted and the coupling is re-established,
    or the compiler refuses it (no such savepoint) and so does the spec. -/
theorem rollbackTo_core {S : Server} {c2 : ConState} {t2 : Txn} {p : PSpec} (hN : NTx S c2 t2 p)
    (e : SEv) (n : Nat) (hs : e.stmt = .rollbackTo n)
    (hstep : S.step e = afterCompile S e (some t2.current.pl)
      (compileStmt c2 S.txErr e.cf (.rollbackTo n))) :
    StepOk S p e ∨
    (∃ c3 err, S.step e = afterCompile S e (some t2.current.pl) (c3, .error err) ∧
      p.step e = ({ p with failed := true }, .rejected)) := by
  have himp : t2.implicit = false := hN.expl
  have hsplit := rollback_split n t2.sps hN.inv1.nodup
  cases hsc : scanRollback n t2.sps.reverse with
  | none =>
    rw [hsc] at hsplit
    have : compileStmt c2 S.txErr e.cf (.rollbackTo n) = (c2, .error .noSavepoint) := by
      simp [compileStmt, rollbackToSavepoint, hN.inv1.cur, himp, hsc]
    rw [this] at hstep
    refine Or.inr ⟨_, _, hstep, ?_⟩
    have hff : findFrame n p.frames = none := by
      rw [← hN.frames]
      exact findFrame_none_of n _ (fun x hx => by
        have hx' := List.mem_reverse.mp hx
        exact named_ne hN.inv1 (fun y hy => hy) hsplit x hx')
    by_cases hf : p.failed = true
    · rw [failed_self p hf]; unfold PSpec.step; simp [hN.pin, hf, hs, hff]
    · unfold PSpec.step; simp [hN.pin, hf, hs, hff, PSpec.abort]
  | some v =>
    obtain ⟨f, ids⟩ := v
    rw [hsc] at hsplit
    obtain ⟨A, B, hsps, hfn, hBn, hpop⟩ := hsplit
    have hBsub : ∀ x ∈ B, x ∈ t2.sps := fun x hx => by rw [hsps]; simp [hx]
    have hAfsub : ∀ x ∈ A ++ [f], x ∈ t2.sps := fun x hx => by
      rw [hsps]
      rcases List.mem_append.mp hx with hx | hx
      · simp [hx]
      · simp only [List.mem_cons, List.not_mem_nil, or_false] at hx; simp [hx]
    have hfmem : f ∈ t2.sps := by rw [hsps]; simp
    obtain ⟨hff, _⟩ := findFrame_split n A B f hfn (named_ne hN.inv1 hBsub hBn)
    rw [← hsps, hN.frames] at hff
    obtain ⟨hAlt, hBgt⟩ := sorted_split (by rw [← hsps]; exact hN.sorted)
    -- the server's own stack: its topmost entry called `n` is the same savepoint
    obtain ⟨qf, hqf, hqfid⟩ := hN.live f hfmem
    obtain ⟨hqfn, hqfa, hqfc⟩ := hN.toInTx.live_eq hfmem hqf hqfid
    have hqfname : qf.name = n := by rw [hfn] at hqfn; exact (Option.some.inj hqfn).symm
    have hpt := popTo_split n S.sps.reverse
    cases hpo : popTo n S.sps.reverse with
    | none =>
      rw [hpo] at hpt
      exact absurd hqfname (hpt qf (List.mem_reverse.mpr hqf))
    | some l =>
      rw [hpo] at hpt
      obtain ⟨pre, q, post, hL, hl', hqn, hpre⟩ := hpt
      have hS : S.sps = post.reverse ++ q :: pre.reverse := by
        have := congrArg List.reverse hL
        simpa using this
      have hqmem : q ∈ S.sps := by rw [hS]; simp
      obtain ⟨hA'lt, hB'gt⟩ : (∀ y ∈ post.reverse, y.spid < q.spid) ∧ (∀ y ∈ pre.reverse, q.spid < y.spid) := by
        have hs' := hN.stSorted
        rw [hS, List.map_append, List.map_cons, List.pairwise_append] at hs'
        obtain ⟨_, h2, h3⟩ := hs'
        rw [List.pairwise_cons] at h2
        exact ⟨fun y hy => h3 y.spid (List.mem_map.mpr ⟨y, hy, rfl⟩) q.spid (by simp),
               fun y hy => h2.1 y.spid (List.mem_map.mpr ⟨y, hy, rfl⟩)⟩
      have hqid : q.spid = f.id := by
        have hqf0 := hqf
        rw [hS] at hqf0
        rcases List.mem_append.mp hqf0 with hqf' | hqf'
        · -- `qf` below `q`: then `q` would be a live savepoint called `n` declared after `f`
          exfalso
          have hlt : qf.spid < q.spid := hA'lt qf hqf'
          obtain ⟨x, hx, hxid⟩ := hN.shadow qf hqf q hqmem hlt (by rw [hqfname, hqn]) ⟨f, hfmem, hqfid.symm⟩
          have hxn := (hN.toInTx.live_eq hx hqmem hxid.symm).1
          rw [hsps] at hx
          have hxB : x ∈ B := by
            rcases List.mem_append.mp hx with hx | hx
            · have := hAlt x hx; omega
            · rcases List.mem_cons.mp hx with rfl | hx
              · omega
              · exact hx
          exact hBn x hxB (by rw [hxn, hqn])
        · rcases List.mem_cons.mp hqf' with rfl | hqf'
          · exact hqfid
          · exact absurd hqfname (hpre qf (List.mem_reverse.mp hqf'))
      have hqa : f.pl.aliases = q.aliases ∧ f.pl.config = q.config := by
        have := hN.toInTx.live_eq hfmem hqmem hqid
        exact ⟨this.2.1, this.2.2⟩
      let t3 : Txn := { t2 with current := f, sps := A ++ [f] }
      let c3 : ConState := setTx c2 c2.cur t3
      let S3 : Server := { S with last := some c3, txErr := false, sps := post.reverse ++ [q], txid := q.spid,
                                  txAliases := q.aliases, txConfig := q.config }
      let p' : PSpec := { p with cur := f.pl, frames := frameOf f :: A.reverse.map frameOf, failed := false }
      have hspec : p.step e = (p', .ok) := by
        unfold PSpec.step
        by_cases hf : p.failed = true
        · simp [hN.pin, hf, hs, hff, p', frameOf]
        · have hf' : p.failed = false := by simpa using hf
          simp [hN.pin, hf', hs, hff, p', frameOf]
      have hac : afterCompile S e (some t2.current.pl) (compileStmt c2 S.txErr e.cf (.rollbackTo n)) =
          (S3, { outcome := .ok, against := some t2.current.pl,
                 unit := some { spRollback := true, spName := some n, aliases := some f.pl.aliases } }) := by
        simp [compileStmt, rollbackToSavepoint, hN.inv1.cur, himp, hsc, hpop, afterCompile, Server.run,
          Server.rollbackToSp, hpo, hl', S3, c3, t3]
      rw [hac] at hstep
      refine Or.inl ?_
      refine stepOk_of _ hstep S3 .ok (some t2.current.pl) rfl rfl rfl _ _ hspec ?_ rfl
        (fun hh _ => by
          have hf' : p.failed = false := by simpa [PSpec.healthy, hN.pin] using hh
          simp [PSpec.exposed, hN.pin, hN.curPl hf'])
      have hsubl : ((A ++ [f]).map (·.id)).Sublist (t2.sps.map (·.id)) := by
        rw [hsps]
        exact (List.Sublist.append (List.Sublist.refl A) (List.Sublist.cons_cons f (List.nil_sublist B))).map _
      have hsubS : ((post.reverse ++ [q]).map (·.spid)).Sublist (S.sps.map (·.spid)) := by
        rw [hS]
        exact (List.Sublist.append (List.Sublist.refl _) (List.Sublist.cons_cons q (List.nil_sublist _))).map _
      have hSsub : ∀ y ∈ post.reverse ++ [q], y ∈ S.sps := fun y hy => by
        rw [hS]
        rcases List.mem_append.mp hy with hy | hy
        · simp [hy]
        · simp only [List.mem_cons, List.not_mem_nil, or_false] at hy; simp [hy]
      have hle3 : ∀ x ∈ A ++ [f], x.id ≤ f.id := fun x hx => by
        rcases List.mem_append.mp hx with hx | hx
        · exact Nat.le_of_lt (hAlt x hx)
        · simp only [List.mem_cons, List.not_mem_nil, or_false] at hx; rw [hx]; exact Nat.le_refl _
      have hleS : ∀ y ∈ post.reverse ++ [q], y.spid ≤ q.spid := fun y hy => by
        rcases List.mem_append.mp hy with hy | hy
        · exact Nat.le_of_lt (hA'lt y hy)
        · simp only [List.mem_cons, List.not_mem_nil, or_false] at hy; rw [hy]; exact Nat.le_refl _
      have hflog := hN.spsLog f hfmem
      have hI : InTx S3 c3 t3 p' := by
        refine
          { inv1 := ⟨by simp [c3, t3], hsubl.nodup hN.inv1.nodup, fun s hs' => hN.inv1.bound s (hAfsub s hs'),
                     fun s hs' => hN.inv1.named s (hAfsub s hs')⟩
            expl := himp
            sorted := hN.sorted.sublist hsubl
            spsLog := fun x hx => hN.spsLog x (hAfsub x hx)
            curKey := hflog.2
            curBound := hN.curBound
            stSorted := hN.stSorted.sublist hsubS
            stLog := fun y hy => hN.stLog y (hSsub y hy)
            live := ?_
            shadow := ?_
            state0 := hN.state0
            frames := by
              show (A ++ [f]).reverse.map frameOf = frameOf f :: A.reverse.map frameOf
              simp
            base := hN.base
            pin := hN.pin
            sin := hN.sin
            pfail := rfl
            sync := ?_ }
        · -- live
          intro x hx
          obtain ⟨y, hy, hyx⟩ := hN.live x (hAfsub x hx)
          refine ⟨y, ?_, hyx⟩
          rw [hS] at hy
          rcases List.mem_append.mp hy with hy | hy
          · exact List.mem_append.mpr (Or.inl hy)
          · rcases List.mem_cons.mp hy with rfl | hy
            · exact List.mem_append.mpr (Or.inr (by simp))
            · exfalso
              have := hB'gt y hy
              have := hle3 x hx
              omega
        · -- shadow
          intro q1 hq1 q2 hq2 hlt hnm ⟨x1, hx1, hx1id⟩
          obtain ⟨x2, hx2, hx2id⟩ := hN.shadow q1 (hSsub q1 hq1) q2 (hSsub q2 hq2) hlt hnm
            ⟨x1, hAfsub x1 hx1, hx1id⟩
          refine ⟨x2, ?_, hx2id⟩
          rw [hsps] at hx2
          rcases List.mem_append.mp hx2 with hx2 | hx2
          · exact List.mem_append.mpr (Or.inl hx2)
          · rcases List.mem_cons.mp hx2 with rfl | hx2
            · exact List.mem_append.mpr (Or.inr (by simp))
            · exfalso
              have := hBgt x2 hx2
              have := hleS q2 hq2
              omega
        · -- sync: the server now expects the compiler to be at savepoint `q.spid = f.id`
          by_cases hid : t2.id = q.spid
          · refine Or.inl ⟨hid, fun _ => ?_⟩
            show withView f.pl q.aliases q.config = f.pl
            rw [← hqa.1, ← hqa.2, withView_self]
          · refine Or.inr ⟨hid, f, ?_, hflog.2, ?_, hleS, hqa.1, hqa.2, fun _ => rfl⟩
            · show dictGet c2.log q.spid = some f
              rw [hqid]; exact hflog.1
            · intro x hx; show x.id ≤ q.spid; rw [hqid]; exact hle3 x hx
      exact rel_inTx rfl hI


theorem stepOk_rollbackTo_inTx {S : Server} {c : ConState} {t : Txn} {p : PSpec}
    (hl : S.last = some c) (h : InTx S c t p) (e : SEv) (n : Nat) (hs : e.stmt = .rollbackTo n) :
    StepOk S p e := by
  obtain ⟨c2, t2, hN, hstep⟩ := step_inTx_unfold hl h e
  rw [hs] at hstep
  rcases rollbackTo_core hN e n hs hstep with hok | ⟨c3, err, hst, hsp⟩
  · exact hok
  · exact stepOk_rejected hl h e _ _ _ hst hsp

/-! ### one statement outside a transaction -/

theorem step_out_unfold (S : Server) (hin : S.inTx = false) (e : SEv) :
    S.step e =
      match compileStmt (ConState.init e.t0 ⟨S.uschema, S.gschema, S.aliases, S.config⟩) false e.cf e.stmt with
      | (_, .error err) =>
        (S, { outcome := .rejected err, against := some ⟨S.uschema, S.gschema, S.aliases, S.config⟩ })
      | (c3, .ok u) =>
        let r := ({ S with last := if u.txId.isSome then some c3 else none } : Server).run u e.bf e.stay
        (r.1, { outcome := r.2, against := some ⟨S.uschema, S.gschema, S.aliases, S.config⟩, unit := some u }) := by
  unfold Server.step Server.stepOn
  simp only [Server.compileOn, hin, Bool.false_eq_true, ↓reduceIte, compileFresh]
  rcases compileStmt (ConState.init e.t0 ⟨S.uschema, S.gschema, S.aliases, S.config⟩) false e.cf e.stmt
    with ⟨c3, _ | u⟩
  · simp [Server.compileFailed, Server.relabel, hin]
  · simp

theorem curTx_init (t0 : Nat) (pl : Payload) :
    curTx (ConState.init t0 pl) =
      some { id := t0 + 1, implicit := true, current := ⟨t0 + 1, none, pl, t0 + 1⟩,
             state0 := ⟨t0 + 1, none, pl, t0 + 1⟩, sps := [] } := by
  simp [ConState.init, curTx_initCurrentTx]

theorem stepOk_out {S : Server} {p : PSpec} (hR : Rel S p) (hin : S.inTx = false) (e : SEv)
    (hcov : p.covers e = true) : StepOk S p e := by
  unfold Rel at hR
  simp only [hin, Bool.false_eq_true, ↓reduceIte] at hR
  obtain ⟨her, hsps, hp⟩ := hR
  let pl : Payload := ⟨S.uschema, S.gschema, S.aliases, S.config⟩
  have hstep := step_out_unfold S hin e
  have hcur := curTx_init e.t0 pl
  have hpin : p.inTx = false := by rw [hp]; rfl
  have hpbase : p.base = pl := by rw [hp]; rfl
  have hexp : some pl = some p.exposed := by simp [PSpec.exposed, hpin, hpbase]
  have hrelS : Rel S p := by unfold Rel; simp [hin, her, hsps, hp]
  have hbfcov : e.bf = true → (match e.stmt with | .upd _ | .query => true | .commit => !e.stay | _ => false) = true := by
    intro hb
    unfold PSpec.covers at hcov
    simp only [hb, Bool.not_true, Bool.false_or, Bool.and_eq_true] at hcov
    exact hcov.1
  -- a statement the compiler rejects outside a block: nothing changes
  have rejected : ∀ err, compileStmt (ConState.init e.t0 pl) false e.cf e.stmt =
        ((compileStmt (ConState.init e.t0 pl) false e.cf e.stmt).1, .error err) →
      p.step e = (p, .rejected) → StepOk S p e := by
    intro err hc hspec
    rw [hc] at hstep
    exact stepOk_of _ hstep S (.rejected err) (some pl) rfl rfl rfl _ _ hspec hrelS rfl
      (fun _ hne => absurd rfl hne)
  cases hs : e.stmt with
  | start =>
    by_cases hcf : e.cf = true
    · refine rejected .compileError ?_ (by unfold PSpec.step; simp [hpin, hs, hcf])
      simp [hs, compileStmt, startTx, hcur, hcf, pl]
    · have hcf' : e.cf = false := by simpa using hcf
      have hbf : e.bf = false := by
        cases hb : e.bf with
        | false => rfl
        | true => have := hbfcov hb; simp [hs] at this
      let t3 : Txn := { id := e.t0 + 1, implicit := false, current := ⟨e.t0 + 1, none, pl, e.t0 + 1⟩,
                        state0 := ⟨e.t0 + 1, none, pl, e.t0 + 1⟩, sps := [] }
      let c3 : ConState := setTx (ConState.init e.t0 pl) (ConState.init e.t0 pl).cur t3
      let S3 : Server := { S with last := some c3, txid := e.t0 + 1, inTx := true,
                                  txAliases := S.aliases, txConfig := S.config }
      let p' : PSpec := { base := p.base, inTx := true, failed := false, cur := p.base, frames := [] }
      have hspec : p.step e = (p', .ok) := by unfold PSpec.step; simp [hpin, hs, hcf', hbf, p']
      have hcomp : compileStmt (ConState.init e.t0 pl) false e.cf e.stmt = (c3, .ok { txId := some (e.t0 + 1) }) := by
        simp [hs, compileStmt, startTx, hcur, hcf', c3, t3, pl]
      rw [hcomp] at hstep
      have hrun : (({ S with last := if (({ txId := some (e.t0 + 1) } : QUnit).txId.isSome) then some c3 else none } :
            Server).run { txId := some (e.t0 + 1) } e.bf e.stay) = (S3, .ok) := by
        simp [Server.run, her, Server.execute, Server.start, hbf, Server.onSuccess, S3]
      simp only [hrun] at hstep
      refine stepOk_of _ hstep S3 .ok (some pl) rfl rfl rfl _ _ hspec ?_ rfl (fun _ _ => hexp)
      have hc3cur : curTx c3 = some t3 := by simp [c3]
      have hI : InTx S3 c3 t3 p' := by
        refine
          { inv1 := ⟨hc3cur, by simp [t3], by simp [t3], by simp [t3]⟩
            expl := rfl
            sorted := by simp [t3]
            spsLog := by simp [t3]
            curKey := by simp [t3, c3, ConState.init, initCurrentTx]
            curBound := by simp [c3, ConState.init, initCurrentTx]
            stSorted := by simp [S3, hsps]
            stLog := by simp [S3, hsps]
            live := by simp [t3]
            shadow := by simp [S3, hsps]
            state0 := ⟨rfl, rfl⟩
            frames := rfl
            base := hpbase
            pin := rfl
            sin := rfl
            pfail := her.symm
            sync := Or.inl ⟨rfl, fun _ => by simp [t3, withView, pl, S3, p', hpbase]⟩ }
      exact rel_inTx rfl hI
  | commit =>
    refine rejected .notInTx ?_ (by unfold PSpec.step; simp [hpin, hs])
    simp [hs, compileStmt, commitTx, hcur, pl]
  | declare n =>
    refine rejected .spOutsideBlock ?_ (by unfold PSpec.step; simp [hpin, hs])
    simp [hs, compileStmt, declareSavepoint, hcur, pl]
  | release n =>
    refine rejected .spOutsideBlock ?_ (by unfold PSpec.step; simp [hpin, hs])
    simp [hs, compileStmt, releaseSavepoint, hcur, pl]
  | rollbackTo n =>
    refine rejected .spOutsideBlock ?_ (by unfold PSpec.step; simp [hpin, hs])
    simp [hs, compileStmt, rollbackToSavepoint, hcur, pl]
  | rollback =>
    have hbf : e.bf = false := by
      cases hb : e.bf with
      | false => rfl
      | true => have := hbfcov hb; simp [hs] at this
    have hspec : p.step e = (p, .ok) := by unfold PSpec.step; simp [hpin, hs, hbf]
    let S3 : Server := ({ S with last := none } : Server).resetTx
    refine stepOk_of _ hstep S3 .ok (some pl) ?_ ?_ ?_ _ _ hspec ?_ rfl (fun _ _ => hexp)
    · simp [hs, compileStmt, rollbackTx, hcur, pl, Server.run, her, Server.execute, Server.start, hbf,
        Server.onSuccess, hin, Server.setAliases, S3]
    · simp [hs, compileStmt, rollbackTx, hcur, pl, Server.run, her, Server.execute, Server.start, hbf,
        Server.onSuccess, hin, Server.setAliases]
    · simp [hs, compileStmt, rollbackTx, hcur, pl]
    · rw [hp]; exact rel_out S3 rfl rfl rfl
  | query =>
    by_cases hcf : e.cf = true
    · refine rejected .compileError ?_ (by unfold PSpec.step; simp [hpin, hs, hcf])
      simp [hs, compileStmt, hcf]
    · have hcf' : e.cf = false := by simpa using hcf
      have hrel : Rel { S with last := none } p := by unfold Rel; simp [hin, her, hsps, hp]
      by_cases hbf : e.bf = true
      · have hspec : p.step e = (p, .failed) := by unfold PSpec.step; simp [hpin, hs, hcf', hbf]
        refine stepOk_of _ hstep { S with last := none } .failed (some pl) ?_ ?_ ?_ _ _ hspec hrel rfl
          (fun _ _ => hexp) <;>
          simp [hs, compileStmt, hcf', Server.run, her, Server.execute, Server.start, hbf, hin, pl]
      · have hbf' : e.bf = false := by simpa using hbf
        have hspec : p.step e = (p, .ok) := by unfold PSpec.step; simp [hpin, hs, hcf', hbf']
        refine stepOk_of _ hstep { S with last := none } .ok (some pl) ?_ ?_ ?_ _ _ hspec hrel rfl
          (fun _ _ => hexp) <;>
          simp [hs, compileStmt, hcf', Server.run, her, Server.execute, Server.start, hbf', hin,
            Server.onSuccess, pl]
  | upd u =>
    by_cases hcf : e.cf = true
    · refine rejected .compileError ?_ (by unfold PSpec.step; simp [hpin, hs, hcf])
      simp [hs, compileStmt, hcf]
    · have hcf' : e.cf = false := by simpa using hcf
      by_cases hbf : e.bf = true
      · have hspec : p.step e = (p, .failed) := by unfold PSpec.step; simp [hpin, hs, hcf', hbf]
        have hrel : Rel { S with last := none } p := by unfold Rel; simp [hin, her, hsps, hp]
        refine stepOk_of _ hstep { S with last := none } .failed (some pl) ?_ ?_ ?_ _ _ hspec hrel rfl
          (fun _ _ => hexp) <;>
          cases u <;>
            simp [hs, compileStmt, hcf', update, hcur, curPayload, pl, Server.run, her, Server.execute,
              Server.start, hbf, hin]
      · have hbf' : e.bf = false := by simpa using hbf
        have hspec : p.step e = (PSpec.out (u.apply p.base), .ok) := by
          unfold PSpec.step; simp [hpin, hs, hcf', hbf']
        rw [hpbase] at hspec
        cases u with
        | schema us gs =>
          let S3 : Server := { S with last := none, uschema := us, gschema := gs }
          have hrel : Rel S3 (PSpec.out (Upd.apply (.schema us gs) pl)) := rel_out S3 hin her hsps
          refine stepOk_of _ hstep S3 .ok (some pl) ?_ ?_ ?_ _ _ hspec hrel rfl (fun _ _ => hexp) <;>
            simp [hs, compileStmt, hcf', update, hcur, curPayload, pl, Server.run, her, Server.execute,
              Server.start, hbf', hin, Server.onSuccess, S3]
        | aliases a =>
          let S3 : Server := { S with last := none, aliases := a }
          have hrel : Rel S3 (PSpec.out (Upd.apply (.aliases a) pl)) := rel_out S3 hin her hsps
          refine stepOk_of _ hstep S3 .ok (some pl) ?_ ?_ ?_ _ _ hspec hrel rfl (fun _ _ => hexp) <;>
            simp [hs, compileStmt, hcf', update, hcur, curPayload, pl, Server.run, her, Server.execute,
              Server.start, hbf', hin, Server.onSuccess, Server.setAliases, Upd.apply, S3]
        | config v =>
          let S3 : Server := { S with last := none, config := v }
          have hrel : Rel S3 (PSpec.out (Upd.apply (.config v) pl)) := rel_out S3 hin her hsps
          refine stepOk_of _ hstep S3 .ok (some pl) ?_ ?_ ?_ _ _ hspec hrel rfl (fun _ _ => hexp) <;>
            simp [hs, compileStmt, hcf', update, hcur, curPayload, pl, Server.run, her, Server.execute,
              Server.start, hbf', hin, Server.onSuccess, Server.setAliases, Server.setConfig, Upd.apply, S3]


/-! ### every statement, every history -/

theorem stepOk_all {S : Server} {p : PSpec} (hR : Rel S p) (e : SEv) (hcov : p.covers e = true) :
    StepOk S p e := by
  by_cases hin : S.inTx = true
  · have hR' := hR
    unfold Rel at hR'
    rw [if_pos hin] at hR'
    obtain ⟨c, t, hl, h⟩ := hR'
    cases hs : e.stmt with
    | start => exact stepOk_start_inTx hl h e hs
    | commit => exact stepOk_commit_inTx hl h e hs hcov
    | rollback => exact stepOk_rollback_inTx hl h e hs hcov
    | declare n => exact stepOk_declare_inTx hl h e n hs hcov
    | release n => exact stepOk_release_inTx hl h e n hs hcov
    | rollbackTo n => exact stepOk_rollbackTo_inTx hl h e n hs
    | upd u => exact stepOk_upd_inTx hl h e u hs
    | query => exact stepOk_query_inTx hl h e hs
  · exact stepOk_out hR (by simpa using hin) e hcov

theorem rel_init (pl : Payload) : Rel (Server.init pl) (PSpec.init pl) := by
  unfold Rel Server.init PSpec.init
  simp

theorem runAll_refines {S : Server} {p : PSpec} (hR : Rel S p) (h : List SEv)
    (hcov : p.coversAll h = true) :
    Rel (Server.runAll S h).1 (p.run h).1 ∧
    agreesAll (Server.runAll S h).2 (p.run h).2 := by
  induction h generalizing S p with
  | nil => exact ⟨hR, trivial⟩
  | cons e es ih =>
    simp only [PSpec.coversAll, Bool.and_eq_true] at hcov
    obtain ⟨h1, h2⟩ := stepOk_all hR e hcov.1
    obtain ⟨h3, h4⟩ := ih h1 hcov.2
    simp only [Server.runAll, PSpec.run]
    exact ⟨h3, h2, h4⟩

end EdbVerif.Tx
