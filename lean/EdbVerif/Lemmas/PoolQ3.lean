/-
C16 safety, part 3: leaving `try_acquire`, aborting the waiters.
-/
import EdbVerif.Lemmas.PoolQ2

namespace EdbVerif.Pool

/-- removing the waiter `w` (unique id) from a filtered count -/
theorem length_filter_remove (ws : List Waiter) (w : Waiter) (p : Waiter → Bool)
    (hnd : (ws.map (·.id)).Nodup) (hm : w ∈ ws) :
    ((ws.filter (·.id != w.id)).filter p).length + (if p w then 1 else 0) = (ws.filter p).length := by
  induction ws with
  | nil => simp at hm
  | cons x xs ih =>
    simp only [List.map_cons, List.nodup_cons] at hnd
    by_cases hx : x.id = w.id
    · have hxw : x = w := by
        rcases List.mem_cons.mp hm with h | h
        · exact h.symm
        · exfalso; apply hnd.1; rw [hx]; exact List.mem_map_of_mem (f := (·.id)) h
      have hrest : xs.filter (·.id != w.id) = xs := by
        apply List.filter_eq_self.mpr
        intro y hy
        have : y.id ≠ w.id := by
          intro e; apply hnd.1; rw [hx, ← e]; exact List.mem_map_of_mem (f := (·.id)) hy
        simpa using this
      subst hxw
      have hb : (x.id != x.id) = false := by simp
      simp only [List.filter_cons, hb, Bool.false_eq_true, ↓reduceIte, hrest]
      split <;> simp
    · have hm' : w ∈ xs := by
        rcases List.mem_cons.mp hm with h | h
        · exfalso; apply hx; rw [h]
        · exact h
      have := ih hnd.2 hm'
      have hb : (x.id != w.id) = true := by simpa using hx
      rw [List.filter_cons_of_pos (p := fun y : Waiter => y.id != w.id) hb]
      by_cases hp : p x = true
      · rw [List.filter_cons_of_pos hp, List.filter_cons_of_pos hp]
        simp only [List.length_cons]; omega
      · rw [List.filter_cons_of_neg hp, List.filter_cons_of_neg hp]; exact this

theorem mem_filter_ne_id {ws : List Waiter} (hnd : (ws.map (·.id)).Nodup) {w x : Waiter} (hw : w ∈ ws) :
    x ∈ ws.filter (·.id != w.id) ↔ x ∈ ws ∧ x ≠ w := by
  simp only [List.mem_filter, bne_iff_ne, ne_eq]
  constructor
  · rintro ⟨hx, hne⟩
    exact ⟨hx, fun e => hne (e ▸ rfl)⟩
  · rintro ⟨hx, hne⟩
    exact ⟨hx, fun e => hne (waiter_eq_of_id hnd hx hw e)⟩

/-- a task that is not asleep leaves `try_acquire` (`finally: conn_waiters_num -= 1`) -/
theorem leave_q {s : State} (hu : (s.blocks.map (·.uid)).Nodup) (h : InvQ s) {u : Nat} {b : Block}
    (hb : s.find u = some b) {w : Waiter} (hw : w ∈ s.waiters) (hblk : w.block = u)
    (hnq : w.st ≠ .queued) :
    InvQc (leaveWait s w.id u) ∧ Inv2r (leaveWait s w.id u) u (if w.st = .woken then 1 else 0) := by
  have hbm := State.find_some hb
  let f : Block → Block := fun b => { b with waitersNum := b.waitersNum - 1 }
  have hcases : ∀ x ∈ modB s.blocks u f, (x.uid ≠ u ∧ x ∈ s.blocks) ∨ x = f b :=
    fun x hx => mem_modB_cases (f := f) hu hb (fun _ => rfl) hx
  have hmem : ∀ x, x ∈ s.waiters.filter (·.id != w.id) ↔ x ∈ s.waiters ∧ x ≠ w :=
    fun x => mem_filter_ne_id h.wids hw
  have hkeepq : ∀ x ∈ s.waiters, x.st = .queued → x ∈ s.waiters.filter (·.id != w.id) := by
    intro x hx hst
    exact (hmem x).mpr ⟨hx, fun e => hnq (e ▸ hst)⟩
  constructor
  · refine ⟨?_, ?_, ?_, ?_, ?_, ?_, ?_, ?_, h.hreq⟩
    · exact (List.Sublist.map _ List.filter_sublist).nodup h.wids
    · intro x hx
      rcases hcases x hx with ⟨_, hxs⟩ | hxe
      · exact h.qnd x hxs
      · rw [hxe]; exact h.qnd b hbm.1
    · intro x hx r hr
      rcases hcases x hx with ⟨_, hxs⟩ | hxe
      · obtain ⟨w', hw', h1, h2, h3⟩ := h.qmem x hxs r hr
        exact ⟨w', hkeepq w' hw' h3, h1, h2, h3⟩
      · rw [hxe] at hr ⊢
        obtain ⟨w', hw', h1, h2, h3⟩ := h.qmem b hbm.1 r hr
        exact ⟨w', hkeepq w' hw' h3, h1, h2, h3⟩
    · intro x hx hst
      have hx' := ((hmem x).mp hx).1
      obtain ⟨b1, hb1, hu1, hm1⟩ := h.qall x hx' hst
      by_cases hbu : b1.uid = u
      · have : b1 = b := eq_of_uid hu hb1 hbm.1 (hbu.trans hbm.2.symm)
        subst this
        exact ⟨f b1, mem_modB_fb hb f, hu1, hm1⟩
      · exact ⟨b1, mem_modB_other f hb1 hbu, hu1, hm1⟩
    · intro x hx
      have hx' := ((hmem x).mp hx).1
      obtain ⟨b1, hb1, hu1⟩ := h.known x hx'
      by_cases hbu : b1.uid = u
      · have : b1 = b := eq_of_uid hu hb1 hbm.1 (hbu.trans hbm.2.symm)
        subst this
        exact ⟨f b1, mem_modB_fb hb f, hu1⟩
      · exact ⟨b1, mem_modB_other f hb1 hbu, hu1⟩
    · intro x hx
      have hcount := fun v => length_filter_remove s.waiters w (fun y => y.block == v) h.wids hw
      show x.waitersNum = (((s.waiters.filter (·.id != w.id)).filter fun y => y.block == x.uid).length : Int)
      rcases hcases x hx with ⟨hxu, hxs⟩ | hxe
      · have := h.num x hxs
        have hc := hcount x.uid
        have hne : (w.block == x.uid) = false := by rw [hblk]; simpa using fun e => hxu e.symm
        simp only [hne, Bool.false_eq_true, ↓reduceIte] at hc
        omega
      · rw [hxe]
        have := h.num b hbm.1
        have hc := hcount b.uid
        have he : (w.block == b.uid) = true := by rw [hblk, hbm.2]; simp
        simp only [he, ↓reduceIte] at hc
        show b.waitersNum - 1 = (((s.waiters.filter (·.id != w.id)).filter fun y => y.block == b.uid).length : Int)
        omega
    · refine ⟨h.noPrune.1, ?_⟩
      intro x hx; exact h.noPrune.2 x ((hmem x).mp hx).1
    · intro x hx y hy; exact h.hdis x ((hmem x).mp hx).1 y hy
  · intro x hx hne
    have hcount := fun v => length_filter_remove s.waiters w (fun y => y.block == v && y.st == .woken) h.wids hw
    have hwok : ∀ v, wokenOf (leaveWait s w.id u) v + (if (w.block == v && w.st == .woken) then 1 else 0)
        = wokenOf s v := fun v => hcount v
    rcases hcases x hx with ⟨hxu, hxs⟩ | hxe
    · have := h.inv2 x hxs hne
      have hc := hwok x.uid
      have hne' : (w.block == x.uid) = false := by rw [hblk]; simpa using fun e => hxu e.symm
      simp only [hne', Bool.false_and, Bool.false_eq_true, ↓reduceIte, Nat.add_zero] at hc
      simp only [hxu, ↓reduceIte, Nat.add_zero]
      omega
    · rw [hxe] at hne ⊢
      have := h.inv2 b hbm.1 hne
      rw [hbm.2] at this
      have hc := hwok u
      have he : (w.block == u) = true := by rw [hblk]; simp
      have hfu : (f b).uid = u := hbm.2
      simp only [hfu, ↓reduceIte]
      show b.stack.length ≤ wokenOf (leaveWait s w.id u) u + (if w.st = .woken then 1 else 0)
      by_cases hst : w.st = .woken
      · simp only [he, hst, beq_self_eq_true, Bool.and_self, ↓reduceIte] at hc ⊢
        omega
      · have : (w.st == WSt.woken) = false := by simpa using hst
        simp only [he, this, Bool.and_false, Bool.false_eq_true, ↓reduceIte, Nat.add_zero] at hc
        simp only [hst, ↓reduceIte, Nat.add_zero]
        omega

/-! ### `abort_waiters` -/

theorem setAborted_id (q : List Nat) (w : Waiter) : (setAborted q w).id = w.id := by
  unfold setAborted; split <;> rfl
theorem setAborted_block (q : List Nat) (w : Waiter) : (setAborted q w).block = w.block := by
  unfold setAborted; split <;> rfl
theorem setAborted_prune (q : List Nat) (w : Waiter) : (setAborted q w).prune = w.prune := by
  unfold setAborted; split <;> rfl
theorem setAborted_notin {q : List Nat} {w : Waiter} (h : w.id ∉ q) : setAborted q w = w := by
  unfold setAborted
  have : q.contains w.id = false := by simpa using h
  simp only [this, Bool.false_eq_true, ↓reduceIte]
theorem setAborted_in {q : List Nat} {w : Waiter} (h : w.id ∈ q) : setAborted q w = { w with st := .aborted } := by
  unfold setAborted
  have : q.contains w.id = true := by simpa using h
  simp only [this, ↓reduceIte]

theorem length_filter_map_congr (ws : List Waiter) (g : Waiter → Waiter) (p : Waiter → Bool)
    (hg : ∀ w ∈ ws, p (g w) = p w) : ((ws.map g).filter p).length = (ws.filter p).length := by
  induction ws with
  | nil => rfl
  | cons x xs ih =>
    have hx := hg x (by simp)
    have := ih (fun w hw => hg w (by simp [hw]))
    simp only [List.map_cons, List.filter_cons, hx]
    split <;> simp [this]

theorem abortWaiters_q {s : State} (hu : (s.blocks.map (·.uid)).Nodup) (h : InvQ s) (u : Nat) :
    InvQ (abortWaiters s u) := by
  unfold abortWaiters
  split
  · exact h
  · rename_i b hb
    have hbm := State.find_some hb
    let f : Block → Block := fun b => { b with queue := [] }
    have hcases : ∀ x ∈ modB s.blocks u f, (x.uid ≠ u ∧ x ∈ s.blocks) ∨ x = f b :=
      fun x hx => mem_modB_cases (f := f) hu hb (fun _ => rfl) hx
    -- the waiters in the queue of `b` are exactly sleeping waiters of block `u`
    have hinq : ∀ w ∈ s.waiters, w.id ∈ b.queue → w.block = u ∧ w.st = .queued := by
      intro w hw hm
      obtain ⟨w', hw', h1, h2, h3⟩ := h.qmem b hbm.1 w.id hm
      have : w' = w := waiter_eq_of_id h.wids hw' hw h1
      subst this
      exact ⟨h2.trans hbm.2, h3⟩
    show InvQ { (s.mod u f) with waiters := s.waiters.map (setAborted b.queue) }
    refine ⟨?_, ?_, ?_, ?_, ?_, ?_, ?_, ?_, ?_, h.hreq⟩
    · show ((s.waiters.map (setAborted b.queue)).map (·.id)).Nodup
      rw [List.map_map]
      have : ((fun w : Waiter => w.id) ∘ setAborted b.queue) = fun w : Waiter => w.id :=
        funext (setAborted_id b.queue)
      rw [this]; exact h.wids
    · intro x hx
      rcases hcases x hx with ⟨_, hxs⟩ | hxe
      · exact h.qnd x hxs
      · rw [hxe]; exact List.nodup_nil
    · intro x hx r hr
      rcases hcases x hx with ⟨hxu, hxs⟩ | hxe
      · obtain ⟨w', hw', h1, h2, h3⟩ := h.qmem x hxs r hr
        have hnot : w'.id ∉ b.queue := by
          intro hm
          have := (hinq w' hw' hm).1
          exact hxu (h2.symm.trans this)
        refine ⟨w', ?_, h1, h2, h3⟩
        have := List.mem_map_of_mem (f := setAborted b.queue) hw'
        rwa [setAborted_notin hnot] at this
      · rw [hxe] at hr; exact (List.not_mem_nil hr).elim
    · intro w hw hstw
      obtain ⟨w1, hw1, rfl⟩ := List.mem_map.mp hw
      by_cases hm : w1.id ∈ b.queue
      · rw [setAborted_in hm] at hstw; simp at hstw
      · rw [setAborted_notin hm] at hstw ⊢
        obtain ⟨b1, hb1, hu1, hm1⟩ := h.qall w1 hw1 hstw
        by_cases hbu : b1.uid = u
        · exfalso
          have : b1 = b := eq_of_uid hu hb1 hbm.1 (hbu.trans hbm.2.symm)
          subst this; exact hm hm1
        · exact ⟨b1, mem_modB_other f hb1 hbu, hu1, hm1⟩
    · intro w hw
      obtain ⟨w1, hw1, rfl⟩ := List.mem_map.mp hw
      rw [setAborted_block]
      obtain ⟨b1, hb1, hu1⟩ := h.known w1 hw1
      by_cases hbu : b1.uid = u
      · have : b1 = b := eq_of_uid hu hb1 hbm.1 (hbu.trans hbm.2.symm)
        subst this
        exact ⟨f b1, mem_modB_fb hb f, hu1⟩
      · exact ⟨b1, mem_modB_other f hb1 hbu, hu1⟩
    · intro x hx
      show x.waitersNum = (((s.waiters.map (setAborted b.queue)).filter fun w => w.block == x.uid).length : Int)
      rw [length_filter_block_map _ _ (setAborted_block b.queue)]
      rcases hcases x hx with ⟨_, hxs⟩ | hxe
      · exact h.num x hxs
      · rw [hxe]; exact h.num b hbm.1
    · intro x hx hne
      have hwok : ∀ v, wokenOf { (s.mod u f) with waiters := s.waiters.map (setAborted b.queue) } v
          = wokenOf s v := by
        intro v
        unfold wokenOf
        apply length_filter_map_congr
        intro w hw
        by_cases hm : w.id ∈ b.queue
        · rw [setAborted_in hm]
          have := (hinq w hw hm).2
          have e1 : (WSt.aborted == WSt.woken) = false := by decide
          have e2 : (WSt.queued == WSt.woken) = false := by decide
          simp only [this, e1, e2]
        · rw [setAborted_notin hm]
      rw [hwok]
      rcases hcases x hx with ⟨_, hxs⟩ | hxe
      · exact h.inv2 x hxs hne
      · rw [hxe] at hne; exact (hne rfl).elim
    · refine ⟨h.noPrune.1, ?_⟩
      intro w hw
      obtain ⟨w1, hw1, rfl⟩ := List.mem_map.mp hw
      rw [setAborted_prune]; exact h.noPrune.2 w1 hw1
    · intro w hw x hx
      obtain ⟨w1, hw1, rfl⟩ := List.mem_map.mp hw
      rw [setAborted_id]; exact h.hdis w1 hw1 x hx

end EdbVerif.Pool
