/-
C15, ownership part — part 3: erasing a connection, lending and taking back.
-/
import EdbVerif.Lemmas.PoolOwn2

namespace EdbVerif.Pool

theorem mem_filter_ne_conn {l : List (Nat × Bool)} {c : Nat} {p : Nat × Bool} (hp : p ∈ l) (hne : p.1 ≠ c) :
    p ∈ l.filter (·.1 != c) :=
  List.mem_filter.mpr ⟨hp, by simpa using hne⟩

/-- erasing the in-hand connection `c` from `conns` of block `u` -/
theorem eraseConn_own {s s' : State} (hw : WF s) (h : InvOwn s) {u c : Nat} {b : Block}
    (hb : s.find u = some b) (hc1 : (c, false) ∈ b.conns) (hc2 : c ∉ b.stack)
    (hB : s'.blocks = modB s.blocks u fun b => { b with conns := b.conns.filter (·.1 != c) })
    (hH : s'.holders = s.holders) (hl : (limbo s').Sublist (limbo s)) (hnl : (u, c) ∉ limbo s')
    (hN : s.nextUid ≤ s'.nextUid := by exact Nat.le_refl _) :
    InvOwn s' := by
  have hbm := State.find_some hb
  let f : Block → Block := fun b => { b with conns := b.conns.filter (·.1 != c) }
  have hcases : ∀ x ∈ s'.blocks, (x.uid ≠ u ∧ x ∈ s.blocks) ∨ x = f b := by
    intro x hx; rw [hB] at hx
    exact mem_modB_cases (f := f) hw.uids hb (fun _ => rfl) hx
  have hids : ∀ c', c' ∈ (f b).ids → c' ∈ b.ids := by
    intro c' hc'
    obtain ⟨p, hp, rfl⟩ := List.mem_map.mp hc'
    exact List.mem_map_of_mem (f := (·.1)) (List.mem_filter.mp hp).1
  refine ⟨?_, ?_, ?_, ?_, ?_, by rw [hH]; exact h.single, ?_, ?_, hl.nodup h.limboNd,
    fun p hp => Nat.lt_of_lt_of_le (h.limboUid p (hl.subset hp)) hN⟩
  · intro b1 hb1 b2 hb2 e
    rcases hcases b1 hb1 with ⟨_, h1⟩ | e1 <;> rcases hcases b2 hb2 with ⟨_, h2⟩ | e2
    · exact h.nameInj b1 h1 b2 h2 e
    · rw [e2] at e ⊢; exact h.nameInj b1 h1 b hbm.1 e
    · rw [e1] at e ⊢; exact h.nameInj b hbm.1 b2 h2 e
    · rw [e1, e2]
  · intro b1 hb1 b2 hb2 c' h1' h2'
    rcases hcases b1 hb1 with ⟨_, h1⟩ | e1 <;> rcases hcases b2 hb2 with ⟨_, h2⟩ | e2
    · exact h.disj b1 h1 b2 h2 c' h1' h2'
    · rw [e2] at h2' ⊢; exact h.disj b1 h1 b hbm.1 c' h1' (hids c' h2')
    · rw [e1] at h1' ⊢; exact h.disj b hbm.1 b2 h2 c' (hids c' h1') h2'
    · rw [e1, e2]
  · intro x hx c' hc'
    rcases hcases x hx with ⟨_, hxs⟩ | e
    · exact h.stackIdle x hxs c' hc'
    · rw [e] at hc' ⊢
      have hc'' : c' ∈ b.stack := hc'
      exact mem_filter_ne_conn (h.stackIdle b hbm.1 c' hc'') (fun e' => hc2 (e' ▸ hc''))
  · intro x hx
    rcases hcases x hx with ⟨_, hxs⟩ | e
    · exact h.stackNd x hxs
    · rw [e]; exact h.stackNd b hbm.1
  · intro x hx
    rw [hH] at hx
    obtain ⟨b1, hb1, hn, hc⟩ := h.held x hx
    by_cases hbu : b1.uid = u
    · have : b1 = b := eq_of_uid hw.uids hb1 hbm.1 (hbu.trans hbm.2.symm)
      subst this
      refine ⟨f b1, by rw [hB]; exact mem_modB_fb hb f, hn, ?_⟩
      refine mem_filter_ne_conn hc ?_
      intro e'
      have hc' : (c, true) ∈ b1.conns := by
        have : x.conn = c := e'
        rw [← this]; exact hc
      exact Bool.noConfusion (flag_unique (hw.cids b1 hbm.1) hc1 hc')
    · exact ⟨b1, by rw [hB]; exact mem_modB_other f hb1 hbu, hn, hc⟩
  · intro x hx
    rw [hH]
    rcases hcases x hx with ⟨_, hxs⟩ | e
    · exact h.acq x hxs
    · rw [e]; exact h.acq b hbm.1
  · intro p hp x hx hxu
    have hp' := hl.subset hp
    rcases hcases x hx with ⟨_, hxs⟩ | e
    · exact h.limboIdle p hp' x hxs hxu
    · rw [e] at hxu ⊢
      have := h.limboIdle p hp' b hbm.1 hxu
      refine ⟨mem_filter_ne_conn this.1 ?_, this.2⟩
      intro e'
      apply hnl
      have hpu : p.1 = u := hxu.symm.trans hbm.2
      have : p = (u, c) := by
        cases p; simp at hpu e'; rw [hpu, e']
      rw [← this]; exact hp

theorem schedXfer_own {s : State} (hw : WF s) (h : InvOwn s) {f c : Nat} (hd : Hand s f c) (t : Nat) (bh : Bool) :
    InvOwn (schedXfer s f c t bh) := by
  obtain ⟨b, hb, hc1, hc2, hc3⟩ := hd
  unfold schedXfer
  rw [hb]
  split
  · split
    · -- the erase, then pending + 1 on the target, reordering, the task
      let g : Block → Block := fun b => { b with conns := b.conns.filter (·.1 != c) }
      have h1 : InvOwn (s.mod f g) :=
        eraseConn_own hw h hb hc1 hc2 rfl rfl (List.Sublist.refl _) hc3
      have h2 : InvOwn ((s.mod f g).mod t fun b => { b with pending := b.pending + 1 }) :=
        h1.ofOS (OS.mod _ t _ (by intro b; exact ⟨rfl, rfl, rfl, List.Sublist.refl _, rfl⟩))
      have key : ∀ s1 : State, InvOwn s1 →
          InvOwn ((if s1.starving then { s1 with blocks := Pool.toEnd (Pool.toEnd s1.blocks t) f } else s1).addTask
            (.xfer f c t 0 bh)) := by
        intro s1 hs1
        have h3 : InvOwn (if s1.starving then { s1 with blocks := Pool.toEnd (Pool.toEnd s1.blocks t) f } else s1) := by
          split
          · exact hs1.ofOS (OS.ofMem (fun x => by
              show x ∈ Pool.toEnd (Pool.toEnd s1.blocks t) f ↔ _
              rw [mem_toEnd, mem_toEnd]) rfl (List.Sublist.refl _))
          · exact hs1
        refine h3.ofOS (OS.ofMem (fun _ => Iff.rfl) rfl ?_)
        rw [limbo_addTask]; simp [Task.limboOf]
      exact key _ h2
    · exact h.ofOS (OS.fields rfl rfl rfl)
  · exact h.ofOS (OS.fields rfl rfl rfl)

/-! ### holders -/

theorem length_filter_remove_holder (hs : List Holder) (x : Holder) (p : Holder → Bool)
    (hnd : (hs.map (·.req)).Nodup) (hm : x ∈ hs) :
    ((hs.filter (·.req != x.req)).filter p).length + (if p x then 1 else 0) = (hs.filter p).length := by
  induction hs with
  | nil => simp at hm
  | cons y ys ih =>
    simp only [List.map_cons, List.nodup_cons] at hnd
    by_cases hy : y.req = x.req
    · have hyx : y = x := by
        rcases List.mem_cons.mp hm with e | e
        · exact e.symm
        · exfalso; apply hnd.1; rw [hy]; exact List.mem_map_of_mem (f := (·.req)) e
      have hrest : ys.filter (·.req != x.req) = ys := by
        apply List.filter_eq_self.mpr
        intro z hz
        have : z.req ≠ x.req := by
          intro e; apply hnd.1; rw [hy, ← e]; exact List.mem_map_of_mem (f := (·.req)) hz
        simpa using this
      subst hyx
      have hb : (y.req != y.req) = false := by simp
      simp only [List.filter_cons, hb, Bool.false_eq_true, ↓reduceIte, hrest]
      split <;> simp
    · have hm' : x ∈ ys := by
        rcases List.mem_cons.mp hm with e | e
        · exfalso; apply hy; rw [e]
        · exact e
      have := ih hnd.2 hm'
      have hb : (y.req != x.req) = true := by simpa using hy
      rw [List.filter_cons_of_pos (p := fun z : Holder => z.req != x.req) hb]
      by_cases hp : p y = true
      · rw [List.filter_cons_of_pos hp, List.filter_cons_of_pos hp]
        simp only [List.length_cons]; omega
      · rw [List.filter_cons_of_neg hp, List.filter_cons_of_neg hp]; exact this

theorem mem_setFlag {l : List (Nat × Bool)} {c : Nat} {v : Bool} {p : Nat × Bool} (hp : p ∈ l) :
    (if p.1 == c then (c, v) else p) ∈ l.map fun q => if q.1 == c then (c, v) else q :=
  List.mem_map_of_mem (f := fun q : Nat × Bool => if q.1 == c then (c, v) else q) hp

/-- marking the in-hand connection `c` as lent to request `r` -/
theorem lend_own {s : State} (hw : WF s) (h : InvOwn s) {u c : Nat} (hd : Hand s u c) (r : Nat) :
    InvOwn (lend s r u c) := by
  obtain ⟨b, hb, hc1, hc2, hc3⟩ := hd
  have hbm := State.find_some hb
  unfold lend
  have hb0 : ({ s with nacq := s.nacq - 1 } : State).find u = some b := hb
  simp only
  rw [hb0]
  simp only
  split
  · rename_i c' hfind
    let f : Block → Block := fun b => { b with acquired := b.acquired + 1, conns := b.conns.map fun p => if p.1 == c then (c, true) else p }
    have hcases : ∀ x ∈ modB s.blocks u f, (x.uid ≠ u ∧ x ∈ s.blocks) ∨ x = f b :=
      fun x hx => mem_modB_cases (f := f) hw.uids hb (fun _ => rfl) hx
    have hidsf : (f b).ids = b.ids := map_fst_setFlag _ _ _
    -- nobody holds `c`
    have hfree : ∀ x ∈ s.holders, x.conn ≠ c := by
      intro x hx e
      obtain ⟨b1, hb1, _, hcx⟩ := h.held x hx
      rw [e] at hcx
      have hu1 : b1.uid = b.uid :=
        h.disj b1 hb1 b hbm.1 c (List.mem_map_of_mem (f := (·.1)) hcx) (List.mem_map_of_mem (f := (·.1)) hc1)
      have : b1 = b := eq_of_uid hw.uids hb1 hbm.1 hu1
      subst this
      exact Bool.noConfusion (flag_unique (hw.cids b1 hbm.1) hc1 hcx)
    have hkeep : ∀ p ∈ b.conns, p.1 ≠ c → p ∈ (f b).conns := by
      intro p hp hne
      have := mem_setFlag (c := c) (v := true) hp
      have hq : (p.1 == c) = false := by simpa using hne
      simp only [hq, Bool.false_eq_true, ↓reduceIte] at this
      exact this
    show InvOwn { (({ s with nacq := s.nacq - 1 } : State).mod u f) with
                  holders := s.holders ++ [(⟨r, b.name, c⟩ : Holder)] }
    refine ⟨?_, ?_, ?_, ?_, ?_, ?_, ?_, ?_, h.limboNd, h.limboUid⟩
    · intro b1 hb1 b2 hb2 e
      rcases hcases b1 hb1 with ⟨_, h1⟩ | e1 <;> rcases hcases b2 hb2 with ⟨_, h2⟩ | e2
      · exact h.nameInj b1 h1 b2 h2 e
      · rw [e2] at e ⊢; exact h.nameInj b1 h1 b hbm.1 e
      · rw [e1] at e ⊢; exact h.nameInj b hbm.1 b2 h2 e
      · rw [e1, e2]
    · intro b1 hb1 b2 hb2 c'' h1' h2'
      rcases hcases b1 hb1 with ⟨_, h1⟩ | e1 <;> rcases hcases b2 hb2 with ⟨_, h2⟩ | e2
      · exact h.disj b1 h1 b2 h2 c'' h1' h2'
      · rw [e2] at h2' ⊢; rw [hidsf] at h2'; exact h.disj b1 h1 b hbm.1 c'' h1' h2'
      · rw [e1] at h1' ⊢; rw [hidsf] at h1'; exact h.disj b hbm.1 b2 h2 c'' h1' h2'
      · rw [e1, e2]
    · intro x hx c'' hc''
      rcases hcases x hx with ⟨_, hxs⟩ | e
      · exact h.stackIdle x hxs c'' hc''
      · rw [e] at hc'' ⊢
        have hm : c'' ∈ b.stack := hc''
        exact hkeep _ (h.stackIdle b hbm.1 c'' hm) (fun e' => hc2 (e' ▸ hm))
    · intro x hx
      rcases hcases x hx with ⟨_, hxs⟩ | e
      · exact h.stackNd x hxs
      · rw [e]; exact h.stackNd b hbm.1
    · intro x hx
      have hx' : x ∈ s.holders ++ [(⟨r, b.name, c⟩ : Holder)] := hx
      rcases List.mem_append.mp hx' with hxo | hxn
      · obtain ⟨b1, hb1, hn, hcx⟩ := h.held x hxo
        by_cases hbu : b1.uid = u
        · have : b1 = b := eq_of_uid hw.uids hb1 hbm.1 (hbu.trans hbm.2.symm)
          subst this
          exact ⟨f b1, mem_modB_fb hb f, hn, hkeep _ hcx (hfree x hxo)⟩
        · exact ⟨b1, mem_modB_other f hb1 hbu, hn, hcx⟩
      · simp at hxn; subst hxn
        refine ⟨f b, mem_modB_fb hb f, rfl, ?_⟩
        have := mem_setFlag (c := c) (v := true) hc1
        simp only [beq_self_eq_true, ↓reduceIte] at this
        exact this
    · show ((s.holders ++ [(⟨r, b.name, c⟩ : Holder)]).map (·.conn)).Nodup
      rw [List.map_append, List.nodup_append]
      refine ⟨h.single, by simp, ?_⟩
      intro a ha b' hb' hab
      simp at hb'
      obtain ⟨x, hx, rfl⟩ := List.mem_map.mp ha
      exact hfree x hx (hab.trans hb')
    · intro x hx
      show x.acquired = (((s.holders ++ [(⟨r, b.name, c⟩ : Holder)]).filter (·.name == x.name)).length : Int)
      rw [List.filter_append, List.length_append]
      rcases hcases x hx with ⟨hxu, hxs⟩ | e
      · have hne : (b.name == x.name) = false := by
          have : b.name ≠ x.name := fun e' => hxu ((h.nameInj x hxs b hbm.1 e'.symm).trans hbm.2)
          simpa using this
        have := h.acq x hxs
        simp only [List.filter_cons, hne, Bool.false_eq_true, ↓reduceIte, List.filter_nil, List.length_nil]
        omega
      · rw [e]
        have := h.acq b hbm.1
        show b.acquired + 1 = _
        have heq : (b.name == (f b).name) = true := by show (b.name == b.name) = true; simp
        simp only [List.filter_cons, heq, ↓reduceIte, List.filter_nil, List.length_cons, List.length_nil]
        show b.acquired + 1 = (((s.holders.filter (·.name == b.name)).length + (0 + 1) : Nat) : Int)
        omega
    · intro p hp x hx hxu
      rcases hcases x hx with ⟨_, hxs⟩ | e
      · exact h.limboIdle p hp x hxs hxu
      · rw [e] at hxu ⊢
        have := h.limboIdle p hp b hbm.1 hxu
        refine ⟨hkeep _ this.1 ?_, this.2⟩
        intro e'
        apply hc3
        have hpu : p.1 = u := hxu.symm.trans hbm.2
        have : p = (u, c) := by cases p; simp at hpu e'; rw [hpu, e']
        rw [← this]; exact hp
  · exact h.ofOS (OS.fields rfl rfl rfl)

end EdbVerif.Pool
