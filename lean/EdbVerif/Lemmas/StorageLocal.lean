/-
C05 helper lemmas, part 3: local correctness of the operations emitted for a
change of one pointer (see `LocalOK` in StorageFrame).
-/
import EdbVerif.Lemmas.StorageFrame
namespace EdbVerif.Storage

theorem userProps_iff {p : Ptr} : p.userProps = true ↔ ∃ lp ∈ p.lprops, lp.computed = false := by
  simp [Ptr.userProps]

theorem lpropCols_nil_of_not_userProps {p : Ptr} (h : p.userProps = false) : p.lpropCols = [] := by
  simp only [Ptr.userProps, List.any_eq_false, Bool.not_eq_eq_eq_not, Bool.not_true, Bool.not_eq_false] at h
  simp only [Ptr.lpropCols, List.map_eq_nil_iff, List.filter_eq_nil_iff, Bool.not_eq_eq_eq_not, Bool.not_true,
    Bool.not_eq_false]
  exact h

theorem hasTable_some {p : Ptr} {t : Nat} (h : p.src = some t) :
    p.hasTable = (!p.computed && (!p.single || p.userProps)) := by
  simp [Ptr.hasTable, h]

theorem foot_src {p : Ptr} {t : Nat} (h : p.src = some t) : Foot p (.obj t, colOf p.name p.id) :=
  Or.inr ⟨t, h, rfl⟩

theorem foot_tbl (p : Ptr) (c : CName) : Foot p (.ptr p.id, c) := Or.inl rfl

/-- no operations: fine when the layout of the pointer is unchanged -/
theorem local_noop {p p' : Ptr} (h1 : p'.hasTable = p.hasTable) (h2 : ∀ x, x ∈ ptrCols p' ↔ x ∈ ptrCols p) :
    LocalOK p p' [] := by
  intro c ag
  refine ⟨c, rfl, fun _ _ => Iff.rfl, ?_, fun _ _ => Iff.rfl, ?_⟩
  · rw [ag.tbl, h1]
  · intro x hx; rw [ag.cols x hx, h2]

theorem local_setSingle_false {p : Ptr} {t : Nat} (hsrc : p.src = some t) (hs : p.single = true)
    (hc : p.computed = false) (hn : p.name ≠ .type_) :
    LocalOK p { p with single := false }
      ((if ({ p with single := false } : Ptr).hasTable then [Op.createTable (.ptr p.id) linkTableCols true] else []) ++
        [Op.dropCol (.obj t) (colOf p.name p.id)]) := by
  intro c ag
  have hht' : ({ p with single := false } : Ptr).hasTable = true := by simp [Ptr.hasTable, hc, hsrc]
  have hsc : p.srcCol = some (.obj t, colOf p.name p.id) := srcCol_eq_some.mpr ⟨t, hsrc, hc, hs, hn, rfl⟩
  have hsc' : ({ p with single := false } : Ptr).srcCol = none := by simp [Ptr.srcCol, hsrc]
  simp only [hht', if_true, List.cons_append, List.nil_append]
  have hfoot : Foot p (TName.obj t, colOf p.name p.id) := foot_src hsrc
  have hcolmem : (TName.obj t, colOf p.name p.id) ∈ c.cols :=
    (ag.cols _ hfoot).mpr (mem_ptrCols.mpr (Or.inl hsc))
  by_cases hht : p.hasTable = true
  · have h1 := exec_createTable_exists linkTableCols (ag.tbl.mpr hht)
    obtain ⟨c2, h2, hT2, hC2⟩ := exec_dropCol hcolmem
    refine ⟨c2, by rw [execAll_cons _ h1, execAll_cons _ h2, execAll_nil], ?_, ?_, ?_, ?_⟩
    · intro u _; rw [hT2]
    · rw [hT2, ag.tbl]; simp [hht, hht']
    · intro x hx; rw [hC2]; grind
    · intro x hx
      rw [hC2, ag.cols x hx, mem_ptrCols, mem_ptrCols, hsc, hsc', hht, hht']
      simp only [Ptr.lpropCols]
      grind
  · have hnt : TName.ptr p.id ∉ c.tables := fun h => hht (ag.tbl.mp h)
    obtain ⟨c1, h1, hT1, hC1⟩ := exec_createTable_new linkTableCols true hnt
    have hcolmem1 : (TName.obj t, colOf p.name p.id) ∈ c1.cols := (hC1 _).mpr (Or.inr hcolmem)
    obtain ⟨c2, h2, hT2, hC2⟩ := exec_dropCol hcolmem1
    have hup : p.userProps = false := by
      rw [hasTable_some hsrc] at hht; simp [hc, hs] at hht; exact hht
    have hlp := lpropCols_nil_of_not_userProps hup
    refine ⟨c2, by rw [execAll_cons _ h1, execAll_cons _ h2, execAll_nil], ?_, ?_, ?_, ?_⟩
    · intro u hu; rw [hT2, hT1]; grind
    · rw [hT2, hT1]; simp [hht']
    · intro x hx; rw [hC2, hC1]
      have : x.1 ≠ TName.ptr p.id := fun h => hx (Or.inl h)
      grind
    · intro x hx
      rw [hC2, hC1, ag.cols x hx, mem_ptrCols, mem_ptrCols, hsc, hsc', hht']
      have : ({ p with single := false } : Ptr).lpropCols = [] := hlp
      rw [this, hlp]
      simp only [linkTableCols, hht]
      grind

theorem local_setSingle_true {p : Ptr} {t : Nat} (hsrc : p.src = some t) (hs : p.single = false)
    (hc : p.computed = false) (hn : p.name ≠ .type_) :
    LocalOK p { p with single := true }
      ([Op.addCol (.obj t) (colOf p.name p.id) true] ++
        (if !({ p with single := true } : Ptr).hasTable then [Op.dropTable (.ptr p.id) true] else [])) := by
  intro c ag
  have hht : p.hasTable = true := by simp [Ptr.hasTable, hc, hsrc, hs]
  have hsc : p.srcCol = none := by simp [Ptr.srcCol, hsrc, hs]
  have hsc' : ({ p with single := true } : Ptr).srcCol = some (.obj t, colOf p.name p.id) :=
    srcCol_eq_some.mpr ⟨t, hsrc, hc, rfl, hn, rfl⟩
  have hfoot : Foot p (TName.obj t, colOf p.name p.id) := foot_src hsrc
  have hnocol : (TName.obj t, colOf p.name p.id) ∉ c.cols := by
    rw [ag.cols _ hfoot, mem_ptrCols, hsc]; simp
  obtain ⟨c1, h1, hT1, hC1⟩ := exec_addCol true hnocol (ag.src t hsrc)
  by_cases hht' : ({ p with single := true } : Ptr).hasTable = true
  · simp only [hht', Bool.not_true, Bool.false_eq_true, if_false, List.append_nil]
    refine ⟨c1, by rw [execAll_cons _ h1, execAll_nil], ?_, ?_, ?_, ?_⟩
    · intro u _; rw [hT1]
    · rw [hT1, ag.tbl]; simp [hht, hht']
    · intro x hx; rw [hC1]; grind
    · intro x hx
      rw [hC1, ag.cols x hx, mem_ptrCols, mem_ptrCols, hsc, hsc', hht, hht']
      simp only [Ptr.lpropCols]
      grind
  · have hf : ({ p with single := true } : Ptr).hasTable = false := by simpa using hht'
    simp only [hf, Bool.not_false, if_true, List.cons_append, List.nil_append]
    have hin : TName.ptr p.id ∈ c1.tables := by rw [hT1]; exact ag.tbl.mpr hht
    obtain ⟨c2, h2, hT2, hC2⟩ := exec_dropTable true hin
    refine ⟨c2, by rw [execAll_cons _ h1, execAll_cons _ h2, execAll_nil], ?_, ?_, ?_, ?_⟩
    · intro u hu; rw [hT2, hT1]; grind
    · rw [hT2]; simp [hf]
    · intro x hx; rw [hC2, hC1]
      have : x.1 ≠ TName.ptr p.id := fun h => hx (Or.inl h)
      grind
    · intro x hx
      rw [hC2, hC1, ag.cols x hx, mem_ptrCols, mem_ptrCols, hsc, hsc', hht, hf]
      grind

/-- the operations that remove all storage of a pointer (`_delete_link` / `_delete_property`
    with the storage info of the original schema) -/
def unstoreOps (p : Ptr) : List Op :=
  (match p.srcCol with
   | some (t, c) => [Op.dropCol t c]
   | none => []) ++ (if p.hasTable then [dropPtrTable p] else [])

theorem local_unstore {p p' : Ptr} (h1 : p'.hasTable = false) (h2 : p'.srcCol = none) :
    LocalOK p p' (unstoreOps p) := by
  intro c ag
  have hcols' : ∀ x, x ∉ ptrCols p' := by
    intro x hx
    rw [mem_ptrCols, h1, h2] at hx; simp at hx
  unfold unstoreOps
  -- first the source column
  have step1 : ∃ c1, execAll c (match p.srcCol with
      | some (t, c) => [Op.dropCol t c]
      | none => []) = some c1 ∧ c1.tables = c.tables ∧
      (∀ y, y ∈ c1.cols ↔ p.srcCol ≠ some y ∧ y ∈ c.cols) := by
    cases hsc : p.srcCol with
    | none => exact ⟨c, rfl, rfl, by simp⟩
    | some k =>
      obtain ⟨t, col⟩ := k
      have hk : (t, col) ∈ c.cols := by
        obtain ⟨t', hs, _, _, _, hk⟩ := srcCol_eq_some.mp hsc
        rw [hk, ag.cols _ (foot_src hs), mem_ptrCols, ← hk]; exact Or.inl hsc
      obtain ⟨c1, e1, hT1, hC1⟩ := exec_dropCol hk
      refine ⟨c1, by simp only [execAll_cons _ e1, execAll_nil], hT1, ?_⟩
      intro y; rw [hC1]; simp [eq_comm]
  obtain ⟨c1, e1, hT1, hC1⟩ := step1
  rw [execAll_append, e1]
  simp only [Option.bind_some]
  by_cases hht : p.hasTable = true
  · simp only [hht, if_true]
    have hin : TName.ptr p.id ∈ c1.tables := by rw [hT1]; exact ag.tbl.mpr hht
    obtain ⟨c2, e2, hT2, hC2⟩ := exec_dropTable (p.kind == .link) hin
    refine ⟨c2, by simp only [dropPtrTable, execAll_cons _ e2, execAll_nil], ?_, ?_, ?_, ?_⟩
    · intro u hu; rw [hT2, hT1]; grind
    · rw [hT2]; simp [h1]
    · intro x hx; rw [hC2, hC1]
      have hx1 : x.1 ≠ TName.ptr p.id := fun h => hx (Or.inl h)
      have hx2 : p.srcCol ≠ some x := fun h => hx (foot_of_mem_ptrCols (mem_ptrCols.mpr (Or.inl h)))
      grind
    · intro x hx
      rw [hC2, hC1, ag.cols x hx, mem_ptrCols]
      have := hcols' x
      grind
  · have hf : p.hasTable = false := by simpa using hht
    simp only [hf, Bool.false_eq_true, if_false]
    refine ⟨c1, rfl, ?_, ?_, ?_, ?_⟩
    · intro u _; rw [hT1]
    · rw [hT1, ag.tbl]; simp [hf, h1]
    · intro x hx; rw [hC1]
      have hx2 : p.srcCol ≠ some x := fun h => hx (foot_of_mem_ptrCols (mem_ptrCols.mpr (Or.inl h)))
      grind
    · intro x hx
      rw [hC1, ag.cols x hx, mem_ptrCols, hf]
      have := hcols' x
      grind

/-- `createOps` brings a pointer without storage and without stored link properties to its layout -/
theorem local_store {p p' : Ptr} (hid : p'.id = p.id) (hsrc : p'.src = p.src)
    (hcol : colOf p'.name p'.id = colOf p.name p.id)
    (h1 : p.hasTable = false) (h2 : p.srcCol = none) (hup : p'.userProps = false) :
    LocalOK p p' (createOps p') := by
  intro c ag
  have hlp := lpropCols_nil_of_not_userProps hup
  have hnone : ∀ x, Foot p x → x ∉ c.cols := by
    intro x hx; rw [ag.cols x hx, mem_ptrCols, h1, h2]; simp
  have hnt : TName.ptr p.id ∉ c.tables := fun h => by have := ag.tbl.mp h; simp [h1] at this
  unfold createOps
  have step1 : ∃ c1, execAll c (if p'.hasTable then [Op.createTable (.ptr p'.id) linkTableCols true] else []) = some c1 ∧
      (∀ u, u ∈ c1.tables ↔ (p'.hasTable = true ∧ u = .ptr p.id) ∨ u ∈ c.tables) ∧
      (∀ y, y ∈ c1.cols ↔ (p'.hasTable = true ∧ y.1 = .ptr p.id ∧ (y.2 = .source ∨ y.2 = .target)) ∨ y ∈ c.cols) := by
    by_cases hht : p'.hasTable = true
    · simp only [hht, if_true, hid]
      obtain ⟨c1, e1, hT1, hC1⟩ := exec_createTable_new linkTableCols true hnt
      refine ⟨c1, by simp only [execAll_cons _ e1, execAll_nil], ?_, ?_⟩
      · intro u; rw [hT1]; simp
      · intro y; rw [hC1]; simp [linkTableCols]
    · have hf : p'.hasTable = false := by simpa using hht
      simp only [hf, Bool.false_eq_true, if_false]
      exact ⟨c, rfl, by simp, by simp⟩
  obtain ⟨c1, e1, hT1, hC1⟩ := step1
  rw [execAll_append, e1]
  simp only [Option.bind_some]
  cases hsc : p'.srcCol with
  | none =>
    refine ⟨c1, rfl, ?_, ?_, ?_, ?_⟩
    · intro u hu; rw [hT1]; grind
    · rw [hT1]; grind
    · intro x hx; rw [hC1]
      have hx1 : x.1 ≠ TName.ptr p.id := fun h => hx (Or.inl h)
      grind
    · intro x hx
      rw [hC1, mem_ptrCols, hsc, hlp, hid]
      have := hnone x hx
      simp only [List.not_mem_nil, or_false]
      grind
  | some k =>
    obtain ⟨t, col⟩ := k
    obtain ⟨t', hs, _, _, _, hk⟩ := srcCol_eq_some.mp hsc
    rw [hsrc] at hs
    rw [hid] at hcol
    have hk' : (t, col) = (TName.obj t', colOf p.name p.id) := by rw [hk, hid, hcol]
    have hfoot : Foot p (t, col) := by rw [hk']; exact foot_src hs
    have hnc : (t, col) ∉ c1.cols := by
      rw [hC1]; intro h
      rcases h with ⟨_, h, _⟩ | h
      · rw [hk'] at h; simp at h
      · exact hnone _ hfoot h
    have htb : t ∈ c1.tables := by
      rw [hT1]; right
      have : t = TName.obj t' := (Prod.mk.inj hk').1
      rw [this]; exact ag.src t' hs
    obtain ⟨c2, e2, hT2, hC2⟩ := exec_addCol false hnc htb
    refine ⟨c2, by simp only [execAll_cons _ e2, execAll_nil], ?_, ?_, ?_, ?_⟩
    · intro u hu; rw [hT2, hT1]; grind
    · rw [hT2, hT1]; grind
    · intro x hx; rw [hC2, hC1]
      have hx1 : x.1 ≠ TName.ptr p.id := fun h => hx (Or.inl h)
      grind
    · intro x hx
      rw [hC2, hC1, mem_ptrCols, hsc, hlp, hid]
      have := hnone x hx
      simp only [List.not_mem_nil, or_false]
      grind


theorem local_lpropStore {p p' : Ptr} {lpid : Nat} (hid : p'.id = p.id) (hsc : p'.srcCol = p.srcCol)
    (hcols : ∀ c, c ∈ p'.lpropCols ↔ c = .col lpid ∨ c ∈ p.lpropCols)
    (hnew : CName.col lpid ∉ p.lpropCols)
    (hmono : p.hasTable = true → p'.hasTable = true)
    (hempty : p.hasTable = false → p'.hasTable = true → p.lpropCols = []) :
    LocalOK p p' (lpropStoreOps p p' (.col lpid) false) := by
  intro c ag
  unfold lpropStoreOps
  simp only [Bool.false_eq_true, if_false]
  by_cases hht' : p'.hasTable = true
  · simp only [hht', if_true]
    by_cases hht : p.hasTable = true
    · simp only [hht, Bool.not_true, Bool.false_eq_true, if_false, List.nil_append]
      have hnc : (TName.ptr p.id, CName.col lpid) ∉ c.cols := by
        rw [ag.cols _ (foot_tbl p _), mem_ptrCols]
        rintro (h | ⟨_, _, h⟩)
        · obtain ⟨t, _, _, _, _, h⟩ := srcCol_eq_some.mp h; simp at h
        · simp at h; exact hnew h
      obtain ⟨c1, e1, hT1, hC1⟩ := exec_addCol false hnc (ag.tbl.mpr hht)
      refine ⟨c1, by simp only [execAll_cons _ e1, execAll_nil], ?_, ?_, ?_, ?_⟩
      · intro u _; rw [hT1]
      · rw [hT1, ag.tbl]; simp [hht, hht']
      · intro x hx; rw [hC1]
        have := foot_tbl p (CName.col lpid)
        grind
      · intro x hx
        rw [hC1, ag.cols x hx, mem_ptrCols, mem_ptrCols, hsc, hht, hht', hid]
        have := hcols x.2
        grind
    · have hf : p.hasTable = false := by simpa using hht
      have hlp := hempty hf hht'
      simp only [hf, Bool.not_false, if_true, List.cons_append, List.nil_append]
      have hnt : TName.ptr p.id ∉ c.tables := fun h => hht (ag.tbl.mp h)
      obtain ⟨c1, e1, hT1, hC1⟩ := exec_createTable_new linkTableCols false hnt
      have hnc0 : (TName.ptr p.id, CName.col lpid) ∉ c.cols := by
        rw [ag.cols _ (foot_tbl p _), mem_ptrCols, hf]
        rintro (h | h)
        · obtain ⟨t, _, _, _, _, h⟩ := srcCol_eq_some.mp h; simp at h
        · simp at h
      have hnc : (TName.ptr p.id, CName.col lpid) ∉ c1.cols := by
        rw [hC1]; simp [linkTableCols, hnc0]
      obtain ⟨c2, e2, hT2, hC2⟩ := exec_addCol false hnc ((hT1 _).mpr (Or.inl rfl))
      refine ⟨c2, by simp only [execAll_cons _ e1, execAll_cons _ e2, execAll_nil], ?_, ?_, ?_, ?_⟩
      · intro u hu; rw [hT2, hT1]; grind
      · rw [hT2, hT1]; simp [hht']
      · intro x hx; rw [hC2, hC1]
        have hx1 : x.1 ≠ TName.ptr p.id := fun h => hx (Or.inl h)
        grind
      · intro x hx
        rw [hC2, hC1, ag.cols x hx, mem_ptrCols, mem_ptrCols, hsc, hf, hht', hid]
        have := hcols x.2
        rw [hlp] at this
        simp only [linkTableCols]
        grind
  · have hf' : p'.hasTable = false := by simpa using hht'
    have hf : p.hasTable = false := by
      cases h : p.hasTable
      · rfl
      · exact absurd (hmono h) hht'
    simp only [hf', Bool.false_eq_true, if_false]
    refine ⟨c, rfl, fun _ _ => Iff.rfl, ?_, fun _ _ => Iff.rfl, ?_⟩
    · rw [ag.tbl, hf]; simp
    · intro x hx
      rw [ag.cols x hx, mem_ptrCols, mem_ptrCols, hsc, hf, hf']
      simp

theorem local_lpropUnstore {p p' : Ptr} {lpid : Nat} (hid : p'.id = p.id) (hsc : p'.srcCol = p.srcCol)
    (hcols : ∀ c, c ∈ p'.lpropCols ↔ c ≠ .col lpid ∧ c ∈ p.lpropCols)
    (hold : CName.col lpid ∈ p.lpropCols)
    (hmono : p'.hasTable = true → p.hasTable = true) :
    LocalOK p p' (lpropUnstoreOps p p' (.col lpid)) := by
  intro c ag
  unfold lpropUnstoreOps
  by_cases hht' : p'.hasTable = true
  · have hht := hmono hht'
    simp only [hht', if_true]
    have hin : (TName.ptr p.id, CName.col lpid) ∈ c.cols := by
      rw [ag.cols _ (foot_tbl p _), mem_ptrCols]
      exact Or.inr ⟨hht, rfl, Or.inr (Or.inr hold)⟩
    obtain ⟨c1, e1, hT1, hC1⟩ := exec_dropCol hin
    refine ⟨c1, by simp only [execAll_cons _ e1, execAll_nil], ?_, ?_, ?_, ?_⟩
    · intro u _; rw [hT1]
    · rw [hT1, ag.tbl]; simp [hht, hht']
    · intro x hx; rw [hC1]
      have := foot_tbl p (CName.col lpid)
      grind
    · intro x hx
      rw [hC1, ag.cols x hx, mem_ptrCols, mem_ptrCols, hsc, hht, hht', hid]
      have := hcols x.2
      constructor
      · rintro ⟨hne, h | ⟨_, h1, h2⟩⟩
        · exact Or.inl h
        · refine Or.inr ⟨rfl, h1, ?_⟩
          rcases h2 with h2 | h2 | h2
          · exact Or.inl h2
          · exact Or.inr (Or.inl h2)
          · refine Or.inr (Or.inr (this.mpr ⟨?_, h2⟩))
            intro h3; apply hne
            obtain ⟨x1, x2⟩ := x
            simp only at h1 h3; rw [h1, h3]
      · rintro (h | ⟨_, h1, h2⟩)
        · refine ⟨?_, Or.inl h⟩
          obtain ⟨t, _, _, _, _, h⟩ := srcCol_eq_some.mp h
          rw [h]; simp
        · refine ⟨?_, Or.inr ⟨rfl, h1, ?_⟩⟩
          · rintro rfl
            rcases h2 with h2 | h2 | h2
            · simp at h2
            · simp at h2
            · exact (this.mp h2).1 rfl
          · rcases h2 with h2 | h2 | h2
            · exact Or.inl h2
            · exact Or.inr (Or.inl h2)
            · exact Or.inr (Or.inr (this.mp h2).2)
  · have hf' : p'.hasTable = false := by simpa using hht'
    simp only [hf', Bool.false_eq_true, if_false]
    by_cases hht : p.hasTable = true
    · simp only [hht, if_true]
      obtain ⟨c1, e1, hT1, hC1⟩ := exec_dropTable false (ag.tbl.mpr hht)
      refine ⟨c1, by simp only [execAll_cons _ e1, execAll_nil], ?_, ?_, ?_, ?_⟩
      · intro u hu; rw [hT1]; grind
      · rw [hT1]; simp [hf']
      · intro x hx; rw [hC1]
        have hx1 : x.1 ≠ TName.ptr p.id := fun h => hx (Or.inl h)
        grind
      · intro x hx
        rw [hC1, ag.cols x hx, mem_ptrCols, mem_ptrCols, hsc, hht, hf']
        constructor
        · rintro ⟨hne, h | ⟨_, h1, _⟩⟩
          · exact Or.inl h
          · exact absurd h1 hne
        · rintro (h | h)
          · refine ⟨?_, Or.inl h⟩
            obtain ⟨t, _, _, _, _, h⟩ := srcCol_eq_some.mp h
            rw [h]; simp
          · simp at h
    · have hf : p.hasTable = false := by simpa using hht
      simp only [hf, Bool.false_eq_true, if_false]
      refine ⟨c, rfl, fun _ _ => Iff.rfl, ?_, fun _ _ => Iff.rfl, ?_⟩
      · rw [ag.tbl, hf]; simp
      · intro x hx
        rw [ag.cols x hx, mem_ptrCols, mem_ptrCols, hsc, hf, hf']
        simp

end EdbVerif.Storage
