/-
C13: `check q = true ↔ WellScoped q` — the executable scope checker decides the
declarative scoping rules, by simultaneous structural recursion over the
(nested, mutually inductive) syntax.
-/
import EdbVerif.Lemmas.PgScopeRes

namespace EdbVerif.PgAst

theorem fromRVars_nil (ctes : List CteDef) : fromRVars ctes [] = [] := rfl

theorem fromRVars_cons (ctes : List CteDef) (f : FromItem) (fs : List FromItem) :
    fromRVars ctes (f :: fs) = rvarsOf ctes f ++ fromRVars ctes fs := by
  simp [fromRVars]

/-- the accumulator of `checkFroms` is the lateral view of the items to the left -/
theorem froms_split {P : Level → FromItem → Prop} (ctes : List CteDef) (acc : Level)
    (f : FromItem) (fs : List FromItem) :
    (∀ pre it post, f :: fs = pre ++ it :: post → P (acc ++ fromRVars ctes pre) it) ↔
      P acc f ∧ ∀ pre it post, fs = pre ++ it :: post →
        P ((acc ++ rvarsOf ctes f) ++ fromRVars ctes pre) it := by
  constructor
  · intro h
    refine ⟨by simpa [fromRVars_nil] using h [] f fs rfl, ?_⟩
    intro pre it post heq
    have := h (f :: pre) it post (by simp [heq])
    simpa [fromRVars_cons, List.append_assoc] using this
  · rintro ⟨h1, h2⟩ pre it post heq
    cases pre with
    | nil =>
      simp only [List.nil_append, List.cons.injEq] at heq
      obtain ⟨rfl, rfl⟩ := heq
      simpa [fromRVars_nil] using h1
    | cons p pre =>
      simp only [List.cons_append, List.cons.injEq] at heq
      obtain ⟨rfl, rfl⟩ := heq
      have := h2 pre it post rfl
      simpa [fromRVars_cons, List.append_assoc] using this

theorem ctes_split {P : List Cte → Cte → Prop} (pre : List Cte) (c : Cte) (rest : List Cte) :
    (∀ p d post, c :: rest = p ++ d :: post → P (pre ++ p) d) ↔
      P pre c ∧ ∀ p d post, rest = p ++ d :: post → P ((pre ++ [c]) ++ p) d := by
  constructor
  · intro h
    refine ⟨by simpa using h [] c rest rfl, ?_⟩
    intro p d post heq
    have := h (c :: p) d post (by simp [heq])
    simpa [List.append_assoc] using this
  · rintro ⟨h1, h2⟩ p d post heq
    cases p with
    | nil =>
      simp only [List.nil_append, List.cons.injEq] at heq
      obtain ⟨rfl, rfl⟩ := heq
      simpa using h1
    | cons x p =>
      simp only [List.cons_append, List.cons.injEq] at heq
      obtain ⟨rfl, rfl⟩ := heq
      have := h2 p d post rfl
      simpa [List.append_assoc] using this

theorem using_iff (l r : List RVar) (us : List Name) :
    (us.all fun c => l.any (·.offers c) && r.any (·.offers c)) = true ↔
      ∀ c ∈ us, (∃ x ∈ l, x.offers c = true) ∧ (∃ y ∈ r, y.offers c = true) := by
  simp only [List.all_eq_true, Bool.and_eq_true, List.any_eq_true]

mutual
theorem checkExpr_iff (env : Env) : (e : Expr) → (checkExpr env e = true ↔ WSExpr env e)
  | .col parts => by
    simp only [checkExpr, resolves_iff]
    exact ⟨.col, fun h => by cases h; assumption⟩
  | .star qual => by
    simp only [checkExpr, resolvesStar_iff]
    exact ⟨.star, fun h => by cases h; assumption⟩
  | .param n => by simp only [checkExpr, true_iff]; exact .param
  | .leaf => by simp only [checkExpr, true_iff]; exact .leaf
  | .node args => by
    simp only [checkExpr, checkExprs_iff env args]
    exact ⟨.node, fun h => by cases h; assumption⟩
  | .sub q => by
    simp only [checkExpr, checkQuery_iff env q]
    exact ⟨.sub, fun h => by cases h; assumption⟩

theorem checkExprs_iff (env : Env) :
    (es : List Expr) → (checkExprs env es = true ↔ ∀ e ∈ es, WSExpr env e)
  | [] => by simp [checkExprs]
  | e :: es => by
    simp only [checkExprs, Bool.and_eq_true, List.mem_cons, forall_eq_or_imp,
      checkExpr_iff env e, checkExprs_iff env es]

theorem checkByItems_iff (env : Env) (outs : Option (List Name)) :
    (es : List Expr) →
      (checkByItems env outs es = true ↔ ∀ e ∈ es, isOutRef outs e = false → WSExpr env e)
  | [] => by simp [checkByItems]
  | e :: es => by
    simp only [checkByItems, Bool.and_eq_true, Bool.or_eq_true, List.mem_cons, forall_eq_or_imp,
      checkExpr_iff env e, checkByItems_iff env outs es]
    cases isOutRef outs e <;> simp

theorem checkTargets_iff (env : Env) :
    (ts : List Target) → (checkTargets env ts = true ↔ ∀ t ∈ ts, WSExpr env t.val)
  | [] => by simp [checkTargets]
  | .mk n v :: ts => by
    simp only [checkTargets, Bool.and_eq_true, List.mem_cons, forall_eq_or_imp, Target.val,
      checkExpr_iff env v, checkTargets_iff env ts]

theorem checkFrom_iff (env : Env) (lat : Level) :
    (f : FromItem) → (checkFrom env lat f = true ↔ WSFrom env lat f)
  | .rel s n a al tc => by
    simp only [checkFrom, Bool.and_eq_true]
    exact ⟨fun ⟨h1, h2⟩ => .rel h1 h2, fun h => by cases h with | rel h1 h2 => exact ⟨h1, h2⟩⟩
  | .cref n a al => by
    simp only [checkFrom]
    cases hl : lookupCte env.ctes n with
    | none =>
      simp only [Bool.false_eq_true, false_iff]
      intro h
      cases h with
      | cref h1 _ => rw [hl] at h1; cases h1
    | some d =>
      exact ⟨fun h => .cref hl h, fun h => by
        cases h with
        | cref h1 h2 => rw [hl] at h1; cases h1; exact h2⟩
  | .subq lateral q a al => by
    simp only [checkFrom, Bool.and_eq_true, checkQuery_iff _ q]
    exact ⟨fun ⟨h1, h2⟩ => .subq h1 h2, fun h => by cases h with | subq h1 h2 => exact ⟨h1, h2⟩⟩
  | .func lateral fns a cols => by
    simp only [checkFrom, checkExprs_iff _ fns]
    exact ⟨.func, fun h => by cases h; assumption⟩
  | .join l k r on us => by
    simp only [checkFrom, Bool.and_eq_true, checkFrom_iff env lat l, checkFrom_iff env _ r,
      checkExprs_iff _ on, using_iff]
    exact ⟨fun ⟨⟨⟨h1, h2⟩, h3⟩, h4⟩ => .join h1 h2 h3 h4, fun h => by
      cases h with | join h1 h2 h3 h4 => exact ⟨⟨⟨h1, h2⟩, h3⟩, h4⟩⟩

theorem checkFroms_iff (env : Env) (acc : Level) :
    (fs : List FromItem) →
      (checkFroms env acc fs = true ↔
        ∀ pre it post, fs = pre ++ it :: post → WSFrom env (acc ++ fromRVars env.ctes pre) it)
  | [] => by simp [checkFroms]
  | f :: fs => by
    rw [froms_split (P := WSFrom env)]
    simp only [checkFroms, Bool.and_eq_true, checkFrom_iff env acc f,
      checkFroms_iff env (acc ++ rvarsOf env.ctes f) fs]

theorem checkCtes_iff (env : Env) (recursive : Bool) (all pre : List Cte) :
    (rest : List Cte) →
      (checkCtes env recursive all pre rest = true ↔
        (∀ p c post, rest = p ++ c :: post →
            WSQuery (env.withCtes (if recursive then all else pre ++ p)) c.query) ∧
        (∀ c ∈ rest, colAliasesOk c.cols (outCols c.query) = true))
  | [] => by simp [checkCtes]
  | .mk n cols q :: rest => by
    have hsplit := ctes_split
      (P := fun pp (c : Cte) => WSQuery (env.withCtes (if recursive then all else pp)) c.query)
      pre (.mk n cols q) rest
    rw [hsplit]
    simp only [checkCtes, Bool.and_eq_true, checkQuery_iff _ q,
      checkCtes_iff env recursive all (pre ++ [.mk n cols q]) rest, List.mem_cons,
      forall_eq_or_imp, Cte.query, Cte.cols]
    constructor
    · rintro ⟨⟨h1, h2⟩, h3, h4⟩
      exact ⟨⟨h1, h3⟩, h2, h4⟩
    · rintro ⟨⟨h1, h3⟩, h2, h4⟩
      exact ⟨⟨h1, h2⟩, h3, h4⟩

theorem checkQuery_iff (env : Env) : (q : Query) → (checkQuery env q = true ↔ WSQuery env q)
  | .withq recursive ctes body => by
    simp only [checkQuery, Bool.and_eq_true, nodupNames_iff, checkCtes_iff env recursive ctes [] ctes,
      checkQuery_iff _ body, List.nil_append]
    exact ⟨fun ⟨⟨h1, h2, h3⟩, h4⟩ => .withq h1 h2 h3 h4, fun h => by
      cases h with | withq h1 h2 h3 h4 => exact ⟨⟨h1, h2, h3⟩, h4⟩⟩
  | .select targets frm exprs byItems limits => by
    simp only [checkQuery, Bool.and_eq_true, noConflicts_iff, checkFroms_iff env [] frm,
      checkTargets_iff _ targets, checkExprs_iff _ exprs, checkByItems_iff _ _ byItems,
      checkExprs_iff env limits, List.nil_append]
    exact ⟨fun ⟨⟨⟨⟨⟨h1, h2⟩, h3⟩, h4⟩, h5⟩, h6⟩ => .select h1 h2 h3 h4 h5 h6, fun h => by
      cases h with | select h1 h2 h3 h4 h5 h6 => exact ⟨⟨⟨⟨⟨h1, h2⟩, h3⟩, h4⟩, h5⟩, h6⟩⟩
  | .values n rows => by
    simp only [checkQuery, checkExprs_iff env rows]
    exact ⟨.values, fun h => by cases h; assumption⟩
  | .setop l r order limits => by
    simp only [checkQuery, Bool.and_eq_true, checkQuery_iff env l, checkQuery_iff env r,
      List.all_eq_true, checkExprs_iff env limits]
    exact ⟨fun ⟨⟨⟨h1, h2⟩, h3⟩, h4⟩ => .setop h1 h2 h3 h4, fun h => by
      cases h with | setop h1 h2 h3 h4 => exact ⟨⟨⟨h1, h2⟩, h3⟩, h4⟩⟩
  | .insert s n a tc src inferExprs updExprs returning => by
    simp only [checkQuery, Bool.and_eq_true, checkQuery_iff env src, checkExprs_iff _ inferExprs,
      noConflicts_iff, checkExprs_iff _ updExprs, checkTargets_iff _ returning]
    exact ⟨fun ⟨⟨⟨⟨⟨h1, h2⟩, h3⟩, h4⟩, h5⟩, h6⟩ => .insert h1 h2 h3 h4 h5 h6, fun h => by
      cases h with | insert h1 h2 h3 h4 h5 h6 => exact ⟨⟨⟨⟨⟨h1, h2⟩, h3⟩, h4⟩, h5⟩, h6⟩⟩
  | .update s n a tc frm exprs returning => by
    simp only [checkQuery, Bool.and_eq_true, noConflicts_iff, checkFroms_iff env _ frm,
      checkExprs_iff _ exprs, checkTargets_iff _ returning, List.singleton_append]
    exact ⟨fun ⟨⟨⟨⟨h1, h2⟩, h3⟩, h4⟩, h5⟩ => .update h1 h2 h3 h4 h5, fun h => by
      cases h with | update h1 h2 h3 h4 h5 => exact ⟨⟨⟨⟨h1, h2⟩, h3⟩, h4⟩, h5⟩⟩
  | .delete s n a tc frm exprs returning => by
    simp only [checkQuery, Bool.and_eq_true, noConflicts_iff, checkFroms_iff env _ frm,
      checkExprs_iff _ exprs, checkTargets_iff _ returning, List.singleton_append]
    exact ⟨fun ⟨⟨⟨⟨h1, h2⟩, h3⟩, h4⟩, h5⟩ => .delete h1 h2 h3 h4 h5, fun h => by
      cases h with | delete h1 h2 h3 h4 h5 => exact ⟨⟨⟨⟨h1, h2⟩, h3⟩, h4⟩, h5⟩⟩
end

theorem check_iff (q : Query) : check q = true ↔ WellScoped q := checkQuery_iff {} q

end EdbVerif.PgAst
