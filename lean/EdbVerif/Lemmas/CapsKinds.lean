/-
C08 — proof obligations over the GENERATED dispatch table (`Gen/Caps.lean`): finite, complete,
discharged by `decide`.  An edited table / enum / class hierarchy makes one of these fail.
-/
import EdbVerif.Lemmas.CapsQuery
import EdbVerif.Lemmas.CapsBits

namespace EdbVerif.Caps
open EdbVerif.Gen.Caps

theorem Kind.mem_all (k : Kind) : k ∈ Kind.all := by
  cases k with
  | migrationControl tx => cases tx <;> decide
  | configure s nb => cases s <;> cases nb <;> decide
  | analyze d => cases d <;> decide
  | query d => cases d <;> decide
  | _ => decide

/-- boolean form of "the table has a row for `k` and it includes the expected capability" -/
def coversB (k : Kind) : Bool :=
  match kindCaps k with
  | some c => decide (sub (expectedCap k) c)
  | none => false

theorem coversB_all : ∀ k ∈ Kind.all, coversB k = true := by decide

theorem covers (k : Kind) : ∃ c, kindCaps k = some c ∧ sub (expectedCap k) c := by
  have h := coversB_all k (Kind.mem_all k)
  unfold coversB at h
  cases hk : kindCaps k with
  | none => simp [hk] at h
  | some c => exact ⟨c, rfl, by simpa [hk] using h⟩

/-- every row of the generated table is the path of some kind: a new branch / condition in
`_compile_dispatch_ql` is a failed obligation until `Kind` and `expectedCap` say what it must carry -/
theorem table_rows_known :
    ∀ r ∈ table, ∃ k ∈ Kind.all, k.key = (r.cls, r.conds) := by decide

/-- rows are keyed uniquely, so `lookup` returns THE row -/
theorem table_keys_unique :
    (table.map fun r => (r.cls, r.conds)).Nodup := by decide

/-- nothing in the table carries a capability outside the named flags -/
theorem table_named : ∀ r ∈ table, sub r.caps named := by decide

theorem kindCaps_named {k : Kind} {c : Caps} (h : kindCaps k = some c) : sub c named := by
  unfold kindCaps lookup at h
  rw [Option.map_eq_some_iff] at h
  obtain ⟨r, hf, hc⟩ := h
  have := table_named r (List.mem_of_find?_eq_some hf)
  rw [← hc]; exact this

/-- the exact rows the MiniQL statements use -/
theorem kindCaps_query_true : ∃ c, kindCaps (.query true) = some c ∧ sub MODIFICATIONS c := by
  simpa [expectedCap] using covers (.query true)
theorem kindCaps_analyze_true : ∃ c, kindCaps (.analyze true) = some c ∧ sub MODIFICATIONS c := by
  simpa [expectedCap] using covers (.analyze true)

/-- every concrete statement class is dispatched to the branch its status family belongs to -/
theorem classes_dispatch : ∀ r ∈ classes, familyClass r.2.2 = some r.2.1 := by decide +kernel

/-- … and every path of that branch carries the capability of the family -/
theorem classes_caps :
    ∀ r ∈ classes, ∀ row ∈ table, row.cls = r.2.1 → sub (familyCap r.2.2) row.caps := by decide +kernel

/-- the WRITE mask is exactly MODIFICATIONS | DDL | PERSISTENT_CONFIG and all five flags are
distinct single bits inside ALL -/
theorem write_mask : WRITE = MODIFICATIONS ||| DDL ||| PERSISTENT_CONFIG ∧ sub named ALL ∧ NONE = 0#64 := by
  decide

end EdbVerif.Caps
