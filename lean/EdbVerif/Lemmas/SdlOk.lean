/-
C11: a valid acyclic document builds, and what it builds is exactly its set of
declarations (which gives order independence a second time, by a direct
characterisation, for the concrete algebra).
-/
import EdbVerif.Lemmas.SdlAlg

namespace EdbVerif.Sdl
open EdbVerif.Topo

/-- the schema holding exactly the declarations named in `p` -/
def stateOf (its : List Item) (p : List Nat) : Schema :=
  fun k => if k ∈ p then (find its k).map (·.body) else none

theorem transGen_target {d : Doc} {a b : Nat} (h : Relation.TransGen (DepHard d) a b) : b ∈ names d := by
  cases h with
  | single h => obtain ⟨_, _, _, _, hb⟩ := h; exact hb
  | tail _ h => obtain ⟨_, _, _, _, hb⟩ := h; exact hb

theorem find_isSome_of_mem_names {its : List Item} (hn : (its.map (·.name)).Nodup) {k : Nat}
    (hk : k ∈ its.map (·.name)) : ∃ it, find its k = some it := by
  obtain ⟨it, hit, rfl⟩ := List.mem_map.mp hk
  exact ⟨it, find_of_mem hn hit⟩

theorem run_suffix {d : Doc} (hn : (names d).Nodup) (hv : Complete d) {o : List Nat}
    (hno : o.Nodup) (hsub : ∀ k ∈ o, k ∈ names d)
    (q : ∀ a b, DepHard d a b → o.idxOf b < o.idxOf a) :
    ∀ (s p : List Nat), p ++ s = o →
      runSteps (fun st k => (find (collect d) k).bind (Schema.apply st)) (stateOf (collect d) p) s
        = some (stateOf (collect d) o)
  | [], p, h => by simp at h; simp [h]
  | k :: s, p, h => by
    have hko : k ∈ o := h ▸ (by simp)
    obtain ⟨it, hf⟩ := find_isSome_of_mem_names hn (hsub k hko)
    have hname := (find_some hf).2
    have hnd : (p ++ k :: s).Nodup := h ▸ hno
    have hkp : k ∉ p := fun hk => (List.nodup_append.mp hnd).2.2 k hk k (by simp) rfl
    rw [runSteps_cons, hf, Option.bind_some, Schema.apply_eq]
    have hok : (stateOf (collect d) p).ok it = true := by
      unfold Schema.ok stateOf
      rw [hname, if_neg hkp]
      simp only [Option.isSome_none, Bool.not_false, Bool.true_and, List.all_eq_true]
      intro r hr
      have ht := needs_transGen hv ⟨it, hf, hr⟩
      have hlt := idxOf_of_transGen q ht
      rw [← h, List.idxOf_append_of_notMem hkp] at hlt
      simp only [List.idxOf_cons_self, Nat.add_zero] at hlt
      have hrp : r ∈ p := by
        by_contra hrp
        rw [List.idxOf_append_of_notMem hrp] at hlt
        omega
      obtain ⟨ir, hfr⟩ := find_isSome_of_mem_names hn (transGen_target ht)
      rw [if_pos hrp, hfr]
      rfl
    rw [hok, if_pos rfl, Option.bind_some]
    have hupd : (stateOf (collect d) p).upd it = stateOf (collect d) (p ++ [k]) := by
      funext x
      unfold Schema.upd stateOf
      by_cases hx : x = k
      · subst hx
        simp [hname, hf]
      · have : x ≠ it.name := hname ▸ hx
        simp [this, hx]
    rw [hupd]
    exact run_suffix hn hv hno hsub q s (p ++ [k]) (by simp [← h])

/-- **A valid acyclic document builds to exactly its declarations.** -/
theorem build_ok {d : Doc} (hn : (names d).Nodup) (hd : ¬ Dangling d) (hc : ¬ Cyclic (HC d))
    (hv : Complete d) :
    ∃ s, build d = .ok s ∧ ∀ k, s k = (find (collect d) k).map (·.body) := by
  obtain ⟨o, e⟩ := sort_ok_of d hn hd hc
  obtain ⟨p, q⟩ := sort_ok_spec d hn e
  have hno : o.Nodup := p.nodup_iff.mpr hn
  have hrun := run_suffix hn hv hno (fun k hk => p.subset hk) q o [] (by simp)
  have h0 : stateOf (collect d) [] = mapAlgebra.empty := by
    funext k; simp [stateOf, mapAlgebra]
  refine ⟨stateOf (collect d) o, ?_, ?_⟩
  · unfold build buildWith
    rw [if_pos hn, e]
    simp only
    have : applyAll mapAlgebra (collect d) mapAlgebra.empty o = some (stateOf (collect d) o) := by
      rw [← h0]; exact hrun
    rw [this]
  · intro k
    unfold stateOf
    by_cases hk : k ∈ o
    · rw [if_pos hk]
    · rw [if_neg hk]
      have : k ∉ names d := fun h => hk (p.symm.subset h)
      rcases hf : find (collect d) k with _ | it
      · rfl
      · exact absurd (List.mem_map.mpr ⟨it, (find_some hf).1, (find_some hf).2⟩) this

end EdbVerif.Sdl
