import EdbVerif.Model.Policy
import Driver.Common
open EdbVerif EdbVerif.Policy EdbVerif.Driver

/-!
Line protocol (one request per line, one answer per line):

* `F|<mode>|<pols>`            formula of `rewriteFilter` + truth table of `decision`
* `S|<types>|E`                 `entry` of every key `(t,skip)` of the schema
* `S|<types>|V|<db>`            for every type `t`: ids yielded by `selectType t`
                                and ids of `{o | inScope ∧ visible}`

`<mode>` 0..4 = select, updateRead, updateWrite, delete, insert.
`<pols>`  `/`-separated `name.allow.kinds.cond` (kinds = digits, `-` = none); `-` = no policy.
`<types>` `;`-separated `id:bases:ancestors:abstract:material:polrefs`, lists `,`-separated (`-` empty),
          polrefs `/`-separated `name.allow.kinds.cond.s1+s2` (subjects; `-` = none).
`<db>`    `;`-separated `id:type:conds` (conds that hold for the object).
-/

def kindOfNat : Nat → Option Kind
  | 0 => some .select | 1 => some .updateRead | 2 => some .updateWrite
  | 3 => some .delete | 4 => some .insert | _ => none

def parseKinds (s : String) : Option (List Kind) :=
  if s == "-" then some [] else
  s.toList.mapM (fun c => if c.isDigit then kindOfNat (c.toNat - '0'.toNat) else none)

def parseBool (s : String) : Option Bool :=
  if s == "1" then some true else if s == "0" then some false else none

def parseList (sep : String) (s : String) : Option (List Nat) :=
  if s == "-" then some [] else (s.splitOn sep).mapM (·.toNat?)

def parsePol (s : String) : Option (Pol × List Nat) :=
  match s.splitOn "." with
  | [n, a, ks, c] => do
    pure ({ name := ← n.toNat?, allow := ← parseBool a, kinds := ← parseKinds ks, cond := ← c.toNat? }, [])
  | [n, a, ks, c, ss] => do
    pure ({ name := ← n.toNat?, allow := ← parseBool a, kinds := ← parseKinds ks, cond := ← c.toNat? },
          ← parseList "+" ss)
  | _ => none

def parsePols (s : String) : Option (List (Pol × List Nat)) :=
  if s == "-" then some [] else (s.splitOn "/").mapM parsePol

def parseType (s : String) : Option TypeDecl :=
  match s.splitOn ":" with
  | [i, bs, as, ab, mt, ps] => do
    let ps ← parsePols ps
    pure { id := ← i.toNat?, bases := ← parseList "," bs, ancestors := ← parseList "," as,
           abstract := ← parseBool ab, material := ← parseBool mt, pols := ps.map fun (p, ss) => { pol := p, subjects := ss } }
  | _ => none

def parseSchema (s : String) : Option Schema :=
  if s == "-" then some [] else (s.splitOn ";").mapM parseType

def parseObj (s : String) : Option (Obj × List Nat) :=
  match s.splitOn ":" with
  | [i, t, cs] => do pure ({ id := ← i.toNat?, ty := ← t.toNat? }, ← parseList "," cs)
  | _ => none

def parseDB (s : String) : Option (List (Obj × List Nat)) :=
  if s == "-" then some [] else (s.splitOn ";").mapM parseObj

def showB : BExpr → String
  | .const b => if b then "true" else "false"
  | .cond c => s!"c{c}"
  | .or a b => s!"(or {showB a} {showB b})"
  | .and a b => s!"(and {showB a} {showB b})"
  | .not a => s!"(not {showB a})"
  | .bogus => "bogus"

def showKey (k : Key) : String := s!"{k.ty}.{if k.skip then 1 else 0}"

def showEntry : Entry → String
  | .none => "none"
  | .filter f => s!"filter:{showB f}"
  | .union ks => "union:" ++ ",".intercalate (ks.map showKey)

def bit (v i : Nat) : Bool := (v >>> i) % 2 == 1

def handle (line : String) : String :=
  match line.splitOn "|" with
  | ["F", m, ps] =>
    match m.toNat? >>= kindOfNat, parsePols ps with
    | some mode, some ps =>
      let pols := ps.map (·.1)
      let k := pols.foldl (fun a p => max a (p.cond + 1)) 0
      let table := (List.range (2 ^ k)).map fun v =>
        if decision mode pols (bit v) then '1' else '0'
      let f := match rewriteFilter mode pols with | some f => showB f | none => "none"
      s!"{f} # {String.ofList table}"
    | _, _ => "bad-op"
  | ["S", ts, "E"] =>
    match parseSchema ts with
    | some sch =>
      ";".intercalate <| sch.flatMap fun d =>
        [false, true].map fun sk => s!"{showKey ⟨d.id, sk⟩}={showEntry (entry sch ⟨d.id, sk⟩)}"
    | none => "bad-op"
  | ["S", ts, "V", db] =>
    match parseSchema ts, parseDB db with
    | some sch, some objs =>
      let holds : CondId → Obj → Bool := fun c o =>
        objs.any fun (o', cs) => o' == o && cs.contains c
      let dbl := objs.map (·.1)
      " ".intercalate <| sch.map fun d =>
        let got := (selectType sch holds dbl d.id).map (·.id)
        let want := (dbl.filter fun o => inScope sch ⟨d.id, false⟩ o && visible sch holds o).map (·.id)
        s!"{d.id}:{showNats got}:{showNats want}"
    | _, _ => "bad-op"
  | _ => "bad-op"

def main : IO Unit := runStateless handle
