import EdbVerif.Model.QL
import Driver.Common
open EdbVerif EdbVerif.QL EdbVerif.QLLex EdbVerif.Gen.Prec EdbVerif.Driver

/-!
Line protocol (payloads are opaque hex strings; the model never looks inside them):
  tokens:  `p:<name>` `k:<KEYWORD>` `i:<hex>` `l:<tag>:<hex>` `$:<hex>`   separated by blanks
  exprs:   s-expressions `( atom TOK )`, `( name H )`, `( num N TAG H )`, `( unop OP E )`,
           `( binop OP L R )`, `( isop 0|1 L H )`, `( ifelse 0|1 C A B )`, `( cast H E )`,
           `( detached E )`, `( call H E* )`, `( tuple E* )`, `( array E* )`, `( set E* )`,
           `( index A E+ )`, `( path B H+ )`     (every parenthesis is its own blank-separated word)
  requests:  `pp <expr>` -> tokens | `parse <tokens>` -> expr or `none` | `rt <expr>` -> `ok` / result
-/

def showTok : Tok → String
  | .p x => "p:" ++ x.name
  | .kw k => "k:" ++ k.name
  | .id s => "i:" ++ s
  | .lit k s => "l:" ++ k.tag ++ ":" ++ s
  | .param s => "$:" ++ s

def readTok (w : String) : Option Tok :=
  match w.splitOn ":" with
  | ["p", n] => (P.ofName n).map .p
  | ["k", n] => some (.kw (Kw.ofName n))
  | ["i", h] => some (.id h)
  | ["l", t, h] => (LitKind.ofTag t).map (.lit · h)
  | ["$", h] => some (.param h)
  | _ => none

def showToks (ts : List Tok) : String :=
  if ts.isEmpty then "-" else " ".intercalate (ts.map showTok)

def uopName : UOp → String
  | .minus => "minus" | .plus => "plus" | .not => "not" | .exists => "exists" | .distinct => "distinct"

def uopOf : String → Option UOp
  | "minus" => some .minus | "plus" => some .plus | "not" => some .not
  | "exists" => some .exists | "distinct" => some .distinct | _ => none

partial def showExpr : Expr → String
  | .atom t => s!"( atom {showTok t} )"
  | .name s => s!"( name {s} )"
  | .num n k s => s!"( num {n} {k.tag} {s} )"
  | .unop op e => s!"( unop {uopName op} {showExpr e} )"
  | .binop op l r => s!"( binop {op.name} {showExpr l} {showExpr r} )"
  | .isop neg l ty => s!"( isop {if neg then 1 else 0} {showExpr l} {ty} )"
  | .ifelse py c a b => s!"( ifelse {if py then 1 else 0} {showExpr c} {showExpr a} {showExpr b} )"
  | .cast ty e => s!"( cast {ty} {showExpr e} )"
  | .detached e => s!"( detached {showExpr e} )"
  | .call f args => "( call " ++ f ++ String.join (args.map fun a => " " ++ showExpr a) ++ " )"
  | .tuple es => "( tuple" ++ String.join (es.map fun a => " " ++ showExpr a) ++ " )"
  | .array es => "( array" ++ String.join (es.map fun a => " " ++ showExpr a) ++ " )"
  | .set es => "( set" ++ String.join (es.map fun a => " " ++ showExpr a) ++ " )"
  | .index a idx => "( index " ++ showExpr a ++ String.join (idx.map fun a => " " ++ showExpr a) ++ " )"
  | .path b s ss => "( path " ++ showExpr b ++ String.join ((s :: ss).map fun a => " " ++ a) ++ " )"

/-- plain words up to the closing `)` -/
def readWords : List String → Option (List String × List String)
  | ")" :: r => some ([], r)
  | "(" :: _ => none
  | w :: r => (readWords r).map fun (ws, r') => (w :: ws, r')
  | [] => none

mutual
  /-- reads one expression from the word list -/
  partial def readExpr : List String → Option (Expr × List String)
    | "(" :: "atom" :: t :: ")" :: r => (readTok t).map fun t => (.atom t, r)
    | "(" :: "name" :: h :: ")" :: r => some (.name h, r)
    | "(" :: "num" :: n :: t :: h :: ")" :: r =>
        match n.toNat?, LitKind.ofTag t with
        | some n, some k => some (.num n k h, r)
        | _, _ => none
    | "(" :: "unop" :: op :: r =>
        match uopOf op, readExpr r with
        | some op, some (e, ")" :: r') => some (.unop op e, r')
        | _, _ => none
    | "(" :: "binop" :: op :: r =>
        match BOp.ofName op, readExpr r with
        | some op, some (l, r1) =>
          match readExpr r1 with
          | some (rr, ")" :: r2) => some (.binop op l rr, r2)
          | _ => none
        | _, _ => none
    | "(" :: "isop" :: n :: r =>
        match readExpr r with
        | some (l, ty :: ")" :: r') =>
            if n == "0" || n == "1" then some (.isop (n == "1") l ty, r') else none
        | _ => none
    | "(" :: "ifelse" :: n :: r =>
        match readExpr r with
        | some (c, r1) =>
          match readExpr r1 with
          | some (a, r2) =>
            match readExpr r2 with
            | some (b, ")" :: r3) =>
                if n == "0" || n == "1" then some (.ifelse (n == "1") c a b, r3) else none
            | _ => none
          | none => none
        | none => none
    | "(" :: "cast" :: ty :: r =>
        match readExpr r with
        | some (e, ")" :: r') => some (.cast ty e, r')
        | _ => none
    | "(" :: "detached" :: r =>
        match readExpr r with
        | some (e, ")" :: r') => some (.detached e, r')
        | _ => none
    | "(" :: "call" :: f :: r => (readList r).map fun (es, r') => (.call f es, r')
    | "(" :: "tuple" :: r => (readList r).map fun (es, r') => (.tuple es, r')
    | "(" :: "array" :: r => (readList r).map fun (es, r') => (.array es, r')
    | "(" :: "set" :: r => (readList r).map fun (es, r') => (.set es, r')
    | "(" :: "index" :: r =>
        match readExpr r with
        | some (a, r1) => (readList r1).bind fun (es, r') => if es.isEmpty then none else some (.index a es, r')
        | none => none
    | "(" :: "path" :: r =>
        match readExpr r with
        | some (b, r1) =>
          match readWords r1 with
          | some (s :: ss, r') => some (.path b s ss, r')
          | _ => none
        | none => none
    | _ => none
  /-- expressions up to the closing `)` -/
  partial def readList : List String → Option (List Expr × List String)
    | ")" :: r => some ([], r)
    | ws =>
      match readExpr ws with
      | some (e, r) => (readList r).map fun (es, r') => (e :: es, r')
      | none => none
end

def words (s : String) : List String := (s.splitOn " ").filter (· ≠ "")

def readToks (ws : List String) : Option (List Tok) :=
  if ws == ["-"] then some [] else ws.mapM readTok

def handle (line : String) : String :=
  match words line with
  | "pp" :: ws =>
      match readExpr ws with
      | some (e, []) => showToks (pp e)
      | _ => "bad-op"
  | "parse" :: ws =>
      match readToks ws with
      | some ts => match parse ts with
                   | some e => showExpr e
                   | none => "none"
      | none => "bad-op"
  | "rt" :: ws =>
      match readExpr ws with
      | some (e, []) =>
          match parse (pp e) with
          | some e' => if showExpr e' == showExpr e then "ok" else "differs " ++ showExpr e'
          | none => "none"
      | _ => "bad-op"
  | _ => "bad-op"

def main : IO Unit := runStateless handle
