import EdbVerif.Model.PgAst
import EdbVerif.Model.Argmap
import Driver.Common
open EdbVerif EdbVerif.Driver EdbVerif.PgAst

namespace EdbVerif.DriverC13

/-!
Line protocol for C13.

* `Q <sexp>`  one exported SQL statement → `ok <params> <k> <u>` | `bad <params> <k> <u> <diagnosis>`
  (`k`/`u`: column references decided by an entry with known / unknown column list)
* `A <hint> …` successive `AliasGenerator.get` calls on a fresh generator → the aliases
* `M <0|1> <p|g>:<name>:<0|1>:<0|1> …` → the argmap `name:index:logical:required …`
* `R`          → the model's table of Unicode decimal-digit ranges

Strings of `A`/`M` are dot-separated code points (`-` = empty).  Grammar of `Q`:

    Q ::= (with R (CTE*) Q) | (sel (T*) (F*) (E*) (E*) (E*)) | (vals N (E*)) | (setop Q Q (E*) (E*))
        | (ins S N A K (N*) Q (E*) (E*) (T*)) | (upd S N A K (N*) (F*) (E*) (T*))
        | (del S N A K (N*) (F*) (E*) (T*))
    CTE ::= (cte N (N*) Q)            T ::= (t A E)
    F ::= (rel S N A (N*) K (N*)) | (cref N A (N*)) | (subq L Q N (N*)) | (func L (E*) N K (N*))
        | (join J F F (E*) (N*))
    E ::= (c N+) | (star N*) | (p n) | l | (n E*) | (q Q)
    S, A: a name or `-`; R, L: 0/1; K: 0/1 = the column list that follows is known; J: inner|left|right|full|cross
-/

inductive SExp
  | atom (s : String)
  | list (xs : List SExp)
deriving Inhabited

/-- tokens: `(`, `)`, atoms -/
def tokenize (s : String) : List String :=
  let step (st : List String × String) (c : Char) : List String × String :=
    let (acc, cur) := st
    let flush := if cur.isEmpty then acc else cur :: acc
    if c == '(' then ("(" :: flush, "")
    else if c == ')' then (")" :: flush, "")
    else if c == ' ' then (flush, "")
    else (acc, cur.push c)
  let (acc, cur) := s.foldl step ([], "")
  (if cur.isEmpty then acc else cur :: acc).reverse

/-- stack parser; `none` on unbalanced input -/
def parseSExp (toks : List String) : Option SExp :=
  let step (st : Option (List (List SExp))) (t : String) : Option (List (List SExp)) :=
    match st with
    | none => none
    | some stack =>
      if t == "(" then some ([] :: stack)
      else if t == ")" then
        match stack with
        | top :: parent :: rest => some ((SExp.list top.reverse :: parent) :: rest)
        | _ => none
      else
        match stack with
        | top :: rest => some ((SExp.atom t :: top) :: rest)
        | [] => none
  match toks.foldl step (some [[]]) with
  | some [[x]] => some x
  | _ => none

def optName (s : String) : Option Name := if s == "-" then none else some s

def names? : List SExp → Option (List Name)
  | [] => some []
  | .atom a :: xs => (names? xs).map (a :: ·)
  | _ => none

def flag? (s : String) : Option Bool :=
  if s == "1" then some true else if s == "0" then some false else none

def joinKind? : String → Option JoinKind
  | "inner" => some .inner | "left" => some .left | "right" => some .right
  | "full" => some .full | "cross" => some .cross | _ => none

mutual
partial def toExpr : SExp → Option Expr
  | .atom "l" => some .leaf
  | .list (.atom "c" :: ps) => do
      let ns ← names? ps
      if ns.isEmpty then none else pure (.col ns)
  | .list (.atom "star" :: ps) => (names? ps).map .star
  | .list [.atom "p", .atom n] => n.toNat?.map .param
  | .list (.atom "n" :: es) => (es.mapM toExpr).map .node
  | .list [.atom "q", q] => (toQuery q).map .sub
  | _ => none
partial def toExprs : SExp → Option (List Expr)
  | .list es => es.mapM toExpr
  | _ => none
partial def toTarget : SExp → Option Target
  | .list [.atom "t", .atom a, e] => (toExpr e).map (.mk (optName a))
  | _ => none
partial def toTargets : SExp → Option (List Target)
  | .list ts => ts.mapM toTarget
  | _ => none
partial def toFrom : SExp → Option FromItem
  | .list [.atom "rel", .atom s, .atom n, .atom a, .list cs, .atom k, .list tcs] => do
      let tc ← names? tcs
      pure (.rel (optName s) n (optName a) (← names? cs) (if (← flag? k) then some tc else none))
  | .list [.atom "cref", .atom n, .atom a, .list cs] => (names? cs).map (.cref n (optName a))
  | .list [.atom "subq", .atom l, q, .atom a, .list cs] => do
      pure (.subq (← flag? l) (← toQuery q) a (← names? cs))
  | .list [.atom "func", .atom l, fns, .atom a, .atom k, .list cs] => do
      let cols ← names? cs
      pure (.func (← flag? l) (← toExprs fns) a (if (← flag? k) then some cols else none))
  | .list [.atom "join", .atom k, l, r, on, .list us] => do
      pure (.join (← toFrom l) (← joinKind? k) (← toFrom r) (← toExprs on) (← names? us))
  | _ => none
partial def toFroms : SExp → Option (List FromItem)
  | .list fs => fs.mapM toFrom
  | _ => none
partial def toCte : SExp → Option Cte
  | .list [.atom "cte", .atom n, .list cs, q] => do pure (.mk n (← names? cs) (← toQuery q))
  | _ => none
partial def toQuery : SExp → Option Query
  | .list [.atom "with", .atom r, .list cs, b] => do
      pure (.withq (← flag? r) (← cs.mapM toCte) (← toQuery b))
  | .list [.atom "sel", ts, fs, es, bys, ls] => do
      pure (.select (← toTargets ts) (← toFroms fs) (← toExprs es) (← toExprs bys) (← toExprs ls))
  | .list [.atom "vals", .atom n, rows] => do pure (.values (← n.toNat?) (← toExprs rows))
  | .list [.atom "setop", l, r, o, ls] => do
      pure (.setop (← toQuery l) (← toQuery r) (← toExprs o) (← toExprs ls))
  | .list [.atom "ins", .atom s, .atom n, .atom a, .atom k, .list tcs, src, inf, upd, ret] => do
      let tc ← names? tcs
      pure (.insert (optName s) n (optName a) (if (← flag? k) then some tc else none) (← toQuery src)
        (← toExprs inf) (← toExprs upd) (← toTargets ret))
  | .list [.atom "upd", .atom s, .atom n, .atom a, .atom k, .list tcs, fs, es, ret] => do
      let tc ← names? tcs
      pure (.update (optName s) n (optName a) (if (← flag? k) then some tc else none) (← toFroms fs)
        (← toExprs es) (← toTargets ret))
  | .list [.atom "del", .atom s, .atom n, .atom a, .atom k, .list tcs, fs, es, ret] => do
      let tc ← names? tcs
      pure (.delete (optName s) n (optName a) (if (← flag? k) then some tc else none) (← toFroms fs)
        (← toExprs es) (← toTargets ret))
  | _ => none
end

/-! Diagnosis (not verified; only used to make a rejection readable): the
    column references that do not resolve, and the non-reference checks that fail. -/

/-- which range-table entry decides a (resolving) reference: is its column list known? -/
def decidingKnown (parts : List Name) : List Level → Bool
  | [] => false
  | l :: ls =>
    match parts with
    | [c] => match l.filter (·.offers c) with
             | [] => decidingKnown parts ls
             | ks => ks.any (·.known)
    | [a, _] => match l.filter (RVar.matchRel a) with
                | [] => decidingKnown parts ls
                | r :: _ => r.known
    | _ => false

mutual
partial def diagExpr (env : Env) : Expr → List String
  | .col parts => if resolves env.levels parts then
        [if decidingKnown parts env.levels then "+K" else "+U"]
      else
      [s!"unresolved:{".".intercalate parts}@depth{env.levels.length}"]
  | .star qual => if resolvesStar env.levels qual then [] else
      [s!"unresolved:{".".intercalate qual}.*"]
  | .node args => args.flatMap (diagExpr env)
  | .sub q => diagQuery env q
  | _ => []
partial def diagFrom (env : Env) (lat : Level) : FromItem → List String
  | .rel s n _ al tc =>
    (if tableNotCaptured env.ctes s n then [] else [s!"table-captured-by-cte:{n}"])
    ++ (if colAliasesOk al tc then [] else [s!"too-many-column-aliases:{n}"])
  | .cref n _ al =>
    match lookupCte env.ctes n with
    | some d => if colAliasesOk al d.cols then [] else [s!"too-many-column-aliases:{n}"]
    | none => [s!"cte-not-in-scope:{n}"]
  | .subq lateral q a al =>
    diagQuery (if lateral then env.push lat else env) q
      ++ (if colAliasesOk al (outCols q) then [] else [s!"too-many-column-aliases:{a}"])
  | .func _ fns _ _ => fns.flatMap (diagExpr (env.push lat))
  | .join l k r on us =>
    diagFrom env lat l
    ++ diagFrom env (lat ++ (rvarsOf env.ctes l).map (setOk (leftLateralOk k))) r
    ++ on.flatMap (diagExpr (env.push (rvarsOf env.ctes l ++ rvarsOf env.ctes r)))
    ++ (us.filter fun c => !((rvarsOf env.ctes l).any (·.offers c)
          && (rvarsOf env.ctes r).any (·.offers c))).map (s!"using-column:{·}")
partial def diagFroms (env : Env) (acc : Level) : List FromItem → List String
  | [] => []
  | f :: fs => diagFrom env acc f ++ diagFroms env (acc ++ rvarsOf env.ctes f) fs
partial def diagCtes (env : Env) (recursive : Bool) (all pre : List Cte) : List Cte → List String
  | [] => []
  | .mk n cols q :: rest =>
    diagQuery (env.withCtes (if recursive then all else pre)) q
    ++ (if colAliasesOk cols (outCols q) then [] else [s!"too-many-column-aliases:{n}"])
    ++ diagCtes env recursive all (pre ++ [.mk n cols q]) rest
partial def diagBy (env : Env) (outs : Option (List Name)) (es : List Expr) : List String :=
  es.flatMap fun e => if isOutRef outs e then [] else diagExpr env e
partial def diagQuery (env : Env) : Query → List String
  | .withq recursive ctes body =>
    (if nodupNames (ctes.map Cte.name) then [] else ["duplicate-cte-name"])
    ++ diagCtes env recursive ctes [] ctes ++ diagQuery (env.withCtes ctes) body
  | .select targets frm exprs byItems limits =>
    let rv := fromRVars env.ctes frm
    (if noConflicts rv then [] else ["alias-conflict:" ++ " ".intercalate (rv.map (·.alias))])
    ++ diagFroms env [] frm
    ++ targets.flatMap (fun t => diagExpr (env.push rv) t.val)
    ++ exprs.flatMap (diagExpr (env.push rv))
    ++ diagBy (env.push rv) (targetNames targets) byItems
    ++ limits.flatMap (fun e => (diagExpr env e).map ("limit:" ++ ·))
  | .values _ rows => rows.flatMap (diagExpr env)
  | .setop l r order limits =>
    diagQuery env l ++ diagQuery env r
    ++ (if order.all (isSetOrderItem (outCols l)) then [] else ["setop-order-not-output-column"])
    ++ limits.flatMap (diagExpr env)
  | .insert s n a tc src inferExprs updExprs returning =>
    let tv := targetRVar s n a tc
    (if tableNotCaptured env.ctes s n then [] else [s!"table-captured-by-cte:{n}"])
    ++ diagQuery env src
    ++ inferExprs.flatMap (diagExpr (env.push [{ tv with relVis := false }]))
    ++ (if noConflicts [tv, excludedRVar tc] then [] else ["alias-conflict:excluded"])
    ++ updExprs.flatMap (diagExpr (env.push [tv, excludedRVar tc]))
    ++ returning.flatMap (fun t => diagExpr (env.push [tv]) t.val)
  | .update s n a tc frm exprs returning
  | .delete s n a tc frm exprs returning =>
    let tv := targetRVar s n a tc
    let rv := tv :: fromRVars env.ctes frm
    (if tableNotCaptured env.ctes s n then [] else [s!"table-captured-by-cte:{n}"])
    ++ (if noConflicts rv then [] else ["alias-conflict:" ++ " ".intercalate (rv.map (·.alias))])
    ++ diagFroms env [{ tv with ok := false }] frm
    ++ exprs.flatMap (diagExpr (env.push rv))
    ++ returning.flatMap (fun t => diagExpr (env.push rv) t.val)
end

/-! strings as dot-separated code points -/

def decodeStr (s : String) : Option (List Char) :=
  if s == "-" then some [] else
  (s.splitOn ".").mapM fun t => t.toNat?.map Char.ofNat

def encodeStr (cs : List Char) : String :=
  if cs.isEmpty then "-" else ".".intercalate (cs.map fun c => toString c.toNat)

def handleQ (rest : String) : String :=
  match parseSExp (tokenize rest) >>= toQuery with
  | none => "bad-op"
  | some q =>
    let ps := showNats (paramsQuery q)
    let dall := diagQuery {} q
    let k := (dall.filter (· == "+K")).length
    let u := (dall.filter (· == "+U")).length
    if check q then s!"ok {ps} {k} {u}"
    else
      let d := (dall.filter (fun x => !x.startsWith "+")).take 6
      s!"bad {ps} {k} {u} {" ".intercalate (if d.isEmpty then ["(no-diagnosis)"] else d)}"

def handleA (args : List String) : String :=
  match args.mapM decodeStr with
  | none => "bad-op"
  | some hints => " ".intercalate ((Argmap.aliasRun [] hints).map encodeStr)

def parseBool (s : String) : Option Bool := flag? s

def handleM (args : List String) : String :=
  match args with
  | [] => "bad-op"
  | np :: items =>
    let parsed : Option (Bool × List Argmap.Param × List Argmap.Global) := do
      let np ← parseBool np
      let mut ps : List Argmap.Param := []
      let mut gs : List Argmap.Global := []
      for it in items do
        match it.splitOn ":" with
        | ["p", n, r, s] =>
          ps := ps ++ [{ name := ← decodeStr n, required := ← parseBool r, hasSub := ← parseBool s }]
        | ["g", n, r, s] =>
          gs := gs ++ [{ name := ← decodeStr n, required := ← parseBool r, hasPresent := ← parseBool s }]
        | _ => none
      pure (np, ps, gs)
    match parsed with
    | none => "bad-op"
    | some (np, ps, gs) =>
      let m := Argmap.populateArgmap np ps gs
      if m.isEmpty then "-" else
      " ".intercalate (m.map fun (k, e) =>
        s!"{encodeStr k}:{e.index}:{e.logical}:{if e.required then 1 else 0}")

def handle (line : String) : String :=
  match line.splitOn " " with
  | "Q" :: _ => handleQ (line.drop 2).toString
  | "A" :: args => handleA (args.filter (· != ""))
  | "M" :: args => handleM (args.filter (· != ""))
  | ["R"] => " ".intercalate (Argmap.pyDecimalRanges.map fun (a, b) => s!"{a}-{b}")
  | _ => "bad-op"

end EdbVerif.DriverC13
