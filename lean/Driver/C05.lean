import EdbVerif.Model.Storage
import Driver.Common
open EdbVerif EdbVerif.Storage EdbVerif.Driver

/-!
Line protocol (stateful; one history = `reset` … ):

* `reset`
* `ct t name ab` `dt t` `rt t name` `ab t b` `bs t b1,b2|-`
* `cp id src|- L|P name single required computed`   name ∈ `i` `t` `d<n>` `p<n>`
* `dp i` `rp i name` `sg i b` `rq i b` `se i single'` `re i`
* `al i lp name computed` `dl i lp` `rl i lp name` `cl i lp b`
  → `ok s|u` (s = the step satisfies `safeStep`), `rejected`, `backend`
* `dump` → `<catalog>|<layout of the schema>|<schema>`
* `info srcKind isLink name single userProps computed srcHasTable linkSingle linkUserProps linkName linkBias`
  → `<storageInfo> ht=<hasTableV>`
-/

def pBool (s : String) : Option Bool :=
  if s == "1" then some true else if s == "0" then some false else none

def pName (s : String) : Option PName :=
  if s == "i" then some .id
  else if s == "t" then some .type_
  else if s.startsWith "d" then (s.drop 1).toNat?.map .dunder
  else if s.startsWith "p" then (s.drop 1).toNat?.map .plain
  else none

/-- link property names: `s` (source), `t` (target) or a number -/
def pLName (s : String) : Option LName :=
  if s == "s" then some .source else if s == "t" then some .target else s.toNat?.map .other

def showLName : LName → String
  | .source => "s"
  | .target => "t"
  | .other n => toString n

def pNats (s : String) : Option (List Nat) :=
  if s == "-" then some []
  else (s.splitOn ",").mapM (·.toNat?)

def parseDDL (ws : List String) : Option DDL :=
  match ws with
  | ["ct", t, n, ab] => do pure (.createType (← t.toNat?) (← n.toNat?) (← pBool ab))
  | ["dt", t] => do pure (.dropType (← t.toNat?))
  | ["rt", t, n] => do pure (.renameType (← t.toNat?) (← n.toNat?))
  | ["ab", t, b] => do pure (.setAbstract (← t.toNat?) (← pBool b))
  | ["bs", t, bs] => do pure (.setBases (← t.toNat?) (← pNats bs))
  | ["cp", i, src, k, nm, sg, rq, cm] => do
    let src ← if src == "-" then some none else src.toNat?.map some
    let k ← if k == "L" then some Kind.link else if k == "P" then some Kind.prop else none
    pure (.createPtr ⟨← i.toNat?, src, k, ← pName nm, ← pBool sg, ← pBool rq, ← pBool cm, []⟩)
  | ["dp", i] => do pure (.dropPtr (← i.toNat?))
  | ["rp", i, nm] => do pure (.renamePtr (← i.toNat?) (← pName nm))
  | ["sg", i, b] => do pure (.setSingle (← i.toNat?) (← pBool b))
  | ["rq", i, b] => do pure (.setRequired (← i.toNat?) (← pBool b))
  | ["se", i, b] => do pure (.setExpr (← i.toNat?) (← pBool b))
  | ["re", i] => do pure (.resetExpr (← i.toNat?))
  | ["al", i, lp, n, c] => do pure (.addLProp (← i.toNat?) ⟨← lp.toNat?, ← pLName n, ← pBool c⟩)
  | ["dl", i, lp] => do pure (.dropLProp (← i.toNat?) (← lp.toNat?))
  | ["rl", i, lp, n] => do pure (.renameLProp (← i.toNat?) (← lp.toNat?) (← pLName n))
  | ["cl", i, lp, b] => do pure (.setLPropComputed (← i.toNat?) (← lp.toNat?) (← pBool b))
  | _ => none

def showT : TName → String
  | .obj i => s!"o{i}"
  | .ptr i => s!"p{i}"

def showC : CName → String
  | .id => "id"
  | .dunder n => s!"d{n}"
  | .source => "s"
  | .target => "t"
  | .col i => s!"c{i}"

def showCat (c : Catalog) : String :=
  ";".intercalate (c.tables.map fun t =>
    showT t ++ ":" ++ ",".intercalate ((c.cols.filter (fun x => x.1 == t)).map (fun x => showC x.2)))
  ++ "#" ++ ",".intercalate ((c.cols.filter (fun x => !(c.tables.contains x.1))).map
      (fun x => showT x.1 ++ "." ++ showC x.2))

def showB (b : Bool) : String := if b then "1" else "0"

def showName : PName → String
  | .id => "i"
  | .type_ => "t"
  | .dunder n => s!"d{n}"
  | .plain n => s!"p{n}"

def showSchema (s : Schema) : String :=
  ";".intercalate (s.types.map fun d =>
    s!"T{d.id}:{d.name}:{showB d.abstract}:{showNats d.bases}")
  ++ "#" ++
  ";".intercalate (s.ptrs.map fun p =>
    let src := match p.src with | some t => toString t | none => "-"
    let k := match p.kind with | .link => "L" | .prop => "P"
    let lps := ",".intercalate (p.lprops.map fun l => s!"{l.id}/{showLName l.name}/{showB l.computed}")
    s!"P{p.id}:{src}:{k}:{showName p.name}:{showB p.single}:{showB p.required}:{showB p.computed}:{lps}")

def pSrcKind (s : String) : Option SrcKind :=
  if s == "object" then some .object else if s == "link" then some .link
  else if s == "scalar" then some .scalar else if s == "none" then some .none_ else none

def pVName (s : String) : Option VName :=
  if s == "id" then some .id else if s == "dunder" then some .dunder
  else if s == "source" then some .source else if s == "target" then some .target
  else if s == "plain" then some .plain else none

def showInfo : Option Info → String
  | none => "none"
  | some i =>
    let t := match i.table with | .none => "none" | .source => "source" | .self => "self"
    let c := match i.col with
      | .none => "none" | .shortname => "shortname" | .byId => "byid" | .source => "source" | .target => "target"
    s!"{t} {if i.isLinkTable then "link" else "ObjectType"} {c}"

def handleInfo (ws : List String) : Option String :=
  match ws with
  | [sk, il, nm, sg, up, cm, sht, ls, lup, ln, lb] => do
    let v : PView := { srcKind := ← pSrcKind sk, isLink := ← pBool il, name := ← pVName nm,
                       single := ← pBool sg, userProps := ← pBool up, computed := ← pBool cm,
                       srcHasTable := ← pBool sht, linkSingle := ← pBool ls,
                       linkUserProps := ← pBool lup, linkName := ← pVName ln }
    pure s!"{showInfo (storageInfo v (← pBool lb))} ht={showB (hasTableV v)}"
  | _ => none

def step (st : State) (line : String) : State × String :=
  let ws := (line.splitOn " ").filter (· ≠ "")
  match ws with
  | ["reset"] => ({}, "ok")
  | ["dump"] => (st, showCat st.catalog ++ "|" ++ showCat (layout st.schema) ++ "|" ++ showSchema st.schema)
  | "info" :: rest => (st, (handleInfo rest).getD "bad-op")
  | _ =>
    match parseDDL ws with
    | none => (st, "bad-op")
    | some d =>
      let safe := safeStep st.schema d
      match stepDDL st d with
      | .ok st' => (st', if safe then "ok s" else "ok u")
      | .error .rejected => (st, "rejected")
      | .error .backend => (st, if safe then "backend s" else "backend u")

def main : IO Unit := runStateful ({} : State) step
