import EdbVerif.Model.Tx
import Driver.Common
open EdbVerif EdbVerif.Tx EdbVerif.Driver

/-!
Line protocol (one history per line, fields separated by `|`):

* level 1: `1|t0 u g a c|op|op|…`, ops `S` `C` `R` `D n` `L n` `B n` `U u g` `A a` `F v`
  and `Y id` (`sync_tx(id)`), answer `obs|ret obs|ret obs|…`
* level 2: `2 p|u g a c|ev|…` (`p` = pickled state travels, `r` = one worker / marker, `b` = pre-fix pool), events `<op> <cf><bf>` with ops
  `S C R D n L n B n U u g A a F v Q`, answer one record per event.
-/

def showPl (p : Payload) : String := s!"{p.uschema},{p.gschema},{p.aliases},{p.config}"

def showName : Option Nat → String
  | none => "-"
  | some n => toString n

def showSt (s : TxState) : String := s!"{showName s.name}:{s.id}:{showPl s.pl}:{s.tx}"

def showErr : Err → String
  | .alreadyInTx => "alreadyInTx" | .notInTx => "notInTx" | .spOutsideBlock => "spOutsideBlock"
  | .noSavepoint => "noSavepoint" | .syncFail => "syncFail" | .noSpId => "noSpId"
  | .expectedRollback => "expectedRollback" | .compileError => "compileError"
  | .txInScript => "txInScript" | .inTxError => "inTxError" | .dangling => "dangling"

/-- everything observable of a connection state -/
def obs (c : ConState) : String :=
  match curTx c with
  | none => "dangling"
  | some t =>
    let sps := " ".intercalate (t.sps.map showSt)
    let log := " ".intercalate (c.log.map showSt)
    s!"i{if t.implicit then 1 else 0} id{t.id} k{c.cur} c{showSt t.current} z{showSt t.state0} s[{sps}] l[{log}] n{c.count}"

inductive DOp where
  | ev (e : Ev)
  | sync (i : Nat)

def parseUpd (ws : List String) : Option Upd :=
  match ws with
  | ["U", u, g] => do pure (.schema (← u.toNat?) (← g.toNat?))
  | ["A", a] => do pure (.aliases (← a.toNat?))
  | ["F", v] => do pure (.config (← v.toNat?))
  | _ => none

def parseOp (s : String) : Option DOp :=
  match (trim s).splitOn " " with
  | ["S"] => some (.ev .start)
  | ["C"] => some (.ev .commit)
  | ["R"] => some (.ev .rollback)
  | ["D", n] => n.toNat?.map (fun n => .ev (.declare n))
  | ["L", n] => n.toNat?.map (fun n => .ev (.release n))
  | ["B", n] => n.toNat?.map (fun n => .ev (.rollbackTo n))
  | ["Y", n] => n.toNat?.map .sync
  | ws => (parseUpd ws).map (fun u => .ev (.upd u))

def parsePl (s : String) : Option Payload :=
  match (trim s).splitOn " " with
  | [u, g, a, c] => do pure ⟨← u.toNat?, ← g.toNat?, ← a.toNat?, ← c.toNat?⟩
  | _ => none

def showRet : M Ret → String
  | .ok .unit => "ok"
  | .ok (.spid i) => s!"ok {i}"
  | .error e => s!"err:{showErr e}"

def dstep (c : ConState) : DOp → ConState × String
  | .ev e => let (c', r) := step c e; (c', showRet r)
  | .sync i =>
    match syncTx c i with
    | .ok c' => (c', "ok")
    | .error e => (c, s!"err:{showErr e}")

def level1 (hdr : String) (ops : List String) : String :=
  match (trim hdr).splitOn " " with
  | [t0, u, g, a, c] =>
    match t0.toNat?, parsePl s!"{u} {g} {a} {c}" with
    | some t0, some pl =>
      let ops' := ops.filterMap parseOp
      if ops'.length != ops.length then "bad-op" else
      let c0 := ConState.init t0 pl
      let (_, outs) := ops'.foldl (fun (acc : ConState × List String) op =>
          let (c', r) := dstep acc.1 op
          (c', s!"{r} {obs c'}" :: acc.2)) (c0, [obs c0])
      "|".intercalate outs.reverse
    | _, _ => "bad-op"
  | _ => "bad-op"

def parseStmt (ws : List String) : Option Stmt :=
  match ws with
  | ["S"] => some .start
  | ["C"] => some .commit
  | ["R"] => some .rollback
  | ["Q"] => some .query
  | ["D", n] => n.toNat?.map .declare
  | ["L", n] => n.toNat?.map .release
  | ["B", n] => n.toNat?.map .rollbackTo
  | ws => (parseUpd ws).map .upd

inductive DEv where
  | one (e : CEv)
  | script (ss : List Stmt)

/-- `@a,v` in front of an event: the client sends this session state (aliases, config) along -/
def parseCs (w : String) : Option (Nat × Nat) :=
  if w.startsWith "@" then
    match (w.drop 1).toString.splitOn "," with
    | [a, v] => do pure (← a.toNat?, ← v.toNat?)
    | _ => none
  else none

def parseSEv (s : String) : Option DEv :=
  let ws0 := (trim s).splitOn " "
  let cs : Option (Nat × Nat) := ws0.head?.bind parseCs
  let ws := if cs.isSome then ws0.drop 1 else ws0
  match ws.getLast? with
  | none => none
  | some fl =>
    -- `<cf><bf>`; bf = `2`: the backend fails and is still inside the block afterwards
    let flags : Option (Bool × Bool × Bool) := match fl with
      | "00" => some (false, false, false) | "10" => some (true, false, false)
      | "01" => some (false, true, false) | "11" => some (true, true, false)
      | "02" => some (false, true, true) | "12" => some (true, true, true) | _ => none
    let body := " ".intercalate ws.dropLast
    let parts := (body.splitOn "; ").map (fun p => parseStmt ((trim p).splitOn " "))
    match flags, parts with
    | some (cf, bf, stay), [some st] =>
      some (.one { cs := cs, ev := { stmt := st, cf := cf, bf := bf, stay := stay, t0 := 0 } })
    | some (false, false, false), ps =>
      if ps.length ≥ 2 && ps.all Option.isSome then some (.script (ps.filterMap id)) else none
    | _, _ => none

def showOpt (o : Option Nat) : String := match o with | none => "-" | some n => toString n
def b01 (b : Bool) : String := if b then "1" else "0"

def showUnit (u : QUnit) : String :=
  s!"tx{showOpt u.txId} c{b01 u.txCommit} r{b01 u.txRollback} sr{b01 u.spRollback} sd{b01 u.spDeclare} " ++
  s!"n{showOpt u.spName} i{showOpt u.spId} a{showOpt u.aliases} u{showOpt u.uschema} g{showOpt u.gschema} f{showOpt u.config}"

def showOutcome : Outcome → String
  | .ok => "ok" | .failed => "failed" | .rejected e => s!"rej:{showErr e}"

def showSrv (s : Server) : String :=
  let sps := " ".intercalate (s.sps.map fun p => s!"{p.name}:{p.spid}:{p.aliases}:{p.config}")
  let tx := if s.inTx then s!"T id{s.txid} e{b01 s.txErr} a{s.txAliases} f{s.txConfig} s[{sps}]" else "N"
  s!"base{s.uschema},{s.gschema},{s.aliases},{s.config} {tx}"

def showSOut (o : SOut) : String :=
  let ag := match o.against with | none => "-" | some p => showPl p
  let un := match o.unit with | none => "-" | some u => showUnit u
  s!"{showOutcome o.outcome} @{ag} <{un}>"

/-- transports: `p` every call is served by a worker that does not hold the state (pickled
    bytes travel), `r` one worker, the pool as it is (marker after a successful call), `b` one
    worker, the pool before the fix (marker also after a failed call) -/
def level2 (mode : String) (hdr : String) (evs : List String) : String :=
  let ver? : Option PoolVer := match mode with
    | "p" => some .fixed | "r" => some .fixed | "b" => some .buggy | _ => none
  match ver?, parsePl hdr with
  | some ver, some pl =>
    let evs' := evs.filterMap parseSEv
    if evs'.length != evs.length then "bad-op" else
    let (_, outs) := evs'.foldl (fun (acc : Sys × List String) e =>
        let r : Option (Sys × SOut) := match e with
          | .one e => some (acc.1.stepC ver e)
          | .script ss => acc.1.stepScript ver ss
        match r with
        | none => (acc.1, "unmodelled" :: acc.2)
        | some (y0, o) =>
        let y' : Sys := if mode == "p" then { y0 with wtok := none } else y0
        let cs := match y'.cin with | some c => (if y'.srv.inTx then obs c else "-") | none => "-"
        (y', s!"{showSOut o} {showSrv y'.srv} ~ {cs}" :: acc.2)) (Sys.init pl, [])
    "|".intercalate outs.reverse
  | _, _ => "bad-op"

def handle (line : String) : String :=
  match line.splitOn "|" with
  | "1" :: hdr :: ops => level1 hdr ops
  | "2 p" :: hdr :: evs => level2 "p" hdr evs
  | "2 r" :: hdr :: evs => level2 "r" hdr evs
  | "2 b" :: hdr :: evs => level2 "b" hdr evs
  | _ => "bad-op"

def main : IO Unit := runStateless handle
