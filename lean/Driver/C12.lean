import EdbVerif.Model.TypesQL
import Driver.Common
open EdbVerif EdbVerif.Types EdbVerif.Gen.Types EdbVerif.Driver

/-!
Line protocol of the C12 driver (tokens separated by single blanks).

  Ty  ::= `S <scalar>` | `D <k> <id>… <base scalar>` (user scalar: own id, user ancestors, concrete base)
        | `E <n>` (enum) | `O <n>` | `T <k> Ty…` | `A Ty`
  Q   ::= `li <int>` | `lf <n> <d>` | `ls <word>` | `lb <0|1>` | `ln <int>` | `ld <n> <d>`
        | `em Ty` | `tu <k> Q…` | `ar <k> Q…` | `ca <fn> <k> Q…` | `cs Ty Q` | `va <i>`
        | `fo Q Q` | `fi Q Q` | `ob <t>` | `pa Q <p>` | `sh Q <k> Q…`

  schema <k> (<m> Ty…)…        set the object schema (state)            -> ok
  db <k> (<t> <id> <m> (<n> V…)…)…  set the database (values V ::= like literals) -> ok
  dist Ty Ty                    -> d=<n|none> c=<0|1>
  common Ty Ty                  -> Ty | none
  cset <scalar> <scalar>        -> all results of find_common_castable_type, blank separated
  resolve <fn> <k> Ty…          -> ok <ret Ty> ; <ptys…> ; <primRet agrees 0|1|-> | none | ambiguous <n>
  infer Q                       -> ok Ty c=<in the calculus 0|1> | none
  shape Q                       -> ok <k> Ty… | none
  eval Q                        -> ok <n> ; <distinct run-time types of the values, sorted> | none
-/

def lastComp (s : String) : String := (s.splitOn ".").getLast!

def scalarIdent (s : Scalar) : String := lastComp (toString (repr s))
def fnIdent (f : Fn) : String := lastComp (toString (repr f))

def parseScalar (t : String) : Option Scalar := Scalar.all.find? fun s => scalarIdent s == t
def parseFn (t : String) : Option Fn := Fn.all.find? fun f => fnIdent f == t

abbrev P (α : Type) := List String → Option (α × List String)

def pNats (k : Nat) (r : List String) : Option (List Nat × List String) :=
  if r.length < k then none else
  let ns := (r.take k).filterMap (·.toNat?)
  if ns.length == k then some (ns, r.drop k) else none

partial def pTy : P Ty
  | "S" :: s :: r => (parseScalar s).map fun x => (.scalar (.base x), r)
  | "D" :: k :: r => do
      let k ← k.toNat?
      let (ids, r') ← pNats k r
      match r' with
      | b :: r'' => (parseScalar b).map fun x => (.scalar (.derived ids x), r'')
      | [] => none
  | "E" :: n :: r => n.toNat?.map fun x => (.scalar (.enum x), r)
  | "O" :: n :: r => n.toNat?.map fun x => (.obj x, r)
  | "A" :: r => match pTy r with
    | some (t, r') => some (.array t, r')
    | none => none
  | "T" :: k :: r => match k.toNat? with
    | some k =>
      let rec go (k : Nat) (acc : List Ty) (r : List String) : Option (List Ty × List String) :=
        if k == 0 then some (acc.reverse, r) else
        match pTy r with
        | some (t, r') => go (k - 1) (t :: acc) r'
        | none => none
      (go k [] r).map fun (ts, r') => (.tuple ts, r')
    | none => none
  | _ => none

partial def pMany {α} (p : P α) (k : Nat) (r : List String) : Option (List α × List String) :=
  let rec go (k : Nat) (acc : List α) (r : List String) : Option (List α × List String) :=
    if k == 0 then some (acc.reverse, r) else
    match p r with
    | some (t, r') => go (k - 1) (t :: acc) r'
    | none => none
  go k [] r

def pStr (w : String) : String := if w == "-" then "" else w

partial def pQ : P Q
  | "li" :: n :: r => n.toInt?.map fun x => (.lit (.int64 x), r)
  | "lf" :: n :: d :: r => do let a ← n.toInt?; let b ← d.toNat?; pure (.lit (.float64 a b), r)
  | "ls" :: w :: r => some (.lit (.str (pStr w)), r)
  | "lb" :: b :: r => if b == "1" then some (.lit (.bool true), r)
                      else if b == "0" then some (.lit (.bool false), r) else none
  | "ln" :: n :: r => n.toInt?.map fun x => (.lit (.bigint x), r)
  | "ld" :: n :: d :: r => do let a ← n.toInt?; let b ← d.toNat?; pure (.lit (.decimal a b), r)
  | "em" :: r => (pTy r).map fun (t, r') => (.empty t, r')
  | "tu" :: k :: r => do let k ← k.toNat?; let (qs, r') ← pMany pQ k r; pure (.tuple qs, r')
  | "ar" :: k :: r => do let k ← k.toNat?; let (qs, r') ← pMany pQ k r; pure (.array qs, r')
  | "ca" :: f :: k :: r => do
      let f ← parseFn f; let k ← k.toNat?; let (qs, r') ← pMany pQ k r; pure (.call f qs, r')
  | "cs" :: r => do let (t, r') ← pTy r; let (q, r'') ← pQ r'; pure (.cast t q, r'')
  | "va" :: i :: r => i.toNat?.map fun x => (.var x, r)
  | "fo" :: r => do let (a, r') ← pQ r; let (b, r'') ← pQ r'; pure (.for_ a b, r'')
  | "fi" :: r => do let (a, r') ← pQ r; let (b, r'') ← pQ r'; pure (.filter a b, r'')
  | "ob" :: t :: r => t.toNat?.map fun x => (.objs x, r)
  | "pa" :: r => do let (a, r') ← pQ r
                    match r' with
                    | p :: r'' => p.toNat?.map fun x => (.path a x, r'')
                    | [] => none
  | "sh" :: r => do let (a, r') ← pQ r
                    match r' with
                    | k :: r'' => do let k ← k.toNat?; let (qs, r3) ← pMany pQ k r''; pure (.shape a qs, r3)
                    | [] => none
  | _ => none

partial def pVal : P Val
  | "de" :: k :: r => do
      let k ← k.toNat?
      let (ids, r') ← pNats k r
      match r' with
      | b :: r'' => do
        let x ← parseScalar b
        let (v, r3) ← pVal r''
        pure (.derived ids x v, r3)
      | [] => none
  | "en" :: n :: k :: r => do let n ← n.toNat?; let k ← k.toNat?; pure (.enumv n k, r)
  | "li" :: n :: r => n.toInt?.map fun x => (.num .int64 x 0, r)
  | "nu" :: s :: n :: d :: r => do
      let s ← parseScalar s; let a ← n.toInt?; let b ← d.toNat?; pure (.num s a b, r)
  | "ls" :: w :: r => some (.str (pStr w), r)
  | "lb" :: b :: r => some (.bool (b == "1"), r)
  | "op" :: s :: k :: r => do let s ← parseScalar s; let k ← k.toNat?; pure (.opaque s k, r)
  | "ob" :: t :: i :: r => do let t ← t.toNat?; let i ← i.toNat?; pure (.obj t i, r)
  | _ => none

partial def showTy : Ty → String
  | .scalar (.base s) => s!"S {scalarIdent s}"
  | .scalar (.derived c s) =>
    s!"D {c.length}" ++ String.join (c.map fun i => s!" {i}") ++ s!" {scalarIdent s}"
  | .scalar (.enum n) => s!"E {n}"
  | .obj n => s!"O {n}"
  | .array t => s!"A {showTy t}"
  | .tuple ts => s!"T {ts.length}" ++ String.join (ts.map fun t => " " ++ showTy t)

def showTys (ts : List Ty) : String := " ".intercalate (ts.map showTy)

structure St where
  sch : Schema := []
  db : DB := []

def pDecl : P ObjDecl
  | m :: r => do let m ← m.toNat?; let (ts, r') ← pMany pTy m r; pure (⟨ts⟩, r')
  | [] => none

def pField : P (List Val)
  | n :: r => do let n ← n.toNat?; pMany pVal n r
  | [] => none

def pObj : P Obj
  | t :: i :: m :: r => do
      let t ← t.toNat?; let i ← i.toNat?; let m ← m.toNat?
      let (fs, r') ← pMany pField m r
      pure (⟨t, i, fs⟩, r')
  | _ => none

/-- sort + dedup of strings (insertion sort; small inputs) -/
def sortDedup (l : List String) : List String :=
  l.foldl (fun acc s =>
    if acc.contains s then acc
    else (acc.filter (· < s)) ++ [s] ++ (acc.filter (fun x => !(x < s)))) []

def showRes (f : Fn) : Res → String
  | .ok b =>
    let agree := match primRet f b.ptys with
      | some r => if r == b.ret then "1" else "0"
      | none => "-"
    s!"ok {showTy b.ret} ; {showTys b.ptys} ; {agree}"
  | .noMatch => "none"
  | .ambiguous n => s!"ambiguous {n}"

def handle (st : St) (line : String) : St × String :=
  match line.splitOn " " with
  | "schema" :: k :: r =>
    match k.toNat? with
    | some k => match pMany pDecl k r with
      | some (ds, []) => ({ st with sch := ds }, "ok")
      | _ => (st, "bad-op")
    | none => (st, "bad-op")
  | "db" :: k :: r =>
    match k.toNat? with
    | some k => match pMany pObj k r with
      | some (os, []) => ({ st with db := os }, "ok")
      | _ => (st, "bad-op")
    | none => (st, "bad-op")
  | "dist" :: r =>
    match pTy r with
    | some (a, r') => match pTy r' with
      | some (b, []) =>
        let d := match castDist a b with
          | some n => toString n
          | none => "none"
        (st, s!"d={d} c={if implCastable a b then 1 else 0}")
      | _ => (st, "bad-op")
    | none => (st, "bad-op")
  | "common" :: r =>
    match pTy r with
    | some (a, r') => match pTy r' with
      | some (b, []) => (st, match commonType a b with
          | some c => showTy c
          | none => "none")
      | _ => (st, "bad-op")
    | none => (st, "bad-op")
  | ["cset", a, b] =>
    match parseScalar a, parseScalar b with
    | some a, some b => (st, " ".intercalate ((commonS a b).map scalarIdent))
    | _, _ => (st, "bad-op")
  | "resolve" :: f :: k :: r =>
    match parseFn f, k.toNat? with
    | some f, some k => match pMany pTy k r with
      | some (ts, []) => (st, showRes f (resolve f ts))
      | _ => (st, "bad-op")
    | _, _ => (st, "bad-op")
  | "infer" :: r =>
    match pQ r with
    | some (q, []) => (st, match inferType st.sch [] q with
        | some t => s!"ok {showTy t} c={if inCalc st.sch [] q then 1 else 0}"
        | none => "none")
    | _ => (st, "bad-op")
  | "shape" :: r =>
    match pQ r with
    | some (q, []) => (st, match inferShape st.sch [] q with
        | some ts => s!"ok {ts.length} " ++ showTys ts
        | none => "none")
    | _ => (st, "bad-op")
  | "eval" :: r =>
    match pQ r with
    | some (q, []) =>
      match inferType st.sch [] q with
      | some _ =>
        let vs := eval st.sch st.db [] q
        (st, s!"ok {vs.length} ; " ++ " | ".intercalate (sortDedup (vs.map fun v => showTy (typeOf v))))
      | none => (st, "none")
    | _ => (st, "bad-op")
  | _ => (st, "bad-op")

def main : IO Unit := runStateful ({} : St) handle
