import EdbVerif.Model.CapsSpec
import Driver.Common
open EdbVerif EdbVerif.Caps EdbVerif.Gen.Caps EdbVerif.Driver

/-!
Line protocol (tokens separated by one blank):

* `decl <name> none|mod|low <term>`    `create function <name>() … using (<term>)` with the volatility
                                      omitted / 'Modifying' / something lower; extends the environment for
                                      the following lines → `ok <modifying 0|1> <dmlStmt 0|1>` | `rej <class>`
* `q query|analyze <term>`            → `ok <caps> <containsDML 0|1> <#recorded>` | `rej <class>`
* `script <stmt> ; <stmt> ; …`        stmt = `query <term>` | `analyze <term>` | `cmd <Class> <cond>*`
                                      → `ok <group caps> <unit caps,…>` | `rej <class>`
* `row <Class> <cond>*`               → `<caps>` | `norow`       (row of the GENERATED table)
* `kind <Class> <cond>*`              → `<caps of the row> <expected caps>` | `nokind`
* `grp <c1,c2,…>`                     → `<caps>`                 (QueryUnitGroup.append in order)
* `mkerr <self> <allowed>`            → `<exceeds 0|1> <title|->` (check_capabilities test + make_error)

term (prefix form): `L n` `V x` `O ty` `P k t…` `C f k t…` (f = number, or `@name` of a `decl`ared function) `I c t e` `S subj k shape… k filter… k order… k offlim…`
`W x b body` `F x iter body` `INS ty k shape… k onconflict… k else…` `UPD subj k filter… k shape…`
`DEL subj k filter… k order… k offlim…` `FR k elem…` (free-object shape).

Function environment (the schema the harness loads): f0 rd() pure, f1 mklog() declared Modifying
with an INSERT body, f2 mkinf() INSERT body / volatility inferred, f3 noop(m) declared Modifying
with a pure body, f4 mk2() calls mklog(), f5 rd2() calls rd().
-/

def declareAll : List (Option Bool × List Nat × Q) → FnEnv → FnEnv
  | [], fe => fe
  | (d, ps, b) :: rest, fe =>
    match declare fe d ps b with
    | .ok fe' => declareAll rest fe'
    | .error _ => declareAll rest fe

def insLog : Q := .insert 1 (.cons (.lit 1) .nil) .nil .nil

def theFe : FnEnv := declareAll
  [ (none, [], .op (.cons (.objs 1) .nil)),
    (some true, [], insLog),
    (none, [], insLog),
    (some true, [0], .var 0),
    (none, [], .call 1 .nil),
    (none, [], .call 0 .nil) ] []

mutual
partial def parseQ (nm : List (String × Nat)) : List String → Option (Q × List String)
  | "L" :: n :: r => n.toNat?.map fun n => (.lit n, r)
  | "V" :: n :: r => n.toNat?.map fun n => (.var n, r)
  | "O" :: n :: r => n.toNat?.map fun n => (.objs n, r)
  | "P" :: r => do let (a, r) ← parseL nm r; pure (.op a, r)
  | "C" :: f :: r => do
    -- `@name`: a function declared earlier on this stream; an unknown name becomes an unknown function
    let f ← if f.startsWith "@" then some ((nm.lookup (f.drop 1).toString).getD 1000000) else f.toNat?
    let (a, r) ← parseL nm r
    pure (.call f a, r)
  | "I" :: r => do
    let (c, r) ← parseQ nm r
    let (t, r) ← parseQ nm r
    let (e, r) ← parseQ nm r
    pure (.ifElse c t e, r)
  | "S" :: r => do
    let (s, r) ← parseQ nm r
    let (sh, r) ← parseL nm r
    let (f, r) ← parseL nm r
    let (o, r) ← parseL nm r
    let (l, r) ← parseL nm r
    pure (.select s sh f o l, r)
  | "W" :: x :: r => do
    let x ← x.toNat?
    let (b, r) ← parseQ nm r
    let (body, r) ← parseQ nm r
    pure (.withB x b body, r)
  | "F" :: x :: r => do
    let x ← x.toNat?
    let (b, r) ← parseQ nm r
    let (body, r) ← parseQ nm r
    pure (.forQ x b body, r)
  | "INS" :: ty :: r => do
    let ty ← ty.toNat?
    let (sh, r) ← parseL nm r
    let (oc, r) ← parseL nm r
    let (el, r) ← parseL nm r
    pure (.insert ty sh oc el, r)
  | "UPD" :: r => do
    let (s, r) ← parseQ nm r
    let (f, r) ← parseL nm r
    let (sh, r) ← parseL nm r
    pure (.update s f sh, r)
  | "DEL" :: r => do
    let (s, r) ← parseQ nm r
    let (f, r) ← parseL nm r
    let (o, r) ← parseL nm r
    let (l, r) ← parseL nm r
    pure (.delete s f o l, r)
  | "FR" :: r => do
    let (sh, r) ← parseL nm r
    pure (.free sh, r)
  | _ => none
partial def parseL (nm : List (String × Nat)) : List String → Option (QList × List String)
  | k :: r => do
    let k ← k.toNat?
    parseN nm k r
  | [] => none
partial def parseN (nm : List (String × Nat)) : Nat → List String → Option (QList × List String)
  | 0, r => some (.nil, r)
  | k + 1, r => do
    let (q, r) ← parseQ nm r
    let (qs, r) ← parseN nm k r
    pure (.cons q qs, r)
end

def parseBool : String → Option Bool
  | "1" => some true
  | "0" => some false
  | _ => none

def parseCond (s : String) : Option Cond :=
  match s.splitOn "=" with
  | ["result", "MigrationControlQuery"] => some (.result .migrationControlQuery)
  | ["result", "DDLQuery"] => some (.result .dDLQuery)
  | ["result", "Other"] => some (.result .other)
  | ["txAction", b] => (parseBool b).map .txAction
  | ["notebook", b] => (parseBool b).map .notebook
  | ["hasDml", b] => (parseBool b).map .hasDml
  | ["scope", "INSTANCE"] => some (.scope .Instance)
  | ["scope", "DATABASE"] => some (.scope .Database)
  | ["scope", "SESSION"] => some (.scope .Session)
  | ["scope", "GLOBAL"] => some (.scope .Global)
  | _ => none

def parseClass : String → Option StmtClass
  | "MigrationCommand" => some .MigrationCommand
  | "DDLCommand" => some .DDLCommand
  | "Transaction" => some .Transaction
  | "SessionCommand_tuple" => some .SessionCommand_tuple
  | "ConfigOp" => some .ConfigOp
  | "ExplainStmt" => some .ExplainStmt
  | "AdministerStmt" => some .AdministerStmt
  | "QueryOrCommand" => some .QueryOrCommand
  | _ => none

def parseRow (toks : List String) : Option (StmtClass × List Cond) :=
  match toks with
  | c :: cs => do
    let c ← parseClass c
    let cs ← cs.mapM parseCond
    pure (c, cs)
  | [] => none

def kindOf (key : StmtClass × List Cond) : Option Kind :=
  Kind.all.find? fun k => k.key == key

def showReject : Reject → String
  | .clause => "clause"
  | .shape => "shape"
  | .unknownFn => "unknownFn"
  | .volatility => "volatility"
  | .noRow => "noRow"

def parseStmt (nm : List (String × Nat)) (toks : List String) : Option Stmt :=
  match toks with
  | "query" :: r => match parseQ nm r with
    | some (q, []) => some (.query q)
    | _ => none
  | "analyze" :: r => match parseQ nm r with
    | some (q, []) => some (.analyze q)
    | _ => none
  | "cmd" :: r => (parseRow r).bind kindOf |>.map .command
  | _ => none

def splitSemis (toks : List String) : List (List String) :=
  let rec go (cur : List String) (acc : List (List String)) : List String → List (List String)
    | [] => (cur.reverse :: acc).reverse
    | ";" :: r => go [] (cur.reverse :: acc) r
    | t :: r => go (t :: cur) acc r
  go [] [] toks

def handle1 (theFe : FnEnv) (nm : List (String × Nat)) (toks : List String) : String :=
  match toks with
  | "q" :: mode :: r =>
    match parseQ nm r with
    | some (q, []) =>
      let st? : Option Stmt := if mode == "query" then some (.query q)
        else if mode == "analyze" then some (.analyze q) else none
      match st? with
      | none => "bad-op"
      | some st =>
        match stmtCaps theFe st, record theFe Cx.top q with
        | .ok c, .ok l => s!"ok {c.toNat} {if containsDML theFe q then 1 else 0} {l.length}"
        | .error e, _ => s!"rej {showReject e}"
        | _, .error e => s!"rej {showReject e}"
    | _ => "bad-op"
  | "script" :: r =>
    let parts := splitSemis r
    match parts.mapM (parseStmt nm) with
    | none => "bad-op"
    | some ss =>
      match mapE (stmtCaps theFe) ss, scriptCaps theFe ss with
      | .ok cs, .ok c => s!"ok {c.toNat} {showNats (cs.map (·.toNat))}"
      | .error e, _ => s!"rej {showReject e}"
      | _, .error e => s!"rej {showReject e}"
  | "row" :: r =>
    match parseRow r with
    | none => "bad-op"
    | some (c, cs) => match lookup c cs with
      | some caps => s!"{caps.toNat}"
      | none => "norow"
  | "kind" :: r =>
    match parseRow r with
    | none => "bad-op"
    | some key => match kindOf key with
      | none => "nokind"
      | some k => match kindCaps k with
        | some c => s!"{c.toNat} {(expectedCap k).toNat}"
        | none => "norow"
  | ["grp", cs] =>
    let l := if cs == "-" then some [] else (cs.splitOn ",").mapM (·.toNat?)
    match l with
    | none => "bad-op"
    | some l => if l.any (· ≥ 2 ^ 64) then "bad-op" else
      s!"{(groupCaps (l.map (BitVec.ofNat 64))).toNat}"
  | ["mkerr", a, b] =>
    match a.toNat?, b.toNat? with
    | some a, some b =>
      if a ≥ 2 ^ 64 || b ≥ 2 ^ 64 then "bad-op" else
      let c := BitVec.ofNat 64 a
      let al := BitVec.ofNat 64 b
      s!"{if exceeds c al then 1 else 0} {(makeError c al).getD "-"}"
    | _, _ => "bad-op"
  | _ => "bad-op"

structure St where
  fe : FnEnv
  nm : List (String × Nat)

def handle (st : St) (line : String) : St × String :=
  let theFe := st.fe
  let nm := st.nm
  match line.splitOn " " with
  | "decl" :: name :: vol :: r =>
    let d? : Option (Option Bool) := match vol with
      | "none" => some none
      | "mod" => some (some true)
      | "low" => some (some false)
      | _ => none
    match d?, parseQ nm r with
    | some d, some (body, []) =>
      match declare theFe d [] body with
      | .ok fe' =>
        match fe'[theFe.length]? with
        | some fd => ({ fe := fe', nm := (name, theFe.length) :: nm },
            s!"ok {if fd.modifying then 1 else 0} {if fd.dmlStmt then 1 else 0}")
        | none => (st, "bad-op")
      | .error e => (st, s!"rej {showReject e}")
    | _, _ => (st, "bad-op")
  | other => (st, handle1 theFe nm other)

def main : IO Unit := runStateful ({ fe := theFe, nm := [] } : St) handle
