import EdbVerif.Model.Sdl
import Driver.Common
open EdbVerif EdbVerif.Topo EdbVerif.Sdl EdbVerif.Driver

/-!
line:  tok;tok;…   (textual order of the document)
  tok = `M <mod>`                                   module block entered
      | `I name body mod loc qloc flags encl bases direct up erefs wrefs req`
  lists are comma separated, `-` = empty; flags = 6 chars 0/1
  (isField isView isComp isPtr isCon ctrl); a ref is `o<n>` or `p<owner>.<loc>.<loc>…`.
answer: `<graph>|<outcome>|<complete 0/1>`
  graph   = `key:deps:weak:ctrl` per node, `;` separated, in graph key order
  outcome = `ok <order> # name=body,…` | `cycle` | `unres` | `dup` | `applyerr`
-/

def parseRef (s : String) : Option Ref :=
  if s.startsWith "o" then (s.drop 1).toNat?.map Ref.obj
  else if s.startsWith "p" then
    match ((s.drop 1).toString).splitOn "." with
    | a :: b :: bs => do
      let a ← a.toNat?
      let p ← (b :: bs).mapM (·.toNat?)
      some (Ref.ptr a p)
    | _ => none
  else none

def parseRefs (s : String) : Option (List Ref) :=
  if s == "-" || s == "" then some [] else (s.splitOn ",").mapM parseRef

def parseNatsStrict (s : String) : Option (List Nat) :=
  if s == "-" || s == "" then some [] else (s.splitOn ",").mapM (·.toNat?)

def parseFlags (s : String) : Option (List Bool) :=
  let cs := s.toList
  if cs.length == 6 && cs.all (fun c => c == '0' || c == '1') then some (cs.map (· == '1')) else none

def parseTok (s : String) : Option Tok :=
  match (trim s).splitOn " " with
  | ["M", m] => m.toNat?.map Tok.enter
  | ["I", name, body, mod, loc, qloc, flags, encl, bases, direct, up, erefs, wrefs, req] => do
    let name ← name.toNat?
    let body ← body.toNat?
    let mod ← mod.toNat?
    let loc ← loc.toNat?
    let qloc ← qloc.toNat?
    let fl ← parseFlags flags
    let encl ← parseNatsStrict encl
    let bases ← parseNatsStrict bases
    let direct ← parseNatsStrict direct
    let up ← parseNatsStrict up
    let erefs ← parseRefs erefs
    let wrefs ← parseRefs wrefs
    let req ← parseNatsStrict req
    match fl with
    | [f0, f1, f2, f3, f4, f5] =>
      some (Tok.item { name, body, mod, encl, loc, qloc, isField := f0, isView := f1, isComp := f2,
                       isPtr := f3, isCon := f4, ctrl := f5, bases, direct, up, erefs, wrefs, req })
    | _ => none
  | _ => none

def showEntry (e : Entry) : String :=
  s!"{e.key}:{showNats e.deps}:{showNats e.weak}:{showNats e.ctrl}"

def showOutcome (d : Doc) : String :=
  match build d with
  | .ok s =>
    let o := match sortEx (graph d) false with | .ok o => o | _ => []
    let dump := (norm (names d)).map fun k => s!"{k}={match s k with | some b => toString b | none => "?"}"
    s!"ok {showNats o} # {",".intercalate dump}"
  | .cycle => "cycle"
  | .unresolved => "unres"
  | .duplicate => "dup"
  | .applyError => "applyerr"

def handle (line : String) : String :=
  let ts := line.splitOn ";"
  match ts.mapM parseTok with
  | none => "bad-op"
  | some d =>
    let g := ";".intercalate ((graph d).map showEntry)
    s!"{g}|{showOutcome d}|{if completeB d then 1 else 0}"

def main : IO Unit := runStateless handle
