import EdbVerif.Model.Sync
import Driver.Common
open EdbVerif EdbVerif.Sync EdbVerif.Driver

/-!
Line protocol (stateful; one history = an `I` line followed by requests):

* `I g y;db s r c;db s r c;…`   reset: every worker starts with these init args
* `C w db s r g c y out ns`      `compile` on worker `w`; `out ∈ ok|nostate|raise|spf|unp|req`
* `T w db s p out ns`            `compile_in_tx`; `p` = pickled-state token or `-` for `None`;
                                 `out ∈ ok|raise|mut|spf|unp`

Token flags are encoded in the number: bit 0 = falsy, bit 1 = unpickling fails.
After every request the belief and the actual state of workers 0..2 over
databases 0..3 are printed.
-/

def env : Env := tokEnv

def nWorkers : Nat := 3
def nDbs : Nat := 4

def showOpt : Option Nat → String
  | none => "-"
  | some t => toString t

def showSide (s : Side) : String :=
  let dbs := (List.range nDbs).filterMap fun db =>
    (s.dbs db).map fun d => s!"{db}:{d.schema},{d.refl},{d.dbcfg}"
  "{" ++ ";".intercalate dbs ++ s!"|{s.glob}|{s.sys}|{showOpt s.last}" ++ "}"

def showState (st : State) : String :=
  " ".intercalate ((List.range nWorkers).map fun w =>
    s!"W{w} b{showSide (st w).bel} a{showSide (st w).act}")

def showRes : Res → String
  | .ok => "ok" | .syncFail => "syncFail" | .compErr => "compErr"
  | .statePickleErr => "statePickleErr" | .serErr => "serErr" | .assertErr => "assertErr"
  | .keyErr => "keyErr" | .unpickleErr => "unpickleErr" | .typeErr => "typeErr"
  | .cbAssert => "cbAssert"

def showParts (p : Parts) : String :=
  ",".intercalate [showOpt p.schema, showOpt p.refl, showOpt p.glob, showOpt p.dbcfg, showOpt p.sys]

def showUsed : Option Used → String
  | none => "-"
  | some u => s!"{u.schema},{u.glob},{u.refl},{u.dbcfg},{u.sys}"

def showUsedTx : Option UsedTx → String
  | none => "-"
  | some u => s!"{u.cstate},{showOpt u.root}"

def showSend : TxSend → String
  | .reuse => "reuse" | .byName => "name" | .bySchema => "schema"

def parseCOut : String → Option COut
  | "ok" => some .ok | "nostate" => some .okNoState | "raise" => some .raise
  | "spf" => some .statePickleFail | "unp" => some .resultUnpicklable
  | "req" => some .requestUnreadable | _ => none

def parseTOut : String → Option TOut
  | "ok" => some .ok | "raise" => some .raise | "mut" => some .raiseMutated
  | "spf" => some .statePickleFail | "unp" => some .resultUnpicklable | _ => none

def allNats (ws : List String) : Option (List Nat) :=
  let r := ws.filterMap (·.toNat?)
  if r.length == ws.length then some r else none

def parseInit (line : String) : Option State :=
  match line.splitOn ";" with
  | [] => none
  | hd :: dbs =>
    match allNats ((trim hd).splitOn " ") with
    | some [g, y] =>
      let ents := dbs.filterMap fun s =>
        match allNats ((trim s).splitOn " ") with
        | some [db, a, b, c] => some (db, (⟨a, b, c⟩ : Db3))
        | _ => none
      if ents.length != dbs.length then none else
      let m : Nat → Option Db3 := ents.foldl (fun m (e : Nat × Db3) => setDb m e.1 e.2) (fun _ => none)
      some (initState { dbs := m, glob := g, sys := y, last := none })
    | _ => none

def stepLine (st : State) (line : String) : State × String :=
  match (trim line).splitOn " " with
  | "I" :: rest =>
    match parseInit (" ".intercalate rest) with
    | some s => (s, "ok " ++ showState s)
    | none => (st, "bad-op")
  | ["C", w, db, s, r, g, c, y, out, ns] =>
    match allNats [w, db, s, r, g, c, y, ns], parseCOut out with
    | some [w, db, s, r, g, c, y, ns], some out =>
      if w ≥ nWorkers || db ≥ nDbs then (st, "bad-op") else
      let (st', o) := stepCompile env st ⟨w, db, s, r, g, c, y, out, ns⟩
      (st', s!"sent={showParts o.sent} cb={if o.hasCb then 1 else 0} res={showRes o.res} " ++
            s!"used={showUsed o.used} | {showState st'}")
    | _, _ => (st, "bad-op")
  | ["T", w, db, s, p, out, ns] =>
    let p? : Option (Option Nat) := if p == "-" then some none else p.toNat?.map some
    match allNats [w, db, s, ns], p?, parseTOut out with
    | some [w, db, s, ns], some p, some out =>
      if w ≥ nWorkers || db ≥ nDbs then (st, "bad-op") else
      let (st', o) := stepTx env st ⟨w, db, s, p, out, ns⟩
      (st', s!"send={showSend o.send} res={showRes o.res} used={showUsedTx o.used} | {showState st'}")
    | _, _, _ => (st, "bad-op")
  | _ => (st, "bad-op")

def main : IO Unit :=
  runStateful (initState { dbs := fun _ => none, glob := 0, sys := 0, last := none }) stepLine
