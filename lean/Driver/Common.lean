/-
Shared helpers for the line-protocol drivers (`lake env lean --run Driver/Cxx.lean`).
Core Lean only.
-/
namespace EdbVerif.Driver

def trim (s : String) : String := s.trimAscii.toString

def parseNats (s : String) : List Nat :=
  if s == "-" || s == "" then [] else (s.splitOn ",").filterMap (·.toNat?)

def showNats (l : List Nat) : String :=
  if l.isEmpty then "-" else ",".intercalate (l.map toString)

partial def lineLoop {σ : Type} (h : IO.FS.Stream) (out : IO.FS.Stream)
    (step : σ → String → σ × String) (s : σ) : IO Unit := do
  let line ← h.getLine
  if line.isEmpty then
    out.flush
    return ()
  let (s', o) := step s (trim line)
  out.putStrLn o
  lineLoop h out step s'

def runStateless (f : String → String) : IO Unit := do
  let stdin ← IO.getStdin
  let stdout ← IO.getStdout
  lineLoop stdin stdout (fun (_ : Unit) l => ((), f l)) ()

def runStateful {σ : Type} (init : σ) (step : σ → String → σ × String) : IO Unit := do
  let stdin ← IO.getStdin
  let stdout ← IO.getStdout
  lineLoop stdin stdout step init

end EdbVerif.Driver
