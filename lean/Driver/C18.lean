import EdbVerif.Model.Lex
import EdbVerif.Model.Quote
import EdbVerif.Model.PgLex
import EdbVerif.Model.PgLexDollar
import Driver.Common
open EdbVerif EdbVerif.Driver

/-!
Line protocol of the C18 driver.  Every string travels hex-encoded (UTF-8
bytes, two lower-case hex digits per byte); every input and output field is `=` followed by
the hex text, so that the empty string is visible.

  U <table> <hex chars>   set a Unicode table (the non-ASCII characters that
                          have the property): `ralpha`, `ralnum` (Rust
                          is_alphabetic / is_alphanumeric), `pyalnum`,
                          `pydecimal`, `pyalpha` (CPython).      -> `ok`
  Q <hex s> <hex lower>   all string quoting functions on `s`; `lower` is what
                          `str.lower()` answers for `s`.  -> 13 fields:
                          escape_string quote_literal dollar_quote_literal
                          visit_Constant quote_ident quote_ident(force)
                          quote_ident(allow_reserved) quote_ident(allow_num)
                          pg.quote_literal pg.quote_e_literal pg.quote_ident
                          pg.quote_ident(column) param_to_str
  T <hex body>            the dollar tags dbops picks for this body: DO block, function text
  B <hex bytes>           visit_BytesConstant, quote_bytea_literal
  N <hex name> <hex hash> <prefix_length>   edgedb_name_to_pg_name; `hash` = base64(md5(name)) without `=`
  L <hex text>            Lex.lexOne ∘ Lex.skipWs (as `Tokenizer::new` + `next`): `ok <kind> <valkind> =<val> <consumed>` | `err <class>`
  PS|PE|PI|PB|PD <hex text>  PgLex.lexStd / lexEsc / lexIdent / lexByteaLit / lexDollarStr
Malformed lines answer `bad-op`.
-/

structure DS where
  ralpha : List Char := []
  ralnum : List Char := []
  pyalnum : List Char := []
  pydecimal : List Char := []
  pyalpha : List Char := []

def hexNib (c : Char) : Option Nat :=
  if '0' ≤ c ∧ c ≤ '9' then some (c.toNat - 48)
  else if 'a' ≤ c ∧ c ≤ 'f' then some (c.toNat - 87)
  else none

def unhexBytes : List Char → Option (List UInt8)
  | [] => some []
  | [_] => none
  | a :: b :: t => do
    let x ← hexNib a
    let y ← hexNib b
    let r ← unhexBytes t
    pure (UInt8.ofNat (x * 16 + y) :: r)

/-- input fields are written `=<hex>` -/
def unEq (s : String) : Option (List Char) :=
  match s.toList with
  | '=' :: t => some t
  | _ => none

def unhexB (s : String) : Option (List UInt8) := (unEq s).bind unhexBytes

def unhexStr (s : String) : Option (List Char) := do
  let bs ← unhexB s
  let str ← String.fromUTF8? (ByteArray.mk bs.toArray)
  pure str.toList

def nibHex (n : Nat) : Char := if n < 10 then Char.ofNat (48 + n) else Char.ofNat (87 + n)

def hexOfBytes (bs : List UInt8) : String :=
  String.ofList (bs.flatMap fun b => [nibHex (b.toNat / 16), nibHex (b.toNat % 16)])

def hexOfStr (s : List Char) : String := hexOfBytes (String.ofList s).toUTF8.toList

def fld (s : List Char) : String := "=" ++ hexOfStr s
def fldO (s : Option (List Char)) : String := match s with | some x => fld x | none => "!fuel"

def errName (e : Lex.LexErr) : String := (reprStr e).replace "EdbVerif.Lex.LexErr." ""
def pgErrName (e : PgLex.PgErr) : String := (reprStr e).replace "EdbVerif.PgLex.PgErr." ""

def kindName : Lex.Kind → String
  | .str => "str" | .binStr => "binStr" | .strInterpStart => "strInterpStart"
  | .ident => "ident" | .keyword k => "kw:" ++ String.ofList k
  | .parameter => "parameter" | .substitution => "substitution"
  | .punct p => "p:" ++ hexOfStr p | .eoi => "eoi"

def valShow : Lex.Val → String
  | .none => "none ="
  | .str s => "str " ++ fld s
  | .bytes b => "bytes =" ++ hexOfBytes b

def mkU (st : DS) : Lex.UClass := ⟨fun c => st.ralpha.contains c, fun c => st.ralnum.contains c⟩

def mkP (st : DS) (s lower : List Char) : Quote.PyUnicode :=
  { isalnum := fun c => st.pyalnum.contains c
    isdecimal := fun c => st.pydecimal.contains c
    isalpha := fun c => st.pyalpha.contains c
    lower := fun x => if x = s then lower else x.map Lex.asciiLower }

def step (st : DS) (line : String) : DS × String :=
  match line.splitOn " " with
  | ["U", name, h] =>
    match unhexStr h with
    | none => (st, "bad-op")
    | some cs =>
      if name == "ralpha" then ({ st with ralpha := cs }, "ok")
      else if name == "ralnum" then ({ st with ralnum := cs }, "ok")
      else if name == "pyalnum" then ({ st with pyalnum := cs }, "ok")
      else if name == "pydecimal" then ({ st with pydecimal := cs }, "ok")
      else if name == "pyalpha" then ({ st with pyalpha := cs }, "ok")
      else (st, "bad-op")
  | ["Q", h, hl] =>
    match unhexStr h, unhexStr hl with
    | some s, some l =>
      let P := mkP st s l
      (st, " ".intercalate [
        fld (Quote.escapeString s), fld (Quote.quoteLiteral s), fldO (Quote.dollarQuoteLiteral s),
        fldO (Quote.ppStr s),
        fld (Quote.quoteIdent P s false false false), fld (Quote.quoteIdent P s true false false),
        fld (Quote.quoteIdent P s false true false), fld (Quote.quoteIdent P s false false true),
        fld (Quote.pgQuoteLiteral s), fld (Quote.pgQuoteELiteral s),
        fld (Quote.pgQuoteIdent P s false false), fld (Quote.pgQuoteIdent P s false true),
        fld (Quote.paramToStr P s)])
    | _, _ => (st, "bad-op")
  | ["B", h] =>
    match unhexB h with
    | some b => (st, fld (Quote.ppBytes b) ++ " " ++ fld (Quote.pgQuoteBytea b))
    | none => (st, "bad-op")
  | ["N", h, hh, pl] =>
    match unhexStr h, unhexStr hh, pl.toNat? with
    | some s, some hs, some n =>
      match Quote.edgedbNameToPgName (fun _ => hs) s n with
      | some r => (st, fld r)
      | none => (st, "!ValueError")
    | _, _, _ => (st, "bad-op")
  | ["T", h] =>
    match unhexStr h with
    | some s => (st, fldO (Quote.doTag s) ++ " " ++ fldO (Quote.funcTag s))
    | none => (st, "bad-op")
  | ["L", h] =>
    match unhexStr h with
    | some s =>
      match Lex.lexOne (mkU st) (Lex.skipWs s) with
      | .ok (t, rest) => (st, s!"ok {kindName t.kind} {valShow t.val} {s.length - rest.length}")
      | .error e => (st, "err " ++ errName e)
    | none => (st, "bad-op")
  | ["PS", h] =>
    match unhexStr h with
    | some s =>
      match PgLex.lexStd s with
      | .ok (v, rest) => (st, s!"ok {fld v} {s.length - rest.length}")
      | .error e => (st, "err " ++ pgErrName e)
    | none => (st, "bad-op")
  | ["PE", h] =>
    match unhexStr h with
    | some s =>
      match PgLex.lexEsc s with
      | .ok (v, rest) => (st, s!"ok {fld v} {s.length - rest.length}")
      | .error e => (st, "err " ++ pgErrName e)
    | none => (st, "bad-op")
  | ["PI", h] =>
    match unhexStr h with
    | some s =>
      match PgLex.lexIdent s with
      | .ok (.ident n, rest) => (st, s!"ok ident {fld n} {s.length - rest.length}")
      | .ok (.keyword n k, rest) => (st, s!"ok kw{k} {fld n} {s.length - rest.length}")
      | .error e => (st, "err " ++ pgErrName e)
    | none => (st, "bad-op")
  | ["PD", h] =>
    match unhexStr h with
    | some s =>
      match PgLex.lexDollarStr s with
      | .ok (v, rest) => (st, s!"ok {fld v} {s.length - rest.length}")
      | .error e => (st, "err " ++ pgErrName e)
    | none => (st, "bad-op")
  | ["PB", h] =>
    match unhexStr h with
    | some s =>
      match PgLex.lexByteaLit s with
      | .ok (b, rest) => (st, s!"ok ={hexOfBytes b} {s.length - rest.length}")
      | .error e => (st, "err " ++ pgErrName e)
    | none => (st, "bad-op")
  | _ => (st, "bad-op")

def main : IO Unit := runStateful ({} : DS) step
