import EdbVerif.Model.Desc
import Driver.Common
open EdbVerif EdbVerif.Desc EdbVerif.Driver

/-!
Line protocol (one request per line, fields separated by one blank):

* `E <1|2> <tree> [N | <id>:x<text>,…]` → `ok <hex bytes> <rtReal> <nblocks> <rtDoc>` | `overflow`
  (third field = display names when `inline_typenames` is set (`-` = set, no names), `N`/absent = not
  set; `rtReal` = `decodeReal (encode d) == d`, `rtDoc` = `decodeDoc (encodeA dn d) == (d, annotations)`),
* `D <1|2> <hex>`   → `ok <tree>` | `err`       (model of the REAL `parse` on arbitrary bytes),
* `DD <1|2> <hex>`  → `ok <tree> <id:xtext,…|->` | `err`   (documented-format decoder),
* `W <1|2> <tree>`  → `wf <nodesOK 0|1> <idFaithful 0|1> <fits 0|1>`,
* `K c <ct> <subs> <names|N>` | `K s <base> <subs> <names|N> <cards|N> <lp|N> <links|N> <impl 0|1> <sources|N>`
  | `K t <sub>`      → `ok <hex preimage>` | `none`,
* `U <hex id>`      → `ok <hex of str(uuid)>`,
* `F <hex>`         → `ok <n frames>` | `err`    (walk by the ≥2.0 length prefixes),
* `A <1|2> <hex id> x<hex text>` → `ok <hex>`   (`_add_annotation` block),
* `L <1|2> <tree> <tree> …` → `ok <hex> <nblocks>` | `overflow`  (several types described
  into ONE context, as after `Context.derive()`).

A tree is written in post-order, nodes separated by `;`, each node
`kind|id|meta|payload|npre|npost` (children are popped off a stack):
meta `-` or `<hexname>.<0|1>`; payload `-` (none / empty list), names
`x<hex>,x<hex>`, dims `-1,3`, compound op `1`, shape `<eph>~flags.card.x<hex>,…`.
-/

def hexVal (c : Char) : Option Nat :=
  if '0' ≤ c ∧ c ≤ '9' then some (c.toNat - 48)
  else if 'a' ≤ c ∧ c ≤ 'f' then some (c.toNat - 87)
  else none

def parseHexL : List Char → Option Bytes
  | [] => some []
  | a :: b :: r =>
    match hexVal a, hexVal b, parseHexL r with
    | some x, some y, some l => some ((x * 16 + y) :: l)
    | _, _, _ => none
  | _ => none

def parseHex (s : String) : Option Bytes := if s == "-" then some [] else parseHexL s.toList

def hexChar (n : Nat) : Char := Char.ofNat (if n < 10 then 48 + n else 87 + n)
def showHex (b : Bytes) : String :=
  String.ofList (b.flatMap fun x => [hexChar (x / 16 % 16), hexChar (x % 16)])

def parseList {α : Type} (f : String → Option α) (s : String) : Option (List α) :=
  if s == "-" then some [] else (s.splitOn ",").mapM f

def parseName (s : String) : Option Bytes :=
  if s.startsWith "x" then parseHex (s.drop 1).toString else none

def parseEl (s : String) : Option ShEl :=
  match s.splitOn "." with
  | [f, c, n] =>
    match f.toNat?, c.toNat?, parseName n with
    | some f, some c, some n => some ⟨f, c, n⟩
    | _, _, _ => none
  | _ => none

def parseMeta (s : String) : Option (Option Meta) :=
  if s == "-" then some none else
  match s.splitOn "." with
  | [n, b] =>
    match parseHex n, b with
    | some n, "0" => some (some ⟨n, false⟩)
    | some n, "1" => some (some ⟨n, true⟩)
    | _, _ => none
  | _ => none

def parseKindS (k pl : String) : Option Kind :=
  match k with
  | "set" => if pl == "-" then some .set else none
  | "bscalar" => if pl == "-" then some .baseScalar else none
  | "scalar" => if pl == "-" then some .scalar else none
  | "tuple" => if pl == "-" then some .tuple else none
  | "range" => if pl == "-" then some .range else none
  | "mrange" => if pl == "-" then some .multirange else none
  | "object" => if pl == "-" then some .object else none
  | "ntuple" => (parseList parseName pl).map .namedTuple
  | "enum" => (parseList parseName pl).map .enum
  | "sqlrow" => (parseList parseName pl).map .sqlRow
  | "array" => (parseList (·.toInt?) pl).map .array
  | "compound" => pl.toNat?.map .compound
  | "ishape" => (parseList parseEl pl).map .inputShape
  | "shape" =>
    match pl.splitOn "~" with
    | ["0", e] => (parseList parseEl e).map (.shape false)
    | ["1", e] => (parseList parseEl e).map (.shape true)
    | _ => none
  | _ => none

/-- pop `n` items (the last pushed is the last child) -/
def popN (n : Nat) (st : List Desc) : Option (List Desc × List Desc) :=
  if n ≤ st.length then some ((st.take n).reverse, st.drop n) else none

def parseNode (st : List Desc) (tok : String) : Option (List Desc) :=
  match tok.splitOn "|" with
  | [k, id, m, pl, a, b] =>
    match parseKindS k pl, parseHex id, parseMeta m, a.toNat?, b.toNat? with
    | some kind, some id, some m, some a, some b =>
      match popN b st with
      | none => none
      | some (post, st) =>
      match popN a st with
      | none => none
      | some (pre, st) => some (.mk ⟨kind, id, m⟩ pre post :: st)
    | _, _, _, _, _ => none
  | _ => none

def parseTree (s : String) : Option Desc :=
  match (s.splitOn ";").foldl (fun st tok => st.bind (parseNode · tok)) (some []) with
  | some [d] => some d
  | _ => none

def showNames (l : List Bytes) : String :=
  if l.isEmpty then "-" else ",".intercalate (l.map fun n => "x" ++ showHex n)
def showEls (l : List ShEl) : String :=
  if l.isEmpty then "-" else
    ",".intercalate (l.map fun e => s!"{e.flags}.{e.card}.x{showHex e.name}")
def showMeta : Option Meta → String
  | none => "-"
  | some m => showHex m.name ++ "." ++ (if m.sd then "1" else "0")

def showKind : Kind → String × String
  | .set => ("set", "-") | .baseScalar => ("bscalar", "-") | .scalar => ("scalar", "-")
  | .tuple => ("tuple", "-") | .range => ("range", "-") | .multirange => ("mrange", "-")
  | .object => ("object", "-")
  | .namedTuple l => ("ntuple", showNames l) | .enum l => ("enum", showNames l)
  | .sqlRow l => ("sqlrow", showNames l)
  | .array d => ("array", if d.isEmpty then "-" else ",".intercalate (d.map toString))
  | .compound op => ("compound", toString op)
  | .inputShape e => ("ishape", showEls e)
  | .shape eph e => ("shape", (if eph then "1" else "0") ++ "~" ++ showEls e)

mutual
def showTreeL : Desc → List String
  | .mk h pre post =>
    let (k, pl) := showKind h.kind
    showTreesL pre ++ showTreesL post ++
      [s!"{k}|{showHex h.id}|{showMeta h.mt}|{pl}|{pre.length}|{post.length}"]
def showTreesL : List Desc → List String
  | [] => []
  | d :: ds => showTreeL d ++ showTreesL ds
end

def showTree (d : Desc) : String := ";".intercalate (showTreeL d)

def parseProto : String → Option Proto
  | "1" => some .v1 | "2" => some .v2 | _ => none

def optList {α : Type} (f : String → Option α) (s : String) : Option (Option (List α)) :=
  if s == "N" then some none else (parseList f s).map some

def parseBoolS : String → Option Bool
  | "0" => some false | "1" => some true | _ => none

def b01 (b : Bool) : String := if b then "1" else "0"

def parseAnnE (s : String) : Option (Id × Bytes) :=
  match s.splitOn ":" with
  | [i, t] =>
    match parseHex i, parseName t with
    | some i, some t => some (i, t)
    | _, _ => none
  | _ => none

def showAnn (l : List (Id × Bytes)) : String :=
  if l.isEmpty then "-" else ",".intercalate (l.map fun e => showHex e.1 ++ ":x" ++ showHex e.2)

/-- `E`: encode (with the display names `a` when `inline_typenames`), round-trip flags -/
def doE (p t a : String) : String :=
  match parseProto p, parseTree t, (if a == "N" then some none else (parseList parseAnnE a).map some) with
  | some p, some d, some names =>
    let dn : Option (Id → Bytes) := names.map fun l i => ((l.find? (·.1 == i)).map (·.2)).getD []
    if !(nodesOK p d && fitsB p d) then "overflow" else
    let bs := encodeA p dn d
    let rtReal := match decodeReal p (encode p d) with
      | some d' => Desc.beq d d'
      | none => false
    let rtDoc := match decodeDoc p bs with
      | some (d', an) => Desc.beq d d' && an == (enc p dn {} d).ann
      | none => false
    s!"ok {showHex bs} {b01 rtReal} {(enc p none {} d).tbl.length} {b01 rtDoc}"
  | _, _, _ => "bad-op"

def handle (line : String) : String :=
  match line.splitOn " " with
  | ["E", p, t] => doE p t "N"
  | ["E", p, t, a] => doE p t a
  | ["D", p, h] =>
    match parseProto p, parseHex h with
    | some p, some bs =>
      match decodeReal p bs with
      | some d => "ok " ++ showTree d
      | none => "err"
    | _, _ => "bad-op"
  | ["DD", p, h] =>
    match parseProto p, parseHex h with
    | some p, some bs =>
      match decodeDoc p bs with
      | some (d, an) => "ok " ++ showTree d ++ " " ++ showAnn an
      | none => "err"
    | _, _ => "bad-op"
  | ["W", p, t] =>
    match parseProto p, parseTree t with
    | some p, some d => s!"wf {b01 (nodesOK p d)} {b01 (idFaithfulB d)} {b01 (fitsB p d)}"
    | _, _ => "bad-op"
  | ["K", "c", ct, subs, names] =>
    match parseName ct, parseList parseName subs, optList parseName names with
    | some ct, some subs, some names =>
      match idPreimage (.coll ct subs names) with
      | some b => "ok " ++ showHex b
      | none => "none"
    | _, _, _ => "bad-op"
  | ["K", "s", base, subs, names, cards, lp, links, impl, srcs] =>
    match parseName base, parseList parseName subs, optList parseName names,
          optList (·.toNat?) cards, optList parseBoolS lp, optList parseBoolS links,
          parseBoolS impl, optList parseName srcs with
    | some base, some subs, some names, some cards, some lp, some links, some impl, some srcs =>
      match idPreimage (.shape base subs names cards lp links impl srcs) with
      | some b => "ok " ++ showHex b
      | none => "none"
    | _, _, _, _, _, _, _, _ => "bad-op"
  | ["K", "t", sub] =>
    match parseName sub with
    | some sub =>
      match idPreimage (.setOf sub) with
      | some b => "ok " ++ showHex b
      | none => "none"
    | none => "bad-op"
  | ["U", h] =>
    match parseHex h with
    | some i => "ok " ++ showHex (uuidStr i)
    | none => "bad-op"
  | ["A", p, i, t] =>
    match parseProto p, parseHex i, parseName t with
    | some p, some i, some t => "ok " ++ showHex (annoBlock p i t)
    | _, _, _ => "bad-op"
  | "L" :: p :: ts =>
    match parseProto p, ts.mapM parseTree with
    | some p, some ds =>
      if ds.all (nodesOK p) then
        let s := encL p none {} ds
        if s.tbl.length ≤ 65536 then s!"ok {showHex s.buf} {s.tbl.length}" else "overflow"
      else "overflow"
    | _, _ => "bad-op"
  | ["F", h] =>
    match parseHex h with
    | some bs =>
      match frames bs.length bs with
      | some l => s!"ok {l.length}"
      | none => "err"
    | none => "bad-op"
  | _ => "bad-op"

def main : IO Unit := runStateless handle
