-- C16 shares the pool model and its line-protocol driver with C15.
import Driver.C15
