import EdbVerif.Model.StoreSpec
import Driver.Common
open EdbVerif EdbVerif.Store EdbVerif.Driver

/-!
Line protocol for C04 (stateful).  Every answer carries the complete state.

```
reset
cls <tag> <global 0|1> <sncache 0|1> <nfields> <nameIdx> <single ref idxs> <collection ref idxs> <owned idxs>
add|upd <id> <tag> <f>=<val> …        del|dis <id> <tag>        delist <name>
add <id> <tag> len=<k> <f>=<val> …    (data tuple cut to its first k slots)
set <id> <f> <val>                    unset <id> <f>
create <id> <tag> <f>=<val> …         alter <id> <f>=<val> …    cset <id> <f> <val>   cunset <id> <f>   drop <id>   gc <id>
refs <id>                             (query: get_referrers)
quiet                                 (answers without the state dump until the next reset)
v0                                    (trace validation: the current state becomes version 0)
v <in> <out> <raw operation>          (apply to version <in>, store as version <out>; answer carries
                                       the guard bit `rawOK` and the touched object's record only)
val  ::= N | n<name> | r<id> | l<id,…> | l- | a<nat>
name ::= U<n> | Q<m>.<n> | S<m>.<sm>.<n>.<q>
```
answer: `ok|D|T|N|G|S|R|K` or `err <Class>|D|…` (sections: data, type, name, global
name, short-name edges, reference edges, reference targets; tokens separated by
blanks, order irrelevant — the harness sorts).
-/

structure DSt where
  classes : List Cls := []
  st : State := {}
  /-- numbered schema versions (trace validation: the engine's operations form a tree) -/
  vers : List (Nat × State) := []
  /-- answer without the state dump (used by `v` lines, which print a record instead) -/
  quiet : Bool := false

def parseName (s : String) : Option Name :=
  let body := (s.drop 1).toString
  match (s.take 1).toString, (body.splitOn ".").map String.toNat? with
  | "U", [some n] => some (.unqual n)
  | "Q", [some m, some n] => some (.qual m n)
  | "S", [some m, some sm, some n, some q] => some (.spec m sm n q)
  | _, _ => none

def parseIds (s : String) : Option (List Nat) :=
  if s == "-" || s == "" then some [] else
  let ps := (s.splitOn ",").map String.toNat?
  if ps.all Option.isSome then some (ps.filterMap id) else none

def parseVal (s : String) : Option Val :=
  if s == "N" then some .nil else
  let body := (s.drop 1).toString
  match (s.take 1).toString with
  | "n" => (parseName body).map Val.name
  | "r" => body.toNat?.map Val.ref
  | "l" => (parseIds body).map Val.refs
  | "a" => body.toNat?.map Val.atom
  | _ => none

def parseKV (s : String) : Option (Nat × Val) :=
  match s.splitOn "=" with
  | [f, v] => do
    let f ← f.toNat?
    let v ← parseVal v
    pure (f, v)
  | _ => none

def parseKVs (l : List String) : Option (List (Nat × Val)) :=
  let ps := l.map parseKV
  if ps.all Option.isSome then some (ps.filterMap id) else none

def showName : Name → String
  | .unqual n => s!"U{n}"
  | .qual m n => s!"Q{m}.{n}"
  | .spec m sm n q => s!"S{m}.{sm}.{n}.{q}"

def showVal : Val → String
  | .nil => "N"
  | .name n => "n" ++ showName n
  | .ref i => s!"r{i}"
  | .refs l => "l" ++ showNats l
  | .atom a => s!"a{a}"

def showData (d : List Val) : String :=
  let rec go (i : Nat) : List Val → List String
    | [] => []
    | v :: vs => if v == Val.nil then go (i + 1) vs else s!"{i}:{showVal v}" :: go (i + 1) vs
  ";".intercalate (s!"{d.length}" :: go 0 d)

def showErr : Err → String
  | .schemaError => "SchemaError"
  | .unknownModule => "UnknownModuleError"
  | .invalidReference => "InvalidReferenceError"
  | .keyError => "KeyError"
  | .lookupError => "LookupError"
  | .assertionError => "AssertionError"
  | .attributeError => "AttributeError"
  | .indexError => "IndexError"

def dump (s : State) : String :=
  let sec (l : List String) : String := " ".intercalate l
  "|".intercalate [
    sec (s.idToData.map fun (i, d) => s!"{i}={showData d}"),
    sec (s.idToType.map fun (i, c) => s!"{i}={c.tag}"),
    sec (s.nameToId.map fun (n, i) => s!"{showName n}={i}"),
    sec (s.globalNameToId.map fun ((c, n), i) => s!"{c.tag}/{showName n}={i}"),
    sec (s.shortNameToId.map fun (c, n, i) => s!"{c.tag}/{showName n}>{i}"),
    sec (s.refsTo.map fun e => s!"{e.tgt}<{e.cls.tag}.{e.field}<{e.src}"),
    sec (s.refTargets.map toString) ]

def findCls (d : DSt) (tag : String) : Option Cls := do
  let t ← tag.toNat?
  d.classes.find? (fun c => c.tag == t)

/-- sparse `f=val` list to a full data tuple; rejects out-of-range and repeated fields -/
def mkData (c : Cls) (kvs : List (Nat × Val)) : Option (List Val) :=
  if kvs.all (fun p => p.1 < c.nfields) && decide (kvs.map (·.1)).Nodup then
    some (kvs.foldl (fun d p => d.set p.1 p.2) (List.replicate c.nfields Val.nil))
  else none

/-- the value has the container shape of the field (what the harness may send) -/
def shapeOK (c : Cls) (f : Nat) (v : Val) : Bool :=
  match c.kindOf f, v with
  | _, .nil => true
  | some false, .ref _ => true
  | some true, .refs _ => true
  | some _, _ => false
  | none, .name n => f == c.nameIdx && (c.isGlobal || n.module?.isSome)
  | none, .atom _ => f != c.nameIdx
  | none, _ => false

def answer (d : DSt) (r : Except Err State) : DSt × String :=
  match r with
  | .ok s' => ({ d with st := s' }, if d.quiet then "ok|" else "ok|" ++ dump s')
  | .error e => (d, if d.quiet then "err " ++ showErr e ++ "|" else "err " ++ showErr e ++ "|" ++ dump d.st)

def stepLine (d : DSt) (line : String) : DSt × String :=
  let bad : DSt × String := (d, "bad-op")
  match (line.splitOn " ").filter (· != "") with
  | ["reset"] => ({}, "ok|" ++ dump {})
  | ["cls", tag, g, sn, nf, ni, singles, colls, owns] =>
    match tag.toNat?, nf.toNat?, ni.toNat?, parseIds singles, parseIds colls, parseIds owns with
    | some tag, some nf, some ni, some ss, some cs, some os =>
      if (g != "0" && g != "1") || (sn != "0" && sn != "1") then bad else
      let rf := (ss.map (fun i => (i, false)) ++ cs.map (fun i => (i, true)))
      let c : Cls := { tag := tag, isGlobal := g == "1", hasSn := sn == "1", nfields := nf,
                       nameIdx := ni, refFields := rf, ownFields := os }
      if d.classes.any (fun c' => c'.tag == tag) || !decide (rf.map (·.1)).Nodup
          || !(rf.all (fun p => p.1 < nf)) || !(ni < nf) || rf.any (fun p => p.1 == ni)
          || !(os.all (fun o => cs.contains o)) then bad
      else ({ d with classes := d.classes ++ [c] }, "ok")
    | _, _, _, _, _, _ => bad
  | "add" :: id :: tag :: kvs | "create" :: id :: tag :: kvs =>
    -- `add … len=<k> …`: a data tuple cut to k slots (what an old serialized schema can hold)
    let (cut, kvs) := match kvs with
      | k :: rest => if k.startsWith "len=" then ((k.drop 4).toString.toNat?, rest) else (none, kvs)
      | [] => (none, kvs)
    match id.toNat?, findCls d tag, parseKVs kvs with
    | some id, some c, some kvs =>
      match mkData c kvs with
      | some data =>
        if !(kvs.all fun p => shapeOK c p.1 p.2) then bad else
        let data := match cut with
          | some k => data.take k
          | none => data
        if line.startsWith "add" then answer d (addRaw d.st id c data)
        else if cut.isSome then bad
        else answer d (runCmd d.st (.create id c data))
      | none => bad
    | _, _, _ => bad
  | "upd" :: id :: tag :: kvs =>
    match id.toNat?, findCls d tag, parseKVs kvs with
    | some id, some c, some kvs =>
      if !(kvs.all fun p => p.1 < c.nfields && shapeOK c p.1 p.2) || !decide (kvs.map (·.1)).Nodup then bad
      else answer d (updateObj d.st id c kvs)
    | _, _, _ => bad
  | "alter" :: id :: kvs =>
    match id.toNat?, parseKVs kvs with
    | some id, some kvs =>
      match mget d.st.idToType id with
      | some c =>
        if !(kvs.all fun p => p.1 < c.nfields && shapeOK c p.1 p.2) then bad
        else answer d (runCmd d.st (.alter id kvs))
      | none => answer d (runCmd d.st (.alter id kvs))
    | _, _ => bad
  | [op, id, f, v] =>
    match id.toNat?, f.toNat?, parseVal v with
    | some id, some f, some v =>
      let okShape := match mget d.st.idToType id with
        | some c => f < c.nfields && shapeOK c f v
        | none => true
      if !okShape then bad else
      if op == "set" then answer d (setField d.st id f v)
      else if op == "cset" then answer d (runCmd d.st (.setf id f v))
      else bad
    | _, _, _ => bad
  | [op, a, b] =>
    match a.toNat?, b.toNat? with
    | some id, some x =>
      if op == "unset" || op == "cunset" then
        let okF := match mget d.st.idToType id with
          | some c => decide (x < c.nfields)
          | none => true
        if !okF then bad else
        if op == "unset" then answer d (unsetField d.st id x) else answer d (runCmd d.st (.unsetf id x))
      else
        match findCls d b with
        | some c =>
          if op == "del" then answer d (delete d.st id c)
          else if op == "dis" then answer d (discard d.st id c)
          else bad
        | none => bad
    | _, _ => bad
  | ["delist", n] =>
    match parseName n with
    | some n => answer d (delist d.st n)
    | none => bad
  | ["gc", id] =>
    match id.toNat? with
    | some id => answer d (runCmd d.st (.dropUnused id))
    | none => bad
  | ["drop", id] =>
    match id.toNat? with
    | some id => answer d (runCmd d.st (.drop id))
    | none => bad
  | ["refs", id] =>
    match id.toNat? with
    | some id => (d, "ok " ++ showNats (referrers d.st id))
    | none => bad
  | _ => bad

/-- everything the state holds about object `x`: data, type, the name-index entries
    that lead to it, its outgoing reverse-reference edges -/
def record (s : State) (x : Nat) : String :=
  let sec (l : List String) : String := " ".intercalate l
  "|".intercalate [
    (match mget s.idToData x with | some d => showData d | none => "-"),
    (match mget s.idToType x with | some c => toString c.tag | none => "-"),
    sec ((s.nameToId.filter (fun p => p.2 == x)).map fun (n, _) => showName n),
    sec ((s.globalNameToId.filter (fun p => p.2 == x)).map fun ((c, n), _) => s!"{c.tag}/{showName n}"),
    sec ((s.shortNameToId.filter (fun p => p.2.2 == x)).map fun (c, n, _) => s!"{c.tag}/{showName n}"),
    sec ((s.refsTo.filter (fun e => e.src == x)).map fun e => s!"{e.tgt}<{e.cls.tag}.{e.field}") ]

/-- `v <in> <out> <operation…>`: apply a raw operation to version `in`, store the result
    as version `out`; answer `ok <guard 0|1>|<record of the touched object>` or
    `err <Class> <guard>|` (guard = `rawOK` of the operation in version `in`). -/
def stepV (d : DSt) (line : String) : DSt × String :=
  match (line.splitOn " ").filter (· != "") with
  | "v" :: vin :: vout :: rest =>
    match vin.toNat?, vout.toNat? with
    | some vin, some vout =>
      match mget d.vers vin with
      | none => (d, "bad-version")
      | some sv =>
        let (d1, out) := stepLine { d with st := sv, quiet := true } (" ".intercalate rest)
        if out == "bad-op" then (d, "bad-op") else
        let status := (out.splitOn "|").headD ""
        let target : Option Nat := match rest with
          | _ :: id :: _ => id.toNat?
          | _ => none
        let guard : String := match rest with
          | "upd" :: id :: tag :: kvs =>
            (match id.toNat?, findCls d tag, parseKVs kvs with
             | some id, some c, some kvs => if rawOK sv (.updateObj id c kvs) then "1" else "0"
             | _, _, _ => "?")
          | [op, id, tag] =>
            (match id.toNat?, findCls d tag with
             | some id, some c => if op == "del" || op == "dis" then (if rawOK sv (.delete id c) then "1" else "0") else "1"
             | _, _ => "1")
          | "delist" :: _ => "0"
          | _ => "1"
        if status == "ok" then
          ({ d with vers := mset d.vers vout d1.st },
           s!"ok {guard}|" ++ (match target with | some x => record d1.st x | none => ""))
        else (d, status ++ " " ++ guard ++ "|")
    | _, _ => (d, "bad-op")
  | ["v0"] => ({ d with vers := mset d.vers 0 d.st }, "ok")
  | ["quiet"] => ({ d with quiet := true }, "ok")
  | _ => stepLine d line

def main : IO Unit := runStateful ({} : DSt) stepV
