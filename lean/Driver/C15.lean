import EdbVerif.Model.Pool
import EdbVerif.Model.PoolCheck
import Driver.Common
open EdbVerif EdbVerif.Pool EdbVerif.Driver

/-!
Line protocol (shared by C15 and C16).  One line = one transition, the answer
is the complete model state after it.

  init <max>
  acq <r> <name> [env]        resume <id>           start <t>
  cdone <t> ok|fail|3d        ddone <t> ok|fail     rel <r> 0|1 [env]
  tick [env]                  gc [env]              prune <p> <name>      pall

env tokens: hs=<uids>  avg=<uids>  q=<uid:quota,…>  abortC=1  gc=<uid:n,…>
-/

def parsePairs (s : String) : Option (List (Nat × Int)) :=
  if s == "-" || s == "" then some [] else
  (s.splitOn ",").mapM fun p =>
    match p.splitOn ":" with
    | [a, b] => do
      let a ← a.toNat?
      let b ← b.toInt?
      pure (a, b)
    | _ => none

def parseEnv (toks : List String) : Option Env :=
  toks.foldlM (fun (e : Env) t =>
    match t.splitOn "=" with
    | ["hs", v] => some { e with heldShort := parseNats v }
    | ["avg", v] => some { e with avgNZ := parseNats v }
    | ["q", v] => (parsePairs v).map fun q => { e with quotas := q }
    | ["abortC", v] => some { e with abortC := v == "1" }
    | ["gc", v] => (parsePairs v).map fun q => { e with gcOld := q.map fun p => (p.1, p.2.toNat) }
    | _ => none) {}

def showB (b : Bool) : String := if b then "1" else "0"

def showBlock (b : Block) : String :=
  let conns := ",".intercalate (b.conns.map fun p => s!"{p.1}:{showB p.2}")
  s!"B {b.uid} {b.name} q{b.quota} p{b.pending} a{b.acquired} w{b.waitersNum} s{showB b.suppressed} f{b.failures} " ++
  s!"conns={if conns == "" then "-" else conns} stack={showNats b.stack} queue={showNats b.queue}"

def showTask (p : Nat × Task) : String :=
  match p.2 with
  | .conn b st => s!"T {p.1} conn {b} {showB st}"
  | .disc b c st _ => s!"T {p.1} disc {b} {c} {showB st}"
  | .xfer f c t ph _ => s!"T {p.1} xfer {f} {c} {t} {ph}"
  | .discAll c st => s!"T {p.1} discall {c} {showB st}"
  | .dead _ => ""

def showW (w : Waiter) : String :=
  let st := match w.st with | .queued => "q" | .woken => "w" | .aborted => "x"
  s!"W {w.id} {w.block} {st} {w.attempts}"

def showState (s : State) : String :=
  let head := s!"cur={s.cur} st={showB s.starving} nacq={s.nacq} ht={showB s.htick} gcreq={s.gcReq} " ++
    s!"gct={s.gcTimers} wl={showNats s.waitlist} oq={showNats s.overQuota} err={showB s.err.isSome}"
  let ws := (s.waiters.toArray.qsort (fun a b => a.id < b.id)).toList
  let hs := (s.holders.toArray.qsort (fun a b => a.req < b.req)).toList
  let ps := (s.prunes.toArray.qsort (fun a b => a.id < b.id)).toList
  let parts := [head] ++ s.blocks.map showBlock ++ (s.tasks.map showTask).filter (· != "") ++ ws.map showW ++
    hs.map (fun h => s!"H {h.req} {h.name} {h.conn}") ++
    ps.map (fun p => s!"P {p.id} {p.block} {showNats p.locals}")
  " | ".intercalate parts

def parseEv (toks : List String) : Option (Ev × List String) :=
  match toks with
  | "acq" :: r :: n :: rest => do pure (.acq (← r.toNat?) (← n.toNat?), rest)
  | "resume" :: r :: rest => do pure (.resume (← r.toNat?), rest)
  | "start" :: t :: rest => do pure (.start (← t.toNat?), rest)
  | "cdone" :: t :: "ok" :: rest => do pure (.cdone (← t.toNat?) true false, rest)
  | "cdone" :: t :: "fail" :: rest => do pure (.cdone (← t.toNat?) false false, rest)
  | "cdone" :: t :: "3d" :: rest => do pure (.cdone (← t.toNat?) false true, rest)
  | "ddone" :: t :: "ok" :: rest => do pure (.ddone (← t.toNat?) true, rest)
  | "ddone" :: t :: "fail" :: rest => do pure (.ddone (← t.toNat?) false, rest)
  | "rel" :: r :: "0" :: rest => do pure (.rel (← r.toNat?) false, rest)
  | "rel" :: r :: "1" :: rest => do pure (.rel (← r.toNat?) true, rest)
  | "tick" :: rest => some (.tick, rest)
  | "gc" :: rest => some (.gc, rest)
  | "prune" :: p :: n :: rest => do pure (.prune (← p.toNat?) (← n.toNat?), rest)
  | "pall" :: rest => some (.pall, rest)
  | _ => none

def handle (s : State) (line : String) : State × String :=
  let toks := (line.splitOn " ").filter (· != "")
  match toks with
  | ["init", m] =>
    match m.toNat? with
    | some m => let s := init m; (s, showState s)
    | none => (s, "bad-op")
  | _ =>
    match parseEv toks with
    | none => (s, "bad-op")
    | some (e, rest) =>
      match parseEnv rest with
      | none => (s, "bad-op")
      | some env =>
        -- an error is sticky in the model; the driver reports it for this step only
        let s' := step { s with err := none } env e
        -- the answer is the state; a second field lists violated invariant clauses (normally none)
        let bad := checkOwn s' ++ checkQ s'
        (s', showState s' ++ (if bad.isEmpty then "" else " ## " ++ " ".intercalate bad))

def main : IO Unit := runStateful (init 1) handle
