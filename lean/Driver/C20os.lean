import EdbVerif.Model.OrdSet
import Driver.Common
open EdbVerif EdbVerif.OrdSet EdbVerif.Driver

/-- one history per line: ops separated by `;`, each `<letter> <nats>`:
    `a x` add, `d x` discard, `u xs` update, `m xs` difference_update,
    `i xs` intersection_update, `x xs` symmetric_difference_update, `c -` clear.
    Output: the iteration order after every operation, joined by `|`. -/
def parseOp (s : String) : Option Op :=
  match (trim s).splitOn " " with
  | [k, a] =>
    let ns := parseNats a
    match k, ns with
    | "a", [x] => some (.add x)
    | "d", [x] => some (.discard x)
    | "u", _ => some (.update ns)
    | "m", _ => some (.diff ns)
    | "i", _ => some (.inter ns)
    | "x", _ => some (.sym ns)
    | "c", [] => some .clear
    | _, _ => none
  | _ => none

def handle (line : String) : String :=
  let parts := line.splitOn ";"
  let ops := parts.filterMap parseOp
  if ops.length != parts.length then "bad-op" else
  let (_, outs) := ops.foldl (fun (acc : OSet × List String) op =>
    let s' := step acc.1 op
    (s', acc.2 ++ [showNats s'])) ([], [])
  "|".intercalate outs

def main : IO Unit := runStateless handle
