import EdbVerif.Model.Topo
import Driver.Common
open EdbVerif EdbVerif.Topo EdbVerif.Driver

/-- line: `<allow 0|1>;k w m d c;k w m d c;…` with `-` for an empty list. -/
def parseEntry (s : String) : Option Entry :=
  match (trim s).splitOn " " with
  | [k, w, m, d, c] =>
    k.toNat?.map fun k => { key := k, weak := parseNats w, merge := parseNats m,
                             deps := parseNats d, ctrl := parseNats c }
  | _ => none

def handle (line : String) : String :=
  match line.splitOn ";" with
  | [] => "bad-op"
  | a :: es =>
    let g := es.filterMap parseEntry
    if g.length != es.length then "bad-op" else
    match sortEx g (a == "1") with
    | .ok o => s!"ok {showNats o}"
    | .cycle i p => s!"cycle {i} {showNats p}"
    | .unresolved d i => s!"unres {d} {i}"

def main : IO Unit := runStateless handle
