import EdbVerif.Model.Schema
import Driver.Common
open EdbVerif EdbVerif.Schema EdbVerif.Driver

/-!
Line protocol (fields separated by `|`, lists by `,`, empty list `-`):

`plan|old|new|sim|subconf|renames|guidance|parentConf|inheriting|ancNew|ancOld`
  * `old`, `new`      names in iteration order
  * `sim`, `subconf`  `y>x=NNN` entries (NNN in 1/1000); every candidate pair must have a `sim` entry
  * `renames`         `old>new` entries
  * `guidance`        `none` or `C:a,b/A:y>x,y>x/D:a,b`  (`-` for empty lists)
  * `parentConf`      `none` or NNN
  * `inheriting`      0 | 1
  * `ancNew`, `ancOld` `name^a.b.c` entries (`name^` for no ancestors)
answer: `ok C:x=conf,…|A:y>x=conf,…|S:y>x,…|D:y=conf,…` or `cycle`

`mig|A|B|sim` / `chain|sim|S1|S2|…`: see `handleMig`.
-/

def splitList (s : String) : List String :=
  if s == "-" || s == "" then [] else s.splitOn ","

def parsePair (s : String) : Option (String × String) :=
  match s.splitOn ">" with
  | [a, b] => some (a, b)
  | _ => none

def parseEntry (s : String) : Option ((String × String) × Nat) :=
  match s.splitOn "=" with
  | [p, n] => do
    let p ← parsePair p
    let n ← n.toNat?
    some (p, n)
  | _ => none

def allSome {α} (l : List (Option α)) : Option (List α) :=
  l.foldr (fun o acc => do let a ← o; let r ← acc; some (a :: r)) (some [])

def parseAnc (s : String) : Option (List (String × List String)) :=
  allSome <| (splitList s).map fun e =>
    match e.splitOn "^" with
    | [n, a] => some (n, if a == "" then [] else a.splitOn ".")
    | _ => none

def parseGuidance (s : String) : Option (Option Guidance) :=
  if s == "none" then some none else
  match s.splitOn "/" with
  | [c, a, d] =>
    if c.startsWith "C:" && a.startsWith "A:" && d.startsWith "D:" then do
      let al ← allSome ((splitList (a.drop 2).toString).map parsePair)
      some (some { bannedCreate := splitList (c.drop 2).toString, bannedAlter := al,
                   bannedDelete := splitList (d.drop 2).toString })
    else none
  | _ => none

def lookup2 (l : List ((String × String) × Nat)) (dflt : Nat) (y x : String) : Nat :=
  match l.find? (fun e => e.1 == (y, x)) with
  | some e => e.2
  | none => dflt

def lookupAnc (l : List (String × List String)) (n : String) : List String :=
  match l.find? (fun e => e.1 == n) with
  | some e => e.2
  | none => []

def nodupB (l : List String) : Bool :=
  match l with
  | [] => true
  | a :: as => !as.contains a && nodupB as

def showConf (l : List (String × Nat)) : String :=
  if l.isEmpty then "-" else ",".intercalate (l.map fun p => s!"{p.1}={p.2}")

def showPlan (p : Plan) : String :=
  let al := p.matched.filterMap fun m => m.conf.map fun c => s!"{m.y}>{m.x}={c}"
  let sm := p.matched.filterMap fun m => match m.conf with
    | none => some s!"{m.y}>{m.x}" | some _ => none
  let j (l : List String) := if l.isEmpty then "-" else ",".intercalate l
  s!"ok C:{showConf p.creates}|A:{j al}|S:{j sm}|D:{showConf p.deletes}"

def handlePlan (f : List String) : String :=
  match f with
  | [old, new, sim, sub, ren, gd, pc, inh, an, ao] =>
    let old := splitList old
    let new := splitList new
    let r : Option String := do
      let sim ← allSome ((splitList sim).map parseEntry)
      let sub ← allSome ((splitList sub).map parseEntry)
      let ren ← allSome ((splitList ren).map parsePair)
      let gd ← parseGuidance gd
      let pc ← if pc == "none" then some none else pc.toNat?.map some
      let inh ← if inh == "0" then some false else if inh == "1" then some true else none
      let an ← parseAnc an
      let ao ← parseAnc ao
      if !(nodupB old && nodupB new) then none
      if !((candidates old new).all fun p => sim.any (fun e => e.1 == (p.2, p.1))) then none
      if !(sim.all (fun e => e.2 ≤ 1000) && sub.all (fun e => e.2 ≤ 1000)) then none
      let e : Env := { sim := lookup2 sim 0, subconf := lookup2 sub 1000, renames := ren,
                       guidance := gd, parentConf := pc, inheriting := inh,
                       ancNew := lookupAnc an, ancOld := lookupAnc ao }
      match planObjs e old new with
      | .ok p => some (showPlan p)
      | .error .inhCycle => some "cycle"
    r.getD "bad-op"
  | _ => "bad-op"


/-! ### schema-level ops (model self-test / plan inspection)

schema: objects separated by `;`, each `cls:name:data:ref.ref…` with ref = `cls/name` (`-` = empty schema)
`mig|A|B|simtable|default`  — `simtable` entries `y>x=NNN` (by name); the similarity of an old/new pair is
  1000 when the old object equals the new one after the context's renames, else min 999 (table or default).
answer: `ok same <cmds>` | `ok DIFF <cmds>` | `err <kind>`, `<cmds>` = rendered command list
`chain|simtable|default|S1|S2|…` — migrate ∅ → S1 → S2 …; answer `ok same` iff the end equals the last schema. -/

def parseKey (s : String) : Option Key :=
  match s.splitOn "/" with
  | [c, n] => c.toNat?.map fun c => (c, n)
  | _ => none

def parseObj (s : String) : Option Obj :=
  match s.splitOn ":" with
  | [c, n, d, r] => do
    let c ← c.toNat?
    let d ← d.toNat?
    let rs ← allSome ((if r == "" then [] else r.splitOn ".").map parseKey)
    some { cls := c, name := n, data := d, refs := rs }
  | _ => none

def parseSchema (s : String) : Option Schema :=
  if s == "-" || s == "" then some [] else allSome ((s.splitOn ";").map parseObj)

def showKey (k : Key) : String := s!"{k.1}/{k.2}"
def showObj (o : Obj) : String :=
  s!"{o.cls}:{o.name}:{o.data}:{".".intercalate (o.refs.map showKey)}"
def showCmd : Cmd → String
  | .create o => s!"C {showObj o}"
  | .rename c o n => s!"R {c}/{o}>{n}"
  | .alter c n d rs => s!"A {c}/{n}:{d}:{".".intercalate (rs.map showKey)}"
  | .delete c n => s!"D {c}/{n}"
def showErr : Err → String
  | .exists_ k => s!"exists {showKey k}"
  | .missing k => s!"missing {showKey k}"
  | .dangling k r => s!"dangling {showKey k} {showKey r}"
  | .referenced k b => s!"referenced {showKey k} {showKey b}"
  | .cycle => "cycle"
  | .blocked k => s!"blocked {showKey k}"
  | .unstable => "unstable"
  | .plan _ => "plan"

def mkSim (tbl : List ((String × String) × Nat)) (dflt : Nat) : Sim := fun ctx y x =>
  -- objects.py:1517 — a shared reference to an object that is being deleted forces a drop
  if (y.refs.map (rn ctx.renames)).any (fun r => x.refs.contains r && ctx.deletions.contains r) then 0
  else if renameObj ctx.renames y == x && y.name == x.name then 1000 else min 999 (lookup2 tbl dflt y.name x.name)

def sameSchema (a b : Schema) : Bool :=
  a.length == b.length && a.all (fun o => b.contains o) && b.all (fun o => a.contains o)

def handleMig (f : List String) : String :=
  match f with
  | [a, b, tbl, d] =>
    let r : Option String := do
      let a ← parseSchema a
      let b ← parseSchema b
      let tbl ← allSome ((splitList tbl).map parseEntry)
      let d ← d.toNat?
      let sim := mkSim tbl d
      match diff sim a b with
      | .error e => some s!"err {showErr e}"
      | .ok cmds =>
        let cs := ", ".intercalate (cmds.map showCmd)
        match applyAll a cmds with
        | .error e => some s!"ok APPLYERR {showErr e} [{cs}]"
        | .ok r => some (if sameSchema r b then s!"ok same [{cs}]" else s!"ok DIFF [{cs}]")
    r.getD "bad-op"
  | _ => "bad-op"

def handleChain (f : List String) : String :=
  match f with
  | tbl :: d :: ss =>
    let r : Option String := do
      let tbl ← allSome ((splitList tbl).map parseEntry)
      let d ← d.toNat?
      let ss ← allSome (ss.map parseSchema)
      let last ← ss.getLast?
      match migrateChain (mkSim tbl d) [] ss with
      | .error e => some s!"err {showErr e}"
      | .ok r => some (if sameSchema r last then "ok same" else "ok DIFF")
    r.getD "bad-op"
  | _ => "bad-op"

def handle (line : String) : String :=
  match line.splitOn "|" with
  | "plan" :: f => handlePlan f
  | "mig" :: f => handleMig f
  | "chain" :: f => handleChain f
  | _ => "bad-op"

def main : IO Unit := runStateless handle
