import EdbVerif.Model.MiniQL
import Driver.Common
open EdbVerif EdbVerif.Driver EdbVerif.Gen.Card EdbVerif.MiniQL

/-!
Line protocol for C06.

* `comb <name> <args…>`                 — one generated combinator (see `comb`)
* `infer <ptrs>|<fns>|<descs>|<params>|<term>`           — `accepts`, `inferCard`, `inferMult` of a closed term
* `eval <ptrs>|<fns>|<descs>|<params>|<objs>|<data>|<pvals>|<term>` — `eval` on a database

`<ptrs>`  `srcTy,required,multi,link,exclusive;…`  (link = -1 for a property, else the target type)
`<fns>`   `PARAMS,RET,isOp,kind,impl;…`  PARAMS/RET over S(ingleton) O(ptional) A(=SET OF), `-` for no parameter;
          kind e(q) a(nd) p(lus) o(ther)
`<descs>` `t:d.d.d,…` transitive strict descendants per object type (`-` for none)
`<params>` one digit per query parameter, 1 = required, 0 = optional (`-` for none); `<pvals>` `v,v,…`, `n` = `{}`
`<objs>`  `id:ty,…`     `<data>`  `p:id=v v v;…` with values `i<int>` / `o<id>`
`<term>`  prefix notation, see `parseQ`.
Malformed input gives `bad-op`.
-/

def parseCard (s : String) : Option Cardinality := Cardinality.all.find? (·.pyName == s)
def parseBound (s : String) : Option CardinalityBound := CardinalityBound.all.find? (·.pyName == s)
def parseTM (s : String) : Option TypeModifier := TypeModifier.all.find? (·.pyName == s)
def parseMult (s : String) : Option Multiplicity := Multiplicity.all.find? (·.pyName == s)

def allSome {α : Type} (l : List (Option α)) : Option (List α) :=
  l.foldr (fun x acc => match x, acc with
    | some a, some as => some (a :: as)
    | _, _ => none) (some [])

def parseList {α : Type} (f : String → Option α) (s : String) : Option (List α) :=
  if s == "-" then some [] else allSome ((s.splitOn ",").map f)

def showExcept (r : Except PyErr String) : String :=
  match r with
  | .ok s => s
  | .error e => s!"err {e.pyName}"

def comb (ws : List String) : String :=
  match ws with
  | ["cartesian", a] => match parseList parseCard a with
    | some cs => (cartesianCardinality cs).pyName
    | none => "bad-op"
  | ["union", a] => match parseList parseCard a with
    | some cs => (unionCardinality cs).pyName
    | none => "bad-op"
  | ["max", a] => match parseList parseCard a with
    | some cs => showExcept ((maxCardinality cs).map (·.pyName))
    | none => "bad-op"
  | ["min", a] => match parseList parseCard a with
    | some cs => showExcept ((minCardinality cs).map (·.pyName))
    | none => "bad-op"
  | ["unzip", a] => match parseList parseCard a with
    | some cs =>
      let (l, u) := cardUnzip cs
      s!"{",".intercalate (l.map (·.pyName))} {",".intercalate (u.map (·.pyName))}"
    | none => "bad-op"
  | ["product", a] => match parseList parseBound a with
    | some bs => (product bs).pyName
    | none => "bad-op"
  | ["typemod", a] => match parseTM a with
    | some t => (typemodToCard t).pyName
    | none => "bad-op"
  | ["c2b", a] => match parseCard a with
    | some c => s!"{(cardToBounds c).lower.pyName} {(cardToBounds c).upper.pyName}"
    | none => "bad-op"
  | ["b2c", a, b] => match parseBound a, parseBound b with
    | some l, some u => (boundsToCard l u).pyName
    | _, _ => "bad-op"
  | ["badd", a, n] => match parseBound a, n.toNat? with
    | some b, some k => (b.add k).pyName
    | _, _ => "bad-op"
  | ["bmul", a, n] => match parseBound a, n.toNat? with
    | some b, some k => (b.mul k).pyName
    | _, _ => "bad-op"
  | ["breq", a] => match parseBound a with
    | some b => toString b.asRequired
    | none => "bad-op"
  | ["bsc", a] => match parseBound a with
    | some b => b.asSchemaCardinality.pyName
    | none => "bad-op"
  | ["bfromreq", a] => match a with
    | "true" => (CardinalityBound.fromRequired true).pyName
    | "false" => (CardinalityBound.fromRequired false).pyName
    | _ => "bad-op"
  | ["bfromsc", a] => match SchemaCardinality.all.find? (·.pyName == a) with
    | some c => (CardinalityBound.fromSchemaValue c).pyName
    | none => "bad-op"
  | ["subset", a, b] => match parseCard a, parseCard b with
    | some x, some y => toString (isSubsetCardinality x y)
    | _, _ => "bad-op"
  | ["preds", a] => match parseCard a with
    | some c => s!"{c.isSingle} {c.isMulti} {c.canBeZero}"
    | none => "bad-op"
  | ["maxmult", a] => match parseList parseMult a with
    | some ms => showExcept ((maxMultiplicity (ms.map fun m => { own := m })).map
        fun r => s!"{r.own.pyName} {r.disjoint_union} {r.fresh_free_object}")
    | none => "bad-op"
  | ["minmult", a] => match parseList parseMult a with
    | some ms => showExcept ((minMultiplicity (ms.map fun m => { own := m })).map
        fun r => s!"{r.own.pyName} {r.disjoint_union} {r.fresh_free_object}")
    | none => "bad-op"
  | _ => "bad-op"

/-! ### terms -/

partial def parseQ : List String → Option (Q × List String)
  | "L" :: n :: r => n.toInt?.map fun n => (Q.lit n, r)
  | "E" :: r => some (.empty, r)
  | "C" :: k :: r => do
    let k ← k.toNat?
    if r.length < k then none
    let es ← allSome ((r.take k).map fun w =>
      if w.startsWith "p" then (w.drop 1).toString.toNat?.map CElem.p else w.toInt?.map CElem.c)
    some (.constSet es, r.drop k)
  | "M" :: i :: r => i.toNat?.map fun i => (.param i, r)
  | "V" :: i :: r => i.toNat?.map fun i => (.var i, r)
  | "R" :: t :: r => t.toNat?.map fun t => (.root t, r)
  | "P" :: p :: r => do
    let p ← p.toNat?
    let (s, r) ← parseQ r
    some (.path s p, r)
  | "T" :: k :: r => do
    let k ← k.toNat?
    let (es, r) ← parseQs k r
    some (.tuple es, r)
  | "U" :: r => do
    let (a, r) ← parseQ r
    let (b, r) ← parseQ r
    some (.union a b, r)
  | "D" :: r => do
    let (a, r) ← parseQ r
    some (.distinct a, r)
  | "Q" :: r => do
    let (a, r) ← parseQ r
    let (b, r) ← parseQ r
    some (.coalesce a b, r)
  | "I" :: r => do
    let (a, r) ← parseQ r
    let (c, r) ← parseQ r
    let (b, r) ← parseQ r
    some (.ifElse a c b, r)
  | "F" :: f :: k :: r => do
    let f ← f.toNat?
    let k ← k.toNat?
    let (es, r) ← parseQs k r
    some (.call f es, r)
  | "W" :: r => do
    let (a, r) ← parseQ r
    let (w, r) ← parseQ r
    some (.filter a w, r)
  | "K" :: r => do
    let (a, r) ← parseQ r
    let (k, r) ← parseQ r
    some (.limit a k, r)
  | "KC" :: n :: r => do
    let n ← n.toNat?
    let (a, r) ← parseQ r
    some (.limitC a n, r)
  | "O" :: r => do
    let (a, r) ← parseQ r
    let (k, r) ← parseQ r
    some (.offset a k, r)
  | "X" :: r => do
    let (a, r) ← parseQ r
    let (b, r) ← parseQ r
    some (.for_ a b, r)
  | _ => none
where
  parseQs : Nat → List String → Option (List Q × List String)
    | 0, r => some ([], r)
    | k + 1, r => do
      let (q, r) ← parseQ r
      let (qs, r) ← parseQs k r
      some (q :: qs, r)

def parseTerm (s : String) : Option Q :=
  match parseQ ((trim s).splitOn " ") with
  | some (q, []) => some q
  | _ => none

def parseBool01 (s : String) : Option Bool :=
  if s == "1" then some true else if s == "0" then some false else none

def parsePtr (s : String) : Option PtrDecl :=
  match s.splitOn "," with
  | [a, b, c, d, e] => do
    let src ← a.toNat?
    let req ← parseBool01 b
    let mul ← parseBool01 c
    let link ← d.toInt?
    let exc ← parseBool01 e
    some { srcTy := src, required := req, multi := mul,
           link := if link < 0 then none else some link.toNat, exclusive := exc }
  | _ => none

def parseTMs (s : String) : Option (List TypeModifier) :=
  if s == "-" then some [] else
  allSome (s.toList.map fun c =>
    if c == 'S' then some TypeModifier.SingletonType
    else if c == 'O' then some .OptionalType
    else if c == 'A' then some .SetOfType else none)

def intOf : Val → Option Int
  | .int n => some n
  | _ => none

/-- concrete interpretations, selected by name (ill-shaped arguments give a default value of the
    declared return modifier, so that every interpretation satisfies `SigOK`) -/
def implOf (name : String) : Option (List (List Val) → List Val) :=
  match name with
  | "count" => some fun a => match a with
    | [s] => [Val.int s.length]
    | _ => [Val.int 0]
  | "exists" => some fun a => match a with
    | [s] => [Val.ofBool (!s.isEmpty)]
    | _ => [Val.int 0]
  | "plus" => some fun a => match a with
    | [[Val.int x], [Val.int y]] => [Val.int (x + y)]
    | _ => [Val.int 0]
  | "mul" => some fun a => match a with
    | [[Val.int x], [Val.int y]] => [Val.int (x * y)]
    | _ => [Val.int 0]
  | "eq" => some fun a => match a with
    | [[x], [y]] => [Val.ofBool (x == y)]
    | _ => [Val.int 0]
  | "ne" => some fun a => match a with
    | [[x], [y]] => [Val.ofBool (x != y)]
    | _ => [Val.int 0]
  | "lt" => some fun a => match a with
    | [[Val.int x], [Val.int y]] => [Val.ofBool (x < y)]
    | _ => [Val.int 0]
  | "opteq" => some fun a => match a with
    | [x, y] => [Val.ofBool (x == y)]
    | _ => [Val.int 0]
  | "in" => some fun a => match a with
    | [[x], s] => [Val.ofBool (s.contains x)]
    | _ => [Val.int 0]
  | "not" => some fun a => match a with
    | [[x]] => [Val.ofBool (!x.truthy)]
    | _ => [Val.int 0]
  | "and" => some fun a => match a with
    | [[x], [y]] => [Val.ofBool (x.truthy && y.truthy)]
    | _ => [Val.int 0]
  | "or" => some fun a => match a with
    | [[x], [y]] => [Val.ofBool (x.truthy || y.truthy)]
    | _ => [Val.int 0]
  | "sum" => some fun a => match a with
    | [s] => [Val.int ((s.filterMap intOf).foldl (· + ·) 0)]
    | _ => [Val.int 0]
  | "min" => some fun a => match a with
    | [s] => match s.filterMap intOf with
      | [] => []
      | x :: xs => [Val.int (xs.foldl min x)]
    | _ => []
  | "any" => some fun a => match a with
    | [s] => [Val.ofBool (s.any Val.truthy)]
    | _ => [Val.int 0]
  | "none" => some fun _ => []
  | _ => none

def parseFn (s : String) : Option FnDecl :=
  match s.splitOn "," with
  | [ps, r, op, k, im] => do
    let params ← parseTMs ps
    let ret ← match ← parseTMs r with
      | [t] => some t
      | _ => none
    let isOp ← parseBool01 op
    let kind ← match k with
      | "e" => some FnKind.eq
      | "a" => some .and_
      | "p" => some .plus
      | "o" => some .other
      | _ => none
    let impl ← implOf im
    some { params := params, ret := ret, isOp := isOp, kind := kind, impl := impl }
  | _ => none

def parseSemi {α : Type} (f : String → Option α) (s : String) : Option (List α) :=
  if s == "-" || s == "" then some [] else allSome ((s.splitOn ";").map f)

/-- `t:d.d.d,t:d` (types without descendants omitted), `-` for none -/
def parseDescs (s : String) : Option (List (List Nat)) :=
  if s == "-" || s == "" then some [] else do
    let ents ← allSome ((s.splitOn ",").map fun e =>
      match e.splitOn ":" with
      | [t, ds] => do
        let t ← t.toNat?
        let ds ← allSome ((ds.splitOn ".").map String.toNat?)
        some (t, ds)
      | _ => none)
    let n := ents.foldl (fun m e => max m (e.1 + 1)) 0
    some ((List.range n).map fun t => match ents.find? (·.1 == t) with
      | some e => e.2
      | none => [])

def parseSchema (ps fs ds pr : String) : Option Schema := do
  let ptrs ← parseSemi parsePtr ps
  let fns ← parseSemi parseFn fs
  let descs ← parseDescs ds
  let params ← if pr == "-" || pr == "" then some [] else allSome (pr.toList.map fun c => parseBool01 c.toString)
  some { ptrs := ptrs, fns := fns, descs := descs, params := params }

def parseVal (s : String) : Option Val :=
  if s.startsWith "i" then (s.drop 1).toString.toInt?.map Val.int
  else if s.startsWith "o" then (s.drop 1).toString.toNat?.map Val.obj
  else none

def parseObj (s : String) : Option (Nat × Nat) :=
  match s.splitOn ":" with
  | [a, b] => do some (← a.toNat?, ← b.toNat?)
  | _ => none

def parseDatum (s : String) : Option ((Nat × Nat) × List Val) :=
  match s.splitOn "=" with
  | [k, vs] => do
    let key ← parseObj k
    let vals ← if vs == "" then some [] else allSome ((vs.splitOn " ").map parseVal)
    some (key, vals)
  | _ => none

def parseDB (os ds pv : String) : Option DB := do
  let objs ← if os == "-" || os == "" then some [] else allSome ((os.splitOn ",").map parseObj)
  let ptrs ← parseSemi parseDatum ds
  let params ← if pv == "-" || pv == "" then some [] else
    allSome ((pv.splitOn ",").map fun w => if w == "n" then some none else w.toInt?.map some)
  some { objs := objs, ptrs := ptrs, params := params }

partial def showVal : Val → String
  | .int n => toString n
  | .obj i => s!"o{i}"
  | .unit => "()"
  | .pair a b => "(" ++ ",".intercalate (elems (.pair a b)) ++ ")"
where
  elems : Val → List String
    | .pair a b => showVal a :: elems b
    | .unit => []
    | v => ["|" ++ showVal v]

def handle (line : String) : String :=
  match (trim line).splitOn " " with
  | "comb" :: ws => comb ws
  | "infer" :: rest =>
    match (" ".intercalate rest).splitOn "|" with
    | [ps, fs, ds, pr, t] =>
      match parseSchema (trim ps) (trim fs) (trim ds) (trim pr), parseTerm t with
      | some sch, some q =>
        if accepts sch [] q then
          let c := inferCard sch [] q
          let m := inferMult sch [] none q
          s!"{c.pyName} {m.info.own.pyName} {if m.info.disjoint_union then 1 else 0}"
        else "reject"
      | _, _ => "bad-op"
    | _ => "bad-op"
  | "eval" :: rest =>
    match (" ".intercalate rest).splitOn "|" with
    | [ps, fs, hs, pr, os, ds, pv, t] =>
      match parseSchema (trim ps) (trim fs) (trim hs) (trim pr), parseDB (trim os) (trim ds) (trim pv),
          parseTerm t with
      | some sch, some db, some q =>
        let vs := eval sch db [] q
        if vs.isEmpty then "-" else " ".intercalate (vs.map showVal)
      | _, _, _ => "bad-op"
    | _ => "bad-op"
  | _ => "bad-op"

def main : IO Unit := runStateless handle
