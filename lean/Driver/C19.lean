import Lean.Data.Json
import EdbVerif.Model.Config
import Driver.Common
open EdbVerif EdbVerif.Config EdbVerif.Driver
open Lean (Json)

/-!
Line protocol (one line in, one line out; the spec is the only state):

* `spec <json>`                      → `ok`
* `seq <json {"ops":[[code,scope,name,jv]…],"look":[names…]}>`
                                     → `{"steps":[[res,targeted map]…],"final":…,"look":[…]}`
* `edgeql <map>` / `tojson <map>` / `fromjson <jv>` → `{"ok":…}` | `{"err":cls}`
* `dur <json string>` / `iso <json string>` / `toiso <int>` / `mem <json string>` / `memstr <int>`

Encodings.  jv: `null | true | 5 | "s" | {"l":[jv…]} | {"o":[[k,jv]…]}`.
Stored values: `null | true | 5 | "s" | {"e":s} | {"d":us} | {"m":n} | {"set":[…]} |
{"obj":tspec,"f":[[k,fval]…]} | {"objs":[…]}`.
Anything malformed → `bad-op`.
-/

abbrev P := Except Unit

def fail {α} : P α := .error ()
def optP {α} : Option α → P α | some a => .ok a | none => .error ()
def exP {α} : Except String α → P α | .ok a => .ok a | .error _ => .error ()

def getInt (j : Json) : P Int :=
  match j with
  | .num n => if n.exponent == 0 then .ok n.mantissa else fail
  | _ => fail

def key (j : Json) (k : String) : P Json := exP (j.getObjVal? k)
def keyOpt (j : Json) (k : String) : Option Json := (j.getObjVal? k).toOption
def arr (j : Json) : P (List Json) := match j with | .arr a => .ok a.toList | _ => fail
def str (j : Json) : P String := match j with | .str s => .ok s | _ => fail
def jbool (j : Json) : P Bool := match j with | .bool b => .ok b | _ => fail

partial def decJV (j : Json) : P JV :=
  match j with
  | .null => .ok .null
  | .bool b => .ok (.bool b)
  | .num _ => (getInt j).map .int
  | .str s => .ok (.str s)
  | _ =>
    match keyOpt j "l", keyOpt j "o" with
    | some l, _ => do
      let xs ← arr l
      let ys ← xs.mapM decJV
      pure (.list ys)
    | _, some o => do
      let xs ← arr o
      let ys ← xs.mapM fun kv => do
        match ← arr kv with
        | [k, v] => pure ((← str k), (← decJV v))
        | _ => fail
      pure (.obj ys)
    | _, _ => fail

partial def encJV : JV → Json
  | .null => .null
  | .bool b => .bool b
  | .int i => Lean.toJson i
  | .str s => .str s
  | .list l => Json.mkObj [("l", .arr (l.map encJV).toArray)]
  | .obj kvs => Json.mkObj [("o", .arr (kvs.map fun kv => Json.arr #[.str kv.1, encJV kv.2]).toArray)]

def decScalar (j : Json) : P Scalar :=
  match j with
  | .null => .ok .none
  | .bool b => .ok (.bool b)
  | .num _ => (getInt j).map .int
  | .str s => .ok (.str s)
  | _ =>
    match keyOpt j "e", keyOpt j "d", keyOpt j "m" with
    | some e, _, _ => (str e).map .enum
    | _, some d, _ => (getInt d).map .dur
    | _, _, some m => (getInt m).map .mem
    | _, _, _ => fail

def encScalar : Scalar → Json
  | .none => .null
  | .bool b => .bool b
  | .int i => Lean.toJson i
  | .str s => .str s
  | .enum s => Json.mkObj [("e", .str s)]
  | .dur us => Json.mkObj [("d", Lean.toJson us)]
  | .mem n => Json.mkObj [("m", Lean.toJson n)]

def decFVal (j : Json) : P FVal :=
  match keyOpt j "set" with
  | some l => do pure (.set (← (← arr l).mapM decScalar))
  | none => (decScalar j).map .sc

def encFVal : FVal → Json
  | .sc s => encScalar s
  | .set l => Json.mkObj [("set", .arr (l.map encScalar).toArray)]

def decSTy (j : Json) : P STy :=
  match j with
  | .str "bool" => .ok .bool | .str "int" => .ok .int | .str "str" => .ok .str
  | .str "dur" => .ok .dur | .str "mem" => .ok .mem
  | _ => do
    let vs ← (← arr (← key j "enum")).mapM str
    pure (.enum vs (← str (← key j "ql")))

def decFTy (j : Json) : P FTy :=
  match keyOpt j "sc", keyOpt j "set" with
  | some t, _ => (decSTy t).map .sc
  | _, some t => (decSTy t).map .set
  | _, _ => fail

def decField (j : Json) : P Field := do
  let d ← match keyOpt j "default" with
    | some d => (decFVal d).map some
    | none => pure none
  pure { name := ← str (← key j "name"), ty := ← decFTy (← key j "ty"),
         unique := ← jbool (← key j "unique"), default := d }

def decTBase (j : Json) : P TBase := do
  pure { name := ← str (← key j "name"), fields := ← (← arr (← key j "fields")).mapM decField }

def decTSpec (j : Json) : P TSpec := do
  let anc ← match keyOpt j "ancestors" with
    | some a => (← arr a).mapM decTBase
    | none => pure []
  pure { name := ← str (← key j "name"), fields := ← (← arr (← key j "fields")).mapM decField,
         ancestors := anc }

def encObj (o : Obj) : Json :=
  Json.mkObj [("obj", .str o.tspec.name),
              ("f", .arr (o.vals.map fun kv => Json.arr #[.str kv.1, encFVal kv.2]).toArray)]

def decObj (sp : Spec) (j : Json) : P Obj := do
  let t ← optP (sp.getType (← str (← key j "obj")))
  let vs ← (← arr (← key j "f")).mapM fun kv => do
    match ← arr kv with
    | [k, v] => pure ((← str k), (← decFVal v))
    | _ => fail
  pure { tspec := t, vals := vs }

def decVal (sp : Spec) (j : Json) : P Val :=
  match keyOpt j "set", keyOpt j "obj", keyOpt j "objs" with
  | some l, _, _ => do pure (.set (← (← arr l).mapM decScalar))
  | _, some _, _ => (decObj sp j).map .obj
  | _, _, some l => do pure (.objs (← (← arr l).mapM (decObj sp)))
  | _, _, _ => (decScalar j).map .sc

def encVal : Val → Json
  | .sc s => encScalar s
  | .set l => Json.mkObj [("set", .arr (l.map encScalar).toArray)]
  | .obj o => encObj o
  | .objs l => Json.mkObj [("objs", .arr (l.map encObj).toArray)]

def decScope (j : Json) : P Scope := do optP (Scope.ofName (← str j))

def encSV (sv : SV) : Json :=
  Json.mkObj [("n", .str sv.name), ("v", encVal sv.value), ("src", .str sv.source),
              ("sc", .str sv.scope.name)]

def encMap (m : SMap) : Json := .arr (m.map fun kv => Json.arr #[.str kv.1, encSV kv.2]).toArray

def decMap (sp : Spec) (j : Json) : P SMap := do
  (← arr j).mapM fun kv => do
    match ← arr kv with
    | [k, e] =>
      let sv : SV := { name := ← str (← key e "n"), value := ← decVal sp (← key e "v"),
                       source := ← str (← key e "src"), scope := ← decScope (← key e "sc") }
      pure ((← str k), sv)
    | _ => fail

/-- the spec needs two passes: object values in defaults refer to types -/
def decSpec (j : Json) : P Spec := do
  let ss ← arr (← key j "settings")
  let pre : List (String × Ty × Bool × Json) ← ss.mapM fun s => do
    let ty ← match keyOpt (← key s "ty") "sc", keyOpt (← key s "ty") "obj" with
      | some t, _ => (decSTy t).map Ty.sc
      | _, some t => (decTSpec t).map Ty.obj
      | _, _ => fail
    pure ((← str (← key s "name")), ty, (← jbool (← key s "setOf")), (← key s "default"))
  let types ← (← arr (← key j "types")).mapM decTSpec
  let sp0 : Spec := { settings := pre.map fun (n, ty, so, _) =>
    { name := n, ty := ty, setOf := so, default := .sc .none }, types := types }
  let settings ← pre.mapM fun (n, ty, so, d) => do
    pure ({ name := n, ty := ty, setOf := so, default := ← decVal sp0 d } : Setting)
  pure { settings := settings, types := types }

def decOp (j : Json) : P Op := do
  match ← arr j with
  | [c, s, n, v] =>
    let code ← match c with
      | .str "SET" => pure OpCode.set | .str "RESET" => pure OpCode.reset
      | .str "ADD" => pure OpCode.add | .str "REM" => pure OpCode.rem
      | _ => fail
    pure { code := code, scope := ← decScope s, name := ← str n, value := ← decJV v }
  | _ => fail

def errJ (e : Err) : Json := Json.mkObj [("err", .str e.name)]

def resJ {α} (enc : α → Json) : Except Err α → Json
  | .ok a => Json.mkObj [("ok", enc a)]
  | .error e => errJ e

def lookJ : Except Err (Option Val) → Json
  | .ok (some v) => Json.mkObj [("ok", encVal v)]
  | .ok none => Json.mkObj [("none", .bool true)]
  | .error e => errJ e

def finalJ (sp : Spec) (m : SMap) : Json :=
  let tj := toJson sp m
  let rt : Json := match tj with
    | .ok j => resJ encMap (fromJson sp j)
    | .error e => errJ e
  Json.mkObj [("map", encMap m), ("tojson", resJ encJV tj), ("rt", rt)]

def doSeq (sp : Spec) (j : Json) : P Json := do
  let ops ← (← arr (← key j "ops")).mapM decOp
  let look ← (← arr (← key j "look")).mapM str
  let (st, steps) := ops.foldl (fun (acc : State × List Json) op =>
      let (st', e) := step sp acc.1 op
      let r : Json := match e with | none => .str "ok" | some e => .str e.name
      (st', Json.arr #[r, encMap (st'.map op.scope)] :: acc.2)) (({} : State), [])
  let looks := look.map fun n =>
    Json.arr #[lookJ (effective sp st n),
               lookJ (lookup sp n [st.db, st.inst]),
               lookJ (lookup sp n [st.inst] (allowUnrecognized := true))]
  pure (Json.mkObj [("steps", .arr steps.reverse.toArray),
                    ("final", Json.arr #[finalJ sp st.sess, finalJ sp st.db, finalJ sp st.inst]),
                    ("look", .arr looks.toArray)])

def durRes : Except Duration.DErr Int → String
  | .ok v => s!"ok {v}"
  | .error e => (durErr e).name

def splitCmd (line : String) : String × String :=
  match line.splitOn " " with
  | [] => ("", "")
  | c :: rest => (c, " ".intercalate rest)

def pj (s : String) : P Json := exP (Json.parse s)

def handle (sp : Spec) (line : String) : Spec × String :=
  let (cmd, arg) := splitCmd line
  let out (r : P String) : Spec × String := match r with | .ok s => (sp, s) | .error _ => (sp, "bad-op")
  match cmd with
  | "spec" =>
    match (do decSpec (← pj arg) : P Spec) with
    | .ok sp' => (sp', "ok")
    | .error _ => (sp, "bad-op")
  | "seq" => out do pure (← doSeq sp (← pj arg)).compress
  | "edgeql" => out do
      let m ← decMap sp (← pj arg)
      pure (resJ (fun (l : List String) => Json.arr (l.map Json.str).toArray) (toEdgeQL sp m)).compress
  | "tojson" => out do
      let m ← decMap sp (← pj arg)
      pure (resJ encJV (toJson sp m)).compress
  | "fromjson" => out do
      let j ← decJV (← pj arg)
      pure (resJ encMap (fromJson sp j)).compress
  | "dur" => out do pure (durRes (Duration.usFromPgText (← str (← pj arg)).toList))
  | "iso" => out do pure (durRes (Duration.fromIso (← str (← pj arg)).toList))
  | "toiso" => out do pure (Json.str (String.ofList (Duration.toIso (← getInt (← pj arg))))).compress
  | "durrt" => out do
      let us ← getInt (← pj arg)
      let t := Duration.toIso us
      pure (Json.arr #[.str (String.ofList t), .str (durRes (Duration.usFromPgText t)),
                       .str (durRes (Duration.fromIso t))]).compress
  | "memrt" => out do
      let n ← getInt (← pj arg)
      let t := Memory.memToStr n
      let r := match Memory.parseMemory t with | some n => s!"ok {n}" | none => "InvalidValueError"
      pure (Json.arr #[.str (String.ofList t), .str r]).compress
  | "mem" => out do
      match Memory.parseMemory (← str (← pj arg)).toList with
      | some n => pure s!"ok {n}"
      | none => pure "InvalidValueError"
  | "memstr" => out do pure (Json.str (String.ofList (Memory.memToStr (← getInt (← pj arg))))).compress
  | _ => (sp, "bad-op")

def main : IO Unit := runStateful ({ settings := [] } : Spec) handle
