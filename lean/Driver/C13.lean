import Driver.C13Lib
import Driver.Common
open EdbVerif.Driver

/-! C13 line-protocol driver; the protocol, parser and handlers are in `Driver/C13Lib.lean`
    (a separate, pre-compiled module so that `lean --run` starts quickly). -/

def main : IO Unit := runStateless EdbVerif.DriverC13.handle
