import EdbVerif.Model.SyncMT
import Driver.Common
open EdbVerif EdbVerif.Sync EdbVerif.SyncMT EdbVerif.Driver

/-!
Line protocol for the remote (three-tier) path, stateful:

* `J size|c g y db:s,r,cfg db:s,r,cfg|c g y …`   reset: cache size, then one group per client
* `Q c w db s r g cfg y out`                       `compile` of client `c` served by worker `w`;
                                                   `out ∈ ok|nostate|raise|spf|unp`

Token flags as in Driver/C17.lean (bit 1 = unpickling fails).  After every request the state
of clients 1..2, workers 0..2, databases 0..3 is printed (contents; stamps are not observable).
-/

def env : Env := tokEnv
def clients : List Nat := [1, 2]
def nWorkers : Nat := 3
def nDbs : Nat := 4

def showOpt : Option Nat → String
  | none => "-"
  | some t => toString t

def showNatsC (l : List Nat) : String :=
  if l.isEmpty then "-" else ",".intercalate (l.map toString)

def showBel (s : Side) : String :=
  let dbs := (List.range nDbs).filterMap fun db =>
    (s.dbs db).map fun d => s!"{db}:{d.schema},{d.refl},{d.dbcfg}"
  "{" ++ ";".intercalate dbs ++ s!"|{s.glob}|{s.sys}" ++ "}"

def showCS (v : CS) : String :=
  let dbs := (List.range nDbs).filterMap fun db =>
    (v.dbs db).map fun d => s!"{db}:{d.schema.tok},{d.refl.tok},{d.dbcfg.tok}"
  "{" ++ ";".intercalate dbs ++ s!"|{v.glob.tok}|{v.sys.tok}" ++ "}"

def showWC (x : WClient) : String :=
  let dbs := (List.range nDbs).filterMap fun db =>
    (x.dbs db).map fun d => s!"{db}:{d.schema},{d.refl},{d.dbcfg}"
  "{" ++ ";".intercalate dbs ++ s!"|{x.glob}|{x.sys}" ++ "}"

def showState (st : MTState) : String :=
  let t1 := clients.map fun c => s!"B{c}{showBel (st.bel c)}"
  let t2 := clients.map fun c => match st.cli c with
    | some v => s!"S{c}{showCS v}"
    | none => s!"S{c}-"
  let ws := (List.range nWorkers).map fun w =>
    let x := st.wk w
    let cache := x.cache.map fun e =>
      let cur := match st.cli e.1 with
        | some v => if v.ver = e.2.ver then "cur" else "old"
        | none => "gone"
      s!"{e.1}={cur}{showCS e.2}"
    let act := clients.filterMap fun c => (x.act c).map fun a => s!"{c}{showWC a}"
    s!"W{w} cache[{" ".intercalate cache}] inval[{showNatsC x.inval}] act[{" ".intercalate act}]"
  " ".intercalate (t1 ++ t2 ++ ws)

def showRes : Res → String
  | .ok => "ok" | .syncFail => "syncFail" | .compErr => "compErr"
  | .statePickleErr => "statePickleErr" | .serErr => "serErr" | .assertErr => "assertErr"
  | .keyErr => "keyErr" | .unpickleErr => "unpickleErr" | .typeErr => "typeErr"
  | .cbAssert => "cbAssert"

def showParts (p : Parts) : String :=
  ",".intercalate [showOpt p.schema, showOpt p.refl, showOpt p.glob, showOpt p.dbcfg, showOpt p.sys]

def showUsed : Option Used → String
  | none => "-"
  | some u => s!"{u.schema},{u.glob},{u.refl},{u.dbcfg},{u.sys}"

def showKind : Option DiffKind → String
  | none => "-" | some .insync => "insync" | some .full => "full" | some .diff => "diff"

def showDiff : Option Diff → String
  | none => "-"
  | some d =>
    let dbs := (List.range nDbs).filterMap fun db =>
      (d.dbs db).map fun p => s!"{db}:{showOpt p.schema},{showOpt p.refl},{showOpt p.dbcfg}"
    ";".intercalate dbs ++ s!"/{showOpt d.glob}/{showOpt d.sys}/{showNatsC d.dropped}"

def parseCOut : String → Option COut
  | "ok" => some .ok | "nostate" => some .okNoState | "raise" => some .raise
  | "spf" => some .statePickleFail | "unp" => some .resultUnpicklable
  | "req" => some .requestUnreadable | _ => none

def allNats (ws : List String) : Option (List Nat) :=
  let r := ws.filterMap (·.toNat?)
  if r.length == ws.length then some r else none

/-- `c g y db:s,r,cfg …` -/
def parseClient (s : String) : Option (Nat × Side × List Nat) :=
  match (trim s).splitOn " " with
  | c :: g :: y :: dbs =>
    match allNats [c, g, y] with
    | some [c, g, y] =>
      let ents := dbs.filterMap fun e =>
        match e.splitOn ":" with
        | [db, v] =>
          match db.toNat?, allNats (v.splitOn ",") with
          | some db, some [a, b, d] => some (db, (⟨a, b, d⟩ : Db3))
          | _, _ => none
        | _ => none
      if ents.length != dbs.length then none else
      let m : Nat → Option Db3 := ents.foldl (fun m (e : Nat × Db3) => setDb m e.1 e.2) (fun _ => none)
      some (c, { dbs := m, glob := g, sys := y, last := none }, ents.map (·.1))
    | _ => none
  | _ => none

def parseInit (line : String) : Option MTState :=
  match line.splitOn "|" with
  | size :: groups =>
    match (trim size).toNat? with
    | none => none
    | some size =>
      let cs := groups.filterMap parseClient
      if cs.length != groups.length then none else
      let find (c : Nat) := cs.find? (fun e => e.1 == c)
      let st := initMT (fun c => match find c with
                          | some e => e.2.1
                          | none => { dbs := fun _ => none, glob := 0, sys := 0, last := none })
                       (fun c => match find c with | some e => e.2.2 | none => []) size
      -- clients that were not declared are not connected
      some { st with cli := fun c => match find c with | some _ => st.cli c | none => none }
  | _ => none

def stepLine (st : MTState) (line : String) : MTState × String :=
  match (trim line).splitOn " " with
  | "J" :: rest =>
    match parseInit (" ".intercalate rest) with
    | some s => (s, "ok | " ++ showState s)
    | none => (st, "bad-op")
  | ["Q", c, w, db, s, r, g, cfg, y, out] =>
    match allNats [c, w, db, s, r, g, cfg, y], parseCOut out with
    | some [c, w, db, s, r, g, cfg, y], some out =>
      if w ≥ nWorkers || db ≥ nDbs || !clients.contains c then (st, "bad-op") else
      let (st', o) := stepMT env st ⟨c, ⟨w, db, s, r, g, cfg, y, out, 0⟩⟩
      (st', s!"sent={showParts o.sent} cb={if o.hasCb then 1 else 0} upd={if o.updated then 1 else 0} " ++
            s!"kind={showKind o.kind} diff={showDiff o.diff} inval={showNatsC o.inval} res={showRes o.res} " ++
            s!"used={showUsed o.used} | {showState st'}")
    | _, _ => (st, "bad-op")
  | _ => (st, "bad-op")

def main : IO Unit :=
  runStateful (initMT (fun _ => { dbs := fun _ => none, glob := 0, sys := 0, last := none })
                 (fun _ => []) 2) stepLine
