import EdbVerif.Model.Describe
import Driver.Common
open EdbVerif EdbVerif.Describe EdbVerif.Driver

/-!
Line protocol for C03 (fields separated by `|`, lists by `,`, `-` = empty/none).

* module          `a::b`
* qualified name  `a::b/name`;  reference: same, with module `-` when unqualified
* aliases         `k=a::b,k2=c`

Ops
* `R|cur|aliases|modules|names|ref`                      → `some m/n` | `none`       (`resolveRef`)
* `N|cur|aliases|modules|names|ref`                      → `some m/n` | `none`       (`resolveShell`)
* `C|cur|aliases|ref`                                    → `ok m/n` | `err …`         (`classname`)
* `T|cur|aliases|modules|names|objects|curmod|localmods|decl|ref` → `m/n`            (`resolveTracer`)
* `F|cls|f1,f2,…`                                        → `ok` | `diff model=…`      (`printedFields`)
* `D|lang|cur|aliases|stdmodules|stdnames|schema`        → `same` | `differs …` | `err …`
  (`lang` = `ddl`/`sdl`; describe the schema with the model's field table, print to tokens,
  parse, replay on the std-only environment under the context, compare with the schema)

schema = space separated tokens `mod:a::b`, `top:<head>`, `kid:<head>`, `enter:<head>`, `leave`
head   = `cls~atom~fname=atom+atom;fname=…`, atom = `s:<sym>` | `n:<qname>` | `t:<qname>`;
         the name atom of a `top` is `t:<qname>`.
-/

def parseMod (s : String) : Option ModName :=
  if s == "-" || s == "" then none else some (s.splitOn "::")

def showMod (m : ModName) : String := "::".intercalate m

def parseQName (s : String) : Option QName :=
  match s.splitOn "/" with
  | [m, n] => (parseMod m).map fun m => ⟨m, n⟩
  | _ => none

def parseRefS (s : String) : Option Ref :=
  match s.splitOn "/" with
  | [m, n] => some ⟨parseMod m, n⟩
  | _ => none

def showQ (q : QName) : String := s!"{showMod q.mod}/{q.name}"
def showRef (r : Ref) : String :=
  match r.mod with
  | some m => s!"{showMod m}/{r.name}"
  | none => s!"-/{r.name}"

def parseList {α : Type} (f : String → Option α) (s : String) : Option (List α) :=
  if s == "-" || s == "" then some [] else (s.splitOn ",").mapM f

def parseAlias (s : String) : Option (String × ModName) :=
  match s.splitOn "=" with
  | [k, m] => (parseMod m).map fun m => (k, m)
  | _ => none

def parseCtx (cur aliases : String) : Option Ctx :=
  (parseList parseAlias aliases).map fun al => { cur := parseMod cur, aliases := al }

def parseEnv (mods names : String) : Option Env := do
  let ms ← parseList parseMod mods
  let ns ← parseList parseQName names
  pure { names := ns, modules := ms }

def parseAtomS (s : String) : Option (Atom QName) :=
  if s.startsWith "s:" then some (.sym (s.drop 2).toString)
  else if s.startsWith "n:" then (parseQName (s.drop 2).toString).map .name
  else if s.startsWith "t:" then (parseQName (s.drop 2).toString).map .tname
  else none

def parseFieldS (s : String) : Option (String × List (Atom QName)) :=
  match s.splitOn "=" with
  | [f, as] => (if as == "" then some [] else (as.splitOn "+").mapM parseAtomS).map fun as => (f, as)
  | _ => none

def parseHeadS (s : String) : Option (Head QName) :=
  match s.splitOn "~" with
  | [cls, nm, fs] => do
    let n ← parseAtomS nm
    let fs ← if fs == "" then some [] else (fs.splitOn ";").mapM parseFieldS
    pure { cls := cls, name := n, fields := fs }
  | _ => none

/-- reader state: modules, finished objects, and the open top / kid (all reversed) -/
structure RS where
  mods : List ModName := []
  objs : List (Top QName) := []
  top : Option (Top QName) := none
  kid : Option (Kid QName) := none

def RS.closeKid (s : RS) : RS :=
  match s.top, s.kid with
  | some t, some k => { s with top := some { t with kids := t.kids ++ [k] }, kid := none }
  | _, _ => s

def RS.closeTop (s : RS) : RS :=
  let s := s.closeKid
  match s.top with
  | some t => { s with objs := s.objs ++ [t], top := none }
  | none => s

def readTok (s : RS) (tok : String) : Option RS :=
  if tok.startsWith "mod:" then
    (parseMod (tok.drop 4).toString).map fun m => { s with mods := s.mods ++ [m] }
  else if tok.startsWith "top:" then do
    let h ← parseHeadS (tok.drop 4).toString
    match h.name with
    | .tname q =>
      let s := s.closeTop
      pure { s with top := some { cls := h.cls, name := q, fields := h.fields, kids := [] } }
    | _ => none
  else if tok.startsWith "kid:" then do
    let h ← parseHeadS (tok.drop 4).toString
    let s := s.closeKid
    if s.top.isNone then none else pure { s with kid := some { head := h, body := [] } }
  else if tok.startsWith "enter:" then do
    let h ← parseHeadS (tok.drop 6).toString
    match s.kid with
    | some k => pure { s with kid := some { k with body := k.body ++ [.enter h] } }
    | none => none
  else if tok == "leave" then
    match s.kid with
    | some k => some { s with kid := some { k with body := k.body ++ [.leave] } }
    | none => none
  else none

def readSchema (txt : String) : Option Schema :=
  let toks := (txt.splitOn " ").filter (· ≠ "")
  match toks.foldlM readTok ({} : RS) with
  | some s => let s := s.closeTop; some { modules := s.mods, objs := s.objs }
  | none => none

def showErr : Err → String
  | .unresolved r => s!"err unresolved {showRef r}"
  | .exists_ q => s!"err exists {showQ q}"
  | .noModule m => s!"err nomodule {showMod m}"
  | .noObject q => s!"err noobject {showQ q}"
  | .noCurrent => "err nocurrent"
  | .cycle => "err cycle"
  | .parse => "err parse"

def roundtrip (lang : String) (std : Env) (c : Ctx) (S : Schema) : String :=
  let r : Except Err Schema :=
    if lang == "ddl" then
      match describeDDL modelTable S with
      | .error e => .error e
      | .ok t => loadDDL std t c
    else loadSDL modelTable std (describeSDL modelTable S) c
  match r with
  | .error e => showErr e
  | .ok S' =>
    let modsOk := S'.modules.isPerm S.modules
    if modsOk && S'.objs.isPerm S.objs then "same"
    else
      let plus := (S'.names.filter (fun q => !S.names.contains q)).map showQ
      let minus := (S.names.filter (fun q => !S'.names.contains q)).map showQ
      let mplus := (S'.modules.filter (fun m => !S.modules.contains m)).map showMod
      let mminus := (S.modules.filter (fun m => !S'.modules.contains m)).map showMod
      s!"differs +[{",".intercalate plus}] -[{",".intercalate minus}] +m[{",".intercalate mplus}] -m[{",".intercalate mminus}]"

def handle (line : String) : String :=
  match line.splitOn "|" with
  | ["R", cur, al, mods, names, ref] =>
    match parseCtx cur al, parseEnv mods names, parseRefS ref with
    | some c, some e, some r =>
      match resolveRef e c r with
      | some q => s!"some {showQ q}"
      | none => "none"
    | _, _, _ => "bad-op"
  | ["N", cur, al, mods, names, ref] =>
    match parseCtx cur al, parseEnv mods names, parseRefS ref with
    | some c, some e, some r =>
      match resolveShell e c r with
      | some q => s!"some {showQ q}"
      | none => "none"
    | _, _, _ => "bad-op"
  | ["C", cur, al, ref] =>
    match parseCtx cur al, parseRefS ref with
    | some c, some r =>
      match classname c r with
      | .ok q => s!"ok {showQ q}"
      | .error e => showErr e
    | _, _ => "bad-op"
  | ["T", cur, al, mods, names, objects, curmod, localmods, decl, ref] =>
    match parseCtx cur al, parseEnv mods names, parseList parseQName objects, parseMod curmod,
          parseList parseMod localmods, parseRefS ref with
    | some c, some e, some os, some cm, some lm, some r =>
      if decl != "0" && decl != "1" then "bad-op"
      else showQ (resolveTracer e os lm c cm (decl == "1") r)
    | _, _, _, _, _, _ => "bad-op"
  | ["F", cls, fs] =>
    match parseList some fs with
    | some l =>
      match printedFields.lookup cls with
      | some m => if m.isPerm l then "ok" else s!"diff model={",".intercalate m}"
      | none => "diff model=<no such class>"
    | none => "bad-op"
  | ["D", lang, cur, al, mods, names, schema] =>
    if lang != "ddl" && lang != "sdl" then "bad-op" else
    match parseCtx cur al, parseEnv mods names, readSchema schema with
    | some c, some e, some S => roundtrip lang e c S
    | _, _, _ => "bad-op"
  | _ => "bad-op"

def main : IO Unit := runStateless handle
