-- Root of the `EdbVerif` library: models, lemmas and property theorems.
import EdbVerif.Props.C20
