-- Root of the `EdbVerif` library: models, lemmas and property theorems.
import EdbVerif.Props.C01
import EdbVerif.Props.C04
import EdbVerif.Props.C05
import EdbVerif.Props.C06
import EdbVerif.Props.C07
import EdbVerif.Props.C09
import EdbVerif.Props.C12
import EdbVerif.Props.C14
import EdbVerif.Props.C15
import EdbVerif.Props.C16
import EdbVerif.Props.C17
import EdbVerif.Props.C18
import EdbVerif.Props.C19
import EdbVerif.Props.C20
