"""Extract the EdgeQL grammar from the REAL grammar classes (edb.edgeql.parser.grammar.start)
by introspection of the docstrings the `parsing` library would read.

Result: dict(toks, precs, nonterms, start) where
  toks[name]      = precedence name or None
  precs[name]     = (assoc, [(rel, other)])          in declaration order
  nonterms[name]  = dict(start=bool, prods=[(rhs, prec|None, method_name)])
plus the live classes for the reductions.
"""
from __future__ import annotations

import re


def extract():
    import shim  # noqa: F401
    import parsing as plib
    from edb.common import parsing as ep
    from edb.edgeql.parser.grammar import start as mod

    toks: dict = {}
    precs: dict = {}
    nonterms: dict = {}
    classes: dict = {}
    for name, v in mod.__dict__.items():
        if not isinstance(v, type):
            continue
        doc = v.__doc__ or ''
        if issubclass(v, plib.Precedence) and v not in (plib.Precedence, ep.Precedence):
            m = re.match(r'\s*%(\w+)(.*)', doc)
            if not m:
                continue          # internal base class
            rels = re.findall(r'([<>=])(\w+)', m.group(2))
            precs[name] = (m.group(1), rels)
        elif issubclass(v, plib.Token) and v not in (plib.Token, ep.Token):
            m = re.match(r'\s*%token\s*(\S+)?\s*(?:\[(\w+)\])?', doc)
            if not m:
                continue
            toks[m.group(1) or name] = m.group(2)
        elif issubclass(v, plib.Nonterm) and v not in (plib.Nonterm, ep.Nonterm, ep.ListNonterm):
            m = re.match(r'\s*%(start|nonterm)\s*(\S+)?\s*(?:\[(\w+)\])?', doc)
            if not m:
                continue
            prods = []
            for mn, meth in v.__dict__.items():
                d = getattr(meth, '__doc__', None)
                if callable(meth) and d and d.strip().startswith('%reduce'):
                    mm = re.match(r'\s*%reduce\s*(.*?)\s*(?:\[(\w+)\])?\s*$', d.strip(), re.S)
                    rhs = [x for x in mm.group(1).split() if x != '\\']
                    if rhs == ['<e>']:
                        rhs = []
                    prods.append((rhs, mm.group(2), mn))
            nt = m.group(2) or name
            prods.sort(key=lambda p: p[2])     # class dicts built from sets are hash-seed dependent
            nonterms[nt] = {'start': m.group(1) == 'start', 'prods': prods}
            classes[nt] = v
    starts = [n for n, v in nonterms.items() if v['start']]
    assert len(starts) == 1, starts
    # terminal name -> source-level token text (as spec_to_json's token_map)
    token_map = {v._token: c for c, v in ep.Token.token_map.items()}
    return {'toks': toks, 'precs': precs, 'nonterms': nonterms, 'start': starts[0],
            'token_map': token_map}, classes
