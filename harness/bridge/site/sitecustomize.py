# Loaded by every interpreter that has this directory on PYTHONPATH and EDB_VERIF_BRIDGE=1:
# installs the import shims + front-end bridge so that upstream test modules can be imported.
import os
if os.environ.get('EDB_VERIF_BRIDGE') == '1':
    from bridge import gate
    gate.install_test_stubs()
