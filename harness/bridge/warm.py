"""Warm the bridge caches (LALR tables, std schema, reflection schema):  python -m bridge.warm"""
import time
from bridge import env

t = time.time()
env.setup()
env.std_schema()
print('std schema', env.std_info(), flush=True)
env.reflection()
env.new_compiler()
print(f'bridge warm in {time.time() - t:.1f}s')
