"""LALR(1) table construction for the extracted EdgeQL grammar.

This re-creates what the (absent) `parsing` library + Rust LR driver do in
production.  The production tables are LR(1) with all conflicts resolved by
precedence (`spec.pureLR`).  LALR(1) state merging can introduce conflicts that
the LR(1) tables do not have; they are removed at parse time: an action is
*valid* in the precise (un-merged) context iff taking it lets the automaton
shift the lookahead (a standard property of LR automata: the stack always
spells a viable prefix).  Precedence resolution (yacc semantics as implemented
by the `parsing` library) is then applied among the valid actions only.

Symbols are interned to ints.  Tables are cached by the caller.
"""
from __future__ import annotations

import collections
import time

EOF = '<$>'


class Tables:
    pass


def build(G, log=lambda *a: None) -> Tables:
    toks, precs, nonterms, start = G['toks'], G['precs'], G['nonterms'], G['start']
    t0 = time.time()
    # ---- precedence levels (declared as a chain: each is `>last` or `=x`)
    level: dict = {}
    cur = 0
    for name, (assoc, rels) in precs.items():
        if not rels:
            level[name] = cur
        else:
            for rel, other in rels:
                if rel == '>':
                    cur = max(cur, level[other] + 1)
                    level[name] = level[other] + 1
                elif rel == '=':
                    level[name] = level[other]
                elif rel == '<':
                    level[name] = level[other] - 1
    assoc = {n: a for n, (a, _) in precs.items()}

    terms = sorted(toks) + [EOF]
    nts = ["S'"] + sorted(nonterms)
    sym_id = {s: i for i, s in enumerate(terms + nts)}
    nterm = len(terms)
    is_term = lambda s: s < nterm
    prods = [(sym_id["S'"], (sym_id[start], sym_id[EOF]), None, None, None)]
    for n in sorted(nonterms):
        for rhs, prec, mn in nonterms[n]['prods']:
            for s in rhs:
                if s not in sym_id:
                    raise ValueError(f'undefined symbol {s} in {n}.{mn}')
            prods.append((sym_id[n], tuple(sym_id[s] for s in rhs), prec, n, mn))
    by_lhs = collections.defaultdict(list)
    for i, p in enumerate(prods):
        by_lhs[p[0]].append(i)

    # ---- nullable / first
    nullable = set()
    changed = True
    while changed:
        changed = False
        for lhs, rhs, *_ in prods:
            if lhs not in nullable and all(s in nullable for s in rhs):
                nullable.add(lhs)
                changed = True
    first = {i: ({i} if i < nterm else set()) for i in range(len(sym_id))}
    changed = True
    while changed:
        changed = False
        for lhs, rhs, *_ in prods:
            f = first[lhs]
            for s in rhs:
                add = first[s] - f
                if add:
                    f |= add
                    changed = True
                if s not in nullable:
                    break

    # ---- LR(0)
    closure_cache: dict = {}

    def nk_closure(sym):
        """non-kernel items (p,0) reachable from nonterminal `sym`"""
        r = closure_cache.get(sym)
        if r is None:
            seen = set()
            stack = [sym]
            items = []
            while stack:
                s = stack.pop()
                if s in seen:
                    continue
                seen.add(s)
                for q in by_lhs[s]:
                    items.append(q)
                    rhs = prods[q][1]
                    if rhs and rhs[0] >= nterm:
                        stack.append(rhs[0])
            r = closure_cache[sym] = tuple(items)
        return r

    states = []
    index = {}

    def get_state(kernel):
        k = tuple(sorted(kernel))
        i = index.get(k)
        if i is None:
            i = index[k] = len(states)
            states.append(k)
        return i

    get_state([(0, 0)])
    trans = []          # per state: dict sym -> state
    i = 0
    while i < len(states):
        nxt = collections.defaultdict(list)
        seen_nt = set()
        for p, d in states[i]:
            rhs = prods[p][1]
            if d < len(rhs):
                s = rhs[d]
                nxt[s].append((p, d + 1))
                if s >= nterm and s not in seen_nt:
                    seen_nt.add(s)
        # non kernel
        done = set()
        for s in list(seen_nt):
            for q in nk_closure(s):
                if q in done:
                    continue
                done.add(q)
                rhs = prods[q][1]
                if rhs:
                    nxt[rhs[0]].append((q, 1))
        tr = {}
        for s, k in nxt.items():
            tr[s] = get_state(k)
        trans.append(tr)
        i += 1
    log(f'LR(0): {len(states)} states, {time.time() - t0:.1f}s')

    # ---- LALR(1) lookaheads by propagation (dragon book 4.63)
    def first_of_seq(seq, la):
        out = set()
        for s in seq:
            out |= first[s]
            if s not in nullable:
                return out
        out.add(la)
        return out

    HASH = -1

    def closure1(items):
        res = set(items)
        stack = list(items)
        while stack:
            p, d, la = stack.pop()
            rhs = prods[p][1]
            if d < len(rhs) and rhs[d] >= nterm:
                fs = first_of_seq(rhs[d + 1:], la)
                for q in by_lhs[rhs[d]]:
                    for b in fs:
                        it = (q, 0, b)
                        if it not in res:
                            res.add(it)
                            stack.append(it)
        return res

    LA = collections.defaultdict(set)
    prop = collections.defaultdict(set)
    for i, kernel in enumerate(states):
        tr = trans[i]
        for (p, d) in kernel:
            for (q, e, la) in closure1({(p, d, HASH)}):
                rhs = prods[q][1]
                if e < len(rhs):
                    tgt = (tr[rhs[e]], q, e + 1)
                    if la == HASH:
                        prop[(i, p, d)].add(tgt)
                    else:
                        LA[tgt].add(la)
    work = collections.deque(k for k in LA if LA[k])
    inq = set(work)
    while work:
        src = work.popleft()
        inq.discard(src)
        s = LA[src]
        for t in prop.get(src, ()):
            lt = LA[t]
            if not s <= lt:
                lt |= s
                if t not in inq:
                    inq.add(t)
                    work.append(t)
    log(f'LALR lookaheads: {time.time() - t0:.1f}s')

    # ---- action tables (unresolved)
    shift = []
    reduces = []
    goto = []
    for i, kernel in enumerate(states):
        tr = trans[i]
        shift.append({s: j for s, j in tr.items() if s < nterm})
        goto.append({s: j for s, j in tr.items() if s >= nterm})
        full = set()
        for (p, d) in kernel:
            for la in LA[(i, p, d)]:
                full.add((p, d, la))
        red = collections.defaultdict(list)
        for (p, d, la) in closure1(full):
            if d == len(prods[p][1]) and p != 0:
                if p not in red[la]:
                    red[la].append(p)
        for la in red:
            red[la].sort()
        reduces.append(dict(red))
    log(f'tables: {time.time() - t0:.1f}s')

    T = Tables()
    T.terms, T.nts, T.sym_id, T.nterm = terms, nts, sym_id, nterm
    T.sym_name = terms + nts
    T.prods = prods
    T.shift, T.reduces, T.goto = shift, reduces, goto
    T.tok_prec = {sym_id[t]: p for t, p in toks.items()}
    T.level, T.assoc = level, assoc
    T.n_states = len(states)
    n_conf = 0
    for i in range(len(states)):
        for la, ps in reduces[i].items():
            if len(ps) > 1 or la in shift[i]:
                n_conf += 1
    T.n_conflict_entries = n_conf
    log(f'{n_conf} (state, lookahead) entries with more than one candidate action')
    return T


def prod_prec(T: Tables, p: int, mode: str):
    """Precedence of a production: explicit `[P]`, else that of a terminal of
    its rhs (yacc: last terminal)."""
    lhs, rhs, prec, _, _ = T.prods[p]
    if prec:
        return prec
    seq = reversed(rhs) if mode == 'last' else rhs
    for s in seq:
        if s < T.nterm:
            tp = T.tok_prec.get(s)
            if tp:
                return tp
    return None
