"""Stand-in for the native module `edb._edgeql_parser` (front-end bridge, DESIGN §2.3).

real:   tokenizer (tokenizer.rs/validation.rs via the edb_lex binary built from /repo),
        grammar classes, every reduce_* method, edb.edgeql.parser._cst_to_ast
mine:   LALR(1) tables (bridge/lalr.py), this LR driver, CST node classes, Hasher
"""
from __future__ import annotations

import decimal
import hashlib
import os
import pickle
import re
import subprocess
import sys
import threading

from lib import core

from . import lalr

RUST_BIN = os.path.join(core.VERIF, 'harness', 'rust', 'build', 'edb_lex' if core.REPO == '/repo' else 'edb_lex-' + __import__('hashlib').md5(core.REPO.encode()).hexdigest()[:10])
CACHE_DIR = os.path.join(core.VERIF, '.cache')
PREC_MODE = os.environ.get('EDB_VERIF_PREC_MODE', 'last')


class LexerCrash(Exception):
    """the real tokenizer process died on this input (a Rust panic)"""


class SyntaxError(Exception):      # noqa: A001  (mirrors _edgeql_parser.SyntaxError)
    pass


# ------------------------------------------------------------------ tokens
class OpaqueToken:
    __slots__ = ('kind', 'text', 'value', 'start', 'end')

    def __init__(self, kind, text, value, start, end):
        self.kind, self.text, self.value, self.start, self.end = kind, text, value, start, end

    def __repr__(self):
        return self.text

    def __reduce__(self):
        return (OpaqueToken, (self.kind, self.text, self.value, self.start, self.end))


class ParserResult:
    def __init__(self, out, errors):
        self.out = out
        self.errors = errors

    def pack(self) -> bytes:
        return b'\x00' + pickle.dumps([(t.kind, t.text, t.value, t.start, t.end) for t in self.out])


def unpack(data: bytes):
    assert data[0] == 0
    return [OpaqueToken(*t) for t in pickle.loads(data[1:])]


def unpickle_token(data):
    raise NotImplementedError


class _Lexer:
    def __init__(self):
        self.proc = None
        self.lock = threading.Lock()

    def _start(self):
        if not os.path.exists(RUST_BIN):
            from lib import rustlex
            ok, log = rustlex.build()
            if not ok:
                raise core.Infra('cannot build edb_lex: ' + log[-500:])
        self.proc = subprocess.Popen([RUST_BIN], stdin=subprocess.PIPE, stdout=subprocess.PIPE,
                                     text=True, bufsize=1)

    def lex(self, text: str):
        with self.lock:
            if self.proc is None or self.proc.poll() is not None:
                self._start()
            try:
                self.proc.stdin.write(text.encode('utf-8').hex() + '\n')
                self.proc.stdin.flush()
                line = self.proc.stdout.readline()
            except BrokenPipeError:
                line = ''
            if not line:
                # the real tokenizer crashed (panic) on this input: reap it so the next call restarts it
                try:
                    self.proc.kill()
                    self.proc.wait(timeout=5)
                except Exception:
                    pass
                self.proc = None
        if not line:
            raise LexerCrash(text)
        return line.rstrip('\n')


_LEXER = _Lexer()

_KW_RE = re.compile(r'Keyword\(Keyword\("([^"]+)"\)\)')


def _convert_value(kind, vkind, raw: bytes, text: str):
    if vkind == 'none':
        return None
    if vkind == 'str':
        return raw.decode('utf-8')
    if vkind == 'int':
        return int(raw)
    if vkind == 'float':
        return float(raw.decode())
    if vkind == 'bytes':
        return raw
    if vkind == 'bigint':
        # validation.rs: BigDecimal(text sans 'n' and '_').to_bigint(), handed over in radix 16
        # (the stub crate keeps the text; redo the arithmetic here)
        d = decimal.Decimal(text[:-1].replace('_', ''))
        return int(d)
    if vkind == 'decimal':
        return float(text[:-1].replace('_', ''))
    raise ValueError(vkind)


def tokenize(text: str) -> ParserResult:
    line = _LEXER.lex(text)
    toks, errs = [], []
    if line in ('BADHEX', 'BADUTF8'):
        raise ValueError(line)
    for part in line.split(';'):
        if part.startswith('ERR,'):
            f = part.split(',')
            msg = bytes.fromhex(f[1]).decode()
            s, e = (int(f[2]), int(f[3])) if len(f) >= 4 else (0, 0)
            errs.append((msg, (s, e), None, None))
            break
        f = part.rsplit(',', 5)
        ttext = bytes.fromhex(f[1]).decode()
        toks.append(OpaqueToken(f[0], ttext, _convert_value(f[0], f[2], bytes.fromhex(f[3]), ttext),
                                int(f[4]), int(f[5])))
    return ParserResult(toks, errs)


def normalize(text):
    raise NotImplementedError('normalize is not available in the bridge; use Source.from_string')


# --------------------------------------------------------------------- CST
class CSTNode:
    __slots__ = ('production', 'terminal')

    def __init__(self, production=None, terminal=None):
        self.production = production
        self.terminal = terminal


class Production:
    __slots__ = ('id', 'args')

    def __init__(self, id, args):
        self.id = id
        self.args = args


class Terminal:
    __slots__ = ('text', 'value', 'start', 'end')

    def __init__(self, text, value, start, end):
        self.text, self.value, self.start, self.end = text, value, start, end


class Entry:
    pass


# ------------------------------------------------------------------- tables
_STATE = {}


def _kind_map():
    """Kind (Debug form) -> source-level token text, from parser.rs::get_token_kind."""
    src = open(os.path.join(core.REPO, 'edb/edgeql-parser/src/parser.rs')).read()
    body = src[src.index('fn get_token_kind'):]
    m = {}
    for a, b in re.findall(r'((?:"[^"]+"\s*\|\s*)*"[^"]+")\s*=>\s*(\w+),', body):
        for lit in re.findall(r'"([^"]+)"', a):
            m.setdefault(b, []).append(lit)
    if len(m) < 50:
        raise core.Infra('parser.rs::get_token_kind no longer has the expected shape')
    return m


def _grammar_key(G) -> str:
    import json
    return hashlib.sha256(json.dumps(G, sort_keys=True, default=list).encode()
                          + open(lalr.__file__, 'rb').read()).hexdigest()[:20]


def preload_spec(path=None):
    if 'T' in _STATE:
        return
    from . import grammar
    G, classes = grammar.extract()
    key = _grammar_key(G)
    os.makedirs(CACHE_DIR, exist_ok=True)
    cpath = os.path.join(CACHE_DIR, f'lalr-{key}.pickle')
    T = None
    if os.path.exists(cpath):
        try:
            T = pickle.load(open(cpath, 'rb'))
        except Exception:
            T = None
    if T is None:
        T = lalr.build(G)
        tmp = cpath + f'.{os.getpid()}.tmp'
        with open(tmp, 'wb') as f:
            pickle.dump(T, f)
        os.replace(tmp, cpath)
    # production id -> (class, method); inlines
    from edb.common import parsing as ep
    productions = []
    inlines = {}
    for pid, (lhs, rhs, prec, nt, mn) in enumerate(T.prods):
        if nt is None:
            productions.append((ep.Nonterm, lambda *a: None))
            continue
        cls = classes[nt]
        meth = cls.__dict__[mn]
        productions.append((cls, meth))
        ii = getattr(meth, 'inline_index', None)
        if ii is not None:
            inlines[pid] = ii
    # token kind -> terminal id
    tm = G['token_map']                    # terminal name -> token text (e.g. PLUS -> '+')
    text_to_term = {}
    for tname in T.terms:
        text_to_term[tm.get(tname, tname)] = tname
    kind_to_term = {}
    for kind, lits in _kind_map().items():
        for lit in lits:
            if lit in text_to_term:
                kind_to_term[kind] = T.sym_id[text_to_term[lit]]
                break
    _STATE.update(T=T, text_to_term=text_to_term, productions=productions, inlines=inlines, kind_to_term=kind_to_term,
                  prod_prec=[lalr.prod_prec(T, p, PREC_MODE) for p in range(len(T.prods))],
                  ambiguous=0)


def _term_of(tok: OpaqueToken):
    T = _STATE['T']
    k = tok.kind
    m = _KW_RE.fullmatch(k)
    if m:
        kw = m.group(1)
        t = _STATE['text_to_term'].get(kw)
        if t is not None:
            return T.sym_id[t]
        if kw.startswith('__') and kw.endswith('__'):
            name = 'DUNDER' + kw[2:-2].upper()
        else:
            name = kw.upper()
        return T.sym_id.get(name)
    return _STATE['kind_to_term'].get(k)


# ------------------------------------------------------------------- driver
def _choose(states, la):
    """Pick the action for lookahead `la` on top of `states` (list of ints).
    Returns ('s', next) | ('r', prod) | None."""
    T = _STATE['T']
    st = states[-1]
    sh = T.shift[st].get(la)
    reds = T.reduces[st].get(la)
    if not reds:
        return ('s', sh) if sh is not None else None
    if sh is None and len(reds) == 1:
        return ('r', reds[0])
    # conflict entry: keep only reduces that are valid in the precise context
    valid = [p for p in reds if _sim_reduce(states, p, la)]
    if sh is None:
        if not valid:
            return None
        if len(valid) == 1:
            return ('r', valid[0])
        return ('r', _rr(valid))
    if not valid:
        return ('s', sh)
    p = valid[0] if len(valid) == 1 else _rr(valid)
    pp = _STATE['prod_prec'][p]
    tp = T.tok_prec.get(la)
    if pp is None or tp is None:
        _STATE['ambiguous'] += 1
        return ('s', sh)            # yacc default
    lp, lt = T.level[pp], T.level[tp]
    if lp > lt:
        return ('r', p)
    if lp < lt:
        return ('s', sh)
    a = T.assoc[tp]
    if a == 'left':
        return ('r', p)
    if a == 'right':
        return ('s', sh)
    # nonassoc / fail: yacc removes both actions; this is a syntax error of the
    # REAL tables (not an LALR artefact), so a simulation reaching it must not
    # conclude that the reduction leading here was invalid.
    return ('e', None)


def _rr(valid):
    T = _STATE['T']
    best, bl = None, None
    for p in valid:
        pp = _STATE['prod_prec'][p]
        l = T.level[pp] if pp is not None else -1
        if bl is None or l > bl:
            best, bl = p, l
    _STATE['ambiguous'] += 1
    return best


def _sim_reduce(states, p, la) -> bool:
    """Would reducing by p let the automaton eventually shift `la`?"""
    T = _STATE['T']
    st = list(states)
    while True:
        lhs, rhs = T.prods[p][0], T.prods[p][1]
        if rhs:
            del st[-len(rhs):]
        nxt = T.goto[st[-1]].get(lhs)
        if nxt is None:
            return False
        st.append(nxt)
        act = _choose(st, la)
        if act is None:
            return False
        if act[0] in ('s', 'e'):
            return True
        p = act[1]


def parse(start_name: str, tokens):
    preload_spec()
    T = _STATE['T']
    inlines = _STATE['inlines']
    start_term = T.sym_id.get(start_name)
    if start_term is None:
        raise ValueError(f'unknown start token {start_name}')
    end = tokens[-1].end if tokens else 0
    stream = [(start_term, Terminal('', None, 0, 0))]
    for t in tokens:
        term = _term_of(t)
        stream.append((term, Terminal(t.text, t.value, t.start, t.end), t))
    stream.append((T.sym_id[lalr.EOF], Terminal('', None, end, end)))

    states = [0]
    values = [None]
    for item in stream:
        la, terminal = item[0], item[1]
        if la is None:
            return _error(item), _STATE['productions']
        while True:
            act = _choose(states, la)
            if act is None or act[0] == 'e':
                return _error(item), _STATE['productions']
            if act[0] == 's':
                states.append(act[1])
                values.append(CSTNode(terminal=terminal))
                break
            p = act[1]
            lhs, rhs = T.prods[p][0], T.prods[p][1]
            n = len(rhs)
            if n:
                args = values[-n:]
                del values[-n:]
                del states[-n:]
            else:
                args = []
            node = CSTNode(production=Production(p, args))
            ii = inlines.get(p)
            if ii is not None:
                span = _span_of(args)
                node = args[ii]
                if span is not None and node.terminal is not None:
                    t = node.terminal
                    node = CSTNode(terminal=Terminal(t.text, t.value, min(t.start, span[0]),
                                                     max(t.end, span[1])))
            states.append(T.goto[states[-1]][lhs])
            values.append(node)
    # stack: [None, <start nonterm>, <$>]
    if len(values) != 3:
        return ParserResult(None, [('Unexpected end of input', (end, end), None, None)]), \
            _STATE['productions']
    return ParserResult(values[1], []), _STATE['productions']


def _span_of(args):
    start = end = None
    for a in args:
        s = _first_start(a)
        if s is not None:
            start = s
            break
    for a in reversed(args):
        e = _last_end(a)
        if e is not None:
            end = e
            break
    if start is None or end is None:
        return None
    return (start, end)


def _first_start(node):
    if node is None:
        return None
    if node.terminal is not None:
        return node.terminal.start
    for a in node.production.args:
        s = _first_start(a)
        if s is not None:
            return s
    return None


def _last_end(node):
    if node is None:
        return None
    if node.terminal is not None:
        return node.terminal.end
    for a in reversed(node.production.args):
        e = _last_end(a)
        if e is not None:
            return e
    return None


def _error(item):
    terminal = item[1]
    tok = item[2] if len(item) > 2 else None
    if tok is not None and _KW_RE.fullmatch(tok.kind):
        what = f"keyword '{tok.text.upper()}'"
    elif terminal.text:
        what = f"'{terminal.text}'"
    else:
        what = 'end of input'
    return ParserResult(None, [(f'Unexpected {what}', (terminal.start, terminal.end), None, None)])


def save_spec(*a, **k):
    raise NotImplementedError


# ------------------------------------------------------------------ misc API
class SourcePoint:
    def __init__(self, line, column, utf16column, offset, char_offset):
        self.line = line + 1
        self.zero_based_line = line
        self.column = column + 1
        self.utf16column = utf16column
        self.offset = offset
        self.char_offset = char_offset

    @staticmethod
    def from_offsets(data: bytes, offsets):
        out = []
        for off in sorted(offsets):
            prefix = data[:off].decode('utf-8', 'replace')
            line = prefix.count('\n')
            last = prefix.rsplit('\n', 1)[-1]
            out.append(SourcePoint(line, len(last), len(last.encode('utf-16-le')) // 2, off, len(prefix)))
        return out

    @staticmethod
    def from_lines_cols(data, lcs):
        raise NotImplementedError


def offset_of_line(text: str, target: int) -> int:
    off = 0
    for i, l in enumerate(text.split('\n')):
        if i >= target:
            return off
        off += len(l.encode()) + 1
    return off


class Hasher:
    """hash.rs: sha256 over "CREATE MIGRATION ONTO <parent> {" then the token texts of each
    source, each followed by a NUL… (transcribed; used only for migration names)."""

    def __init__(self, h):
        self._h = h

    @staticmethod
    def start_migration(parent_id: str):
        h = hashlib.sha256()
        h.update(b'CREATE\0MIGRATION\0ONTO\0')
        h.update(parent_id.encode())
        h.update(b'\0{\0')
        return Hasher(h)

    def add_source(self, data: str):
        r = tokenize(data)
        if r.errors:
            msg, span, _, _ = r.errors[0]
            raise SyntaxError(msg, (span[0], None), None, None)
        for t in r.out:
            if t.kind == 'EOI':
                continue
            self._h.update(t.text.encode())
            self._h.update(b'\0')

    def make_migration_id(self) -> str:
        import base64
        self._h.update(b'}\0')
        d = self._h.digest()
        return 'm1' + base64.b32encode(d).decode().lower().rstrip('=')


def install(shim_module):
    """Replace the attribute-less stub functions of the shimmed edb._edgeql_parser."""
    g = globals()
    for n in ['SyntaxError', 'OpaqueToken', 'ParserResult', 'unpack', 'unpickle_token', 'tokenize',
              'normalize', 'CSTNode', 'Production', 'Terminal', 'Entry', 'preload_spec', 'parse',
              'save_spec', 'SourcePoint', 'offset_of_line', 'Hasher']:
        setattr(shim_module, n, g[n])
