"""Level-2 environment: a bootstrapped standard-library schema and compile helpers,
all running the REAL schema engine / compilers on top of the front-end bridge.

The std schema is cached under /verif/.cache keyed by a hash of every source file
that can influence it (all of /repo/edb *.py, *.edgeql, *.rs + the bridge code), so
a changed tree never sees a stale cache.
"""
from __future__ import annotations

import hashlib
import os
import pickle
import time

from lib import core

CACHE_DIR = os.path.join(core.VERIF, '.cache')
_STATE: dict = {}


def source_hash() -> str:
    h = _STATE.get('hash')
    if h:
        return h
    m = hashlib.sha256()
    roots = [os.path.join(core.REPO, 'edb'), os.path.join(core.VERIF, 'harness', 'bridge'),
             os.path.join(core.VERIF, 'harness', 'shim'), os.path.join(core.VERIF, 'harness', 'rust')]
    for root in roots:
        for dp, dn, fns in os.walk(root):
            dn[:] = sorted(d for d in dn if d not in ('__pycache__', 'build', 'site'))
            for fn in sorted(fns):
                if fn.endswith(('.py', '.edgeql', '.rs', '.esdl')):
                    p = os.path.join(dp, fn)
                    m.update(p.encode())
                    with open(p, 'rb') as f:
                        m.update(f.read())
    h = _STATE['hash'] = m.hexdigest()[:24]
    return h


def setup():
    """install shims + bridge (idempotent)"""
    if _STATE.get('setup'):
        return
    import shim
    shim.install_bridge()
    from lib import rustlex
    ok, log = rustlex.build()
    if not ok:
        raise core.Infra('cannot build edb_lex: ' + log[-400:])
    _STATE['setup'] = True


def _cached(name, build):
    os.makedirs(CACHE_DIR, exist_ok=True)
    path = os.path.join(CACHE_DIR, f'{name}-{source_hash()}.pickle')
    if os.path.exists(path):
        try:
            with open(path, 'rb') as f:
                return pickle.load(f), True
        except Exception:
            pass
    val = build()
    tmp = path + f'.{os.getpid()}.tmp'
    with open(tmp, 'wb') as f:
        pickle.dump(val, f, -1)
    os.replace(tmp, path)
    # drop stale generations of this cache
    for fn in os.listdir(CACHE_DIR):
        if fn.startswith(name + '-') and fn.endswith('.pickle') and fn != os.path.basename(path):
            try:
                os.unlink(os.path.join(CACHE_DIR, fn))
            except OSError:
                pass
    return val, False


def std_schema():
    """the standard library schema (incl. _testmode), built by the real edb.schema.std loader"""
    if 'std' in _STATE:
        return _STATE['std']
    setup()
    from edb.schema import schema as s_schema, std as s_std
    t0 = time.time()

    def build():
        schema = s_schema.EMPTY_SCHEMA
        for modname in [*s_schema.STD_SOURCES, *s_schema.TESTMODE_SOURCES]:
            schema = s_std.load_std_module(schema, modname)
        schema, _ = s_std.make_schema_version(schema)
        schema, _ = s_std.make_global_schema_version(schema)
        return schema

    schema, hit = _cached('std', build)
    _STATE['std'] = schema
    _STATE['std_info'] = {'cache_hit': hit, 'seconds': round(time.time() - t0, 1)}
    # make edb.testbase.lang helpers use it
    from edb.testbase import lang as tb
    tb._std_schema = schema
    return schema


def std_info():
    return _STATE.get('std_info', {})


def reflection():
    if 'refl' in _STATE:
        return _STATE['refl']
    std = std_schema()
    from edb.schema import reflection as s_refl, delta as sd

    def build():
        r = s_refl.generate_structure(std)
        context = sd.CommandContext(stdmode=True)
        reflschema = r.intro_schema_delta.apply(std, context)
        return reflschema, r.class_layout

    val, _ = _cached('refl', build)
    _STATE['refl'] = val
    from edb.testbase import lang as tb
    tb._refl_schema, tb._schema_class_layout = val
    return val


def tb():
    """edb.testbase.lang with the cached std schema injected"""
    std_schema()
    from edb.testbase import lang
    return lang


def load_schema(sdl: str, modname: str | None = None):
    """SDL document -> schema, through the real migration machinery (as upstream tests do)."""
    t = tb()
    return t.BaseSchemaTest.load_schema(sdl, modname=modname)


def run_ddl(schema, ddl: str, default_module='default'):
    t = tb()
    return t.BaseSchemaTest.run_ddl(schema, ddl, default_module)


def compile_to_ir(schema, text: str, **options):
    setup()
    from edb.edgeql import compiler, parser as qlparser
    tree = qlparser.parse_query(text)
    return compiler.compile_ast_to_ir(
        tree, schema,
        options=compiler.CompilerOptions(modaliases={None: 'default'}, **options))


def new_compiler():
    """server compiler instance (edb.server.compiler.Compiler) over the cached std/reflection schema"""
    if 'compiler' not in _STATE:
        std = std_schema()
        refl, layout = reflection()
        from edb.server import compiler as edbcompiler
        _STATE['compiler'] = edbcompiler.new_compiler(
            std_schema=std, reflection_schema=refl, schema_class_layout=layout)
    return _STATE['compiler']


def server_context(user_schema, **kw):
    """ad-hoc CompileContext (fresh CompilerConnectionState) as upstream's test_server_compiler does"""
    from edb.server import compiler as edbcompiler
    kw.setdefault('modaliases', {None: 'default'})
    return edbcompiler.new_compiler_context(
        compiler_state=new_compiler().state, user_schema=user_schema, **kw)


def server_compile(ctx, text: str):
    """real `compiler.compile(ctx, source)` -> QueryUnitGroup (capabilities, sql, descriptors, tx fields)"""
    from edb.server.compiler import compiler as c
    from edb import edgeql
    return c.compile(ctx=ctx, source=edgeql.Source.from_string(text))
