"""Fidelity gate of the front-end bridge (DESIGN §2.3).

Runs upstream's own parser corpora (tests/test_edgeql_syntax.py,
tests/test_schema_syntax.py: ~1900 input/expected pairs that cannot run in the
pinned suite) through the bridge.  Accept/reject and the printed text must
match what upstream asserts.  The wording/position of *LR-driver* syntax errors
("Unexpected …" / "Missing …", produced by the Rust driver's error recovery,
which the bridge does not re-implement) is not compared; errors raised by the
real reduce methods are compared as upstream does.

usage:  python -m bridge.gate [pytest args]      (PYTHONPATH=harness:/repo)
prints a JSON summary on the last line.
"""
from __future__ import annotations

import importlib.util
import json
import os
import sys
import types


def install_test_stubs():
    import shim
    shim.STUBS += ['edb.server._rust_native._pg_rust', 'edb.server._rust_native._http',
                   'edb.server._rust_native._jwt']
    shim.install_bridge()
    import edb.tools  # noqa
    from lib import core
    spec = importlib.util.spec_from_file_location(
        'edb.tools.test.decorators', os.path.join(core.REPO, 'edb/tools/test/decorators.py'))
    dec = importlib.util.module_from_spec(spec)
    spec.loader.exec_module(dec)
    m = types.ModuleType('edb.tools.test')
    m.__path__ = []
    for n in ('xfail', 'xerror', 'not_implemented', 'skip', 'async_timeout'):
        if hasattr(dec, n):
            setattr(m, n, getattr(dec, n))
    sys.modules['edb.tools.test'] = m
    sys.modules['edb.tools.test.decorators'] = dec


STATS = {'driver_error_message_not_compared': 0}


def patch_must_fail():
    from edb.testbase import lang as tb

    def _run_test(self, *, source, spec=None, expected=None):
        if spec and 'must_fail' in spec:
            spec_args, spec_kwargs = spec['must_fail']
            try:
                self.run_test(source=source, spec=spec, expected=expected)
            except spec_args[0] as exc:
                msg = str(exc.args[0]) if exc.args else ''
                if msg.startswith('Unexpected'):
                    STATS['driver_error_message_not_compared'] += 1
                    return
                if len(spec_args) > 1:
                    self.assertRegex(str(exc), spec_args[1])
                for attr_name, expected_val in spec_kwargs.items():
                    val = getattr(exc, attr_name)
                    if val != expected_val:
                        raise AssertionError(
                            f'must_fail: attribute {attr_name!r} is {val} '
                            f'(expected is {expected_val!r})') from exc
                return
            raise AssertionError(f'{spec_args[0].__name__} not raised')
        else:
            return self.run_test(source=source, spec=spec, expected=expected)

    tb.BaseDocTest._run_test = _run_test


class Collector:
    def __init__(self):
        self.passed, self.failed, self.xfailed, self.skipped = [], [], [], []

    def pytest_runtest_logreport(self, report):
        if report.when != 'call':
            if report.when == 'setup' and report.skipped:
                self.skipped.append(report.nodeid)
            return
        if hasattr(report, 'wasxfail'):
            self.xfailed.append(report.nodeid)
        elif report.passed:
            self.passed.append(report.nodeid)
        elif report.failed:
            self.failed.append((report.nodeid, str(report.longrepr)[-600:]))


# tests that exercise the native `normalize` entry point, which the bridge does not provide
OUT_OF_SCOPE = ('test_edgeql_normalization_', 'test_edgeql_normalized_token_serialization')


def run(files=('tests/test_edgeql_syntax.py', 'tests/test_schema_syntax.py'), extra=()):
    import pytest
    from lib import core
    install_test_stubs()
    patch_must_fail()
    col = Collector()
    cwd = os.getcwd()
    os.chdir(core.REPO)
    try:
        pytest.main(['-q', '-p', 'no:cacheprovider', '--no-header', '-x' if False else '-q',
                     *[f for f in files], *extra], plugins=[col])
    finally:
        os.chdir(cwd)
    failed = [(n, r) for n, r in col.failed if not any(o in n for o in OUT_OF_SCOPE)]
    return {
        'passed': len(col.passed), 'failed': len(failed), 'xfailed': len(col.xfailed),
        'out_of_scope': len(col.failed) - len(failed),
        'driver_error_message_not_compared': STATS['driver_error_message_not_compared'],
        'failures': failed[:20],
    }


if __name__ == '__main__':
    res = run(extra=sys.argv[1:])
    print(json.dumps(res))
    sys.exit(0 if res['failed'] == 0 and res['passed'] > 1000 else 1)
