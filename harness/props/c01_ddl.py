"""C01 — DDL / SDL text matrix derived from the PRINTER's decision points.

`edb/edgeql/codegen.py` decides how to print a DDL node from a handful of flags computed per visit method:
`pure_computable` / `render_commands` (is the command block exactly one `SetField expr`, is there an explicit
target), `after_name` (target / bases / params / ON / EXCEPT / USING placement), `allow_short` (one command:
no braces), `unqualified`, `named`, the keyword list (`required`/`multi`/`abstract`/`delegated`/`deferred`/
`overloaded`/`superuser`/`inheritable` …), `sdlmode` branches, `code.from_*` variants.  So for every object class
this module enumerates

    {qualifiers} × {explicit type / target / := expr / extending} × {no block, empty block, exactly ONE command of
    each kind (braced and short form), TWO commands} × {CREATE, ALTER, DROP} × {DDL, SDL}

as TEXT; the caller parses each text with the real parser first and drops what is rejected, so the templates may
over-generate freely.  `core` cases (no qualifier; none / empty / single-command bodies) always run; the
`extended` ones (qualifiers × everything, two-command bodies) are sliced by seed in the quick tier.
"""
from __future__ import annotations

import itertools

E = '(.a ++ <str>1)'
E2 = '(select B filter .x = 1)'
T = 'str'
QUALS_PTR = ['', 'required', 'optional', 'multi', 'single', 'required multi', 'optional single', 'required single',
             'optional multi']
QUALS_PTR_SDL = QUALS_PTR + ['overloaded', 'overloaded required', 'overloaded multi', 'overloaded required multi']


def _bodies(kinds, pairs=True, short=False):
    """(tag, text) : '', ' {}', ' { k; }' for each kind, optionally the brace-less short form, pairs"""
    yield 'none', ''
    yield 'empty', ' {}'
    for k in kinds:
        yield 'one', ' { ' + k + '; }'
        if short:
            yield 'one', ' ' + k
    if pairs:
        for a, b in itertools.permutations(kinds, 2):
            yield 'two', ' { ' + a + '; ' + b + '; }'


def _emit(out, core, entry, text):
    out.append(('core' if core else 'ext', entry, text))


def build():
    """list of (tier, entry, text); tier 'core' | 'ext'"""
    out = []

    # ------------------------------------------------------------------ concrete pointers
    create_kinds = ['using ' + E, 'set default := ' + E, "create annotation title := 'x'", 'create constraint exclusive',
                    'create constraint expression on ' + E, 'extending base', 'set readonly := true',
                    'on target delete allow', 'on source delete delete target', 'create property lp: str',
                    'create index on (@lp)', 'create rewrite insert using ' + E, 'set required', 'set multi',
                    'reset default', 'set owned', "set title := 'x'"]
    sdl_kinds = ['using ' + E, 'default := ' + E, "annotation title := 'x'", 'constraint exclusive',
                 'constraint expression on ' + E, 'extending base', 'readonly := true', 'on target delete allow',
                 'on source delete delete target if orphan', 'lp: str', 'property lp: str', 'index on (@lp)',
                 'rewrite insert using ' + E, 'constraint max_len_value(3)']
    alter_kinds = ['using ' + E, 'reset expression', 'set default := ' + E, 'reset default',
                   "create annotation title := 'x'", "alter annotation title := 'y'", 'drop annotation title',
                   'create constraint exclusive', 'drop constraint exclusive',
                   "alter constraint exclusive { set errmessage := 'm' }", 'set required', 'set optional', 'set multi',
                   'set single', 'reset optionality', 'reset cardinality', 'set type T', 'set type T using ' + E,
                   'reset type', 'rename to q', 'extending b', 'extending b first', 'drop extending b',
                   'set readonly := true', 'reset readonly', 'set owned', 'drop owned', 'on target delete restrict',
                   'reset on target delete', 'on source delete allow', 'reset on source delete',
                   'create property lp: str', 'alter property lp set required', 'drop property lp',
                   'set required using ' + E, 'set multi using ' + E, 'set single using ' + E,
                   'create rewrite update using ' + E, 'alter rewrite update using ' + E, 'drop rewrite update',
                   'create index on (@lp)', 'drop index on (@lp)']
    targets = ['', ': T', ' -> T', ' := ' + E, ' := ' + E2, ' extending base: T', ' extending b1, m::b2 -> T',
               ': array<T>', ': tuple<a: T, b: U>', ': A | B', ' extending base']
    for kind in ('property', 'link'):
        for qi, q in enumerate(QUALS_PTR):
            for t in targets:
                for tag, b in _bodies(create_kinds, pairs=(t in (': T', '', ' := ' + E))):
                    core = qi == 0 and tag != 'two'
                    _emit(out, core, 'block', f'create type A {{ create {q} {kind} p{t}{b} }}')
        for tag, b in _bodies(alter_kinds, pairs=True, short=True):
            _emit(out, tag != 'two', 'block', f'alter type A {{ alter {kind} p{b} }}')
            if tag != 'two':
                _emit(out, True, 'block', f'alter type A alter {kind} p{b}')
        for tag, b in _bodies(["drop constraint exclusive", "drop annotation title"], pairs=False):
            _emit(out, True, 'block', f'alter type A {{ drop {kind} p{b} }}')
    for kind in ('property ', 'link ', ''):
        for qi, q in enumerate(QUALS_PTR_SDL):
            for t in targets:
                for tag, b in _bodies(sdl_kinds, pairs=(t in (': T', '', ' := ' + E))):
                    core = qi == 0 and tag != 'two'
                    _emit(out, core, 'sdl', f'module m {{ type A {{ {q} {kind}p{t}{b}; }} }}')

    # ------------------------------------------------------------------ globals
    g_create = ['using ' + E, 'set default := ' + E, "create annotation title := 'x'", 'set required', 'reset default']
    g_sdl = ['using ' + E, 'default := ' + E, "annotation title := 'x'"]
    g_alter = ['using ' + E, 'reset expression', 'set default := ' + E, 'reset default', 'set type T reset to default',
               'set type T using ' + E, 'set type T', 'reset type', 'set required', 'set optional', 'set multi',
               'set single', 'reset optionality', 'reset cardinality', 'rename to h', "create annotation title := 'x'",
               'drop annotation title', 'set required using ' + E]
    g_targets = ['', ': T', ' -> T', ' := ' + E, ' := ' + E2, ': array<T>', ' -> m::T']
    g_quals = ['', 'required', 'optional', 'multi', 'single', 'required multi', 'optional single']
    for qi, q in enumerate(g_quals):
        for t in g_targets:
            for tag, b in _bodies(g_create):
                _emit(out, qi == 0 and tag != 'two', 'block', f'create {q} global g{t}{b}')
                _emit(out, False, 'block', f'create {q} global m::g{t}{b}')
            for tag, b in _bodies(g_sdl):
                _emit(out, qi == 0 and tag != 'two', 'sdl', f'module m {{ {q} global g{t}{b}; }}')
    for tag, b in _bodies(g_alter, short=True):
        _emit(out, tag != 'two', 'block', f'alter global g{b}')
    _emit(out, True, 'block', 'drop global g')

    # ------------------------------------------------------------------ aliases
    a_kinds = ['using ' + E2, "create annotation title := 'x'", "set title := 'x'"]
    for t in ['', ' := ' + E2, ' := ' + E, ' := 1']:
        for tag, b in _bodies(a_kinds):
            _emit(out, True, 'block', f'create alias A{t}{b}')
        for tag, b in _bodies(['using ' + E2, "annotation title := 'x'"]):
            _emit(out, True, 'sdl', f'module m {{ alias A{t}{b}; }}')
    for tag, b in _bodies(['using ' + E2, 'reset expression', 'rename to B', "create annotation title := 'x'",
                           'drop annotation title'], short=True):
        _emit(out, True, 'block', f'alter alias A{b}')

    # ------------------------------------------------------------------ concrete indexes
    i_kinds = ["create annotation title := 'x'", "set title := 'x'"]
    i_alter = ["create annotation title := 'x'", 'drop annotation title', "alter annotation title := 'y'", 'set owned',
               'drop owned', 'set deferred', 'drop deferred', 'reset deferred']
    for d in ['', 'deferred ']:
        for name in ['', ' pg::gin', ' fts::index(language := ' + E + ')', ' ext::ai::index(a := 1, b := ' + E + ')', ' idx']:
            for exc in ['', ' except ' + E, ' except (.b)']:
                for tag, b in _bodies(i_kinds):
                    core = d == '' and tag != 'two'
                    _emit(out, core, 'block', f'create type A {{ create {d}index{name} on (.a){exc}{b} }}')
                    _emit(out, core, 'sdl', f'module m {{ type A {{ {d}index{name} on (.a){exc}' +
                          b.replace('create annotation', 'annotation').replace('set title', 'title') + '; } }')
                for tag, b in _bodies(i_alter, short=True, pairs=False):
                    _emit(out, d == '', 'block', f'alter type A {{ alter index{name} on (.a){exc}{b} }}')
                _emit(out, True, 'block', f'alter type A {{ drop index{name} on (.a){exc} }}')

    # ------------------------------------------------------------------ concrete constraints
    c_kinds = ["set errmessage := 'm'", "create annotation title := 'x'", 'set delegated']
    c_alter = ["set errmessage := 'm'", 'reset errmessage', 'set delegated', 'set not delegated', 'reset delegated',
               "create annotation title := 'x'", 'drop annotation title', 'set owned', 'drop owned']
    for d in ['', 'delegated ']:
        for name in ['exclusive', 'm::c', 'max_value(3)', 'c(1, ' + E + ')', 'expression']:
            for on in ['', ' on ' + E, ' on (.a)', ' on ((.a, .b))']:
                for exc in ['', ' except ' + E]:
                    for tag, b in _bodies(c_kinds):
                        core = d == '' and tag != 'two'
                        _emit(out, core, 'block', f'create type A {{ create {d}constraint {name}{on}{exc}{b} }}')
                        _emit(out, core, 'sdl', f'module m {{ type A {{ {d}constraint {name}{on}{exc}' +
                              b.replace('create annotation', 'annotation').replace('set errmessage', 'errmessage')
                              .replace('set delegated', "annotation description := 'd'") + '; } }')
                    for tag, b in _bodies(c_alter, short=True, pairs=False):
                        _emit(out, d == '' and exc == '', 'block',
                              f'alter type A {{ alter constraint {name}{on}{exc}{b} }}')
                    _emit(out, True, 'block', f'alter type A {{ drop constraint {name}{on}{exc} }}')
    # abstract constraints
    ac_kinds = ['using ' + E, "set errmessage := 'm'", "create annotation title := 'x'"]
    for params in ['', '(a: T)', '(a: T, b: optional U = ' + E + ')', '(variadic a: T)', '(named only a: T)']:
        for on in ['', ' on ' + E, ' on (__subject__)']:
            for ext in ['', ' extending d', ' extending d, m::e']:
                for tag, b in _bodies(ac_kinds):
                    core = ext == '' and tag != 'two'
                    _emit(out, core, 'block', f'create abstract constraint c{params}{on}{ext}{b}')
                    _emit(out, core, 'sdl', f'module m {{ abstract constraint c{params}{on}{ext}' +
                          b.replace('create annotation', 'annotation').replace('set errmessage', 'errmessage') + '; }')
    for tag, b in _bodies(['using ' + E, 'reset expression', "set errmessage := 'm'", 'rename to d',
                           "create annotation title := 'x'"], short=True):
        _emit(out, True, 'block', f'alter abstract constraint c{b}')

    # ------------------------------------------------------------------ functions
    f_kinds = ['using ' + E, 'using sql $$select 1$$', "using sql function 'f'", 'using sql expression',
               "set volatility := 'Immutable'", "create annotation title := 'x'", 'set impl_is_strict := false']
    f_sdl = ['using ' + E, 'using sql $$select 1$$', "using sql function 'f'", "volatility := 'Immutable'",
             "annotation title := 'x'"]
    for params in ['()', '(a: T)', '(a: T = ' + E + ', named only b: optional U = {}, variadic c: set of V)',
                   '(a: m::T, b: array<T>)']:
        for ret in ['T', 'optional T', 'set of T', 'm::T', 'array<T>']:
            for tail in ['', ' using ' + E, ' using sql $$select 1$$', " using sql function 'f'", ' using sql expression',
                         " using sql 'x'"]:
                bods = list(_bodies(f_kinds)) if tail == '' else [('none', '')]
                for tag, b in bods:
                    core = ret == 'T' and tag != 'two'
                    _emit(out, core, 'block', f'create function f{params} -> {ret}{tail}{b}')
                sb = list(_bodies(f_sdl)) if tail == '' else [('none', '')]
                for tag, b in sb:
                    _emit(out, ret == 'T' and tag != 'two', 'sdl', f'module m {{ function f{params} -> {ret}{tail}{b}; }}')
    for tag, b in _bodies(['using ' + E, "set volatility := 'Stable'", 'rename to g', "create annotation title := 'x'",
                           'drop annotation title', 'reset volatility'], short=True):
        _emit(out, True, 'block', f'alter function f(a: T){b}')
    _emit(out, True, 'block', 'drop function f(a: T, named only b: U)')

    # ------------------------------------------------------------------ scalar / object types
    s_kinds = ['create constraint max_value(3)', 'create constraint expression on ' + E, "create annotation title := 'x'",
               "set title := 'x'"]
    for ab in ['', 'abstract ']:
        for ext in ['', ' extending int64', ' extending enum<A, B>', ' extending m::b, c', " extending enum<`A b`, C>"]:
            for tag, b in _bodies(s_kinds):
                core = tag != 'two'
                _emit(out, core, 'block', f'create {ab}scalar type S{ext}{b}')
                _emit(out, core, 'sdl', f'module m {{ {ab}scalar type S{ext}' +
                      b.replace('create ', '').replace('set title', 'title') + '; }')
    for tag, b in _bodies(['create constraint max_value(3)', 'drop constraint max_value(3)', 'rename to S2', 'extending b',
                           'drop extending b', 'extending enum<A, B, C>', "create annotation title := 'x'",
                           'set abstract', 'set not abstract', 'reset abstract'], short=True):
        _emit(out, tag != 'two', 'block', f'alter scalar type S{b}')
    o_kinds = ['create property a: T', 'create required link l: B', 'create constraint exclusive on (.a)',
               'create index on (.a)', "create annotation title := 'x'", 'create access policy p allow all',
               'create trigger t after insert for each do ' + E2, 'extending C', 'set abstract', "set title := 'x'"]
    o_sdl = ['a: T', 'property a: T', 'required link l: B', 'constraint exclusive on (.a)', 'index on (.a)',
             "annotation title := 'x'", 'access policy p allow all', 'trigger t after insert for each do ' + E2]
    for ab in ['', 'abstract ']:
        for ext in ['', ' extending B', ' extending B, m::C']:
            for tag, b in _bodies(o_kinds):
                _emit(out, tag != 'two', 'block', f'create {ab}type A{ext}{b}')
            for tag, b in _bodies(o_sdl):
                _emit(out, tag != 'two', 'sdl', f'module m {{ {ab}type A{ext}{b}; }}')
    for tag, b in _bodies(['create property a: T', 'alter property a set required', 'drop property a', 'rename to B',
                           'extending B', 'extending B first', 'extending B before C', 'extending B after C',
                           'extending B last', 'drop extending B', 'set abstract', 'set not abstract', 'reset abstract',
                           "create annotation title := 'x'", 'drop annotation title', 'create index on (.a)',
                           'drop access policy p', 'drop trigger t'], short=True):
        _emit(out, tag != 'two', 'block', f'alter type A{b}')

    # ------------------------------------------------------------------ access policies, triggers, rewrites
    p_kinds = ["set errmessage := 'm'", "create annotation title := 'x'"]
    for when in ['', ' when ' + E]:
        for act in ['allow', 'deny']:
            for kinds in ['all', 'select', 'insert', 'select, insert', 'update read', 'update write', 'update',
                          'update read, update write', 'delete, select, update, insert']:
                for using in ['', ' using ' + E]:
                    for tag, b in _bodies(p_kinds):
                        core = tag != 'two' and kinds in ('all', 'select', 'update')
                        _emit(out, core, 'block', f'create type A {{ create access policy p{when} {act} {kinds}{using}{b} }}')
                        _emit(out, core, 'sdl', f'module m {{ type A {{ access policy p{when} {act} {kinds}{using}' +
                              b.replace('create annotation', 'annotation').replace('set errmessage', 'errmessage') + '; } }')
    for tag, b in _bodies(['when ' + E, 'reset when', 'allow select', 'deny all', 'using ' + E, 'reset expression',
                           'rename to q', "set errmessage := 'm'", 'reset errmessage', "create annotation title := 'x'"],
                          short=True):
        _emit(out, tag != 'two', 'block', f'alter type A {{ alter access policy p{b} }}')
    for kinds in ['insert', 'update', 'delete', 'insert, update', 'update, delete, insert']:
        for scope in ['each', 'all']:
            for when in ['', ' when ' + E]:
                for tag, b in _bodies(["create annotation title := 'x'"], pairs=False):
                    _emit(out, True, 'block', f'create type A {{ create trigger t after {kinds} for {scope}{when} do {E2}{b} }}')
                    _emit(out, True, 'sdl', f'module m {{ type A {{ trigger t after {kinds} for {scope}{when} do {E2}' +
                          b.replace('create annotation', 'annotation') + '; } }')
    for tag, b in _bodies(['using ' + E2, 'when ' + E, 'reset when', 'rename to u', "create annotation title := 'x'"],
                          short=True, pairs=False):
        _emit(out, True, 'block', f'alter type A {{ alter trigger t{b} }}')
    for kinds in ['insert', 'update', 'insert, update', 'update, insert']:
        for tag, b in _bodies(["create annotation title := 'x'"], pairs=False):
            _emit(out, True, 'block', f'create type A {{ create property a: T {{ create rewrite {kinds} using {E}{b} }} }}')
            _emit(out, True, 'sdl', f'module m {{ type A {{ a: T {{ rewrite {kinds} using {E}' +
                  b.replace('create annotation', 'annotation') + ' } } }')
        _emit(out, True, 'block', f'alter type A {{ alter property a {{ alter rewrite {kinds} using {E} }} }}')
        _emit(out, True, 'block', f'alter type A {{ alter property a {{ drop rewrite {kinds} }} }}')

    # ------------------------------------------------------------------ abstract links / properties / annotations / indexes
    for kind, kinds in (('link', ['create property lp: T', 'create index on (@lp)', 'extending b', 'set readonly := true',
                                  "create annotation title := 'x'", 'create constraint exclusive']),
                        ('property', ['extending b', 'set readonly := true', "create annotation title := 'x'"])):
        for ext in ['', ' extending b', ' extending b, m::c']:
            for tag, b in _bodies(kinds):
                _emit(out, tag != 'two', 'block', f'create abstract {kind} l{ext}{b}')
                _emit(out, tag != 'two', 'sdl', f'module m {{ abstract {kind} l{ext}' +
                      b.replace('create property ', 'property ').replace('create ', '').replace('set readonly', 'readonly')
                      + '; }')
        for tag, b in _bodies(['rename to k', 'extending b', 'drop extending b', 'set readonly := true', 'reset readonly',
                               "create annotation title := 'x'"], short=True, pairs=False):
            _emit(out, True, 'block', f'alter abstract {kind} l{b}')
        _emit(out, True, 'block', f'drop abstract {kind} l')
    for inh in ['', 'inheritable ']:
        for ext in ['', ' extending b']:
            for tag, b in _bodies(["create annotation title := 'x'", "set title := 'x'"], pairs=False):
                _emit(out, True, 'block', f'create abstract {inh}annotation a{ext}{b}')
                _emit(out, True, 'sdl', f'module m {{ abstract {inh}annotation a{ext}' +
                      b.replace('create annotation', 'annotation').replace('set title', 'title') + '; }')
    for params in ['', '(a: T)', '(named only a: T = ' + E + ')']:
        for using in ['', ' using pg::gin', ' using a(b := 1), c']:
            for ext in ['', ' extending b']:
                for tag, b in _bodies(["set code := 'c'", "create annotation title := 'x'"]):
                    _emit(out, tag != 'two', 'block', f'create abstract index i{params}{using}{ext}{b}')
                    _emit(out, tag != 'two', 'sdl', f'module m {{ abstract index i{params}{using}{ext}' +
                          b.replace('create annotation', 'annotation').replace('set code', 'code') + '; }')

    # ------------------------------------------------------------------ annotation values / setfield forms
    for v in ["'x'", "'a' ++ 'b'", '(' + "'x'" + ')', "<str>1", "{'a', 'b'}", 'true', '1', "b'x'", '[1, 2]', '(1, 2)',
              E, E2, '{}', '<array<str>>[]', 'x.y', '$p']:
        _emit(out, True, 'block', f'create type A {{ create annotation title := {v} }}')
        _emit(out, True, 'block', f'alter type A {{ alter annotation title := {v} }}')
        _emit(out, True, 'block', f'alter type A set title := {v}')
        _emit(out, True, 'block', f'create type A {{ set title := {v} }}')
        _emit(out, True, 'sdl', f'module m {{ type A {{ annotation title := {v}; title := {v}; }} }}')
        _emit(out, True, 'block', f'create function f() -> T {{ set v := {v}; using (1) }}')

    # ------------------------------------------------------------------ casts, operators, roles, branches, modules
    for body in itertools.chain.from_iterable(itertools.combinations(
            ["using sql function 'f'", 'using sql cast', 'using sql expression', 'using sql $$x$$', 'allow implicit',
             'allow assignment', "set volatility := 'Stable'", "create annotation title := 'x'"], n) for n in (0, 1, 2, 3)):
        _emit(out, len(body) < 3, 'block', 'create cast from A to B {' + ''.join(' ' + c + ';' for c in body) + ' }')
    for kind in ['infix', 'prefix', 'postfix', 'ternary']:
        for ab in ['', 'abstract ']:
            for tail in ['', " using sql operator '+'", " using sql operator r'+(int, int)'", " using sql function 'f'",
                         ' using sql expression', ' using sql $$x$$']:
                for tag, b in _bodies(["set commutator := 'std::+'", "create annotation title := 'x'",
                                       "using sql operator '+'", "using sql function 'f'", 'using sql expression'],
                                      pairs=(tail == '')):
                    if tail and b not in ('',):
                        continue
                    _emit(out, tag != 'two', 'block',
                          f'create {ab}{kind} operator std::`+`(l: T, r: T) -> optional T{tail}{b}')
    for su in ['', 'superuser ']:
        for ext in ['', ' extending a', ' extending a, b']:
            for tag, b in _bodies(["set password := 'p'", "set password_hash := 'h'"], pairs=False):
                _emit(out, True, 'block', f'create {su}role r{ext}{b}')
    for tag, b in _bodies(['extending a', 'drop extending a', "set password := 'p'", 'reset password', 'rename to s'],
                          short=True):
        _emit(out, tag != 'two', 'block', f'alter role r{b}')
    for t in ['create database d', 'create empty branch b', 'create schema branch b from c', 'create data branch b from c',
              'create template branch b from c', 'drop database d', 'drop branch b', 'alter branch b rename to c',
              'alter database d rename to e', 'create module m', 'create module m if not exists', 'create module m::n',
              'drop module m', 'alter module m create annotation t := "x"', 'create extension e', "create extension e version '1'",
              'drop extension e', "alter extension e to version '2'", 'create future f', 'drop future f',
              "create extension package p version '1'", "create extension package p version '1' { create module m; }",
              "create extension package p version '1' { set ext_module := 'm'; }",
              "drop extension package p version '1'", 'create migration', 'create migration {}',
              'create migration m1 onto m0', 'create migration m1 onto m0 { }', 'create migration m1 onto initial { create type A; }',
              "create migration m1 onto m0 { set message := 'x'; }", "create migration m1 onto m0 { set message := 'x'; create type A; }",
              'create applied migration m1 onto m0 { create type A; }', "alter migration m1 set message := 'x'",
              "alter migration m1 { set message := 'x'; set generated_by := 'DevMode'; }", 'drop migration m1',
              'create pseudo type t', 'create index match for T using i', 'drop index match for T using i']:
        _emit(out, True, 'block', t)
    for t in ['module m {}', 'module m { module n {} }', 'module m { type A; }', 'using extension e;', "using extension e version '1';",
              'using future f;', 'type m::A;', 'module m { type A { } }']:
        _emit(out, True, 'sdl', t)
    return out
