"""Shared harness for C15 / C16: the REAL ``edb.server.connpool.pool.Pool`` on a
deterministic event loop, with a ghost record of what the backend sees.

Part 1 (this section): the world (pool + loop + fake backend) and the actions
the scheduler can take.  One *step* = one action:

  run     execute ONE ready handle of the loop (an atomic section of pool code)
  acq     create a task running ``pool.acquire(db)``  (its first section runs later)
  rel     a holder calls ``pool.release(db, conn, discard=…)``
  cok/cfail/c3d   the backend completes / fails an in-flight connect callback
  dok/dfail       the backend completes / fails an in-flight disconnect callback
  timer   advance the virtual clock to the next timer and make it ready
  adv     advance the clock a little (no timer fires)
  prune   create a task running ``pool.prune_inactive_connections(db)``
  pall    create a task running ``pool.prune_all_connections()``   (own stream)
"""
from __future__ import annotations

import asyncio
import inspect
import logging
from typing import Any, Dict, List, Optional

import shim  # noqa: F401  (must precede any edb import)
from edb.server.connpool import pool as pool_impl
from edb.server.connpool import config as pool_config

from lib.detloop import DetLoop


import signal
import sys
import warnings

warnings.filterwarnings('ignore', message='coroutine .* was never awaited')

STEP_TIMEOUT = 1.0


class StepTimeout(BaseException):
    pass


_ALARM = {'fired': False}


def _on_alarm(signum, frame):
    _ALARM['fired'] = True
    raise StepTimeout()


signal.signal(signal.SIGALRM, _on_alarm)


_TICK_LINES = {}


def _tick_source():
    """line number -> stripped source text of Pool._tick (of the code that is actually loaded)"""
    import inspect as _insp
    code = pool_impl.Pool._tick.__code__
    key = id(code)
    if key not in _TICK_LINES:
        _TICK_LINES.clear()
        try:
            src, start = _insp.getsourcelines(pool_impl.Pool._tick)
        except (OSError, TypeError):
            src, start = [], code.co_firstlineno
        if not src and hasattr(pool_impl, '__mut_source__'):
            allsrc = pool_impl.__mut_source__.splitlines()
            src = allsrc[code.co_firstlineno - 1: code.co_firstlineno + 200]
            start = code.co_firstlineno
        _TICK_LINES[key] = {start + i: l.strip() for i, l in enumerate(src)}
    return _TICK_LINES[key]


class BackendError(Exception):
    """what the fake backend raises; `fields` mimics pgcon's BackendError"""
    def __init__(self, msg, code=None):
        super().__init__(msg)
        self.fields = {'C': code} if code else {}


class Conn:
    __slots__ = ('id', 'db', 'state', 'by_holder')

    def __init__(self, id, db):
        self.id = id
        self.db = db
        self.state = 'open'        # open -> closing -> closed
        self.by_holder = False     # handed back with discard=True (counts as closed)

    def __repr__(self):
        return f'<c{self.id}@{self.db}>'


class Req:
    __slots__ = ('id', 'db', 'task', 'state', 'conn', 'error', 'born', 'got_at')

    def __init__(self, id, db, task, born):
        self.id = id
        self.db = db
        self.task = task
        self.state = 'waiting'     # waiting -> holding -> released | failed
        self.conn = None
        self.error = None
        self.born = born
        self.got_at = None


class Problems(list):
    """(key, what, step) records; one per key and run"""
    def __init__(self, world):
        super().__init__()
        self._w = world
        self.counts: Dict[str, int] = {}

    def append(self, kw):
        k = kw[0]
        self.counts[k] = self.counts.get(k, 0) + 1
        if self.counts[k] == 1:
            super().append((k, kw[1], self._w.nstep))


class _Clock:
    """stands in for the `time` module inside pool.py"""
    def __init__(self, loop):
        self._loop = loop

    def monotonic(self):
        return self._loop.time()


def coro_chain(task) -> List[Any]:
    """coroutine objects of a task from the outermost to the innermost
    suspended frame"""
    out = []
    c = task.get_coro()
    while c is not None and getattr(c, 'cr_frame', None) is not None:
        out.append(c)
        c = c.cr_await
    return out


def coro_created(task) -> bool:
    return inspect.getcoroutinestate(task.get_coro()) == inspect.CORO_CREATED


class World:
    def __init__(self, max_capacity: int, dbs: List[str], gc_interval: float):
        self.loop = DetLoop().enter()
        self._saved_time = pool_impl.time
        pool_impl.time = _Clock(self.loop)            # pool.py's clock := virtual clock
        self._saved_disabled = pool_config.logger.disabled
        pool_config.logger.disabled = True
        self.max = max_capacity
        self.dbs = dbs
        self.pool = pool_impl.Pool(connect=self._connect_cb, disconnect=self._disconnect_cb,
                                   max_capacity=max_capacity,
                                   min_idle_time_before_gc=gc_interval)
        self.pool._loop = self.loop
        self.conns: List[Conn] = []               # every connection the backend ever made
        self.conn_cbs: List[dict] = []            # in-flight connect callbacks
        self.disc_cbs: List[dict] = []            # in-flight disconnect callbacks
        self.reqs: List[Req] = []
        self.holders: Dict[Conn, Req] = {}
        self.tasks: Dict[int, asyncio.Task] = {}  # every task, by creation number
        self.task_kind: Dict[int, str] = {}
        self.prunes: List[asyncio.Task] = []
        self.loop.on_task = self._on_task
        self.nstep = 0
        self.trace: List[str] = []                # replayable action log
        self.events: List[str] = []               # protocol lines for the Lean driver
        self.nstep = 0
        self.problems = Problems(self)            # (key, what, step) found by the oracle
        self.phantom_blocks: Dict[str, int] = {}  # pending_conns leaked by a failed transfer
        self.pruned_all = False
        self.orphans = set()
        self.tick_log: List[str] = []
        self.fault_log: List[tuple] = []      # (index of the action in the trace, kind of injected fault)
        self.seen_handles: Dict[int, int] = {}
        self.hist: Dict[str, int] = {}

    # ------------------------------------------------------------- lifecycle
    def close(self):
        for t in self.tasks.values():
            if not t.done():
                t.cancel()
                try:
                    t.get_coro().close()
                except Exception:
                    pass
            else:
                # mark exceptions retrieved so nothing is logged at GC time
                if not t.cancelled():
                    t.exception()
        pool_impl.time = self._saved_time
        pool_config.logger.disabled = self._saved_disabled
        self.loop.on_task = None
        self.loop.leave()

    def _on_task(self, t, n):
        self.tasks[n] = t
        self.task_kind[n] = t.get_coro().cr_code.co_name

    # ------------------------------------------------------ backend callbacks
    def _connect_cb(self, dbname):
        fut = self.loop.create_future()
        self.conn_cbs.append({'fut': fut, 'db': dbname, 'task': asyncio.current_task(self.loop),
                              'at': self.nstep, 'resolved': None, 'conn': None})
        return fut

    def _disconnect_cb(self, conn):
        fut = self.loop.create_future()
        cur = asyncio.current_task(self.loop)
        kind = coro_chain_names(cur)[0] if cur is not None else '?'
        if conn.state != 'open':
            self.problems.append(('disconnect-twice', f'disconnect called on {conn!r} in state {conn.state}'))
        conn.state = 'closing'
        to_block = None
        if kind == '_transfer':
            to_block = cur.get_coro().cr_frame.f_locals['to_block'].dbname
        self.disc_cbs.append({'to_block': to_block, 'fut': fut, 'conn': conn, 'task': cur, 'kind': kind, 'at': self.nstep,
                              'resolved': None})
        return fut

    # --------------------------------------------------------------- actions
    def act_acquire(self, db: str) -> Req:
        t = self.loop.create_task(self.pool.acquire(db))
        r = Req(len(self.reqs), db, t, self.nstep)
        t._req = r
        self.reqs.append(r)
        return r

    def act_release(self, r: Req, discard: bool):
        c = r.conn
        assert r.state == 'holding'
        r.state = 'released'
        del self.holders[c]
        if discard:
            c.by_holder = True
        try:
            self.pool.release(r.db, c, discard=discard)
        except Exception as e:     # the real code refused a legitimate release
            self._rel_raised = True
            # for the pool the connection is still lent (nothing changed); the request will not try again
            r.state = 'refused'
            self.holders[c] = r
            if not self.pruned_all:
                self.problems.append(('release-raised', f'release({r.db},{c!r},discard={discard}) raised {e!r}'))

    def act_connect_done(self, i: int, outcome: str) -> Optional[Conn]:
        cb = self.conn_cbs[i]
        assert cb['resolved'] is None
        cb['resolved'] = outcome
        if outcome == 'ok':
            c = Conn(len(self.conns), cb['db'])
            self.conns.append(c)
            cb['fut'].set_result(c)
            cb['conn'] = c
            return c
        self.fault_log.append((len(self.trace) - 1, 'connect-3d000' if outcome == '3d' else 'connect-failure'))
        cb['fut'].set_exception(BackendError('connect failed', '3D000' if outcome == '3d' else None))
        return None

    def act_disconnect_done(self, i: int, ok: bool):
        cb = self.disc_cbs[i]
        assert cb['resolved'] is None
        cb['resolved'] = 'ok' if ok else 'fail'
        # the ghost connection turns 'closed' when the awaiting task learns about it
        # (World.settle); a failed disconnect also ends the connection
        if ok:
            cb['fut'].set_result(None)
        else:
            kind = {'_discard_conn': 'discard-disconnect-failure', '_transfer': 'transfer-disconnect-failure',
                    '_disconnect': 'pruneall-disconnect-failure'}.get(cb['kind'], 'disconnect-failure')
            self.fault_log.append((len(self.trace) - 1, kind))
            cb['fut'].set_exception(BackendError('disconnect failed'))

    def act_prune(self, db: str):
        t = self.loop.create_task(self.pool.prune_inactive_connections(db))
        t._prune_db = db
        self.prunes.append(t)
        return t

    def act_prune_all(self):
        t = self.loop.create_task(self.pool.prune_all_connections())
        self.prunes.append(t)
        return t

    def settle(self, task):
        """`task` just ran: callbacks it was waiting for and that were resolved
        are now known to the pool."""
        for cb in [cb for cb in self.conn_cbs if cb['task'] is task and cb['resolved']]:
            self.conn_cbs.remove(cb)
        for cb in [cb for cb in self.disc_cbs if cb['task'] is task and cb['resolved']]:
            self.disc_cbs.remove(cb)
            cb['conn'].state = 'closed'
            if cb['kind'] == '_transfer' and cb['resolved'] == 'fail' and task.done():
                # the _transfer task died in its disconnect: to_block.pending_conns is never undone
                name = cb['to_block']
                self.phantom_blocks[name] = self.phantom_blocks.get(name, 0) + 1

    # after a handle ran: harvest finished acquire tasks
    def harvest(self):
        for r in self.reqs:
            if r.state == 'waiting' and r.task.done():
                if r.task.cancelled():
                    r.state = 'failed'
                    r.error = 'cancelled'
                    continue
                e = r.task.exception()
                if e is not None:
                    r.state = 'failed'
                    r.error = e
                    if not isinstance(e, BackendError):
                        self.problems.append(('acquire-raised', f'acquire({r.db}) raised {e!r}'))
                    continue
                c = r.task.result()
                r.state = 'holding'
                r.conn = c
                r.got_at = self.nstep
                self.check_lend(r, c)
                self.holders[c] = r

    def check_lend(self, r: Req, c):
        """C15 at the moment of lending"""
        if not isinstance(c, Conn):
            self.problems.append(('lend-nonconn', f'acquire({r.db}) returned {c!r}'))
            return
        if c in self.holders:
            self.problems.append(('double-lend', f'{c!r} lent to request {r.id} while request '
                                                 f'{self.holders[c].id} still holds it'))
        if c.state != 'open':
            self.problems.append(('lend-dead', f'{c!r} lent to request {r.id} in backend state {c.state}'))
        if c.db != r.db:
            self.problems.append(('lend-wrong-db', f'{c!r} lent to a request for {r.db}'))
        if c.by_holder:
            self.problems.append(('lend-discarded', f'{c!r} lent after it was handed back as broken'))


def coro_chain_names(task) -> List[str]:
    return [c.cr_code.co_name for c in coro_chain(task)] or [task.get_coro().cr_code.co_name]


# =====================================================================
# Part 2: the oracle S — C15's invariant and C16's Inv2 evaluated directly on
# the real pool object + the ghost backend record (independent of the model).
# =====================================================================

def task_view(w: World):
    """What the live tasks say (read from their suspended frames)."""
    v = {
        'conn_sched': [],      # (block) _connect task created, callback not called yet
        'conn_tasks': {},      # block -> number of live tasks that owe the block one pending_conns
        'disc_sched': [],      # (block, conn) _discard_conn task created, not started
        'try_acq': {},         # block -> [(task, waiter future)]
        'prune_locals': [],    # conns sitting in a prune task's local list
        'disc_all_sched': [],  # prune_all's _disconnect tasks not started yet
        'prune_by_task': {},   # task number -> the list a suspended prune task holds
    }
    for n, t in w.tasks.items():
        if t.done():
            continue
        chain = coro_chain(t)
        if not chain:
            continue
        names = [c.cr_code.co_name for c in chain]
        top = chain[0]
        created = inspect.getcoroutinestate(top) == inspect.CORO_CREATED
        loc = top.cr_frame.f_locals
        if names[0] == '_connect':
            b = loc['block']
            v['conn_tasks'][b] = v['conn_tasks'].get(b, 0) + 1
            if created:
                v['conn_sched'].append(b)
        elif names[0] == '_transfer':
            b = loc['to_block']
            v['conn_tasks'][b] = v['conn_tasks'].get(b, 0) + 1
        elif names[0] == '_discard_conn':
            if created:
                v['disc_sched'].append((loc['block'], loc['conn']))
        elif names[0] == '_disconnect':
            if created:
                v['disc_all_sched'].append(loc['conn'])
        elif names[0] == 'prune_inactive_connections':
            if not created and 'conns' in loc:
                # until the gather starts the stolen conns only live in this list
                if hasattr(top.cr_await, 'cr_frame'):     # inside `await block.try_acquire()`
                    v['prune_locals'] += list(loc['conns'])
                    v['prune_by_task'][n] = list(loc['conns'])
        for c in chain:
            if c.cr_code.co_name == 'try_acquire' and c.cr_frame is not None:
                l2 = c.cr_frame.f_locals
                if 'waiter' in l2:
                    v['try_acq'].setdefault(l2['self'], []).append((t, l2['waiter']))
    return v


def oracle(w: World):
    """Appends (key, what) to w.problems for every clause that fails now."""
    P = w.problems.append
    pool = w.pool
    v = task_view(w)
    open_conns = [c for c in w.conns if c.state in ('open', 'closing')]
    opening = sum(1 for cb in w.conn_cbs if cb['resolved'] != 'ok')   # 'ok' ones are in open_conns
    sched = len(v['conn_sched'])
    by_holder = sum(1 for c in open_conns if c.by_holder)
    true_usage = len(open_conns) + opening + sched

    # (a) capacity: open + being opened <= max, a conn handed back as broken counts as closed
    if true_usage - by_holder > w.max:
        P(('over-capacity', f'{len(open_conns)} open (of which {by_holder} handed back as broken) + '
                            f'{opening} connecting + {sched} scheduled > max {w.max}'))
    # (b) reported usage == true usage
    if pool.current_capacity != true_usage:
        P(('usage-mismatch', f'pool.current_capacity={pool.current_capacity} but {len(open_conns)} open/closing '
                             f'+ {opening} connecting + {sched} scheduled'))
    if pool._cur_capacity < 0:
        P(('negative-capacity', f'_cur_capacity={pool._cur_capacity}'))

    seen: Dict[Conn, str] = {}
    limbo = []
    total_block = 0
    for name, b in pool._blocks.items():
        if b.dbname != name:
            P(('block-name', f'block {b.dbname} filed under {name}'))
        total_block += len(b.conns) + b.pending_conns
        # per-block pending == live connect/transfer tasks aimed at the block
        owed = v['conn_tasks'].get(b, 0)
        if b.pending_conns != owed:
            if b.pending_conns > owed and w.phantom_blocks.get(name, 0) == b.pending_conns - owed:
                pass    # already reported as transfer-disconnect-failure
            else:
                P(('pending-mismatch', f'block {name}: pending_conns={b.pending_conns} but {owed} '
                                       f'connect/transfer tasks are alive for it'))
        if b.pending_conns < 0 or b.conn_acquired_num < 0 or b.conn_waiters_num < 0:
            P(('negative-counter', f'block {name}: pending={b.pending_conns} acquired={b.conn_acquired_num} '
                                   f'waiters={b.conn_waiters_num}'))
        stack = list(b.conn_stack)
        if len(set(stack)) != len(stack):
            P(('stack-dup', f'block {name}: a connection is twice on the stack {stack}'))
        held_here = 0
        for c, st in b.conns.items():
            if c in seen:
                P(('conn-in-two-blocks', f'{c!r} in blocks {seen[c]} and {name}'))
            seen[c] = name
            if c.db != name:
                P(('conn-wrong-block', f'{c!r} filed in block {name}'))
            if c.state != 'open' and not w.pruned_all:
                P(('dead-conn-in-block', f'{c!r} is {c.state} for the backend but still in block {name}'))
            if st.in_use:
                held_here += 1
                if c not in w.holders:
                    # between the section that marks it and harvest() there is no step
                    P(('inuse-unheld', f'{c!r} marked in_use but no request holds it'))
                if c in stack:
                    P(('inuse-on-stack', f'{c!r} is lent and on the idle stack'))
            else:
                if c in w.holders:
                    P(('held-not-inuse', f'{c!r} held by request {w.holders[c].id} but not marked in_use'))
                if c not in stack:
                    limbo.append((b, c))
        for c in stack:
            if c not in b.conns:
                P(('stack-not-in-conns', f'block {name}: {c!r} on the stack but not in conns'))
        if not w.pruned_all and b.conn_acquired_num != held_here:
            P(('acquired-mismatch', f'block {name}: conn_acquired_num={b.conn_acquired_num}, '
                                    f'{held_here} connections lent'))
        ta = v['try_acq'].get(b, [])
        if b.conn_waiters_num != len(ta):
            P(('waiters-mismatch', f'block {name}: conn_waiters_num={b.conn_waiters_num}, '
                                   f'{len(ta)} tasks inside try_acquire'))
        queued = [f for f in b.conn_waiters if not f.done()]
        sleeping = [f for (_t, f) in ta if not f.done()]
        if sorted(map(id, queued)) != sorted(map(id, sleeping)):
            P(('queue-mismatch', f'block {name}: {len(queued)} pending futures in conn_waiters, '
                                 f'{len(sleeping)} tasks asleep in try_acquire'))
        # ---- C16 Inv2: no idle connection while every waiter sleeps
        woken = sum(1 for (_t, f) in ta if f.done() and not f.cancelled() and f.exception() is None)
        if queued and len(stack) > woken:
            P(('lost-wakeup', f'block {name}: {len(stack)} idle connection(s), {len(queued)} sleeping waiter(s), '
                              f'only {woken} woken'))
    for blk in v['try_acq']:
        if pool._blocks.get(blk.dbname) is not blk:
            P(('waiter-on-dropped-block', f'a task waits in try_acquire of block {blk.dbname} which is '
                                          f'no longer in the pool'))
    # every holder's connection is where it should be
    for c, r in w.holders.items():
        b = pool._blocks.get(r.db)
        if w.pruned_all:
            continue
        if b is None or c not in b.conns:
            P(('held-not-in-block', f'{c!r} held by request {r.id} is not in block {r.db}'))
        if c.state != 'open':
            P(('held-dead', f'{c!r} held by request {r.id} is {c.state} for the backend'))
    # connections neither lent nor idle must be owned by a scheduled discard / a prune in progress
    # a prune task that died (it received the abort error inside try_acquire) orphans its list
    prev = getattr(w, '_prune_prev', {})
    for n, cl in prev.items():
        t = w.tasks[n]
        if t.done() and not t.cancelled() and t.exception() is not None:
            w.orphans.update(id(c) for c in cl)
    w._prune_prev = v['prune_by_task']
    want = sorted([id(c) for (_b, c) in v['disc_sched']] + [id(c) for c in v['prune_locals']])
    have = sorted(id(c) for (_b, c) in limbo)
    if have != want and not w.pruned_all and set(have) - set(want) <= w.orphans and set(want) <= set(have):
        P(('orphaned-by-dead-prune-task', f'connections {[c for _b, c in limbo if id(c) in w.orphans]} stay in '
           f'block.conns forever (not idle, not lent, never closed, still counted): the '
           f'prune_inactive_connections task that had taken them off the stack died'))
    elif have != want and not w.pruned_all:
        P(('limbo-mismatch', f'connections neither lent nor idle: {[c for _b, c in limbo]}; scheduled discards: '
                             f'{[c for _b, c in v["disc_sched"]]}, prune locals: {v["prune_locals"]}'))
    # pool-level accounting: cur == sum(conns + pending) + disconnects in flight that are not transfers
    closing = sum(1 for cb in w.disc_cbs if cb['kind'] != '_transfer') + len(v['disc_all_sched'])
    phantom = sum(w.phantom_blocks.values())
    if pool._cur_capacity + phantom != total_block + closing:
        P(('accounting', f'_cur_capacity={pool._cur_capacity} + phantom {phantom} != sum(len(conns)+pending)='
                         f'{total_block} + closing {closing}'))
    # an open connection the pool has forgotten about (leak)
    known = set(seen) | {cb['conn'] for cb in w.disc_cbs} | set(v['prune_locals'])
    for t in w.tasks.values():
        if not t.done():
            ch = coro_chain(t)
            if ch and ch[0].cr_code.co_name in ('_transfer', '_disconnect', '_discard_conn'):
                loc = ch[0].cr_frame.f_locals
                known.add(loc.get('from_conn') or loc.get('conn'))
    for c in open_conns:
        if c not in known and not any(cb['conn'] is c for cb in w.conn_cbs):
            P(('leaked-conn', f'{c!r} is open for the backend but unknown to the pool'))


# =====================================================================
# Part 3: schedules.  A schedule is a list of action strings; `Runner.apply`
# executes one on the world, `Runner.choose` draws the next one from the PRNG.
# =====================================================================

class Cfg:
    def __init__(self, rng, *, small=False, fair_only=False, allow_dfail=True):
        self.ndb = rng.choice([1, 1, 2, 2, 3, 3, 4, 5]) if not small else rng.choice([1, 2, 2, 3])
        self.max = rng.choice([1, 1, 2, 2, 3, 3, 4, 5, 6]) if not small else rng.choice([1, 1, 2, 2, 3])
        self.nreq = rng.randint(2, 40) if not small else rng.randint(2, 8)
        self.chaos_steps = rng.randint(30, 220) if not small else rng.randint(10, 60)
        self.p_cfail = rng.choice([0.0, 0.0, 0.1, 0.3, 0.6])
        self.p_3d = rng.choice([0.0, 0.0, 0.05, 0.3])
        self.p_dfail = rng.choice([0.0, 0.0, 0.1, 0.4]) if allow_dfail else 0.0
        self.p_discard = rng.choice([0.0, 0.1, 0.3])
        self.p_prune = rng.choice([0.0, 0.0, 0.02, 0.06])
        self.gc = rng.choice([0.005, 0.02, 0.1, 1.0, 120.0])
        self.p_timer = rng.choice([0.02, 0.08, 0.25])
        self.fair_k = rng.choice([5, 20, 60])
        self.hold_max = rng.choice([3, 15, 60])
        self.drain_fail_budget = rng.randint(0, 6)
        self.fair_only = fair_only
        self.fifo = rng.random() < 0.3       # real asyncio order: ready handles strictly FIFO

    def as_dict(self):
        return dict(self.__dict__)

    @classmethod
    def from_dict(cls, d):
        c = cls.__new__(cls)
        c.__dict__.update(d)
        return c


class Runner:
    def __init__(self, cfg: Cfg, on_step=None):
        self.cfg = cfg
        self.dbs = [f'd{i}' for i in range(cfg.ndb)]
        self.w = World(cfg.max, self.dbs, cfg.gc)
        self.on_step = on_step
        self.fails_resumed: Dict[str, int] = {}
        self.first_seen: Dict[int, int] = {}
        self.idle_timer_run = 0
        self.drain_fails = 0
        self.stuck = None
        self.dead = False

    # ---------------------------------------------------------------- apply
    def apply(self, action: str):
        w = self.w
        a = action.split()
        w.trace.append(action)
        w.hist[a[0]] = w.hist.get(a[0], 0) + 1
        ran_task = None
        pre = None
        try:
            _ALARM['fired'] = False
            signal.setitimer(signal.ITIMER_REAL, STEP_TIMEOUT, 0.05)
            ran_task, pre = self._do(a)
            if _ALARM['fired']:        # asyncio swallowed the exception (Handle._run / Task.__step)
                raise StepTimeout()
        except StepTimeout:
            w.loop.errors.clear()
            w.problems.append(('step-nontermination', f'the atomic section started by `{action}` did not finish '
                                                      f'within {STEP_TIMEOUT}s'))
            self.dead = True
            w.nstep += 1
            return
        finally:
            signal.setitimer(signal.ITIMER_REAL, 0)
        self._after(a, action, ran_task, pre)

    def _do(self, a):
        w = self.w
        ran_task = None
        pre = None
        if a[0] == 'run':
            hs = w.loop.ready_handles()
            h = hs[int(a[1])]
            ran_task = w.loop.handle_task(h)
            self.resumed_req = None
            if ran_task is not None and hasattr(ran_task, '_req') and not coro_created(ran_task):
                self.resumed_req = ran_task._req
            if self.on_step is not None:
                pre = self.on_step.before_handle(self, h, ran_task)
            if ran_task is None and w.loop.handle_name(h) == '_tick':
                self.run_tick_traced(h)
            else:
                w.loop.run_handle(h)
        elif a[0] == 'acq':
            w.act_acquire(a[1])
        elif a[0] == 'rel':
            r = w.reqs[int(a[1])]
            if self.on_step is not None:
                pre = self.on_step.before_release(self, r, a[2] == '1')
            w.act_release(r, a[2] == '1')
        elif a[0] == 'cdone':
            cbs = [cb for cb in w.conn_cbs if cb['resolved'] is None]
            w.act_connect_done(w.conn_cbs.index(cbs[int(a[1])]), a[2])
        elif a[0] == 'ddone':
            cbs = [cb for cb in w.disc_cbs if cb['resolved'] is None]
            w.act_disconnect_done(w.disc_cbs.index(cbs[int(a[1])]), a[2] == 'ok')
        elif a[0] == 'timer':
            w.loop.fire_next_timer()
        elif a[0] == 'adv':
            w.loop.advance(float(a[1]))
        elif a[0] == 'prune':
            w.act_prune(a[1])
        elif a[0] == 'pall':
            w.act_prune_all()
            w.pruned_all = True
        else:
            raise ValueError(' '.join(a))
        return ran_task, pre

    def run_tick_traced(self, h):
        """Runs a `_tick` handle and records WHICH branch of `_tick` the real code took (read off
        the executed source lines) together with how the demand compared with the capacity at
        that moment; the hang classifier names a hang after the ticks that failed to act."""
        w = self.w
        pool = w.pool
        total = sum(b.count_waiters() + b.conn_acquired_num for b in pool._blocks.values())
        cmp_ = '<' if total < pool._max_capacity else ('=' if total == pool._max_capacity else '>')
        seen = set()
        code = type(pool)._tick.__code__
        lines = _tick_source()

        def tracer(frame, event, arg):
            if frame.f_code is not code:
                return None

            def local(fr, ev, ar):
                if ev == 'line':
                    seen.add(lines.get(fr.f_lineno, ''))
                return local
            return local
        old = sys.gettrace()
        sys.settrace(tracer)
        try:
            w.loop.run_handle(h)
        finally:
            sys.settrace(old)
        if w.loop.errors:
            br = 'raised'
        elif any(x.startswith('first_block') for x in seen) or \
                ('self._is_starving = False' in seen and not any(x.startswith('for block in self._blocks') for x in seen)):
            br = 'single'
        elif any(x.startswith('for block in tuple(self._blocks.values())') for x in seen):
            br = 'modeD-rescue' if any('self._should_free_conn(block)' in x for x in seen) else 'modeD'
        elif 'capacity_left = self._max_capacity' in seen:
            br = 'modeC'
        elif 'self._maybe_rebalance()' in seen:
            br = 'early-exit-rebalance'
        elif any(x.startswith('if self._cur_capacity >= self._max_capacity') for x in seen):
            br = 'early-exit-noop'
        elif any(x.startswith('if not total_nwaiters') for x in seen):
            br = 'no-demand'
        else:
            br = 'other'
        if br == 'modeD-rescue':
            br = 'modeD'
        # how demand compared with capacity only matters for the early exit (`total_nwaiters < max`)
        w.tick_log.append(f'{br}[{cmp_}]' if br.startswith('early-exit') else br)

    def _after(self, a, action, ran_task, pre):
        w = self.w
        w.nstep += 1
        w.last_raise = 'other' if getattr(w, '_rel_raised', False) else None
        w._rel_raised = False
        for ectx in w.loop.errors:
            e = ectx.get('exception')
            names = [f.name for f in _tb.extract_tb(e.__traceback__)] if e is not None else []
            w.last_raise = 'drop' if '_drop_block' in names else 'other'
        if ran_task is not None and ran_task.done() and not ran_task.cancelled():
            e = ran_task.exception()
            if e is not None and not isinstance(e, BackendError):
                w.last_raise = 'other'
        if ran_task is not None:
            for cb in w.conn_cbs:
                if cb['task'] is ran_task and cb['resolved']:
                    db = cb['db']
                    if cb['resolved'] == 'ok':
                        self.fails_resumed[db] = 0
                    else:
                        n = self.fails_resumed.get(db, 0) + 1
                        if cb['resolved'] == '3d':
                            n = max(n, pool_config.CONNECT_FAILURE_RETRIES + 1)
                        self.fails_resumed[db] = n
                        # may this error legitimately be handed to waiting requests?
                        cb['fut'].exception().legit = n > pool_config.CONNECT_FAILURE_RETRIES
            had_xfail = [cb for cb in w.disc_cbs if cb['task'] is ran_task and cb['resolved'] == 'fail'
                         and cb['kind'] == '_transfer' and ran_task.done()]
            w.settle(ran_task)
            for cb in had_xfail:
                w.problems.append(('transfer-disconnect-failure',
                                   f'disconnect of {cb["conn"]!r} failed inside _transfer: the task died, '
                                   f'block {cb["to_block"]} keeps pending_conns='
                                   f'{w.pool._blocks[cb["to_block"]].pending_conns if cb["to_block"] in w.pool._blocks else "?"}'
                                   f' with no connect in flight'))
        w.harvest()
        if getattr(self, 'quiet', False):
            w.loop.errors.clear()
            return
        rq = getattr(self, 'resumed_req', None)
        self.resumed_req = None
        if a[0] == 'run' and rq is not None and rq.state == 'waiting' and not rq.task.done():
            # woken, found the stack empty, waits again: must not lose its place (C16 woken_empty)
            for c in coro_chain(rq.task):
                if c.cr_code.co_name == 'try_acquire':
                    f = c.cr_frame.f_locals.get('waiter')
                    blk = c.cr_frame.f_locals['self']
                    pend = [x for x in blk.conn_waiters if not x.done()]
                    if f is not None and not f.done() and (not pend or pend[0] is not f):
                        w.problems.append(('woken-lost-place', f'request {rq.id} was woken, found no connection and '
                                           f'was not put back at the front of the queue of block {blk.dbname}'))
        self.check_failed_reqs()
        self.check_loop_errors()
        oracle(w)
        if self.on_step is not None and a[0] in ('run', 'rel'):
            self.on_step.after(self, action, pre)

    def check_failed_reqs(self):
        w = self.w
        for r in w.reqs:
            if r.state == 'failed' and r.error is not None and r.error != 'checked':
                e = r.error
                r.error = 'checked'
                if isinstance(e, BackendError):
                    if not getattr(e, 'legit', False):
                        w.problems.append(('early-abort', f'acquire({r.db}) failed with a connect error although '
                                                          f'the retries were not exhausted'))

    def check_loop_errors(self):
        w = self.w
        while w.loop.errors:
            ctx = w.loop.errors.pop()
            w.problems.append(('loop-exception', f'{ctx.get("message")}: {ctx.get("exception")!r}'))
        for n, t in w.tasks.items():
            if t.done() and not t.cancelled() and not getattr(t, '_seen_exc', False):
                e = t.exception()
                t._seen_exc = True
                if e is None:
                    continue
                kind = w.task_kind[n]
                if isinstance(e, BackendError) and kind in ('_discard_conn', '_transfer', '_disconnect', 'acquire'):
                    continue      # an injected failure propagating where the code lets it
                w.problems.append((f'task-exception:{kind}:{type(e).__name__}', f'task {kind} died with {e!r}'))

    # --------------------------------------------------------------- choose
    def enabled(self, fair: bool):
        w = self.w
        acts = []
        hs = w.loop.ready_handles()
        for i, h in enumerate(hs):
            self.first_seen.setdefault(id(h), w.nstep)
        live = {id(h) for h in hs}
        for k in [k for k in self.first_seen if k not in live]:
            del self.first_seen[k]
        return hs

    def choose(self, rng, fair: bool) -> Optional[str]:
        """next action; None = nothing can happen any more (quiescent)"""
        w, cfg = self.w, self.cfg
        hs = self.enabled(fair)
        # fairness: a handle that has been ready for fair_k steps runs now
        if hs and not cfg.fifo:
            oldest = min(range(len(hs)), key=lambda i: self.first_seen[id(hs[i])])
            if w.nstep - self.first_seen[id(hs[oldest])] >= cfg.fair_k:
                return f'run {oldest}'
        holders = [r for r in w.reqs if r.state == 'holding']
        overdue = [r for r in holders if w.nstep - r.got_at >= cfg.hold_max]
        ccb = [cb for cb in w.conn_cbs if cb['resolved'] is None]
        dcb = [cb for cb in w.disc_cbs if cb['resolved'] is None]
        old_c = [i for i, cb in enumerate(ccb) if w.nstep - cb['at'] >= cfg.fair_k * 2]
        old_d = [i for i, cb in enumerate(dcb) if w.nstep - cb['at'] >= cfg.fair_k * 2]
        opts = []
        if hs:
            opts += [('run', 6)]
        if not fair and len(w.reqs) < cfg.nreq:
            opts += [('acq', 3)]
        if holders:
            opts += [('rel', 8 if overdue else 2)]
        if ccb:
            opts += [('cdone', 8 if old_c else 3)]
        if dcb:
            opts += [('ddone', 8 if old_d else 2)]
        timers = w.loop.pending_timers()
        if timers:
            only_timers = not opts
            if only_timers:
                opts += [('timer', 1)]
            elif cfg.fifo and hs:
                # real asyncio: the clock does not jump while handles are ready
                pass
            elif rng.random() < cfg.p_timer:
                opts += [('timer', 2), ('adv', 1)]
        if not fair and cfg.p_prune and rng.random() < cfg.p_prune and w.pool._blocks:
            opts += [('prune', 2)]
        if not opts:
            return None
        kinds = [k for k, _ in opts]
        k = rng.choices(kinds, weights=[x for _, x in opts])[0]
        if k == 'run':
            self.idle_timer_run = 0
            return f'run {0 if cfg.fifo else rng.randrange(len(hs))}'
        if k == 'acq':
            return f'acq {rng.choice(self.dbs)}'
        if k == 'rel':
            r = rng.choice(overdue or holders)
            return f'rel {r.id} {1 if rng.random() < cfg.p_discard else 0}'
        if k == 'cdone':
            i = rng.choice(old_c) if old_c else rng.randrange(len(ccb))
            x = rng.random()
            if fair:
                # liveness is stated AFTER THE LAST FAULT: the fair phase injects none
                return f'cdone {i} ok'
            if x < cfg.p_cfail:
                return f'cdone {i} ' + ('3d' if rng.random() < cfg.p_3d else 'fail')
            return f'cdone {i} ok'
        if k == 'ddone':
            i = rng.choice(old_d) if old_d else rng.randrange(len(dcb))
            return f'ddone {i} ' + ('fail' if (not fair and rng.random() < cfg.p_dfail) else 'ok')
        if k == 'timer':
            return 'timer'
        if k == 'adv':
            return f'adv {rng.choice([0.001, 0.004, 0.02, 0.3])}'
        if k == 'prune':
            return f'prune {rng.choice(list(w.pool._blocks))}'
        raise AssertionError(k)

    # ------------------------------------------------------------------ run
    def run_random(self, rng, max_steps=4000):
        cfg = self.cfg
        w = self.w
        phase_fair = cfg.fair_only
        timer_only = 0
        while w.nstep < max_steps and not self.dead:
            if not phase_fair and (w.nstep >= cfg.chaos_steps and len(w.reqs) >= min(cfg.nreq, 2)
                                   or w.nstep >= 3 * cfg.chaos_steps):
                phase_fair = True
            act = self.choose(rng, phase_fair)
            if act is None:
                if not phase_fair:
                    phase_fair = True
                    continue
                break
            waiting = [r for r in w.reqs if r.state == 'waiting']
            if phase_fair and act == 'timer' and not w.loop.ready_handles():
                busy = any(r.state == 'holding' for r in w.reqs) or \
                    any(cb['resolved'] is None for cb in w.conn_cbs + w.disc_cbs)
                if not busy:
                    if not waiting:
                        break                       # everything served, only timers left
                    timer_only += 1
                    if timer_only > 60:
                        self.stuck = [r.id for r in waiting]
                        break
            elif act.startswith('run'):
                pass
            else:
                timer_only = 0 if not act.startswith(('timer', 'adv')) else timer_only
            self.apply(act)
        return self.finish()

    def valid(self, action: str) -> bool:
        w = self.w
        a = action.split()
        try:
            if a[0] == 'run':
                return int(a[1]) < len(w.loop.ready_handles())
            if a[0] == 'acq' or a[0] == 'prune':
                return a[1] in self.dbs and (a[0] == 'acq' or a[1] in w.pool._blocks)
            if a[0] == 'rel':
                return int(a[1]) < len(w.reqs) and w.reqs[int(a[1])].state == 'holding'
            if a[0] == 'cdone':
                return int(a[1]) < sum(1 for cb in w.conn_cbs if cb['resolved'] is None)
            if a[0] == 'ddone':
                return int(a[1]) < sum(1 for cb in w.disc_cbs if cb['resolved'] is None)
            if a[0] == 'timer':
                return bool(w.loop.pending_timers())
            return a[0] in ('adv', 'pall')
        except (ValueError, IndexError):
            return False

    def replay(self, trace: List[str], *, drain_rng=None, skip_invalid=False):
        """Replays a trace; with `drain_rng` continues under the fair scheduler
        until quiescence (used to decide whether a shrunk prefix still hangs)."""
        for act in trace:
            if self.dead:
                break
            if not self.valid(act):
                if skip_invalid:
                    continue
                raise ValueError(f'action {act!r} is not enabled at step {self.w.nstep}')
            self.apply(act)
        if drain_rng is not None:
            self.cfg.fair_only = True
            return self.run_random(drain_rng, max_steps=self.w.nstep + 3000)
        return self.finish()

    def finish(self):
        w = self.w
        waiting = [r for r in w.reqs if r.state == 'waiting']
        res = {
            'steps': w.nstep, 'reqs': len(w.reqs),
            'served': sum(1 for r in w.reqs if r.state in ('holding', 'released')),
            'failed': sum(1 for r in w.reqs if r.state == 'failed'),
            'waiting': [r.id for r in waiting],
            'stuck': self.stuck,
            'problems': list(w.problems),
            'hist': dict(w.hist),
            'nconns': len(w.conns),
            'phantom': dict(w.phantom_blocks),
            'stuck_sig': stuck_signature(w, self.stuck) if self.stuck else None,
            'faults': list(w.fault_log),
        }
        return res


def run_trace(cfg_dict, trace, *, drain_seed=None, skip_invalid=False, on_step=None):
    import random
    r = Runner(Cfg.from_dict(dict(cfg_dict)), on_step=on_step)
    try:
        res = r.replay(trace, drain_rng=random.Random(drain_seed) if drain_seed is not None else None,
                       skip_invalid=skip_invalid)
        res['trace'] = list(r.w.trace)
        res['final'] = describe(r.w)
        return res
    finally:
        r.w.close()


def shrink(cfg_dict, trace, pred, *, drain_seed=None, max_tests=600):
    """ddmin over the action list; `pred(result)` says the failure is still there."""
    tests = 0

    def test(tr):
        nonlocal tests
        tests += 1
        try:
            return pred(run_trace(cfg_dict, tr, drain_seed=drain_seed, skip_invalid=True))
        except Exception:
            return False
    cur = list(trace)
    n = 2
    while len(cur) >= 2 and tests < max_tests:
        chunk = max(1, len(cur) // n)
        reduced = False
        for i in range(0, len(cur), chunk):
            cand = cur[:i] + cur[i + chunk:]
            if cand and test(cand):
                cur = cand
                n = max(n - 1, 2)
                reduced = True
                break
        if not reduced:
            if chunk == 1:
                break
            n = min(n * 2, len(cur))
    return cur


def stuck_signature(w: World, stuck_ids) -> str:
    """coarse class of a hang (the stable part of the finding key).  Hangs that follow an
    injected fault are named after the fault; fault-free hangs by the shape of the final
    state: the stuck block has no connection (`no-conns`) / has one (`has-conns`), an idle
    connection sits in another block (`idle-elsewhere`), the pool is in Mode D (`starving`),
    capacity is free (`room`) or used up (`full`)."""
    pool = w.pool
    dbs = {w.reqs[i].db for i in stuck_ids}
    blocks = [(n, b) for n, b in pool._blocks.items() if n in dbs]
    if any(w.phantom_blocks.get(n) for n, _ in blocks):
        return 'after-transfer-disconnect-failure'
    if w.problems.counts.get('loop-exception'):
        return 'after-tick-raised'
    if any(b.suppressed for _, b in blocks):
        return 'after-prune-inactive'
    if any(b.connect_failures_num > pool_config.CONNECT_FAILURE_RETRIES for _, b in blocks):
        return 'after-connect-retries-exhausted'
    feats = set()
    feats.add('room' if pool._cur_capacity < pool._max_capacity else 'full')
    if pool._is_starving:
        feats.add('starving')
    for n, b in pool._blocks.items():
        if n in dbs:
            if len(b.conns) + b.pending_conns == 0:
                feats.add('no-conns')
            elif b.conn_stack:
                feats.add('idle-here')
            else:
                feats.add('has-conns')
        elif b.conn_stack:
            feats.add('idle-elsewhere')
    ticks = '+'.join(sorted(set(w.tick_log[-30:]))) or 'none'
    return ','.join(sorted(feats)) + ';ticks=' + ticks


_FAULT_RE = __import__('re').compile(r'(cdone|ddone) (\d+) (fail|3d)$')


def attribute_hang(cfg_dict, trace):
    """Which injected faults does the hang DEPEND on?  Every fault action of the history is, in
    turn (last first), replaced by a success; the replacement is kept when the fair, fault-free
    continuation still hangs.  Returns (history with only the essential faults, their kinds,
    the result of replaying it).  An empty list = the hang is a fault-free one."""
    cur = list(trace)
    res = run_trace(cfg_dict, cur, drain_seed=1, skip_invalid=True)
    if not res['stuck']:
        return cur, None, res
    idxs = [i for i, a in enumerate(cur) if _FAULT_RE.match(a)]
    for i in reversed(idxs):
        m = _FAULT_RE.match(cur[i])
        cand = cur[:i] + [f'{m.group(1)} {m.group(2)} ok'] + cur[i + 1:]
        try:
            r2 = run_trace(cfg_dict, cand, drain_seed=1, skip_invalid=True)
        except Exception:
            continue
        if r2['stuck']:
            cur, res = cand, r2
    kinds = sorted({k for _i, k in res['faults']})
    return cur, kinds, res


def hang_key(res, kinds) -> str:
    sig = res['stuck_sig']
    if kinds and not sig.startswith('after-'):
        return 'stuck:after-fault(' + '+'.join(kinds) + ');' + sig
    return 'stuck:' + sig


def describe(w: World) -> dict:
    pool = w.pool
    return {
        'cur': pool._cur_capacity, 'max': pool._max_capacity, 'starving': pool._is_starving,
        'nacquires': pool._nacquires,
        'waitlist': [b.dbname for b in pool._new_blocks_waitlist],
        'over_quota': [b.dbname for b in pool._blocks_over_quota],
        'blocks': [{'db': n, 'quota': b.quota, 'conns': len(b.conns), 'pending': b.pending_conns,
                    'stack': len(b.conn_stack), 'waiters_num': b.conn_waiters_num,
                    'queued': sum(1 for f in b.conn_waiters if not f.done()),
                    'acquired': b.conn_acquired_num, 'suppressed': b.suppressed,
                    'failures': b.connect_failures_num} for n, b in pool._blocks.items()],
        'waiting_requests': [(r.id, r.db) for r in w.reqs if r.state == 'waiting'],
    }


# =====================================================================
# Part 4: correspondence with the Lean model (Driver/C15.lean).  Every executed
# handle / release call is classified into a model transition; the float- and
# clock-derived choices are read off the real pool and passed as the
# transition's environment; the complete integer state is printed in the
# driver's format and compared line by line.
# =====================================================================
import traceback as _tb


def _nl(xs):
    xs = list(xs)
    return ','.join(str(x) for x in xs) if xs else '-'


class Tie:
    """on_step hook of Runner: builds protocol lines + expected states"""

    PRUNE_BASE = 1000

    def __init__(self):
        self.lines: List[str] = []
        self.expect: List[Optional[str]] = []     # None = don't compare (init line)
        self.actions: List[str] = []
        self.blocks: List[Any] = []               # Block objects by uid (kept alive)
        self.cmap: Dict[Any, int] = {}
        self.pool_tasks: Dict[Any, int] = {}      # task -> model task id
        self.in_step = False
        self.kinds: Dict[str, int] = {}
        self.broken = None

    # ---- wiring
    def attach(self, r: Runner):
        self.r = r
        w = r.w
        self.lines.append(f'init {w.max}')
        self.expect.append(None)
        self.actions.append('init')
        prev = w.loop.on_task

        def on_task(t, n):
            prev(t, n)
            if self.in_step:
                self.pool_tasks[t] = len(self.pool_tasks)
        w.loop.on_task = on_task

    def uid(self, b) -> int:
        for i, x in enumerate(self.blocks):
            if x is b:
                return i
        self.blocks.append(b)
        return len(self.blocks) - 1

    def sync_blocks(self):
        for b in self.r.w.pool._blocks.values():
            self.uid(b)

    # ---- environment, read off the real pool BEFORE the section runs (the
    # clock does not move inside a section)
    def env(self, want):
        w = self.r.w
        pool = w.pool
        now = w.loop.time()
        out = []
        thr = max(pool._conntime_avg.avg(), pool_config.MIN_CONN_TIME_THRESHOLD)
        hs = [self.uid(b) for b in pool._blocks.values() if (now - b.last_connect_timestamp) < thr]
        if 'hs' in want and hs:
            out.append('hs=' + _nl(hs))
        if 'avg' in want:
            av = []
            for b in pool._blocks.values():
                ra = b.nwaiters_avg
                hist = list(ra._hist)
                hist[ra._pos % ra._hist_size] = b.count_waiters() + b.conn_acquired_num
                if sum(hist) / max(min(ra._pos + 1, ra._hist_size), 1):
                    av.append(self.uid(b))
            if av:
                out.append('avg=' + _nl(av))
        if 'gc' in want:
            horizon = now - pool._gc_interval
            g = []
            for b in pool._blocks.values():
                n = 0
                for c in b.conn_stack:
                    if b.conns[c].in_stack_since > horizon:
                        break
                    n += 1
                if n:
                    g.append(f'{self.uid(b)}:{n}')
            if g:
                out.append('gc=' + ','.join(g))
        return out

    # ---- classification
    def before_handle(self, r, h, task):
        try:
            return self._before_handle(r, h, task)
        except Exception as e:      # corrupted pool state (only under mutation)
            self.broken = self.broken or f'{type(e).__name__}: {e}'
            self.in_step = True
            return None

    def _before_handle(self, r, h, task):
        self.sync_blocks()
        w = r.w
        self.in_step = True
        if task is None:
            name = w.loop.handle_name(h)
            if name == '_tick':
                return {'ev': 'tick', 'env': self.env({'hs', 'avg'}), 'tick': True,
                        'blocks_before': list(w.pool._blocks.values())}
            if name == '_run_gc':
                return {'ev': 'gc', 'env': self.env({'gc'})}
            return None
        coro = task.get_coro()
        name = coro.cr_code.co_name
        created = coro_created(task)
        if name == 'acquire':
            rq = task._req
            if created:
                return {'ev': f'acq {rq.id} {rq.db[1:]}', 'env': self.env({'hs'})}
            return {'ev': f'resume {rq.id}', 'env': []}
        if name in ('_connect', '_discard_conn', '_disconnect', '_transfer'):
            tid = self.pool_tasks.get(task)
            if tid is None:
                return {'ev': 'unknown-task', 'env': []}
            if created:
                return {'ev': f'start {tid}', 'env': []}
            for cb in w.disc_cbs:
                if cb['task'] is task and cb['resolved']:
                    return {'ev': f'ddone {tid} {cb["resolved"]}', 'env': []}
            for cb in w.conn_cbs:
                if cb['task'] is task and cb['resolved']:
                    if cb['resolved'] == 'ok':
                        self.cmap[cb['conn']] = len(self.cmap)
                    return {'ev': f'cdone {tid} {cb["resolved"]}', 'env': []}
            return {'ev': 'unknown-resume', 'env': []}
        if name == 'prune_inactive_connections':
            pid = self.PRUNE_BASE + w.prunes.index(task)
            if created:
                return {'ev': f'prune {pid} {task._prune_db[1:]}', 'env': []}
            if any(c.cr_code.co_name == 'try_acquire' for c in coro_chain(task)):
                return {'ev': f'resume {pid}', 'env': []}
            return None
        if name == 'prune_all_connections':
            if created:
                return {'ev': 'pall', 'env': []}
            return None
        return None

    def before_release(self, r, rq, discard):
        self.in_step = True
        try:
            self.sync_blocks()
        except Exception as e:
            self.broken = self.broken or f'{type(e).__name__}: {e}'
            return None
        return {'ev': f'rel {rq.id} {1 if discard else 0}', 'env': self.env({'hs'})}

    # ---- after the section: finish the line, record the real state
    def after(self, r, action, pre):
        try:
            self._after(r, action, pre)
        except Exception as e:
            self.broken = self.broken or f'{type(e).__name__}: {e}'

    def _after(self, r, action, pre):
        self.in_step = False
        w = r.w
        if pre is None or self.broken:
            return
        self.sync_blocks()
        env = list(pre['env'])
        raised = self.step_raised
        if pre.get('tick'):
            # Mode C quotas are float-derived: read them off every block
            q = [f'{self.uid(b)}:{b.quota}' for b in w.pool._blocks.values()]
            env.append('q=' + ','.join(q) if q else 'q=-')
            if raised and raised != 'drop':
                env.append('abortC=1')
        line = pre['ev'] + (' ' + ' '.join(env) if env else '')
        k = pre['ev'].split()[0]
        self.kinds[k] = self.kinds.get(k, 0) + 1
        self.lines.append(line)
        self.expect.append(self.state(bool(raised)))
        self.actions.append(f'{w.nstep - 1}:{action}')

    @property
    def step_raised(self):
        """did the section that just ran raise?  (loop handler / dead pool task / release)"""
        w = self.r.w
        return getattr(w, 'last_raise', None)

    def state(self, raised: bool) -> str:
        w = self.r.w
        pool = w.pool
        loop = w.loop
        gct = sum(1 for h in list(loop._scheduled) + list(loop._ready)
                  if not h._cancelled and getattr(h._callback, '__name__', '') == '_run_gc')
        head = (f'cur={pool._cur_capacity} st={int(pool._is_starving)} nacq={pool._nacquires} '
                f'ht={int(pool._htick is not None)} gcreq={pool._gc_requests} gct={gct} '
                f'wl={_nl(self.uid(b) for b in pool._new_blocks_waitlist)} '
                f'oq={_nl(self.uid(b) for b in pool._blocks_over_quota)} '
                f'err={int(raised)}')
        parts = [head]
        # waiter futures -> ids
        fut_id = {}
        wl = []
        pl = []
        for n, t in w.tasks.items():
            if t.done():
                continue
            chain = coro_chain(t)
            if not chain:
                continue
            top = chain[0].cr_code.co_name
            if top == 'acquire':
                wid = t._req.id
            elif top == 'prune_inactive_connections':
                wid = self.PRUNE_BASE + w.prunes.index(t)
            else:
                continue
            for c in chain:
                if c.cr_code.co_name == 'try_acquire':
                    loc = c.cr_frame.f_locals
                    f = loc.get('waiter')
                    if f is None:
                        continue
                    fut_id[id(f)] = wid
                    st = 'q' if not f.done() else ('w' if f.exception() is None else 'x')
                    wl.append((wid, f'W {wid} {self.uid(loc["self"])} {st} {loc["attempts"]}'))
                    if top == 'prune_inactive_connections':
                        ploc = chain[0].cr_frame.f_locals
                        pl.append((wid, f'P {wid} {self.uid(ploc["block"])} '
                                        f'{_nl(self.cmap.get(x, "?") for x in ploc["conns"])}'))
        for b in pool._blocks.values():
            conns = ','.join(f'{self.cmap.get(c, "?")}:{int(st.in_use)}' for c, st in b.conns.items()) or '-'
            parts.append(f'B {self.uid(b)} {b.dbname[1:]} q{b.quota} p{b.pending_conns} a{b.conn_acquired_num} '
                         f'w{b.conn_waiters_num} s{int(b.suppressed)} f{b.connect_failures_num} '
                         f'conns={conns} stack={_nl(self.cmap.get(c, "?") for c in b.conn_stack)} '
                         f'queue={_nl(fut_id.get(id(f), "?") for f in b.conn_waiters if not f.done())}')
        for t, tid in sorted(self.pool_tasks.items(), key=lambda kv: kv[1]):
            if t.done():
                continue
            chain = coro_chain(t)
            names = [c.cr_code.co_name for c in chain]
            loc = chain[0].cr_frame.f_locals
            created = coro_created(t)
            if names[0] == '_connect':
                parts.append(f'T {tid} conn {self.uid(loc["block"])} {int(not created)}')
            elif names[0] == '_discard_conn':
                parts.append(f'T {tid} disc {self.uid(loc["block"])} {self.cmap.get(loc["conn"], "?")} '
                             f'{int(not created)}')
            elif names[0] == '_transfer':
                ph = 0 if created else (1 if '_disconnect' in names else 2)
                parts.append(f'T {tid} xfer {self.uid(loc["from_block"])} {self.cmap.get(loc["from_conn"], "?")} '
                             f'{self.uid(loc["to_block"])} {ph}')
            elif names[0] == '_disconnect':
                parts.append(f'T {tid} discall {self.cmap.get(loc["conn"], "?")} {int(not created)}')
        parts += [x for _, x in sorted(wl)]
        parts += [f'H {r.id} {r.db[1:]} {self.cmap.get(r.conn, "?")}'
                  for r in sorted(w.holders.values(), key=lambda r: r.id)]
        parts += [x for _, x in sorted(pl)]
        return ' | '.join(parts)


# =====================================================================
# Part 5: the check (shared by props/c15.py and props/c16.py)
# =====================================================================
import json as _json
import os as _os
import random as _random

import time

from lib import core

C15_KEYS = {
    'over-capacity', 'usage-mismatch', 'negative-capacity', 'negative-counter', 'pending-mismatch',
    'stack-dup', 'conn-in-two-blocks', 'conn-wrong-block', 'dead-conn-in-block', 'inuse-unheld',
    'inuse-on-stack', 'held-not-inuse', 'stack-not-in-conns', 'acquired-mismatch', 'limbo-mismatch',
    'accounting', 'leaked-conn', 'double-lend', 'step-nontermination', 'orphaned-by-dead-prune-task', 'lend-dead', 'lend-wrong-db', 'lend-discarded',
    'lend-nonconn', 'disconnect-twice', 'release-raised', 'held-not-in-block', 'held-dead', 'block-name',
}
C16_KEYS = {
    'lost-wakeup', 'waiters-mismatch', 'queue-mismatch', 'early-abort', 'transfer-disconnect-failure',
    'loop-exception', 'acquire-raised', 'waiter-on-dropped-block', 'step-nontermination', 'woken-lost-place',
}
KEY_RENAME = {'loop-exception': 'tick-raised'}


def model_verdicts(ctx, items):
    """Attribution of hangs by the Lean model of the UNCHANGED code.  `items` = [(cfg_dict, trace)].
    Every history is replayed on the real pool with the tie (then drained under the fair,
    fault-free scheduler) and piped through EdbVerif.Pool.step.  Verdict per history:
      'reproduces' - the model agrees with the real pool on EVERY transition up to the stuck
                     state: the model of the unchanged code shows the same hang;
      'serves'     - the model disagrees at transition `at` and, continued from its own state
                     (every task started and answered positively, every woken waiter resumed,
                     every holder releasing an old connection; no tick needed), serves every
                     request that is stuck on the real pool;
      'diverges'   - the model disagrees and the simple continuation does not serve them;
      'unknown'    - the history did not hang again when replayed / the tie broke."""
    import random
    runs, all_lines = [], []
    for cd, trace in items:
        tie = Tie()
        r = Runner(Cfg.from_dict(dict(cd)), on_step=tie)
        tie.attach(r)
        try:
            res = r.replay(trace, drain_rng=random.Random(1), skip_invalid=True)
            nreq, ntask, mx = len(r.w.reqs), len(tie.pool_tasks), r.w.max
        except Exception as e:           # noqa
            res, nreq, ntask, mx = {'stuck': None}, 0, 0, 1
            tie.broken = tie.broken or repr(e)
        finally:
            r.w.close()
        runs.append({'base': len(all_lines), 'lines': list(tie.lines), 'expect': list(tie.expect),
                     'stuck': res['stuck'], 'broken': tie.broken, 'nreq': nreq, 'ntask': ntask, 'max': mx})
        all_lines += tie.lines
    if not all_lines:
        return []
    model = ctx.driver('C15', all_lines)
    if len(model) != len(all_lines):
        raise core.Infra(f'driver returned {len(model)} lines for {len(all_lines)}')
    out, cont_lines, cont = [], [], []
    for ru in runs:
        v = {'verdict': 'unknown'}
        out.append(v)
        if not ru['stuck'] or ru['broken']:
            continue
        v['verdict'] = 'reproduces'
        for i, (l, e) in enumerate(zip(ru['lines'], ru['expect'])):
            g = model[ru['base'] + i].partition(' ## ')[0]
            if e is not None and e != g:
                ep, gp = e.split(' | '), g.split(' | ')
                v.update(verdict='diverges', at=i, line=l, protocol_prefix=ru['lines'][:i + 1][-40:],
                         real_only=[x for x in ep if x not in gp], model_only=[x for x in gp if x not in ep])
                break
        if v['verdict'] == 'diverges' and len(cont) < 12:
            pre = ru['lines'][:v['at'] + 1]
            nt, nr = ru['ntask'] + 8, ru['nreq']
            rnd = []
            for t in range(nt):
                rnd += [f'start {t}', f'ddone {t} ok', f'cdone {t} ok']
            rnd += [f'resume {q}' for q in range(nr)] + [f'rel {q} 0' for q in range(nr)]
            ext = rnd * (2 * nr + 6)
            cont.append((v, ru, len(cont_lines), len(pre), len(ext)))
            cont_lines += pre + ext
    if cont_lines:
        m2 = ctx.driver('C15', cont_lines)
        for v, ru, base, npre, next_ in cont:
            outs = m2[base + npre:base + npre + next_]
            final = (outs[-1] if outs else '').partition(' ## ')[0].split(' | ')
            held = set()
            for o in outs:
                for part in o.split(' | '):
                    if part.startswith('H '):
                        held.add(int(part.split()[1]))
            still = {int(x.split()[1]) for x in final if x.startswith('W ')}
            if all(q in held and q not in still for q in ru['stuck']):
                v['verdict'] = 'serves'
                v['model_continuation'] = ('from the model state after the disagreeing transition: every task started '
                                           'and answered ok, woken waiters resumed, holders release; requests '
                                           f'{sorted(ru["stuck"])} all obtained a connection in the model')
    return out


def gen_cfg(rng, i, ctx) -> Cfg:
    cfg = Cfg(rng, small=(i % 5 == 0), allow_dfail=True)
    cfg.pall = (i % 23 == 7)
    cfg.shape = None
    if i % 19 == 5:
        # the whole capacity sits idle in databases nobody asks for any more, then exactly
        # `max` requests arrive on other databases: demand == capacity at tick time
        cfg.shape = 'idle-then-new'
        cfg.max = rng.choice([1, 2, 2, 3])
        cfg.ndb = 2 * cfg.max
        cfg.nreq = 2 * cfg.max
        cfg.pall = False
        cfg.p_prune = 0.0
        cfg.p_cfail = 0.0
        cfg.p_3d = 0.0
        cfg.p_dfail = 0.0
        cfg.p_discard = 0.0
        cfg.gc = 120.0
        cfg.fifo = True
    elif i % 19 == 11:
        # a request queues behind the only connection of its database while the pool is full; the
        # holder hands the connection back as broken and the DISCONNECT of that connection fails
        cfg.shape = 'discard-fail'
        cfg.ndb = rng.choice([1, 1, 2])
        cfg.max = 1 if cfg.ndb == 1 else rng.choice([2, 3])
        cfg.nreq = 8
        cfg.pall = False
        cfg.p_prune = 0.0
        cfg.p_cfail = 0.0
        cfg.p_3d = 0.0
        cfg.p_dfail = 0.0
        cfg.p_discard = 0.0
        cfg.gc = 120.0
        cfg.fifo = rng.random() < 0.7
    elif i % 19 == 15:
        # Mode D, every connection is the ONLY one of its block and is handed back YOUNG (sooner
        # after its connect than max(conntime_avg, MIN_CONN_TIME_THRESHOLD)) while its block has
        # no waiters; the other databases have queued requests and no connection; no later
        # traffic on the releasing blocks
        cfg.shape = 'young-last-conn'
        cfg.max = rng.choice([1, 1, 2, 3])
        cfg.ndb = cfg.max + rng.choice([1, 1, 2])
        cfg.nreq = cfg.ndb + 2
        cfg.pall = False
        cfg.p_prune = 0.0
        cfg.p_cfail = 0.0
        cfg.p_3d = 0.0
        cfg.p_dfail = 0.0
        cfg.p_discard = 0.0
        cfg.gc = 120.0
        cfg.fifo = rng.random() < 0.7
    return cfg


def _settle_all(r: 'Runner'):
    """run everything that is ready, answer every callback positively"""
    w = r.w
    for _ in range(400):
        if w.loop.ready_handles():
            r.apply('run 0')
        elif any(cb['resolved'] is None for cb in w.conn_cbs):
            r.apply('cdone 0 ok')
        elif any(cb['resolved'] is None for cb in w.disc_cbs):
            r.apply('ddone 0 ok')
        else:
            return


def scripted_discard_fail(r: 'Runner', rng, fail=True):
    """prefix of the 'discard-fail' shape (see gen_cfg): returns after the failed disconnect"""
    w, cfg = r.w, r.cfg
    if cfg.ndb == 2:
        # the other database takes max-1 connections and returns them idle (or keeps some lent)
        for _ in range(cfg.max - 1):
            r.apply('acq d1')
            _settle_all(r)
        for rq in list(w.reqs):
            if rq.state == 'holding' and rng.random() < 0.7:
                r.apply(f'rel {rq.id} 0')
        _settle_all(r)
    r.apply('acq d0')
    _settle_all(r)
    holder = next(q for q in w.reqs if q.db == 'd0' and q.state == 'holding')
    for _ in range(rng.choice([1, 1, 2])):      # these queue: pool full, the block's connection is lent
        r.apply('acq d0')
        while w.loop.ready_handles():
            r.apply('run 0')
    r.apply(f'rel {holder.id} 1')
    for _ in range(20):                          # until the disconnect callback of that connection is out
        if any(cb['resolved'] is None and cb['conn'] is holder.conn for cb in w.disc_cbs):
            break
        if not w.loop.ready_handles():
            break
        r.apply('run 0')
    dcb = [cb for cb in w.disc_cbs if cb['resolved'] is None]
    for i, cb in enumerate(dcb):
        if cb['conn'] is holder.conn:
            r.apply(f'ddone {i} ' + ('fail' if fail else 'ok'))
            break


def scripted_young_last_conn(r: 'Runner', rng):
    """prefix of the 'young-last-conn' shape (see gen_cfg): returns after the young, waiter-less
    last connections were released (and the pool is in Mode D); the fair phase follows"""
    w, cfg = r.w, r.cfg

    def run_ready():
        for _ in range(200):
            if not w.loop.ready_handles():
                return
            r.apply('run 0')
    variant = rng.choice(['tick-before-connect', 'tick-before-connect', 'tick-after-release'])
    for k in range(cfg.max):                 # these open the whole capacity (connects outstanding)
        r.apply(f'acq d{k}')
        run_ready()
    order = list(range(cfg.max, cfg.ndb))
    rng.shuffle(order)
    for k in order:                          # pool full: these are waitlisted, no connection
        r.apply(f'acq d{k}')
        if rng.random() < 0.3:
            r.apply(f'acq d{k}')
        run_ready()
    if variant == 'tick-before-connect':
        if w.loop.pending_timers():
            r.apply('timer')                 # the tick: Mode D (more databases with demand than capacity)
        run_ready()
    else:
        r.apply('adv 0.004')                 # connections are established shortly before the tick
    while any(cb['resolved'] is None for cb in w.conn_cbs):
        r.apply('cdone 0 ok')
        run_ready()
    holders = [q for q in w.reqs if q.state == 'holding']
    rng.shuffle(holders)
    for q in holders:                        # young connection, block without waiters
        r.apply(f'rel {q.id} 0')
        if rng.random() < 0.5:
            run_ready()
    if variant == 'tick-after-release':
        if w.loop.pending_timers():
            r.apply('timer')
    run_ready()


def scripted_idle_then_new(r: 'Runner', rng):
    """prefix of the 'idle-then-new' shape (see gen_cfg): returns when the new requests are queued"""
    w, cfg = r.w, r.cfg

    def settle_all():
        # run everything that is ready, answer every callback positively
        for _ in range(400):
            if w.loop.ready_handles():
                r.apply('run 0')
            elif any(cb['resolved'] is None for cb in w.conn_cbs):
                r.apply('cdone 0 ok')
            elif any(cb['resolved'] is None for cb in w.disc_cbs):
                r.apply('ddone 0 ok')
            else:
                return
    for k in range(cfg.max):
        r.apply(f'acq d{k}')
        settle_all()
    for rq in list(w.reqs):
        if rq.state == 'holding':
            r.apply(f'rel {rq.id} 0')
    settle_all()
    # let the pending tick(s) fire while nobody is acquiring (they do not re-arm)
    for _ in range(3):
        ts = [t for t in w.loop.pending_timers() if getattr(t._callback, '__name__', '') == '_tick']
        if not ts:
            break
        r.apply('timer')
        settle_all()
    order = list(range(cfg.max, 2 * cfg.max))
    rng.shuffle(order)
    for k in order:
        r.apply(f'acq d{k}')
    for _ in order:
        if w.loop.ready_handles():
            r.apply('run 0')


def one_schedule(seed_str, cfg: Cfg, with_tie=True):
    rng = _random.Random(seed_str)
    tie = Tie() if with_tie else None
    r = Runner(cfg, on_step=tie)
    if tie is not None:
        tie.attach(r)
    try:
        if getattr(cfg, 'shape', None) == 'idle-then-new':
            scripted_idle_then_new(r, rng)
            cfg.fair_only = True
            res = r.run_random(rng)
        elif getattr(cfg, 'shape', None) == 'discard-fail':
            scripted_discard_fail(r, rng, fail=rng.random() < 0.85)
            cfg.fair_only = True
            res = r.run_random(rng)
        elif getattr(cfg, 'shape', None) == 'young-last-conn':
            scripted_young_last_conn(r, rng)
            cfg.fair_only = True
            res = r.run_random(rng)
        elif getattr(cfg, 'pall', False):
            # own stream: chaos, then prune_all_connections, then drain
            n = rng.randint(5, max(6, cfg.chaos_steps))
            while r.w.nstep < n:
                act = r.choose(rng, False)
                if act is None:
                    break
                r.apply(act)
            r.apply('pall')
            res = r.run_random(rng)
        else:
            res = r.run_random(rng)
        res['trace'] = list(r.w.trace)
        res['final'] = describe(r.w)
        res['fifo'] = cfg.fifo
    finally:
        r.w.close()
    return res, tie


def run_check(ctx: 'core.Ctx', which: str):
    props = f'EdbVerif/Props/{which}.lean'
    required = {
        'C15': ['EdbVerif.C15.inv_init', 'EdbVerif.C15.inv_step', 'EdbVerif.C15.inv_run',
                'EdbVerif.C15.usage_exact', 'EdbVerif.C15.capacity', 'EdbVerif.C15.own_step',
                'EdbVerif.C15.own_run', 'EdbVerif.C15.no_double_lend', 'EdbVerif.C15.lent_belongs',
                'EdbVerif.C15.idle_is_free', 'EdbVerif.C15.block_counters',
                'EdbVerif.C15.own_breaks_after_prune_all', 'EdbVerif.C15.no_leak_breaks_after_aborted_prune'],
        'C16': ['EdbVerif.C16.no_lost_wakeup', 'EdbVerif.C16.waiters_consistent', 'EdbVerif.C16.waiters_step',
                'EdbVerif.C16.abort_all', 'EdbVerif.C16.aborted_request_completes', 'EdbVerif.C16.woken_empty',
                'EdbVerif.C16.C16_partial', 'EdbVerif.C16.C16_counterexample_gc_race',
                'EdbVerif.C16.C16_counterexample_tick_shrink'],
    }[which]
    proved = ctx.proof_stage(props, [f'EdbVerif.Props.{which}', 'Driver.C15'], required=required)
    ctx.log('proof stage:', 'ok' if proved else ctx.proof['broken'])
    mine = C15_KEYS if which == 'C15' else C16_KEYS
    other = C16_KEYS if which == 'C15' else C15_KEYS

    # ---- cases
    cases = []   # (label, cfg_dict, seed_str | None, trace | None)
    if ctx.replay:
        rp = _json.load(open(ctx.replay))
        for f in rp['failures']:
            d = f.get('detail')
            if isinstance(d, dict) and 'cfg' in d and 'trace' in d:
                cases.append(('replay', d['cfg'], None, d['trace']))
    else:
        for sub in ('C15', 'C16'):      # both checks replay both directories
            cdir = _os.path.join(core.VERIF, 'corpus', sub)
            if _os.path.isdir(cdir):
                for fn in sorted(_os.listdir(cdir)):
                    if fn.endswith('.json'):
                        d = _json.load(open(_os.path.join(cdir, fn)))
                        cases.append((f'corpus:{sub}/{fn}', d['cfg'], None, d['trace']))
        n = ctx.budget(400, 20000)
        for i in range(n):
            seed_str = f'{ctx.pid}:{ctx.seed}:{i}'
            cfg = gen_cfg(_random.Random('cfg' + seed_str), i, ctx)
            cases.append((f'rand:{i}', cfg.as_dict(), seed_str, None))

    lines, expect, where = [], [], []
    hist, kinds, sigs, outcomes = {}, {}, {}, {'served': 0, 'failed': 0, 'reqs': 0}
    seen_problem_keys = {}
    nsteps = 0
    samples = []
    distinct = set()
    others_seen = {}
    first_stuck = {}
    stuck_runs = []
    def absorb(label, cd, res):
        detail_base = {'cfg': cd, 'trace': res['trace'], 'final': res['final'], 'case': label}
        for (k, what, step) in res['problems']:
            k2 = KEY_RENAME.get(k, k)
            if k in mine or (k.startswith('task-exception:') and which == 'C16'):
                if k2 not in seen_problem_keys:
                    seen_problem_keys[k2] = label
                    d = dict(detail_base)
                    d['at_step'] = step
                    d['trace'] = res['trace'][:step + 1]
                    ctx.fail(k2, what, d)
            if (k in other and k not in mine) or (k.startswith('task-exception:') and which == 'C15'):
                others_seen[k2] = others_seen.get(k2, 0) + 1
            if k not in mine and k not in other and not k.startswith('task-exception:'):
                ctx.fail('unclassified:' + k, what, detail_base, no_input=True)
        if which == 'C16':
            hung = res['stuck'] or (res['waiting'] if not res['stuck'] else None)
            if res['stuck']:
                stuck_runs.append((cd, res, label))
            elif res['waiting']:
                ctx.fail('undecided:' + label, 'requests still waiting when the step budget ran out',
                         detail_base, no_input=True)

    for label, cd, seed_str, trace in cases:
        cfg = Cfg.from_dict(dict(cd))
        if trace is None:
            res, tie = one_schedule(seed_str, cfg)
        else:
            tie = Tie()
            r = Runner(cfg, on_step=tie)
            tie.attach(r)
            try:
                res = r.replay(trace, skip_invalid=True)
                if any(x.state == 'waiting' for x in r.w.reqs):
                    # a hang is only a hang if the fair continuation does not resolve it
                    r.cfg.fair_only = True
                    res = r.run_random(_random.Random(1), max_steps=r.w.nstep + 3000)
                res['trace'] = list(r.w.trace)
                res['final'] = describe(r.w)
                res['fifo'] = cfg.fifo
            finally:
                r.w.close()
        nsteps += res['steps']
        for k, v in res['hist'].items():
            hist[k] = hist.get(k, 0) + v
        for k, v in tie.kinds.items():
            kinds[k] = kinds.get(k, 0) + v
        outcomes['served'] += res['served']
        outcomes['failed'] += res['failed']
        outcomes['reqs'] += res['reqs']
        tr = tuple(res['trace'])
        if len(tr) >= 8 and tr not in distinct:
            distinct.add(tr)
        if len(samples) < 3 and res['steps'] > 20:
            samples.append({'cfg': {k: cd[k] for k in ('ndb', 'max', 'fifo')}, 'trace_head': res['trace'][:25],
                            'steps': res['steps'], 'served': res['served'], 'failed': res['failed']})
        if tie.broken:
            ctx.fail(f'tie-broken:{label}', 'the harness could not read the pool state (corrupted data structures): '
                     + tie.broken, {'cfg': cd, 'trace': res['trace'], 'case': label}, no_input=True)
        base = len(lines)
        lines += tie.lines
        expect += tie.expect
        where += [(label, a, base) for a in tie.actions]
        absorb(label, cd, res)

    exh = None
    if not ctx.quick() and not ctx.replay:
        exh = exhaustive(ctx, which, 75000)

    # ---- model correspondence
    ctx.log(f'{len(cases)} schedules, {nsteps} steps on the real pool, {len(lines)} model transitions')
    model = ctx.driver('C15', lines)
    if len(model) != len(lines):
        raise core.Infra(f'driver returned {len(model)} lines for {len(lines)}')
    n_dis = 0
    bad_cases = set()
    pall_cases = set()
    inv_viol = {}
    for i, (l, e, g) in enumerate(zip(lines, expect, model)):
        if l == 'pall':
            pall_cases.add(where[i][0])
        # the driver appends " ## <clauses>" when the model state violates an ownership/waiter invariant
        g, _, clauses = g.partition(' ## ')
        if clauses and where[i][0] not in pall_cases:
            for c in clauses.split():
                inv_viol[c] = inv_viol.get(c, 0) + 1
                ctx.fail(f'model-inv:{c}', f'a reachable model state violates invariant clause {c} '
                         f'(Model/PoolCheck.lean) after `{l}`',
                         {'case': where[i][0], 'line': l, 'state': g,
                          'protocol_prefix': lines[where[i][2]:i + 1][-40:]}, no_input=True)
        if e is None or where[i][0] in bad_cases:
            continue
        if e != g:
            bad_cases.add(where[i][0])
            n_dis += 1
            ep, gp = e.split(' | '), g.split(' | ')
            diff = {'real_only': [x for x in ep if x not in gp], 'model_only': [x for x in gp if x not in ep]}
            base = where[i][2]
            ctx.fail(f'corr:{where[i][0]}:{i - base}', 'model and implementation disagree on the pool state after '
                     f'transition `{l}`',
                     {'case': where[i][0], 'action': where[i][1], 'line': l, 'diff': diff,
                      'protocol_prefix': lines[base:i + 1][-40:],
                      'stream': 'real Pool vs EdbVerif.Pool.step (Driver/C15.lean)'}, no_input=True)
    # ---- failing-input search after a correspondence break: the model no longer explains the
    # code, so look for a history on which the PROPERTY fails — scripted fault shapes (whole
    # capacity idle then new databases; discard + failing disconnect + queued waiter) and
    # fault-heavy small random schedules, each driven to quiescence by the fault-free fair phase.
    n_search = 0
    if n_dis and not ctx.replay:
        for j in range(ctx.budget(240, 2400)):
            seed_str = f'{ctx.pid}:{ctx.seed}:search:{j}'
            rr = _random.Random('cfg' + seed_str)
            cfg = gen_cfg(rr, (5, 11, 15, 0)[j % 4], ctx)
            if j % 4 == 3:
                cfg.p_discard = 0.3
                cfg.p_dfail = 0.4
                cfg.pall = False
            res, _t = one_schedule(seed_str, cfg, with_tie=False)
            n_search += 1
            absorb(f'search:{j}', cfg.as_dict(), res)
        ctx.log(f'failing-input search: {n_search} extra schedules')

    # ---- hangs.  Liveness oracle: AFTER THE LAST FAULT, under fair scheduling with succeeding
    # connects/disconnects and timers that keep firing, every queued request is served.  A hang
    # is attributed to the injected faults it depends on (attribute_hang), so a hang that needs a
    # fault is never filed under a fault-free class; the first of every class is shrunk.
    if which == 'C16':
        keyed = []
        mverdicts = {}
        for cd, res, label in stuck_runs:
            kinds = []
            if res['faults']:
                _tr, kinds, res2 = attribute_hang(cd, res['trace'])
                if kinds is None:
                    kinds = []         # not reproducible from the trace alone: keep the observed class
                else:
                    res = dict(res2, trace=res2['trace'])
            keyed.append((hang_key(res, kinds), cd, res, label, kinds))
        # a hang is filed under a KNOWN class only when the Lean model of the unchanged code
        # reproduces the same hang on the same history (model_verdicts); otherwise its key says so
        cand = [j for j, it in enumerate(keyed) if ctx._match_known(it[0]) is not None]
        verdicts = model_verdicts(ctx, [(keyed[j][1], keyed[j][2]['trace']) for j in cand]) if cand else []
        vmap = dict(zip(cand, verdicts))
        model_info = {}
        for j, (key, cd, res, label, kinds) in enumerate(keyed):
            v = vmap.get(j)
            # ('diverges' = the model disagrees but its simple continuation does not serve the requests
            # either: stays under the observed class, counted in the evidence; the disagreement itself is
            # reported by the correspondence stage)
            # only for the state-shape classes: `after-tick-raised` / `after-prune-inactive` / `after-connect-…`
            # hangs have their own cause, which the tick-free model continuation does not exercise
            if v is not None and v['verdict'] == 'serves' and not res['stuck_sig'].startswith('after-'):
                key = 'stuck:model-' + v['verdict'] + ';' + key[6:]
            mverdicts[(v or {}).get('verdict', 'not-asked')] = mverdicts.get((v or {}).get('verdict', 'not-asked'), 0) + 1
            sigs[key[6:]] = sigs.get(key[6:], 0) + 1
            if key not in first_stuck:
                first_stuck[key] = (cd, res, label, kinds)
                model_info[key] = v
        for key, (cd, res, label, kinds) in first_stuck.items():
            sig = res['stuck_sig']
            small = res['trace']
            if key.startswith('stuck:model-'):
                # keep the history the model was asked about; only drop the trailing idle timer firings
                t2 = list(small)
                while t2 and t2[-1].split()[0] in ('timer', 'run', 'adv'):
                    t2.pop()
                try:
                    x = run_trace(cd, t2, drain_seed=1, skip_invalid=True)
                    if x['stuck'] and x['stuck_sig'] == sig:
                        small = t2
                except Exception:
                    pass
            elif ctx._match_known(key) is None:
                small = shrink(cd, res['trace'],
                               lambda x: bool(x['stuck']) and x['stuck_sig'] == sig and
                               set(kinds) <= {k for _i, k in x['faults']},
                               drain_seed=1, max_tests=ctx.budget(250, 1500))
            full = run_trace(cd, small, drain_seed=1, skip_invalid=True)
            last_fault = max((i for i, _k in full['faults']), default=None)
            ctx.fail(key,
                     f'requests {full["stuck"]} are never served although, after the last injected fault '
                     f'({"action %d: %s" % (last_fault, "+".join(kinds)) if kinds else "none in this history"}), '
                     f'every holder released, every connect/disconnect succeeded and the timers kept firing '
                     f'(class: {key[6:]}; fifo={cd.get("fifo")})' +
                     ('; the Lean model of the unchanged code does NOT show this hang on this history: it disagrees '
                      'with the pool at transition `%s`%s' % (
                          model_info[key].get('line'),
                          ' and then serves every one of these requests' if model_info[key]['verdict'] == 'serves' else '')
                      if key.startswith('stuck:model-') and model_info.get(key) else ''),
                     {'cfg': cd, 'trace': full['trace'], 'final': full['final'], 'case': label,
                      'faults_the_hang_depends_on': kinds, 'fault_actions': full['faults'],
                      'shrunk_prefix': len(small), 'seen_in_schedules': sigs[key[6:]],
                      'model_of_unchanged_code': model_info.get(key)})
        ctx.cov['hang_attribution_by_model'] = mverdicts

    if not proved:
        ctx.proof_broken_verdict()

    ctx.cov.update({
        'evaluations': len(cases),
        'distinct_nontrivial': len(distinct),
        'rule': 'one evaluation = one schedule of the real Pool on the deterministic loop (1-5 databases, max 1-6, '
                '<= 40 requests, connect failures incl. 3D000, disconnect failures, discards, prune_inactive, GC and '
                'ticks at random instants, 30% in strict FIFO (real asyncio) order, 4% with prune_all_connections), '
                'driven to quiescence under a fair scheduler; distinct = distinct action trace; non-trivial = at '
                'least 8 actions. After EVERY step the oracle is evaluated on the real pool + ghost backend.',
        'samples': samples,
        'steps_on_real_pool': nsteps,
        'action_histogram': hist,
        'model_transitions_compared': sum(1 for e in expect if e is not None),
        'model_transition_histogram': kinds,
        'disagreements_model_vs_impl': n_dis,
        'model_invariant_clause_violations': inv_viol,
        'requests': outcomes,
        'hang_classes': sigs,
        'failing_input_search_schedules': n_search,
        'oracle_keys_of_the_sibling_property_seen': others_seen,
        'exhaustive': bool(exh) and all(x['exhausted'] for x in exh),
        'exhaustive_scopes': exh,
        'correspondence': 'every executed handle / release call of the real Pool is mapped to a transition of '
                          'EdbVerif.Pool.step; float/clock-derived choices are passed as the environment; the '
                          'complete integer state (counters, per-block conns/stack/queue, block order, waitlist, '
                          'over-quota list, live tasks, waiters, holders) is compared after each transition',
    })
    ctx.assumptions += [
        'asyncio semantics: code between two awaits is atomic; the deterministic loop runs one ready handle per '
        'step in any order (a superset of real asyncio FIFO order; 30% of the schedules are strictly FIFO)',
        'cancellation of acquire() tasks is outside the explored fault model',
        'a failed disconnect ends the connection from the backend point of view',
    ]
    ctx.trusted_base += [
        'hand-written model EdbVerif/Model/Pool.lean of pool.py; tied by the step-level state comparison above',
        'harness/lib/detloop.py (deterministic event loop), harness/props/pool_common.py (fake backend, ghost '
        'state, oracle, classification of handles into model transitions)',
    ]


# =====================================================================
# Part 6 (thorough tier): exhaustive exploration of the deterministic loop for a small
# scope — DFS over every choice (which ready handle runs, when a request starts, when a
# holder releases, when the backend answers, when the clock jumps to / just before the next
# timer), states hashed to prune.  No faults, no discard, no pruning in this scope.
# =====================================================================

def _fingerprint(r: Runner) -> tuple:
    w = r.w
    pool = w.pool
    loop = w.loop
    now = loop.time()
    canon: Dict[int, int] = {}

    def cid(c):
        return canon.setdefault(id(c), len(canon))
    thr = max(pool._conntime_avg.avg(), pool_config.MIN_CONN_TIME_THRESHOLD)
    horizon = now - pool._gc_interval
    futs = {}
    for t in w.tasks.values():
        if not t.done():
            for c in coro_chain(t):
                if c.cr_code.co_name == 'try_acquire' and c.cr_frame is not None:
                    f = c.cr_frame.f_locals.get('waiter')
                    if f is not None and hasattr(t, '_req'):
                        futs[id(f)] = (t._req.id, f.done())
    blocks = []
    for n, b in pool._blocks.items():
        old = 0
        for c in b.conn_stack:
            if b.conns[c].in_stack_since > horizon:
                break
            old += 1
        ra = b.nwaiters_avg
        blocks.append((n, b.quota, b.pending_conns, b.conn_acquired_num, b.conn_waiters_num, b.suppressed,
                       b.connect_failures_num,
                       tuple((cid(c), st.in_use) for c, st in b.conns.items()),
                       tuple(cid(c) for c in b.conn_stack),
                       tuple(futs.get(id(f), ('?', f.done())) for f in b.conn_waiters),
                       tuple(ra._hist), min(ra._pos, ra._hist_size),
                       round(b.querytime_avg.avg(), 4), (now - b.last_connect_timestamp) < thr, old))
    tasks = []
    for n, t in w.tasks.items():
        if t.done():
            continue
        ch = coro_chain(t)
        names = tuple(c.cr_code.co_name for c in ch) or (w.task_kind[n],)
        loc = ch[0].cr_frame.f_locals if ch else {}
        extra = []
        for k in ('block', 'from_block', 'to_block'):
            if k in loc:
                extra.append(loc[k].dbname)
        for k in ('conn', 'from_conn'):
            if k in loc and loc[k] is not None:
                extra.append(cid(loc[k]))
        if hasattr(t, '_req'):
            extra.append(('req', t._req.id))
        tasks.append((names, coro_created(t), tuple(extra)))
    ready = []
    for h in loop.ready_handles():
        t = loop.handle_task(h)
        ready.append((loop.handle_name(h), getattr(t, '_req', None).id if t is not None and hasattr(t, '_req')
                      else (w.task_kind.get(getattr(t, '_det_id', -1)) if t is not None else None),
                      tuple(sorted(str(x) for x in ())),))
    timers = tuple((getattr(t._callback, '__name__', '?'), t._when <= now) for t in loop.pending_timers())
    cbs = tuple(sorted([('c', cb['db'], cb['resolved']) for cb in w.conn_cbs] +
                       [('d', cid(cb['conn']), cb['resolved'], cb['kind']) for cb in w.disc_cbs], key=repr))
    reqs = tuple((q.state, cid(q.conn) if q.conn is not None else None) for q in w.reqs)
    return (pool._cur_capacity, pool._is_starving, pool._nacquires, pool._htick is not None, pool._gc_requests,
            tuple(b.dbname for b in pool._new_blocks_waitlist), tuple(b.dbname for b in pool._blocks_over_quota),
            tuple(blocks), tuple(sorted(tasks, key=repr)), tuple(sorted(ready, key=repr)), timers, cbs, reqs,
            round(pool._conntime_avg.avg(), 4))


def _enabled(r: Runner, assign) -> List[str]:
    w = r.w
    acts = []
    hs = w.loop.ready_handles()
    acts += [f'run {i}' for i in range(len(hs))]
    if len(w.reqs) < len(assign):
        acts.append(f'acq {assign[len(w.reqs)]}')
    acts += [f'rel {q.id} 0' for q in w.reqs if q.state == 'holding']
    acts += [f'cdone {i} ok' for i, cb in enumerate(cb for cb in w.conn_cbs if cb['resolved'] is None)]
    acts += [f'ddone {i} ok' for i, cb in enumerate(cb for cb in w.disc_cbs if cb['resolved'] is None)]
    ts = w.loop.pending_timers()
    if ts and not hs:
        acts.append('timer')
        if ts[0]._when > w.loop.time():
            acts.append('adv 1000000')      # "... happens just before the next timer"
    return acts


def explore_scope(max_cap: int, assign, node_budget: int, depth_cap: int = 90):
    """DFS with state hashing.  Returns stats + the graph needed to find doomed states."""
    cfg = Cfg(_random.Random(0), small=True, allow_dfail=False)
    cfg.max = max_cap
    cfg.ndb = 2
    cfg.nreq = len(assign)
    cfg.gc = 120.0
    cfg.p_prune = cfg.p_cfail = cfg.p_3d = cfg.p_dfail = cfg.p_discard = 0.0
    cfg.fifo = False
    cfg.pall = False
    cfg.shape = None
    cd = cfg.as_dict()
    global STEP_TIMEOUT
    saved_timeout = STEP_TIMEOUT
    STEP_TIMEOUT = 20.0          # long GC pauses of this process must not look like a hung section
    seen: Dict[tuple, int] = {}
    parent_of: List[int] = []
    act_of: List[Optional[str]] = []
    edges: List[List[int]] = []
    ok_state: List[bool] = []
    problems = []

    def prefix(i: int) -> List[str]:
        out = []
        while i >= 0 and act_of[i] is not None:
            out.append(act_of[i])
            i = parent_of[i]
        out.reverse()
        return out
    stack: List[tuple] = [(-1, None)]
    schedules = 0            # maximal explored paths (leaves: repeated state / terminal / cut)
    cut = False
    try:
        while stack:
            parent, act = stack.pop()
            pre = prefix(parent) if parent >= 0 else []
            r = Runner(Cfg.from_dict(dict(cd)))
            r.quiet = True
            try:
                for a in pre:
                    r.apply(a)
                r.quiet = False
                if act is not None:
                    r.apply(act)
                if r.dead:
                    continue
                fp = _fingerprint(r)
                if fp in seen:
                    if parent >= 0:
                        edges[parent].append(seen[fp])
                    schedules += 1
                    continue
                idx = len(parent_of)
                seen[fp] = idx
                parent_of.append(parent)
                act_of.append(act)
                edges.append([])
                if parent >= 0:
                    edges[parent].append(idx)
                for pk, what, _st in r.w.problems:
                    problems.append((pk, what, pre + ([act] if act else [])))
                done = len(r.w.reqs) == len(assign) and all(q.state in ('released', 'failed') for q in r.w.reqs)
                ok_state.append(done)
                if done:
                    schedules += 1
                    continue
                if len(seen) >= node_budget or len(pre) + 1 >= depth_cap:
                    cut = True
                    schedules += 1
                    continue
                acts = _enabled(r, assign)
                if not acts:
                    schedules += 1
                    continue
                for a in reversed(acts):
                    stack.append((idx, a))
            finally:
                r.w.close()
    finally:
        STEP_TIMEOUT = saved_timeout
    prefix_of = None
    # doomed = cannot reach a state in which every request was served
    n = len(parent_of)
    rev = [[] for _ in range(n)]
    for a, outs in enumerate(edges):
        for b in outs:
            rev[b].append(a)
    good = [False] * n
    work = [i for i in range(n) if ok_state[i]]
    for i in work:
        good[i] = True
    while work:
        x = work.pop()
        for y in rev[x]:
            if not good[y]:
                good[y] = True
                work.append(y)
    doomed = [i for i in range(n) if not good[i]] if not cut else []
    return {'cfg': cd, 'assign': list(assign), 'max': max_cap, 'states': n, 'schedules': schedules,
            'edges': sum(len(e) for e in edges), 'exhausted': not cut, 'doomed': len(doomed),
            'doomed_prefix': min((prefix(i) for i in doomed), key=len) if doomed else None,
            'problems': problems}


def exhaustive(ctx, which: str, node_budget_total: int):
    scopes = [(m, a) for m in (1, 2) for a in (
        ('d0',), ('d0', 'd0'), ('d0', 'd1'), ('d0', 'd0', 'd0'), ('d0', 'd0', 'd1'), ('d0', 'd1', 'd0'),
        ('d0', 'd1', 'd1'))]
    out = []
    mine = C15_KEYS if which == 'C15' else C16_KEYS
    for m, a in scopes:
        t0 = time.time()
        # 1-2 requests: exhausted (largest scope ~50 000 states); 3 requests: capped
        st = explore_scope(m, a, node_budget_total if len(a) <= 2 else node_budget_total // 3)
        st['wall_s'] = round(time.time() - t0, 1)
        for pk, what, prefix in st['problems']:
            k2 = KEY_RENAME.get(pk, pk)
            if pk in mine or (pk.startswith('task-exception:') and which == 'C16'):
                ctx.fail(k2, what + ' [exhaustive scope]', {'cfg': st['cfg'], 'trace': prefix, 'case': f'exh:{m}:{a}'})
        if which == 'C16' and st['doomed']:
            full = run_trace(st['cfg'], st['doomed_prefix'], drain_seed=1, skip_invalid=True)
            if full['stuck']:
                ctx.fail('stuck:' + full['stuck_sig'],
                         f'exhaustive scope max={m} requests={list(a)}: {st["doomed"]} reachable states from which NO '
                         f'schedule serves every request (shortest witness attached)',
                         {'cfg': st['cfg'], 'trace': full['trace'], 'final': full['final'], 'case': f'exh:{m}:{a}'})
        st.pop('problems')
        st.pop('cfg')
        out.append(st)
        ctx.log(f'exhaustive max={m} reqs={list(a)}: {st["states"]} states, {st["schedules"]} schedules, '
                f'exhausted={st["exhausted"]}, doomed={st["doomed"]} ({st["wall_s"]}s)')
    return out
