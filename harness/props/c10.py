"""C10 — step-by-step migration equals direct migration.

Proof: lean/EdbVerif/Props/C10.lean (induction over chains from C02_apply_diff,
  same model Model/Schema.lean; the planner tie is the level-1 run of C02 and is
  repeated here on a smaller sample so that C10 stands on its own).

Tie / oracle (level 2, real engine through the bridge): chains S1 … Sn of SDL
  schemas (a generated schema and successive mutations of it: renames,
  re-parenting, re-typing, moves between modules, drops …) are applied step by
  step with START MIGRATION TO / POPULATE / COMMIT; after every step the schema
  must equal the target of that step loaded directly (apply_sdl, no diff engine)
  and the result of the direct migration ∅ → Si; a final migration to the empty
  schema must leave no user object.  This is upstream's
  ``_assert_migration_equivalence`` on generated chains.
"""
from __future__ import annotations

import json
import time

from lib import core
from props import c02

PROPS = 'EdbVerif/Props/C10.lean'
REQUIRED = [
    'EdbVerif.C10.C10_chain', 'EdbVerif.C10.C10_chain_from', 'EdbVerif.C10.C10_path_independent',
    'EdbVerif.C10.C10_confluence', 'EdbVerif.C10.C10_to_empty',
]


def gen_chain(rng, sc, length):
    """[(sdl, tags)]: S1 generated, S(i+1) = mutate(Si).  A third of the chains start from a schema with the
    shared-pointer shape (same-named pointer from several unrelated parents) and apply the one-parent-only
    mutations in LATER steps (create in step i, drop from one parent in step j > i)."""
    shared = rng.random() < 0.34
    if shared:
        spec = sc.gen_spec(rng, rng.choice([1, 2, 3]), features=set(sc.DEFAULT_FEATURES) | {'shared_ptrs'})
    else:
        spec = sc.gen_spec(rng, rng.choice([2, 3, 4, 5]))
    chain = [(sc.render(spec), ['initial'])]
    for _ in range(length - 1):
        if shared and rng.random() < 0.6 and sc.shared_sites(spec):
            spec, tags = sc.mutate(rng, spec, 1, kinds=list(sc.SHARED_MUTATIONS))
            chain.append((sc.render(spec), list(tags)))
            continue
        if rng.random() < 0.15:
            # pin / unpin an inheritable facet of an overloaded pointer, or change the parent's facet (next-step combos)
            nspec, tags = sc.mutate(rng, spec, 1, kinds=list(sc.PIN_MUTATIONS))
            if tags:
                spec = nspec
                chain.append((sc.render(spec), list(tags)))
                continue
        if rng.random() < 0.2:
            # cross-module renames / re-parenting of a type that owns an overload away from the providing base
            nspec, tags = sc.mutate(rng, spec, 1, kinds=rng.choice(
                [['move_type', 'rename_module', 'move_other'], ['reparent_overload_away']]))
            if tags:
                spec = nspec
                chain.append((sc.render(spec), list(tags)))
                continue
        if rng.random() < 0.08:
            spec, tags = sc.gen_spec(rng, rng.choice([2, 3])), ['unrelated']
        else:
            spec, tags = sc.mutate(rng, spec, rng.choice([1, 1, 2, 3]))
        chain.append((sc.render(spec), list(tags)))
    return chain


def gen_rebase_chain(rng, length):
    """chain of rebases of one type over plain mixin types: each step starts from the previous base list"""
    old, new, tag = c02.gen_rebase_case(rng)
    chain = [(c02._rebase_sdl(old), ['initial']), (c02._rebase_sdl(new), [tag])]
    cur = new
    for _ in range(length - 2):
        for _try in range(20):
            o2, n2, tag = c02.gen_rebase_case(rng)
            # transplant the step's shape onto the current list: same length of `old` required
            if len(o2) == len(cur):
                ren = dict(zip(o2, cur))
                free = [m for m in c02.MIXINS if m not in cur]
                for m in n2:
                    if m not in ren:
                        ren[m] = free.pop(0) if free else None
                if None in ren.values():
                    continue
                nxt = [ren[m] for m in n2]
                chain.append((c02._rebase_sdl(nxt), [tag + ' (transplanted)']))
                cur = nxt
                break
    return chain


def check_chain(ctx: core.Ctx, eng: c02.Engine, chain, stream='chains', fixed_key=None, probe=False) -> dict:
    """chain = [(sdl, tags)].  Returns a coverage record.  `fixed_key`: report failures under that key (corpus)."""
    sc = eng.sc
    empty_sdl = sc.render(sc.empty_spec())
    base, base_dump, eb = eng.load(empty_sdl)
    if eb is not None:
        raise core.Infra(f'cannot load the empty schema: {eb!r}')
    cur = base
    rec = {'steps_ok': 0, 'outcome': 'ok', 'len': len(chain), 'causes': []}
    sdls = [c[0] for c in chain]
    for i, (sdl, tags) in enumerate(chain):
        tgt, _, et = eng.load(sdl)
        if et is not None:
            rec['outcome'] = f'load-rejected:{c02.err_class(et)}'
            return rec
        nxt, em = eng.migrate(cur, sdl)
        if em is not None:
            rec['outcome'] = f'step-rejected:{c02.err_class(em)}'     # not accepted: outside the property
            return rec
        detail = {'chain': sdls[:i + 1], 'step': i + 1, 'mutations': tags, 'stream': stream}
        key_in = c02.h8(*sdls[:i + 1])
        diffs, dg = c02.compare_full(eng, nxt, sdl)
        if diffs:
            script = sc.migration_script(nxt)
            rec['causes'] = c02.report(
                ctx, eng, 'chain', f'after step {i + 1} of a chain of accepted migrations the schema differs from S{i + 1}',
                detail | {'ddl': script}, key_in, a=cur, dump_a=None, sdl_b=sdl, got=nxt, dump_got=dg, script=script,
                lines=diffs, fixed_key=fixed_key)
            rec['outcome'] = 'FAIL-step'
            return rec
        if probe:
            pl = c02.probe_compare(eng, nxt, tgt)
            if pl:
                ctx.fail(fixed_key or f'l2-probe:unclassified:{c02.h8(*pl)}:{key_in}',
                         f'after step {i + 1} the schema equals S{i + 1} field by field but a follow-up ALTER of a parent '
                         f'pointer propagates differently on it than on S{i + 1}', detail | {'differences': pl})
                rec['outcome'] = 'FAIL-probe'
                return rec
        # direct migration ∅ -> Si (the chain result equals Si, so the direct result must equal Si too)
        direct, ed = eng.migrate(base, sdl)
        if ed is not None:
            ctx.notes.append(f'direct migration from empty rejected ({c02.err_class(ed)}) where the chain was accepted')
            rec['direct_rejected'] = rec.get('direct_rejected', 0) + 1
        else:
            dd, dgd = c02.compare_full(eng, direct, sdl, full=False)
            if dd:
                script = sc.migration_script(direct)
                rec['causes'] = c02.report(
                    ctx, eng, 'direct', f'the direct migration from the empty schema to S{i + 1} differs from the '
                    f'chain result (= S{i + 1})', detail | {'ddl': script}, key_in, a=base, dump_a=base_dump, sdl_b=sdl,
                    got=direct, dump_got=dgd, script=script, lines=dd, fixed_key=fixed_key)
                rec['outcome'] = 'FAIL-direct'
                return rec
        cur = nxt
        rec['steps_ok'] += 1
    # final migration to the empty schema
    end, ee = eng.migrate(cur, empty_sdl)
    if ee is not None:
        rec['outcome'] = f'to-empty-rejected:{c02.err_class(ee)}'
        return rec
    left = sc.user_objects(end)
    dd = sc.dump_diff(sc.dump(end), base_dump)
    if left or dd:
        ctx.fail(fixed_key or f'l2-empty:unclassified:{c02.first_sig(dd) if dd else "objects-left"}:{c02.h8(*sdls)}',
                 'migrating to the empty schema leaves user objects behind',
                 {'chain': sdls, 'step': 'to-empty', 'left': left[:20], 'differences': dd[:25], 'stream': stream})
        rec['outcome'] = 'FAIL-empty'
    return rec


def run_corpus(ctx: core.Ctx, eng: c02.Engine) -> dict:
    """minimal chains reproducing engine defects found earlier, replayed under fixed keys"""
    import os
    path = os.path.join(core.VERIF, 'corpus', 'C10', 'findings.json')
    res = {}
    if os.path.exists(path):
        cases = json.load(open(path))['cases']
        if ctx.quick():
            # quick: a third of the witness chains per run, rotating with the seed (C02 replays every witness as a
            # pair on every run; thorough replays all chains)
            cases = [c for i, c in enumerate(cases) if i % 3 == ctx.seed % 3]
        for case in cases:
            rec = check_chain(ctx, eng, [(s, []) for s in case['chain']], stream='corpus', fixed_key=case['key'])
            res[case['key']] = rec['outcome'] + (' -> ' + ','.join(rec['causes']) if rec.get('causes') else '')
        ctx.log('corpus:', res)
    return res


def run_chains(ctx: core.Ctx, eng: c02.Engine, n_chains: int, deadline_s: float | None = None):
    """corpus witnesses and rebase chains ALWAYS run in full; only the number of random chains is reduced by the
    wall-clock guard (never below the minimum): a slow machine covers a prefix of the same chain sequence"""
    sc = eng.sc
    t0 = time.time()
    recs = []
    for group, ch in c02.regression_chains_for(ctx):        # deterministic witness shapes, always first
        recs.append(check_chain(ctx, eng, [(s, [group + '-chain']) for s in ch], stream=group + '-chains',
                                probe=(group == 'pinning')))
    for _ in range(ctx.budget(2, 60)):
        recs.append(check_chain(ctx, eng, gen_rebase_chain(ctx.rng, ctx.rng.choice([3, 4])), stream='rebase-chains'))
    corpus = run_corpus(ctx, eng)
    deadline = time.time() + (deadline_s if deadline_s is not None else ctx.budget(70, 1500))
    for i in range(n_chains):
        if time.time() > deadline and i >= ctx.budget(4, 60):
            ctx.notes.append(f'stopped after {i} of {n_chains} random chains (time budget)')
            break
        length = ctx.rng.choice([2, 3, 4, 5]) if ctx.quick() else ctx.rng.choice([3, 4, 5, 6, 8])
        recs.append(check_chain(ctx, eng, gen_chain(ctx.rng, sc, length)))
    ctx.log(f'{len(recs)} chains in {time.time() - t0:.1f}s; engine time '
            f'{dict((k, round(v, 1)) for k, v in eng.t.items())}')
    return recs, corpus


def run(ctx: core.Ctx):
    proved = ctx.proof_stage(PROPS, ['EdbVerif.Props.C10', 'Driver.C02'], required=REQUIRED)
    ctx.log('proof stage:', 'ok' if proved else ctx.proof['broken'])

    import shim  # noqa: F401
    from props import c02_level1 as l1

    r1 = {'n': 0, 'distinct_nontrivial': 0, 'samples': []}
    recs = []
    corpus = {}
    eng = c02.Engine()
    sc = eng.sc
    if ctx.replay:
        rp = json.load(open(ctx.replay))
        for f in rp['failures']:
            d = f.get('detail')
            if isinstance(d, dict) and 'chain' in d:
                recs.append(check_chain(ctx, eng, [(s, []) for s in d['chain']], stream='replay'))
                ctx.log('replayed chain:', recs[-1])
            elif isinstance(d, dict) and 'case' in d:
                r1 = c02.run_level1(ctx, [c02._unjson(d['case'])])
    else:
        r1 = c02.run_level1(ctx, [l1.gen_case(ctx.rng) for _ in range(ctx.budget(100, 5000))])
        recs, corpus = run_chains(ctx, eng, ctx.budget(10, 300))

    if not proved:
        ctx.proof_broken_verdict()

    outcomes: dict = {}
    for r in recs:
        outcomes[r['outcome']] = outcomes.get(r['outcome'], 0) + 1
    steps = sum(r['steps_ok'] for r in recs)
    ctx.log(f'chain outcomes {outcomes}; accepted+verified steps {steps}')
    ctx.cov.update({
        'evaluations': len(recs) + r1['n'],
        'distinct_nontrivial': sum(1 for r in recs if r['steps_ok'] >= 2) + r1['distinct_nontrivial'],
        'rule': 'chains of 2-8 SDL schemas (generated schema, then 1-3 mutations per step; occasionally an unrelated '
                'schema), each followed by a migration to the empty schema; non-trivial = at least 2 accepted and '
                'verified steps.  Plus level-1 similarity matrices for the planner tie (see C02)',
        'samples': [json.dumps(r) for r in recs[:3]] + r1['samples'][:1],
        'chain_outcomes': outcomes, 'verified_steps': steps, 'corpus': corpus,
        'chain_lengths': {str(k): sum(1 for r in recs if r['len'] == k) for k in sorted({r['len'] for r in recs})},
        'level1': {k: v for k, v in r1.items() if k != 'samples'},
        'disagreements_model_vs_impl': r1.get('disagreements', 0),
        'engine_seconds': {k: round(v, 1) for k, v in eng.t.items()},
        'exhaustive': False,
        'correspondence': 'real START MIGRATION/POPULATE/COMMIT path (apply_sdl, delta_schemas, ddlast_from_delta, '
                          'CREATE MIGRATION apply) through the bridge, step by step vs direct; planner tie as in C02',
    })
    ctx.assumptions += [
        'the property is about chains whose every step is ACCEPTED; a rejected step ends the chain (counted in '
        'chain_outcomes) and is not a violation',
        '"empty" means: no user object except Module default (apply_sdl always keeps it) and the Migration history',
    ]
    ctx.trusted_base += [
        'hand-written model EdbVerif/Model/Schema.lean (planner tied at level 1; apply/diff/migrate an abstraction, see C02)',
        'front-end bridge; harness/props/schema_common.py generator and dump; harness/props/c02.py helpers',
    ]
